(* FastSlowModel — where the table-driven fast path and the reflection path differ (C08).
   Definitions only.

   Everything else of the two paths is one function of the abstract message in the models of
   C03/C04 (Msg/MsgEnc.v, Msg/MsgDec.v with its [slow] flag), C05 and C30; this file models the
   two places where the ALGORITHMS differ:

   1. emission order.
      fast  internal/impl/encode.go: appendExtensions (sort.Ints over the numbers of the extension
            map) and then mi.orderedCoderFields, which codec_message.go sorts by field number and,
            "if mi.Desc.Oneofs().Len() > 0", again with order.LegacyFieldOrder; unpopulated fields
            are skipped, so what is emitted is the populated fields in that order
      slow  proto/encode.go marshalMessageSlow (Deterministic): order.RangeFields collects
            m.Range (any order) and sort.Slice's it with order.LegacyFieldOrder
      [msg_legacy_key] (Msg/MsgSchema.v) realises LegacyFieldOrder as a key.
   2. unknown-field retention.
      fast  internal/impl/decode.go re-encodes the tag: protowire.AppendTag(out, num, wtyp) ++ value bytes
      slow  proto/decode.go keeps the input bytes of the field: b[:tagLen+valLen]
      [fsm_normalize_unknown_tags] re-encodes every top-level tag of an unknown-field section
      minimally; [fsm_normalize] does so in a whole message value.

   API
     fsm_order_fast has_oneofs rx present    emission order of the fast path ([rx]: iteration order
                                             of the extension map, any permutation)
     fsm_order_slow r present                emission order of the reflection path ([r]: Range order)
     fsm_encode_with order enc               bytes emitted for a per-field encoder [enc]
     fsm_normalize_unknown_tags, fsm_normalize
     fsm_chunk, fsm_flat_raw, fsm_flat_min   a field sequence with arbitrary (raw) tag encodings and
                                             its rendering with the raw / the minimal tags *)
From Coq Require Import List NArith ZArith Bool.
From PB Require Import Base.PBytes Wire.WireModel Msg.MsgSchema Msg.MsgValue Msg.DetModel.
Import ListNotations.
Open Scope N_scope.

(* ---------- emission order ---------- *)
Definition fsm_lt_num (a b : fdesc) : bool := f_num a <? f_num b.
Definition fsm_lt_legacy (a b : fdesc) : bool := msg_legacy_key a <? msg_legacy_key b.

Definition fsm_is_regular (fd : fdesc) : bool := negb (f_ext fd).

(* "mi.Desc.Oneofs().Len() > 0" counts synthetic oneofs too; they do not change
   LegacyFieldOrder, so either reading gives the same list (see Msg/FastSlowP.v) *)
Definition fsm_has_oneofs (md : mdesc) : bool :=
  existsb (fun fd => match f_oneof fd with Some _ => true | None => false end) md.

Definition fsm_order_fast (has_oneofs : bool) (rx : list fdesc -> list fdesc) (present : list fdesc) : list fdesc :=
  det_sort fsm_lt_num (rx (filter f_ext present)) ++
  (if has_oneofs then det_sort fsm_lt_legacy (filter fsm_is_regular present)
   else det_sort fsm_lt_num (filter fsm_is_regular present)).

Definition fsm_order_slow (r : list fdesc -> list fdesc) (present : list fdesc) : list fdesc :=
  det_sort fsm_lt_legacy (r present).

Definition fsm_encode_with (order : list fdesc) (enc : fdesc -> list byte) : list byte :=
  concat (map enc order).

(* ---------- unknown-field tags ---------- *)
Fixpoint fsm_norm (g bs : list byte) : list byte :=
  match g with
  | [] => bs
  | _ :: g' =>
    match bs with
    | [] => []
    | _ =>
      match dec_tag bs with
      | Err _ => bs
      | Ok (num, typ, r) =>
        match parse_val default_dep num typ r with
        | Err _ => bs
        | Ok (_, r') => enc_tag num typ ++ firstn (length r - length r') r ++ fsm_norm g' r'
        end
      end
    end
  end.

Definition fsm_normalize_unknown_tags (u : list byte) : list byte := fsm_norm (x00 :: u) u.

Fixpoint fsm_normalize (v : value) : value :=
  match v with
  | VS s => VS s
  | VEntry k x => VEntry k (fsm_normalize x)
  | VMsg fs u => VMsg (map (fun p => (fst p, map fsm_normalize (snd p))) fs) (fsm_normalize_unknown_tags u)
  end.

(* a field with some encoding of its tag *)
Record fsm_chunk := mkChunk { fc_num : N; fc_typ : N; fc_rawtag : list byte; fc_val : list byte }.
Definition fsm_flat_raw (cs : list fsm_chunk) : list byte :=
  concat (map (fun c => fc_rawtag c ++ fc_val c) cs).
Definition fsm_flat_min (cs : list fsm_chunk) : list byte :=
  concat (map (fun c => enc_tag (fc_num c) (fc_typ c) ++ fc_val c) cs).
