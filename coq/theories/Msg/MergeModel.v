(* MergeModel — proto.Merge / proto.Clone on canonical message values (C07).  Definitions only.

   One value-level algorithm models both implementations, which agree on canonical values:
     proto/merge.go mergeOptions.mergeMessage      (reflection: Range over src, Set / Mutable on dst)
     internal/impl/merge.go MessageInfo.mergePointer + merge_gen.go + codec_field.go (table-driven)

   For every field populated in the source [b], in the order of the source:
     - map field: every entry of b is upserted into a's map, the whole entry is replaced (message
       values are NOT merged: mergeMap / mergeMap of codec_map.go create a new value);
     - list field: b's elements are appended (message elements are copies);
     - singular scalar (explicit presence, required, oneof member): b's value overwrites;
       implicit presence: b's value overwrites when it is not the zero value (the NoZero coders;
       a float/double is tested by its bits, so -0.0 IS copied -- finding F14, repaired);
     - singular message / group: merged recursively into a's value when a has that field (for a
       oneof: when the same member is active), otherwise into a new empty message; setting a oneof
       member clears the other members of the oneof (wrapper replacement);
     - unknown bytes of b are appended to those of a.

   API
     msg_merge S tid a b : value        proto.Merge(a, b) for messages of type tid of schema table S
     msg_clone S tid m                  proto.Clone(m)  (= Merge(new, m))
     msg_merge_one, msg_merge_entries   one field / the entries of one map field *)
From Coq Require Import List NArith ZArith Bool.
From PB Require Import Base.PBytes Wire.WireModel Msg.MsgSchema Msg.MsgValue Msg.MsgDec.
Import ListNotations.
Open Scope N_scope.

Definition msg_merge_entries (es bvs : list value) : list value :=
  fold_left (fun acc e => match e with VEntry k v => msg_map_put acc k v | _ => acc end) bvs es.

Section MergeField.
  Variable mrg : nat -> value -> value -> value.   (* merge of sub-messages *)
  Variable md : mdesc.

  Definition msg_merge_one (accf : fields) (p : N * list value) : fields :=
    match msg_find_field md (fst p) with
    | None => accf
    | Some fd =>
      match f_card fd with
      | CMap _ _ _ =>
        match snd p with
        | [] => accf
        | _ => msg_fset accf (f_num fd) (msg_merge_entries (msg_fget accf (f_num fd)) (snd p))
        end
      | CRep | CPacked => msg_append_field fd (snd p) accf
      | c =>
        match snd p with
        | [] => accf
        | v :: _ =>
          match f_kind fd, v with
          | KMsg tid, VMsg _ _ | KGrp tid, VMsg _ _ =>
            let old := match msg_fget accf (f_num fd) with o :: _ => o | [] => msg_empty end in
            msg_set_field md fd (mrg tid old v) accf
          | _, VS s =>
            match c with
            | CImp => if msg_scalar_is_zero s then accf else msg_set_field md fd v accf
            | _ => msg_set_field md fd v accf
            end
          | _, _ => accf
          end
        end
      end
    end.
End MergeField.

Fixpoint msg_merge (S : schema) (tid : nat) (a b : value) {struct b} : value :=
  match b with
  | VMsg bfs bu =>
    match a with
    | VMsg afs au =>
      VMsg (fold_left (fun acc p => msg_merge_one (msg_merge S) (nth tid S []) acc p) bfs afs) (au ++ bu)
    | _ => a
    end
  | _ => a
  end.

Definition msg_clone (S : schema) (tid : nat) (m : value) : value := msg_merge S tid msg_empty m.
