(* MergeModel — proto.Merge / proto.Clone on canonical message values (C07).  Definitions only.

   One value-level algorithm models both implementations, which agree on canonical values:
     proto/merge.go mergeOptions.mergeMessage      (reflection: Range over src, Set / Mutable on dst)
     internal/impl/merge.go MessageInfo.mergePointer + merge_gen.go + codec_field.go (table-driven)

   For every field populated in the source [b], in the order of the source:
     - map field: every entry of b is upserted into a's map, the whole entry is replaced (message
       values are NOT merged: mergeMap / mergeMap of codec_map.go create a new value);
     - list field: b's elements are appended (message elements are copies);
     - singular scalar (explicit presence, required, oneof member): b's value overwrites;
       implicit presence: b's value overwrites when it is not the zero value (the NoZero coders;
       a float/double is tested by its bits, so -0.0 IS copied -- finding F14, repaired);
     - singular message / group: merged recursively into a's value when a has that field (for a
       oneof: when the same member is active), otherwise into a new empty message; setting a oneof
       member clears the other members of the oneof (wrapper replacement);
     - unknown bytes of b are appended to those of a.

   The fields of the source are visited in the order of the encoder (order.LegacyFieldOrder, which
   is the order of orderedCoderFields that mergePointer iterates; the reflection path ranges in an
   unspecified order -- the result does not depend on it for canonical values).  The recursion
   through singular sub-messages is indexed by the same depth as the decoder's ([dep] levels of
   nesting); [None] = out of depth, excluded by the typing hypothesis of the theorems.

   API
     msg_merge S limit tid a b : option value   proto.Merge(a, b) for messages of type tid of schema table S
     msg_clone S limit tid m                    proto.Clone(m)  (= Merge(new, m))
     msg_merge_one, msg_merge_entries           one field / the entries of one map field
     msg_field_order md fs                      the fields of a value in encoder order *)
From Coq Require Import List NArith ZArith Bool.
From PB Require Import Base.PBytes Wire.WireModel Msg.MsgSchema Msg.MsgValue Msg.MsgEnc Msg.MsgDec.
Import ListNotations.
Open Scope N_scope.

Definition msg_field_key (md : mdesc) (p : N * list value) : N :=
  match msg_find_field md (fst p) with Some fd => msg_legacy_key fd | None => 0 end.
Definition msg_field_order (md : mdesc) (fs : fields) : fields :=
  map snd (msg_chunk_sort (map (fun p => (msg_field_key md p, p)) fs)).

Definition msg_merge_entries (es bvs : list value) : list value :=
  fold_left (fun acc e => match e with VEntry k v => msg_map_put acc k v | _ => acc end) bvs es.

(* the value a singular sub-message of the source is merged into *)
Definition msg_old_value (accf : fields) (num : N) : value :=
  match msg_fget accf num with VMsg ofs ou :: _ => VMsg ofs ou | _ => msg_empty end.

Section MergeField.
  Variable mrg : nat -> value -> value -> option value.   (* merge of sub-messages *)
  Variable md : mdesc.

  Definition msg_merge_one (accf : fields) (p : N * list value) : option fields :=
    match msg_find_field md (fst p) with
    | None => Some accf
    | Some fd =>
      match f_card fd with
      | CMap _ _ _ =>
        Some (match snd p with
              | [] => accf
              | _ => msg_fset accf (f_num fd) (msg_merge_entries (msg_fget accf (f_num fd)) (snd p))
              end)
      | CRep | CPacked => Some (msg_append_field fd (snd p) accf)
      | c =>
        match snd p with
        | [] => Some accf
        | v :: _ =>
          match f_kind fd, v with
          | KMsg tid, VMsg _ _ | KGrp tid, VMsg _ _ =>
            match mrg tid (msg_old_value accf (f_num fd)) v with
            | Some m => Some (msg_set_field md fd m accf)
            | None => None
            end
          | _, VS s =>
            Some (match c with
                  | CImp => if msg_scalar_is_zero s then accf else msg_set_field md fd v accf
                  | _ => msg_set_field md fd v accf
                  end)
          | _, _ => Some accf
          end
        end
      end
    end.

  Definition msg_merge_fields (accf : fields) (ps : fields) : option fields :=
    fold_left (fun acc p => match acc with Some fs => msg_merge_one fs p | None => None end) ps (Some accf).
End MergeField.

Fixpoint msg_merge_d (S : schema) (dep : nat) {struct dep} : nat -> value -> value -> option value :=
  match dep with
  | O => fun _ _ _ => None
  | Datatypes.S d => fun tid a b =>
    match a, b with
    | VMsg afs au, VMsg bfs bu =>
      match msg_merge_fields (msg_merge_d S d) (nth tid S []) afs (msg_field_order (nth tid S []) bfs) with
      | Some fs => Some (VMsg fs (au ++ bu))
      | None => None
      end
    | _, _ => Some a
    end
  end.

Definition msg_merge (S : schema) (limit : nat) (tid : nat) (a b : value) : option value := msg_merge_d S limit tid a b.
Definition msg_clone (S : schema) (limit : nat) (tid : nat) (m : value) : option value := msg_merge_d S limit tid msg_empty m.
