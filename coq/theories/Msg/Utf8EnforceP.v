(* Proofs about Msg/Utf8EnforceModel.v (property C13). *)
From Coq Require Import List NArith Bool Lia.
Require Import PB.Base.PBytes PB.Base.Utf8Valid PB.Base.Utf8ValidP PB.Msg.Utf8EnforceModel.
Import ListNotations.

Lemma valid_false_iff bs : utf8_valid bs = false <-> ~ is_utf8 bs.
Proof.
  rewrite <- utf8_valid_spec. destruct (utf8_valid bs); split; intros; try congruence; tauto.
Qed.

(* a string position whose consulted enforcement bit is set rejects every ill-formed string, in every codec *)
Lemma enforced_positions_reject c p e bs :
  consulted c p e = true -> ~ is_utf8 bs -> verdict_of c KString p e bs = Reject.
Proof.
  intros C H. apply valid_false_iff in H.
  unfold verdict_of. destruct c; unfold reject_if; rewrite ?utf8_valid_dec_eq, ?C, H; reflexivity.
Qed.

(* well-formed UTF-8 is accepted unchanged by every codec in every position, string or bytes *)
Lemma valid_accepted c k p e bs :
  is_utf8 bs -> verdict_of c k p e bs = Accept bs.
Proof.
  intros H. apply utf8_valid_spec in H.
  unfold verdict_of. destruct k, c; unfold reject_if; rewrite ?utf8_valid_dec_eq, ?H, ?andb_false_r; reflexivity.
Qed.

(* exactness for the codecs that consult the enforcement bit *)
Lemma string_verdict_exact c p e bs :
  passthrough_codec c = true ->
  (verdict_of c KString p e bs = Reject <-> consulted c p e = true /\ ~ is_utf8 bs) /\
  (verdict_of c KString p e bs <> Reject -> verdict_of c KString p e bs = Accept bs).
Proof.
  intros P. rewrite <- valid_false_iff.
  destruct c; try discriminate; unfold verdict_of, reject_if;
    destruct (consulted _ p e), (utf8_valid bs); cbn; (split; [split; [intros; try discriminate; auto | intros [? ?]; congruence] | tauto]).
Qed.

(* non-validated string fields: arbitrary bytes pass through binary and text codecs unchanged *)
Lemma nonenforced_passthrough c p e bs :
  passthrough_codec c = true -> consulted c p e = false -> verdict_of c KString p e bs = Accept bs.
Proof.
  intros P C. destruct c; try discriminate; unfold verdict_of, reject_if; rewrite C; reflexivity.
Qed.

(* bytes fields: never validated; arbitrary bytes pass through binary, JSON (base64) and text codecs *)
Lemma bytes_passthrough c p e bs :
  c <> TextUnmarshalRaw -> verdict_of c KBytes p e bs = Accept bs.
Proof. intros H. destruct c; try reflexivity. congruence. Qed.

(* protojson refuses ill-formed strings whether or not the field is validated *)
Lemma json_rejects_all_invalid p e bs :
  ~ is_utf8 bs ->
  verdict_of JsonMarshal KString p e bs = Reject /\ verdict_of JsonUnmarshal KString p e bs = Reject.
Proof.
  intros H. apply valid_false_iff in H. unfold verdict_of, reject_if. rewrite utf8_valid_dec_eq, H. auto.
Qed.

(* the validator agrees with the table-driven decoder whenever the map field and its
   entry fields carry the same enforcement bit (protoc propagates the option/feature),
   except at repeated string extensions (FL1) *)
Lemma validator_agrees k p e bs :
  e_map e = e_self e -> p <> PExtensionList ->
  verdict_of Validator k p e bs = verdict_of BinUnmarshalFast k p e bs.
Proof.
  intros H NE. unfold verdict_of, consulted, declared. destruct k; [|reflexivity]. rewrite H.
  destruct p; try reflexivity. congruence.
Qed.

(* the full statement "declared and ill-formed -> rejected" does not hold of the code: FL1, FL2 *)
Lemma enforced_positions_reject_refuted :
  exists c p e bs, declared c p e = true /\ ~ is_utf8 bs /\ verdict_of c KString p e bs <> Reject.
Proof.
  exists BinUnmarshalFast, PExtensionList, {| e_self := true; e_map := true |}, [xff].
  split; [reflexivity|]. split; [|vm_compute; discriminate].
  rewrite <- utf8_valid_spec. vm_compute. discriminate.
Qed.
Lemma enforced_positions_reject_refuted_FL2 :
  exists bs, declared TextUnmarshalEsc PAnyTypeUrl {| e_self := true; e_map := true |} = true /\ ~ is_utf8 bs /\
             verdict_of TextUnmarshalEsc KString PAnyTypeUrl {| e_self := true; e_map := true |} bs <> Reject.
Proof.
  exists [xff]. split; [reflexivity|]. split; [|vm_compute; discriminate].
  rewrite <- utf8_valid_spec. vm_compute. discriminate.
Qed.

(* ... and holds everywhere else *)
Lemma enforced_positions_reject_except c p e bs :
  excl_FL1 c p = false -> excl_FL2 c p = false ->
  declared c p e = true -> ~ is_utf8 bs -> verdict_of c KString p e bs = Reject.
Proof.
  intros X1 X2 D H. apply enforced_positions_reject; [|assumption].
  unfold consulted. now rewrite D, X1, X2.
Qed.

Lemma consulted_declared c p e : consulted c p e = true -> declared c p e = true.
Proof. unfold consulted. destruct (declared c p e); [auto|discriminate]. Qed.

(* ... and only then: with differing bits there is a map-key string on which they differ *)
Lemma validator_disagrees_on_unpropagated_bits :
  exists e bs, verdict_of Validator KString PMapKey e bs <> verdict_of BinUnmarshalFast KString PMapKey e bs.
Proof.
  exists {| e_self := false; e_map := true |}, [xff]. vm_compute. discriminate.
Qed.

(* ---- strs.EnforceUTF8 *)
Lemma enforce_proto3_plain fd : fd_syntax fd = Proto3 -> enforce_utf8 false fd = true.
Proof. intros H. unfold enforce_utf8. rewrite H. reflexivity. Qed.
Lemma enforce_proto2_plain fd : fd_syntax fd = Proto2 -> enforce_utf8 false fd = false.
Proof. intros H. unfold enforce_utf8. rewrite H. reflexivity. Qed.
Lemma enforce_editions fd : fd_syntax fd = Editions -> fd_has_method fd = true ->
  enforce_utf8 false fd = fd_validated fd /\ enforce_utf8 true fd = fd_validated fd.
Proof. intros H M. unfold enforce_utf8. rewrite H, M. auto. Qed.
Lemma enforce_legacy fd : fd_has_method fd = true -> enforce_utf8 true fd = fd_validated fd.
Proof. intros M. unfold enforce_utf8. now rewrite M. Qed.
Lemma enforce_no_method legacy fd : fd_has_method fd = false -> enforce_utf8 legacy fd = is_proto3 (fd_syntax fd).
Proof. intros M. unfold enforce_utf8. now rewrite M, andb_false_r. Qed.

(* the decision table, complete: EnforceUTF8 is determined by these five rows *)
Lemma enforce_table legacy fd :
  enforce_utf8 legacy fd =
  match fd_has_method fd, legacy, fd_syntax fd with
  | true, _, Editions => fd_validated fd
  | true, true, _ => fd_validated fd
  | _, _, Proto3 => true
  | _, _, _ => false
  end.
Proof. unfold enforce_utf8. destruct fd as [s m v]; destruct s, m, legacy; reflexivity. Qed.
