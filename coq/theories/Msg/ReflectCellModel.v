(* ReflectCellModel — concrete representations of one message level (C28).  Definitions only.

   A concrete message is a finite map from field numbers to representation CELLS plus the unknown
   bytes.  The message-level machine [cm_focus] (Has / Get / Set / Clear / Mutable / NewField /
   WhichOneof / Range / unknown / list and map operations / navigation into sub-messages, with
   clearOtherOneofFields) is written once over an interface [cellops]; two instances follow the
   code of the two representations:

     dyn_ops     types/dynamicpb/dynamic.go: the entry of the [known] map (absent / scalar /
                 message / list / map value) and the membership in the [ext] map; Has is [isSet]
     opq_ops     internal/impl/message_opaque.go + message_reflect_field.go: presence bit + value
                 cell (nullable scalars), bare value cell (implicit presence), presence bit +
                 pointer + retained lazy buffer (lazy messages and lazy message lists), pointer
                 (other messages and message lists), slice, map, oneof wrapper, extension entry

   Sub-messages stored in cells are abstract values (Msg/MsgValue.v); operations below the first
   level are those of the abstract model, so the refinement theorem (Msg/ReflectCellP.v) is about
   the representation of ONE level, for every operation at every path; deeper levels are the
   same statement again.

   [cm_abs] is the abstraction function: the populated fields with the values the accessors read. *)
From Coq Require Import List NArith ZArith Bool.
From PB Require Import Base.PBytes Wire.WireModel Msg.MsgSchema Msg.MsgValue Msg.ReflectModel.
Import ListNotations.
Open Scope N_scope.

Definition refl_is_nil {A} (l : list A) : bool := match l with [] => true | _ => false end.

(* Set of an implicit-presence scalar to its zero value leaves the field unpopulated *)
Definition refl_norm (fd : fdesc) (vs : list value) : list value :=
  match f_card fd, vs with
  | CImp, [VS s] => if msg_scalar_is_zero s then [] else vs
  | _, _ => vs
  end.

(* what Get returns, from the populated values *)
Definition refl_get_of (D : rdefs) (tid : nat) (fd : fdesc) (vs : list value) : rout :=
  match vs with
  | [] =>
    if refl_is_map fd || refl_is_list fd then OVal false []
    else match f_kind fd with
         | KS sk => OVal true [VS (refl_default D tid (f_num fd) sk)]
         | _ => OVal false [msg_empty]
         end
  | _ => OVal true vs
  end.

Record cellops (cell : Type) := mkCellOps {
  c_zero : cell;                                      (* the cell of a new message *)
  c_vals : fdesc -> cell -> list value;               (* what the accessors read: [] = unpopulated *)
  c_has : fdesc -> cell -> bool;                      (* the representation's presence test *)
  c_set : fdesc -> list value -> cell -> cell;
  c_clear : fdesc -> cell -> cell;
  c_mutable : fdesc -> cell -> cell;
  c_touch : fdesc -> cell -> cell;                    (* effect of a read (lazy unmarshal) *)
  c_update : fdesc -> list value -> cell -> cell      (* write through the composite obtained from Mutable *)
}.
Arguments c_zero {cell}. Arguments c_vals {cell}. Arguments c_has {cell}. Arguments c_set {cell}.
Arguments c_clear {cell}. Arguments c_mutable {cell}. Arguments c_touch {cell}. Arguments c_update {cell}.

Section Machine.
  Variable cell : Type.
  Variable ops : cellops cell.

  Record cmsg := mkCM { cm_cells : list (N * cell); cm_unk : list byte }.

  Fixpoint cs_get (cs : list (N * cell)) (n : N) : cell :=
    match cs with
    | [] => c_zero ops
    | (k, c) :: r => if n =? k then c else cs_get r n
    end.
  Fixpoint cs_put (cs : list (N * cell)) (n : N) (c : cell) : list (N * cell) :=
    match cs with
    | [] => [(n, c)]
    | (k, old) :: r =>
      if n <? k then (n, c) :: cs
      else if n =? k then (k, c) :: r
      else (k, old) :: cs_put r n c
    end.
  (* clearOtherOneofFields: the other members go back to the zero cell *)
  Definition cs_clear_others (md : mdesc) (fd : fdesc) (cs : list (N * cell)) : list (N * cell) :=
    match f_oneof fd with
    | None => cs
    | Some i => filter (fun p => negb (refl_in_oneof md i (fst p)) || (fst p =? f_num fd)) cs
    end.

  (* abstraction: the populated fields *)
  Definition cm_abs_entry (md : mdesc) (p : N * cell) : fields :=
    match msg_find_field md (fst p) with
    | Some fd => match c_vals ops fd (snd p) with [] => [] | vs => [(fst p, vs)] end
    | None => []
    end.
  Definition cm_abs_fields (md : mdesc) (cs : list (N * cell)) : fields := flat_map (cm_abs_entry md) cs.
  Definition cm_abs (md : mdesc) (st : cmsg) : msg_macc := (cm_abs_fields md (cm_cells st), cm_unk st).

  (* Range as the representations implement it: every cell that passes the presence test *)
  Definition cm_range (md : mdesc) (cs : list (N * cell)) : fields :=
    flat_map (fun p => match msg_find_field md (fst p) with
                       | Some fd => if c_has ops fd (snd p) then [(fst p, c_vals ops fd (snd p))] else []
                       | None => [] end) cs.

  Fixpoint cm_which (md : mdesc) (o : N) (cs : list (N * cell)) : N :=
    match md with
    | [] => 0
    | fd :: r =>
      if match f_oneof fd with Some j => j =? o | None => false end && c_has ops fd (cs_get cs (f_num fd))
      then f_num fd else cm_which r o cs
    end.

  (* one operation on one concrete message (a concrete message is never the read-only empty
     message: that one is a nil pointer / a Message without maps, and has no cells) *)
  Definition cm_step (S : schema) (D : rdefs) (tid : nat) (op : rop) (st : cmsg) : cmsg * rout :=
    let md := nth tid S [] in
    let cs := cm_cells st in
    let unk := cm_unk st in
    if negb (refl_op_wf S md op) then (st, OPanic) else
    let with_field (num : N) (k : fdesc -> cell -> cmsg * rout) : cmsg * rout :=
      match msg_find_field md num with
      | Some fd => k fd (cs_get cs num)
      | None => (st, OPanic)
      end in
    match op with
    | RHas f => with_field f (fun fd c =>
        let c' := c_touch ops fd c in (mkCM (cs_put cs f c') unk, OBool (c_has ops fd c')))
    | RGet f => with_field f (fun fd c =>
        let c' := c_touch ops fd c in
        (mkCM (cs_put cs f c') unk,
         if c_has ops fd c' then OVal true (c_vals ops fd c') else refl_get_of D tid fd []))
    | RNewField f => with_field f (fun fd _ => (st, refl_newfield D tid fd))
    | RWhich o => (st, ONum (cm_which md o cs))
    | RRange => (st, OState (cm_range md cs) unk)
    | RGetUnknown => (st, OBytes unk)
    | RSetUnknown b => (mkCM cs b, ONone)
    | RSet f vs => with_field f (fun fd c =>
        (mkCM (cs_put (cs_clear_others md fd cs) f (c_set ops fd vs c)) unk, ONone))
    | RClear f => with_field f (fun fd c =>
        (mkCM (cs_put cs f (c_clear ops fd c)) unk, ONone))
    | RMutable f => with_field f (fun fd c =>
        if refl_is_map fd || refl_is_list fd then
          let c' := c_mutable ops fd c in (mkCM (cs_put cs f c') unk, OVal true (c_vals ops fd c'))
        else if refl_kind_is_msg (f_kind fd) then
          let c' := c_mutable ops fd c in
          let cs' := if c_has ops fd c then cs else cs_clear_others md fd cs in
          (mkCM (cs_put cs' f c') unk, OVal true (c_vals ops fd c'))
        else (st, OPanic))
    | RList f g o => with_field f (fun fd c =>
        if negb (refl_is_list fd) then (st, OPanic)
        else
          let c1 := if g then c_touch ops fd c else c_mutable ops fd c in
          let lro := g && negb (c_has ops fd c1) in
          let '(r, out) := refl_list_edit D tid fd lro o (c_vals ops fd c1) in
          (mkCM (cs_put cs f (match r with Some vs' => c_update ops fd vs' c1 | None => c1 end)) unk, out))
    | RMap f g o => with_field f (fun fd c =>
        if negb (refl_is_map fd) then (st, OPanic)
        else
          let c1 := if g then c_touch ops fd c else c_mutable ops fd c in
          let mro := g && negb (c_has ops fd c1) in
          let '(r, out) := refl_map_edit fd mro o (c_vals ops fd c1) in
          (mkCM (cs_put cs f (match r with Some es' => c_update ops fd es' c1 | None => c1 end)) unk, out))
    end.

  (* the operation below a path: the first step is taken in the concrete message, the rest in the
     (abstract) sub-message found there *)
  Definition cm_focus (S : schema) (D : rdefs) (w : bool) (path : list pstep) (tid : nat)
      (op : rop) (st : cmsg) : cmsg * rout :=
    match path with
    | [] => cm_step S D tid op st
    | stp :: rest =>
      let md := nth tid S [] in
      let cs := cm_cells st in
      let unk := cm_unk st in
      let num := match stp with PF f => f | PL f _ => f | PM f _ => f end in
      match msg_find_field md num with
      | None => (st, OPanic)
      | Some fd =>
        let sub_tid := refl_kind_tid (f_kind fd) in
        let c0 := cs_get cs num in
        match stp with
        | PF f =>
          if negb (refl_is_msg fd) then (st, OPanic)
          else if w then
            let c1 := c_mutable ops fd c0 in
            let cs' := if c_has ops fd c0 then cs else cs_clear_others md fd cs in
            let sub := hd msg_empty (c_vals ops fd c1) in
            let '(sub', out) := refl_focus S D w rest sub_tid false op (msg_macc_of sub) in
            (mkCM (cs_put cs' f (c_update ops fd [refl_val_of sub'] c1)) unk, out)
          else
            let c1 := c_touch ops fd c0 in
            if c_has ops fd c1 then
              let sub := hd msg_empty (c_vals ops fd c1) in
              let '(sub', out) := refl_focus S D w rest sub_tid false op (msg_macc_of sub) in
              (mkCM (cs_put cs f (c_update ops fd [refl_val_of sub'] c1)) unk, out)
            else
              let '(_, out) := refl_focus S D w rest sub_tid true op ([], []) in
              (mkCM (cs_put cs f c1) unk, out)
        | PL f i =>
          if negb (refl_is_list fd) then (st, OPanic) else
          if negb (refl_kind_is_msg (f_kind fd)) then (st, OPanic) else
          let c1 := if w then c_mutable ops fd c0 else c_touch ops fd c0 in
          let vs := c_vals ops fd c1 in
          match nth_error vs (N.to_nat i) with
          | Some sub =>
            let '(sub', out) := refl_focus S D w rest sub_tid false op (msg_macc_of sub) in
            (mkCM (cs_put cs f (c_update ops fd (refl_replace_nth vs (N.to_nat i) (refl_val_of sub')) c1)) unk, out)
          | None => (mkCM (cs_put cs f c1) unk, OPanic)
          end
        | PM f k =>
          if negb (refl_is_map fd) then (st, OPanic) else
          if negb (refl_kind_is_msg (f_kind fd)) then (st, OPanic) else
          let c1 := if w then c_mutable ops fd c0 else c_touch ops fd c0 in
          let es := c_vals ops fd c1 in
          match refl_map_get es k with
          | Some sub =>
            let '(sub', out) := refl_focus S D w rest sub_tid false op (msg_macc_of sub) in
            (mkCM (cs_put cs f (c_update ops fd (refl_map_replace es k (refl_val_of sub')) c1)) unk, out)
          | None => (mkCM (cs_put cs f c1) unk, OPanic)
          end
        end
      end
    end.

  (* a history on a concrete top-level message *)
  Fixpoint cm_run (S : schema) (D : rdefs) (st : cmsg) (steps : list rstep) : cmsg * list rout :=
    match steps with
    | [] => (st, [])
    | s :: r =>
      let '(st1, out) := cm_focus S D (rs_w s) (rs_path s) O (rs_op s) st in
      let '(st2, outs) := cm_run S D st1 r in
      (st2, out :: outs)
    end.
End Machine.

Arguments mkCM {cell}. Arguments cm_cells {cell}. Arguments cm_unk {cell}.

(* ================================================================ dynamicpb cells *)
Inductive dcell := DOne (v : value) | DList (vs : list value) | DMap (es : list value).
(* the entry of m.known (None: absent) and whether m.ext holds the extension descriptor *)
Record dyncell := mkDC { dc_known : option dcell; dc_ext : bool }.

Definition dcell_vals (k : dcell) : list value :=
  match k with DOne v => [v] | DList vs => vs | DMap es => es end.

(* isSet(fd, v) *)
Definition dyn_isset (fd : fdesc) (k : dcell) : bool :=
  if refl_is_map fd then negb (refl_is_nil (dcell_vals k))
  else if refl_is_list fd then negb (refl_is_nil (dcell_vals k))
  else match f_oneof fd with
       | Some _ => true
       | None =>
         match f_card fd with
         | CImp =>
           if f_ext fd then true
           else match k with
                | DOne (VS s) => negb (msg_scalar_is_zero s)
                | _ => true
                end
         | _ => true
         end
       end.

Definition dyn_has (fd : fdesc) (c : dyncell) : bool :=
  if f_ext fd && negb (dc_ext c) then false
  else match dc_known c with None => false | Some k => dyn_isset fd k end.

Definition dyn_vals (fd : fdesc) (c : dyncell) : list value :=
  if dyn_has fd c then match dc_known c with Some k => dcell_vals k | None => [] end else [].

Definition dyn_cell_of (fd : fdesc) (vs : list value) : dcell :=
  if refl_is_map fd then DMap vs
  else if refl_is_list fd then DList vs
  else DOne (hd msg_empty vs).

(* NewField / ExtensionType.New *)
Definition dyn_new (fd : fdesc) : dcell := dyn_cell_of fd (if refl_is_msg fd then [msg_empty] else []).

Definition dyn_set (fd : fdesc) (vs : list value) (c : dyncell) : dyncell :=
  mkDC (Some (dyn_cell_of fd vs)) (f_ext fd || dc_ext c).
Definition dyn_clear (fd : fdesc) (c : dyncell) : dyncell := mkDC None false.
Definition dyn_mutable (fd : fdesc) (c : dyncell) : dyncell :=
  if negb (refl_is_map fd || refl_is_list fd || refl_is_msg fd) then c    (* scalars: panic *)
  else if f_ext fd then
    if dc_ext c then c else mkDC (Some (dyn_new fd)) true
  else match dc_known c with
       | Some _ => c
       | None => mkDC (Some (dyn_new fd)) (dc_ext c)
       end.
Definition dyn_update (fd : fdesc) (vs : list value) (c : dyncell) : dyncell :=
  mkDC (Some (dyn_cell_of fd vs)) (f_ext fd || dc_ext c).

Definition dyn_ops : cellops dyncell :=
  mkCellOps dyncell (mkDC None false) dyn_vals dyn_has dyn_set dyn_clear dyn_mutable (fun _ c => c) dyn_update.

(* ================================================================ opaque cells *)
Inductive ocell :=
| OCZero                                                   (* the zero bytes of a new struct *)
| OCNullable (present : bool) (v : scalar)                 (* presence bit + value cell *)
| OCDirect (v : scalar)                                    (* implicit presence: value cell alone *)
| OCMsgLazy (present : bool) (ptr : option value) (lz : value)   (* bit + pointer + retained lazy buffer *)
| OCMsgPtr (ptr : option value)                            (* non-lazy message: pointer *)
| OCList (vs : list value)                                 (* scalar list: slice *)
| OCMsgListLazy (present : bool) (ptr : option (list value)) (lz : list value)
| OCMsgListPtr (ptr : option (list value))                 (* non-lazy message list: pointer to slice *)
| OCMap (m : option (list value))
| OCOneof (v : option value)                               (* the wrapper of this member, if it is the active one *)
| OCExt (x : option (list value)).                         (* extension map entry *)

Inductive ocls := KNullable | KDirect | KMsgLazy | KMsgPtr | KList | KMsgListLazy | KMsgListPtr | KMap | KOneof | KExt.

(* opaqueInitHook's switch *)
Definition opq_class (fd : fdesc) : ocls :=
  if f_ext fd then KExt
  else match f_oneof fd with
  | Some _ => KOneof
  | None =>
    if refl_is_map fd then KMap
    else if refl_is_list fd then
      (if refl_kind_is_msg (f_kind fd) then (if f_lazy fd then KMsgListLazy else KMsgListPtr) else KList)
    else if refl_kind_is_msg (f_kind fd) then (if f_lazy fd then KMsgLazy else KMsgPtr)
    else match f_card fd with CImp => KDirect | _ => KNullable end
  end.

Definition opq_kind_zero (fd : fdesc) : scalar :=
  match f_kind fd with KS sk => sk_zero sk | _ => SN 0 end.

(* a cell of the wrong shape is read as the zero cell of the field's class *)
Definition opq_coerce (fd : fdesc) (c : ocell) : ocell :=
  match opq_class fd, c with
  | KNullable, OCNullable _ _ | KDirect, OCDirect _ | KMsgLazy, OCMsgLazy _ _ _ | KMsgPtr, OCMsgPtr _
  | KList, OCList _ | KMsgListLazy, OCMsgListLazy _ _ _ | KMsgListPtr, OCMsgListPtr _ | KMap, OCMap _
  | KOneof, OCOneof _ | KExt, OCExt _ => c
  | KNullable, _ => OCNullable false (opq_kind_zero fd)
  | KDirect, _ => OCDirect (opq_kind_zero fd)
  | KMsgLazy, _ => OCMsgLazy false None msg_empty
  | KMsgPtr, _ => OCMsgPtr None
  | KList, _ => OCList []
  | KMsgListLazy, _ => OCMsgListLazy false None []
  | KMsgListPtr, _ => OCMsgListPtr None
  | KMap, _ => OCMap None
  | KOneof, _ => OCOneof None
  | KExt, _ => OCExt None
  end.

Definition opq_opt_list (o : option (list value)) : list value := match o with Some l => l | None => [] end.

(* fieldInfo.has *)
Definition opq_has (fd : fdesc) (c : ocell) : bool :=
  match opq_coerce fd c with
  | OCNullable p _ => p
  | OCDirect v => negb (msg_scalar_is_zero v)
  | OCMsgLazy p _ _ => p
  | OCMsgPtr ptr => match ptr with Some _ => true | None => false end
  | OCList vs => negb (refl_is_nil vs)
  | OCMsgListLazy p ptr lz => p && negb (refl_is_nil (match ptr with Some l => l | None => lz end))
  | OCMsgListPtr ptr => negb (refl_is_nil (opq_opt_list ptr))
  | OCMap m => negb (refl_is_nil (opq_opt_list m))
  | OCOneof v => match v with Some _ => true | None => false end
  | OCExt x =>
    match x with
    | Some l => if refl_is_list fd || refl_is_map fd then negb (refl_is_nil l) else true
    | None => false
    end
  | OCZero => false
  end.

(* what fieldInfo.get reads when the field is populated *)
Definition opq_vals (fd : fdesc) (c : ocell) : list value :=
  if opq_has fd c then
    match opq_coerce fd c with
    | OCNullable _ v => [VS v]
    | OCDirect v => [VS v]
    | OCMsgLazy _ ptr lz => [match ptr with Some v => v | None => lz end]
    | OCMsgPtr ptr => match ptr with Some v => [v] | None => [] end
    | OCList vs => vs
    | OCMsgListLazy _ ptr lz => match ptr with Some l => l | None => lz end
    | OCMsgListPtr ptr => opq_opt_list ptr
    | OCMap m => opq_opt_list m
    | OCOneof v => match v with Some x => [x] | None => [] end
    | OCExt x => if refl_is_list fd || refl_is_map fd then opq_opt_list x else [hd msg_empty (opq_opt_list x)]
    | OCZero => []
    end
  else [].

Definition opq_scalar_of (fd : fdesc) (vs : list value) : scalar :=
  match vs with [VS s] => s | _ => opq_kind_zero fd end.

(* fieldInfo.set *)
Definition opq_set (fd : fdesc) (vs : list value) (c : ocell) : ocell :=
  match opq_coerce fd c with
  | OCNullable _ _ => OCNullable true (opq_scalar_of fd vs)
  | OCDirect _ => OCDirect (opq_scalar_of fd vs)
  | OCMsgLazy _ _ lz => OCMsgLazy true (Some (hd msg_empty vs)) lz
  | OCMsgPtr _ => OCMsgPtr (Some (hd msg_empty vs))
  | OCList _ => OCList vs
  | OCMsgListLazy p ptr lz =>
    (* a nil pointer is allocated and the bit set; a lazily retained list is not consulted *)
    match ptr with None => OCMsgListLazy true (Some vs) lz | Some _ => OCMsgListLazy p (Some vs) lz end
  | OCMsgListPtr _ => OCMsgListPtr (Some vs)
  | OCMap _ => OCMap (Some vs)
  | OCOneof _ => OCOneof (Some (hd msg_empty vs))
  | OCExt _ => OCExt (Some vs)
  | OCZero => OCZero
  end.

(* fieldInfo.clear *)
Definition opq_clear (fd : fdesc) (c : ocell) : ocell :=
  match opq_coerce fd c with
  | OCNullable _ _ => OCNullable false (opq_kind_zero fd)
  | OCDirect _ => OCDirect (opq_kind_zero fd)
  | OCMsgLazy _ _ lz => OCMsgLazy false None lz
  | OCMsgPtr _ => OCMsgPtr None
  | OCList _ => OCList []
  | OCMsgListLazy _ _ lz => OCMsgListLazy true (Some []) lz      (* allocates, sets the bit, zeroes the slice *)
  | OCMsgListPtr ptr => match ptr with Some _ => OCMsgListPtr (Some []) | None => OCMsgListPtr None end
  | OCMap _ => OCMap None
  | OCOneof _ => OCOneof None
  | OCExt _ => OCExt None
  | OCZero => OCZero
  end.

(* lazyUnmarshal on a read *)
Definition opq_touch (fd : fdesc) (c : ocell) : ocell :=
  match opq_coerce fd c with
  | OCMsgLazy true None lz => OCMsgLazy true (Some lz) lz
  | OCMsgListLazy true None lz => OCMsgListLazy true (Some lz) lz
  | c' => c'
  end.

(* fieldInfo.mutable *)
Definition opq_mutable (fd : fdesc) (c : ocell) : ocell :=
  match opq_coerce fd c with
  | OCMsgLazy p ptr lz =>
    match ptr with
    | Some _ => OCMsgLazy p ptr lz
    | None => if p then OCMsgLazy true (Some lz) lz else OCMsgLazy true (Some msg_empty) lz
    end
  | OCMsgPtr ptr => match ptr with Some _ => OCMsgPtr ptr | None => OCMsgPtr (Some msg_empty) end
  | OCMsgListLazy p ptr lz =>
    match ptr with
    | Some _ => OCMsgListLazy p ptr lz
    | None => if p then OCMsgListLazy true (Some lz) lz else OCMsgListLazy true (Some []) lz
    end
  | OCMsgListPtr ptr => match ptr with Some _ => OCMsgListPtr ptr | None => OCMsgListPtr (Some []) end
  | OCMap m => match m with Some _ => OCMap m | None => OCMap (Some []) end
  | OCOneof v =>
    match v with
    | Some _ => OCOneof v
    | None => if refl_is_msg fd then OCOneof (Some msg_empty) else OCOneof None   (* scalars: panic *)
    end
  | OCExt x =>
    match x with
    | Some _ => OCExt x
    | None =>
      if refl_is_msg fd then OCExt (Some [msg_empty])
      else if refl_is_list fd || refl_is_map fd then OCExt (Some [])
      else OCExt None                                                          (* scalars: panic *)
    end
  | c' => c'
  end.

(* a write through the composite obtained from Mutable (or from Get of a populated field) *)
Definition opq_update (fd : fdesc) (vs : list value) (c : ocell) : ocell :=
  match opq_coerce fd c with
  | OCMsgLazy _ _ lz => OCMsgLazy true (Some (hd msg_empty vs)) lz
  | OCMsgPtr _ => OCMsgPtr (Some (hd msg_empty vs))
  | OCList _ => OCList vs
  | OCMsgListLazy _ _ lz => OCMsgListLazy true (Some vs) lz
  | OCMsgListPtr _ => OCMsgListPtr (Some vs)
  | OCMap _ => OCMap (Some vs)
  | OCOneof _ => OCOneof (Some (hd msg_empty vs))
  | OCExt _ => OCExt (Some vs)
  | c' => c'
  end.

Definition opq_ops : cellops ocell :=
  mkCellOps ocell OCZero opq_vals opq_has opq_set opq_clear opq_mutable opq_touch opq_update.

(* ---------------------------------------------------------------- synthetic oneofs
   makeOneofInfoOpaque (after the repair of finding FWE2, commit 6a7663d): WhichOneof of the
   SYNTHETIC oneof of a proto3-optional field asks the field itself: mi.fields[num].has(p).
   (Before the repair it read the presence bit of the field, which non-lazy message fields never set.) *)
Definition opq_which_synthetic (fd : fdesc) (c : ocell) : bool := opq_has fd c.

(* ---------------------------------------------------------------- running the concrete machines
   (used by the model driver: the concrete machines are run next to the contract model) *)
Fixpoint refl_nodup_nums (seen : list N) (md : mdesc) : bool :=
  match md with
  | [] => true
  | fd :: r => negb (existsb (N.eqb (f_num fd)) seen) && refl_nodup_nums (f_num fd :: seen) r
  end.
(* the decidable form of the hypothesis [md_ok] of the refinement theorems *)
Definition refl_md_okb (md : mdesc) : bool := refl_nodup_nums [] md && forallb refl_fd_ok md.

(* a concrete message holding the fields of an abstract one *)
Definition cm_of_fields {cell} (ops : cellops cell) (md : mdesc) (lazycell : fdesc -> list value -> option cell)
    (m : msg_macc) : cmsg cell :=
  mkCM (flat_map (fun p => match msg_find_field md (fst p) with
                           | Some fd => [(fst p, match lazycell fd (snd p) with
                                                 | Some c => c
                                                 | None => c_set ops fd (snd p) (c_zero ops)
                                                 end)]
                           | None => [] end) (fst m)) (snd m).

(* a lazily decoded opaque message: lazy message fields hold the presence bit, a nil pointer and
   the retained buffer *)
Definition opq_lazycell (fd : fdesc) (vs : list value) : option ocell :=
  match opq_class fd, vs with
  | KMsgLazy, [v] => Some (OCMsgLazy true None v)
  | KMsgListLazy, _ :: _ => Some (OCMsgListLazy true None vs)
  | _, _ => None
  end.
