(* EqualModel — proto.Equal on message values (C30).  Definitions only.

   Values are the [value]s of Msg/MsgValue.v read as CONCRETE messages: the bindings of a message
   may come in any order, a binding may hold the empty list (an allocated-but-empty Go slice or
   map, or an entry of the extension map holding an empty list), map entries may come in any
   order.  The canonical values of the codec model (sorted, no empty bindings) are a special case;
   the harness dumps those.

   Two algorithms:
     eqm_value  the reflection algorithm: reflect/protoreflect/value_equal.go (equalMessage:
                Range over the populated fields of x, y.Has && equal values; the numbers of
                populated fields must agree; then equalUnknown) -- used by proto.Equal for
                dynamicpb, for -tags protoreflect, and for mixed implementations
     eqm_fast   the table-driven algorithm: internal/impl/equal.go (equalMessage: per declared
                field has(x) = has(y) and equal values; extension-map entries pairwise, entries
                holding empty lists count as absent; nested messages by the same algorithm,
                everything whose kind is not MessageKind -- scalars and GROUPS -- by Value.Equal)
   Both end with equalUnknown: same length, and byte-equal, or equal per field number after
   grouping the fields by number (order within one number matters, order between numbers not).

   API
     eqm_scalar k x y            one scalar of kind k (floats: bits; NaN = NaN, +0 = -0)
     eqm_unknown x y             equalUnknown
     eqm_value S k a b           reflection algorithm at kind k ([KMsg tid] for a message of type tid)
     eqm_fast S k a b            table-driven algorithm
     eqm_equal S tid a b         = eqm_value S (KMsg tid) a b: proto.Equal of two messages of type tid
     eqm_wf S k v                well-formedness of a concrete value: bound numbers are declared and
                                 pairwise distinct, map bindings hold entries with pairwise distinct keys *)
From Coq Require Import List NArith ZArith Bool.
From PB Require Import Base.PBytes Wire.WireModel Msg.MsgSchema Msg.MsgValue.
Import ListNotations.
Open Scope N_scope.

(* ---------- scalars ---------- *)
Definition eqm_bytes_eqb (a b : list byte) : bool :=
  match msg_bytes_cmp a b with Eq => true | _ => false end.

(* float32 / float64 bit patterns *)
Definition eqm_nan32 (n : N) : bool :=
  (N.land n 2139095040 =? 2139095040) && negb (N.land n 8388607 =? 0).
Definition eqm_zero32 (n : N) : bool := (n =? 0) || (n =? 2147483648).
Definition eqm_nan64 (n : N) : bool :=
  (N.land n 9218868437227405312 =? 9218868437227405312) && negb (N.land n 4503599627370495 =? 0).
Definition eqm_zero64 (n : N) : bool := (n =? 0) || (n =? 9223372036854775808).

(* equalFloat: if IsNaN(x) || IsNaN(y) { return IsNaN(x) && IsNaN(y) }; return x == y
   (two non-NaN floats are == iff they have the same bits or are both zeros) *)
Definition eqm_float (nan zero : N -> bool) (x y : N) : bool :=
  if nan x || nan y then nan x && nan y else (zero x && zero y) || (x =? y).

(* identity of scalars (map keys; all non-float kinds) *)
Definition eqm_key (x y : scalar) : bool :=
  match x, y with
  | SZ a, SZ b => (a =? b)%Z
  | SN a, SN b => a =? b
  | SB a, SB b => Bool.eqb a b
  | SBy a, SBy b => eqm_bytes_eqb a b
  | _, _ => false
  end.

Definition eqm_scalar (k : kind) (x y : scalar) : bool :=
  match x, y with
  | SN a, SN b =>
    match k with
    | KS SkFloat => eqm_float eqm_nan32 eqm_zero32 a b
    | KS SkDouble => eqm_float eqm_nan64 eqm_zero64 a b
    | _ => a =? b
    end
  | _, _ => eqm_key x y
  end.

(* ---------- unknown fields ---------- *)
(* the loop  for len(x) > 0 { fnum, _, n := ConsumeField(x); mx[fnum] = append(mx[fnum], x[:n]...); x = x[n:] }
   as the list of (number, raw field) chunks; fuel: any list at least as long as the input.
   On malformed input Go panics (x[:n] with negative n); the model stops -- such byte strings are
   never stored by a decoder, and the theorems do not depend on what happens there. *)
Fixpoint eqm_split (g bs : list byte) : list (N * list byte) :=
  match g with
  | [] => []
  | _ :: g' =>
    match bs with
    | [] => []
    | _ =>
      match consume_field bs with
      | Ok (num, _, n) => (num, firstn (N.to_nat n) bs) :: eqm_split g' (skipn (N.to_nat n) bs)
      | Err _ => []
      end
    end
  end.

(* mx[k] *)
Definition eqm_group (cs : list (N * list byte)) (k : N) : list byte :=
  concat (map snd (filter (fun c => fst c =? k) cs)).

(* the two maps are equal: every number occurring in either has the same bytes in both *)
Definition eqm_groups_eq (cx cy : list (N * list byte)) : bool :=
  forallb (fun k => eqm_bytes_eqb (eqm_group cx k) (eqm_group cy k)) (map fst cx ++ map fst cy).

Definition eqm_unknown (x y : list byte) : bool :=
  Nat.eqb (length x) (length y) &&
  (eqm_bytes_eqb x y || eqm_groups_eq (eqm_split (x00 :: x) x) (eqm_split (x00 :: y) y)).

(* ---------- messages ---------- *)
Definition eqm_md (S : schema) (k : kind) : mdesc :=
  match k with KMsg t | KGrp t => nth t S [] | KS _ => [] end.

Definition eqm_nil {A} (l : list A) : bool := match l with [] => true | _ => false end.

(* number of populated bindings (nx / ny of equalMessage) *)
Definition eqm_populated (fs : fields) : nat :=
  length (filter (fun p => negb (eqm_nil (snd p))) fs).

Fixpoint eqm_efind (es : list value) (key : scalar) : option value :=
  match es with
  | [] => None
  | VEntry k v :: r => if eqm_key k key then Some v else eqm_efind r key
  | _ :: r => eqm_efind r key
  end.

(* pairwise, same length ([f] is a section variable so that the nested fixpoints below pass the
   guard condition, like [forallb] and [map]) *)
Section All2.
  Context {A B : Type} (f : A -> B -> bool).
  Fixpoint eqm_all2 (la : list A) (lb : list B) {struct la} : bool :=
    match la with
    | [] => match lb with [] => true | _ :: _ => false end
    | x :: la' => match lb with [] => false | y :: lb' => f x y && eqm_all2 la' lb' end
    end.
End All2.

(* the values of one field: equalList (same length, elementwise) / equalMap (same length, every
   key of x is a key of y with an equal value); [ev] compares elements of the field's kind *)
Definition eqm_vals (c : card) (ev : value -> value -> bool) (va vb : list value) : bool :=
  match c with
  | CMap _ _ _ =>
    Nat.eqb (length va) (length vb) &&
    forallb (fun e => match e with
                      | VEntry ka xa => match eqm_efind vb ka with
                                        | Some xb => ev xa xb
                                        | None => false
                                        end
                      | _ => false
                      end) va
  | _ => eqm_all2 ev va vb
  end.

Fixpoint eqm_value (S : schema) (k : kind) (a b : value) {struct a} : bool :=
  match a with
  | VS x => match b with VS y => eqm_scalar k x y | _ => false end
  | VEntry ka xa => match b with VEntry kb xb => eqm_key ka kb && eqm_value S k xa xb | _ => false end
  | VMsg fa ua =>
    match b with
    | VMsg fb ub =>
      let md := eqm_md S k in
      forallb (fun p =>
        match snd p with
        | [] => true
        | _ :: _ =>
          match msg_find_field md (fst p) with
          | None => false
          | Some fd =>
            match msg_fget fb (fst p) with
            | [] => false
            | vb =>
              match f_card fd with
              | CMap _ _ _ =>
                Nat.eqb (length (snd p)) (length vb) &&
                forallb (fun e => match e with
                                  | VEntry ka xa => match eqm_efind vb ka with
                                                    | Some xb => eqm_value S (f_kind fd) xa xb
                                                    | None => false
                                                    end
                                  | _ => false
                                  end) (snd p)
              | _ => eqm_all2 (fun x y => eqm_value S (f_kind fd) x y) (snd p) vb
              end
            end
          end
        end) fa
      && Nat.eqb (eqm_populated fa) (eqm_populated fb)
      && eqm_unknown ua ub
    | _ => false
    end
  end.

Definition eqm_equal (S : schema) (tid : nat) (a b : value) : bool := eqm_value S (KMsg tid) a b.

(* ---------- the table-driven algorithm ---------- *)
Fixpoint eqm_fast (S : schema) (k : kind) (a b : value) {struct a} : bool :=
  match a with
  | VS x => match b with VS y => eqm_scalar k x y | _ => false end
  | VEntry ka xa => match b with VEntry kb xb => eqm_key ka kb && eqm_fast S k xa xb | _ => false end
  | VMsg fa ua =>
    match b with
    | VMsg fb ub =>
      let md := eqm_md S k in
      (* values: regular fields populated in x, and every entry of x's extension map *)
      forallb (fun p =>
        match msg_find_field md (fst p) with
        | None => false
        | Some fd =>
          let vb := msg_fget fb (fst p) in
          if negb (f_ext fd) && (eqm_nil (snd p) || eqm_nil vb) then
            true  (* has(x) = false, or has(y) = false: decided by the has pass below *)
          else
            match f_card fd with
            | CMap _ _ _ =>
              Nat.eqb (length (snd p)) (length vb) &&
              forallb (fun e => match e with
                                | VEntry ka xa =>
                                  match eqm_efind vb ka with
                                  | Some xb =>
                                    match f_kind fd with
                                    | KMsg _ => eqm_fast S (f_kind fd) xa xb
                                    | _ => eqm_value S (f_kind fd) xa xb
                                    end
                                  | None => false
                                  end
                                | _ => false
                                end) (snd p)
            | _ =>
              match f_kind fd with
              | KMsg _ => eqm_all2 (fun x y => eqm_fast S (f_kind fd) x y) (snd p) vb
              | _ => eqm_all2 (fun x y => eqm_value S (f_kind fd) x y) (snd p) vb   (* scalars and groups: Value.Equal *)
              end
            end
        end) fa
      (* has(x) = has(y) for every declared field *)
      && forallb (fun fd => f_ext fd ||
                            Bool.eqb (eqm_nil (msg_fget fa (f_num fd))) (eqm_nil (msg_fget fb (f_num fd)))) md
      (* entries of y's extension map that x's does not have must hold empty lists *)
      && forallb (fun q =>
           match msg_find_field md (fst q) with
           | None => false
           | Some fd => negb (f_ext fd) || existsb (N.eqb (fst q)) (map fst fa) || eqm_nil (snd q)
           end) fb
      && eqm_unknown ua ub
    | _ => false
    end
  end.

(* ---------- well-formed concrete values ---------- *)
Fixpoint eqm_nodup_n (l : list N) : bool :=
  match l with
  | [] => true
  | x :: r => negb (existsb (N.eqb x) r) && eqm_nodup_n r
  end.

Definition eqm_entry_key (e : value) : option scalar :=
  match e with VEntry k _ => Some k | _ => None end.

Fixpoint eqm_nodup_keys (es : list value) : bool :=
  match es with
  | [] => true
  | VEntry k _ :: r => negb (existsb (fun e => match e with VEntry k' _ => eqm_key k' k | _ => false end) r) && eqm_nodup_keys r
  | _ :: _ => false
  end.

Fixpoint eqm_wf (S : schema) (k : kind) (v : value) {struct v} : bool :=
  match v with
  | VS _ => true
  | VEntry _ x => eqm_wf S k x
  | VMsg fs _ =>
    let md := eqm_md S k in
    eqm_nodup_n (map fst fs) &&
    forallb (fun p =>
      match msg_find_field md (fst p) with
      | None => false
      | Some fd =>
        match f_card fd with
        | CMap _ _ _ =>
          eqm_nodup_keys (snd p) &&
          forallb (fun e => match e with VEntry _ x => eqm_wf S (f_kind fd) x | _ => false end) (snd p)
        | _ => forallb (fun x => eqm_wf S (f_kind fd) x) (snd p)
        end
      end) fs
  end.
