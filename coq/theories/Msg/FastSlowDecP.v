(* FastSlowDecP — C08: the two modes of the decoder model (Msg/MsgDec.v: [slow = true] proto.
   unmarshalMessageSlow, [slow = false] internal/impl unmarshalPointerEager) give the same verdict
   on every input and, when they accept, results that are equal up to the normalisation of
   unknown-field tags -- for schemas without group-typed fields and without fields on which the
   two paths validate UTF-8 differently (finding FL1: repeated string extensions).

   The proof is a simulation along the decoder's recursion (depth, then fuel): the accumulators of
   the two runs are related by [fsd_acc_rel] (same known fields with related values; the unknown
   section of the reflection run is a sequence of fields with raw tags, that of the table-driven
   run the same fields with minimal tags). *)
From Coq Require Import List Arith NArith ZArith Lia Bool Permutation.
From Coq Require Import ZifyBool ZifyNat ZifyN.
From PB Require Import Base.PBytes Wire.WireModel Wire.WireGrammar Wire.VarintP Wire.ScanP.
From PB Require Import Msg.MsgSchema Msg.MsgValue Msg.MsgUtf8 Msg.MsgEnc Msg.MsgDec Msg.MsgValid Msg.MsgWireP Msg.MsgSizeP Msg.MsgRoundP.
From PB Require Import Msg.DetModel Msg.FastSlowModel Msg.FastSlowP.
Import ListNotations.
Open Scope N_scope.

(* ------------------------------------------------------------------ relations *)
Inductive fsd_unk_rel : list byte -> list byte -> Prop :=
| fsd_ur_nil : fsd_unk_rel [] []
| fsd_ur_app u u' raw num typ val :
    fsd_unk_rel u u' -> is_tag raw num typ -> wf_value default_dep num typ val ->
    fsd_unk_rel (u ++ raw ++ val) (u' ++ enc_tag num typ ++ val).

Inductive fsd_val_rel : value -> value -> Prop :=
| fsd_vr_s s : fsd_val_rel (VS s) (VS s)
| fsd_vr_e k x y : fsd_val_rel x y -> fsd_val_rel (VEntry k x) (VEntry k y)
| fsd_vr_m fa ua fb ub :
    fsd_unk_rel ua ub ->
    Forall2 (fun p q : N * list value => fst p = fst q /\ Forall2 fsd_val_rel (snd p) (snd q)) fa fb ->
    fsd_val_rel (VMsg fa ua) (VMsg fb ub).

Definition fsd_vals_rel := Forall2 fsd_val_rel.
Definition fsd_bind_rel (p q : N * list value) : Prop := fst p = fst q /\ fsd_vals_rel (snd p) (snd q).
Definition fsd_fields_rel := Forall2 fsd_bind_rel.
Definition fsd_acc_rel (a b : msg_macc) : Prop := fsd_fields_rel (fst a) (fst b) /\ fsd_unk_rel (snd a) (snd b).

Definition fsd_res_rel {A} (R : A -> A -> Prop) (x y : dres A) : Prop :=
  match x, y with
  | DOk a, DOk b => R a b
  | DErr e, DErr e' => e = e'
  | _, _ => False
  end.

Definition fsd_out_rel (a b : msg_macc * list byte) : Prop := fsd_acc_rel (fst a) (fst b) /\ snd a = snd b.
Definition fsd_dec_rel (ds df : msg_dec_t) : Prop :=
  forall tid grp g bs a_s a_f, fsd_acc_rel a_s a_f -> fsd_res_rel fsd_out_rel (ds tid grp g bs a_s) (df tid grp g bs a_f).

Lemma fsd_acc_empty : fsd_acc_rel ([], []) ([], []).
Proof. split; constructor. Qed.

Lemma fsd_val_empty : fsd_val_rel msg_empty msg_empty.
Proof. constructor; constructor. Qed.

Lemma fsd_vals_scalars vs : Forall (fun v => exists s, v = VS s) vs -> fsd_vals_rel vs vs.
Proof. induction 1 as [|v r [s ->] _ IH]; constructor; [constructor|exact IH]. Qed.

(* ------------------------------------------------------------------ the association list *)
Lemma fsd_fget fa fb n : fsd_fields_rel fa fb -> fsd_vals_rel (msg_fget fa n) (msg_fget fb n).
Proof.
  induction 1 as [|[k v] [k' v'] ra rb [E V] _ IH]; cbn [msg_fget]; [constructor|].
  cbn [fst snd] in E, V. subst k'. destruct (n =? k); assumption.
Qed.

Lemma fsd_fset fa fb n va vb :
  fsd_fields_rel fa fb -> fsd_vals_rel va vb -> fsd_fields_rel (msg_fset fa n va) (msg_fset fb n vb).
Proof.
  intros H V. induction H as [|[k v] [k' v'] ra rb [E W] H IH]; cbn [msg_fset].
  - constructor; [split; [reflexivity|exact V]|constructor].
  - cbn [fst snd] in E, W. subst k'. destruct (n <? k).
    + constructor; [split; [reflexivity|exact V]|]. constructor; [split; [reflexivity|exact W]|exact H].
    + destruct (n =? k).
      * constructor; [split; [reflexivity|exact V]|exact H].
      * constructor; [split; [reflexivity|exact W]|exact IH].
Qed.

Lemma fsd_fdel fa fb n : fsd_fields_rel fa fb -> fsd_fields_rel (msg_fdel fa n) (msg_fdel fb n).
Proof.
  induction 1 as [|[k v] [k' v'] ra rb [E W] H IH]; cbn [msg_fdel]; [constructor|].
  cbn [fst snd] in E, W. subst k'. destruct (n =? k); [exact H|]. constructor; [split; [reflexivity|exact W]|exact IH].
Qed.

Lemma fsd_clear_oneof md oi num : forall fa fb,
  fsd_fields_rel fa fb -> fsd_fields_rel (msg_clear_oneof md oi num fa) (msg_clear_oneof md oi num fb).
Proof.
  induction md as [|fd r IH]; intros fa fb H; cbn [msg_clear_oneof]; [exact H|].
  apply IH. destruct (f_oneof fd) as [j|]; [|exact H].
  destruct ((j =? oi) && negb (f_num fd =? num)); [now apply fsd_fdel|exact H].
Qed.

Lemma fsd_set_field md fd v v' fa fb :
  fsd_val_rel v v' -> fsd_fields_rel fa fb ->
  fsd_fields_rel (msg_set_field md fd v fa) (msg_set_field md fd v' fb).
Proof.
  intros V H. unfold msg_set_field.
  assert (match f_card fd, v with CImp, VS s => msg_scalar_is_zero s | _, _ => false end =
          match f_card fd, v' with CImp, VS s => msg_scalar_is_zero s | _, _ => false end) as E.
  { destruct (f_card fd); try reflexivity. inversion V; subst; reflexivity. }
  rewrite <- E. clear E.
  set (drop := match f_card fd, v with CImp, VS s => msg_scalar_is_zero s | _, _ => false end).
  assert (fsd_fields_rel (if drop then msg_fdel fa (f_num fd) else msg_fset fa (f_num fd) [v])
                         (if drop then msg_fdel fb (f_num fd) else msg_fset fb (f_num fd) [v'])) as H1.
  { destruct drop; [now apply fsd_fdel|]. apply fsd_fset; [exact H|]. constructor; [exact V|constructor]. }
  destruct (f_oneof fd); [now apply fsd_clear_oneof|exact H1].
Qed.

Lemma fsd_append_field fd vs vs' fa fb :
  fsd_vals_rel vs vs' -> fsd_fields_rel fa fb ->
  fsd_fields_rel (msg_append_field fd vs fa) (msg_append_field fd vs' fb).
Proof.
  intros V H. unfold msg_append_field. inversion V as [|x y r r' Vx Vr]; subst; [exact H|].
  apply fsd_fset; [exact H|]. apply Forall2_app; [now apply fsd_fget|exact V].
Qed.

Lemma fsd_macc_of v v' : fsd_val_rel v v' -> fsd_acc_rel (msg_macc_of v) (msg_macc_of v').
Proof. intros V. inversion V; subst; cbn [msg_macc_of]; try apply fsd_acc_empty. split; assumption. Qed.

Lemma fsd_old_sub fd fa fb : fsd_fields_rel fa fb -> fsd_acc_rel (msg_old_sub fd fa) (msg_old_sub fd fb).
Proof.
  intros H. unfold msg_old_sub. destruct (card_repeated (f_card fd)); [apply fsd_acc_empty|].
  pose proof (fsd_fget _ _ (f_num fd) H) as V. inversion V as [|x y r r' Vx Vr]; subst; [apply fsd_acc_empty|].
  now apply fsd_macc_of.
Qed.

Lemma fsd_store_sub md fd m m' fa fb :
  fsd_acc_rel m m' -> fsd_fields_rel fa fb ->
  fsd_fields_rel (msg_store_sub md fd m fa) (msg_store_sub md fd m' fb).
Proof.
  intros [M1 M2] H. unfold msg_store_sub.
  assert (fsd_val_rel (VMsg (fst m) (snd m)) (VMsg (fst m') (snd m'))) as V by (constructor; assumption).
  destruct (card_repeated (f_card fd)).
  - apply fsd_append_field; [|exact H]. constructor; [exact V|constructor].
  - now apply fsd_set_field.
Qed.

Lemma fsd_map_put es es' key v v' :
  fsd_vals_rel es es' -> fsd_val_rel v v' -> fsd_vals_rel (msg_map_put es key v) (msg_map_put es' key v').
Proof.
  intros H V. induction H as [|e e' r r' E H IH]; cbn [msg_map_put].
  - constructor; [now constructor|constructor].
  - inversion E; subst.
    + constructor; [exact E|exact IH].
    + destruct (msg_scmp key k).
      * constructor; [now constructor|exact H].
      * constructor; [now constructor|]. constructor; [exact E|exact H].
      * constructor; [exact E|exact IH].
    + constructor; [exact E|exact IH].
Qed.

Lemma fsd_entry_default vk vdef : fsd_val_rel (msg_entry_default vk vdef) (msg_entry_default vk vdef).
Proof.
  unfold msg_entry_default. destruct vk as [sk| |]; try apply fsd_val_empty. destruct sk; constructor.
Qed.

(* ------------------------------------------------------------------ map entries *)
Definition fsd_entry_rel (a b : scalar * value) : Prop := fst a = fst b /\ fsd_val_rel (snd a) (snd b).

Lemma fsd_dec_entry kk kutf8 vk vutf8 (dm_s dm_f : list byte -> value -> dres value) :
  (forall p v v', fsd_val_rel v v' -> fsd_res_rel fsd_val_rel (dm_s p v) (dm_f p v')) ->
  forall g bs key val val', fsd_val_rel val val' ->
    fsd_res_rel fsd_entry_rel (msg_dec_entry g kk kutf8 vk vutf8 dm_s bs key val)
                              (msg_dec_entry g kk kutf8 vk vutf8 dm_f bs key val').
Proof.
  intros Hdm. induction g as [|x g IH]; intros bs key val val' V; cbn [msg_dec_entry]; [reflexivity|].
  destruct bs as [|b0 bs0]; [split; [reflexivity|exact V]|].
  destruct (dec_tag (b0 :: bs0)) as [[[num typ] r]|e]; [|reflexivity].
  destruct (msg_max_num <? num); [reflexivity|].
  destruct (parse_val default_dep num typ r) as [[w r']|e]; [|reflexivity].
  destruct (num =? 1).
  - destruct (msg_dec_scalar kk kutf8 w) as [[s|e]|]; [now apply IH|reflexivity|now apply IH].
  - destruct (num =? 2); [|now apply IH].
    destruct vk as [sk|t|t].
    + destruct (msg_dec_scalar sk vutf8 w) as [[s|e]|]; [apply IH; constructor|reflexivity|now apply IH].
    + destruct w; try (now apply IH).
      pose proof (Hdm b val val' V) as Hr. unfold fsd_res_rel in Hr.
      destruct (dm_s b val) as [a|e], (dm_f b val') as [a'|e']; try contradiction; [now apply IH|congruence].
    + now apply IH.
Qed.

(* ------------------------------------------------------------------ one field *)
Lemma fsd_unknown bs num typ r a_s a_f :
  dec_tag bs = Ok (num, typ, r) -> fsd_acc_rel a_s a_f ->
  fsd_res_rel fsd_out_rel (msg_unknown (firstn (length bs - length r) bs) num typ r a_s)
                          (msg_unknown (enc_tag num typ) num typ r a_f).
Proof.
  intros Hd [F U]. unfold msg_unknown.
  destruct (parse_val default_dep num typ r) as [[w r']|e] eqn:Ep; [|reflexivity].
  cbn [fsd_res_rel]. split; [|reflexivity]. cbn [fst snd]. split; [exact F|].
  apply dec_tag_sound in Hd. destruct Hd as (p & -> & Ht).
  apply parse_val_sound in Ep. destruct Ep as (val & -> & Hv).
  rewrite !app_length, !Nat.add_sub, !firstn_app, !Nat.sub_diag, !firstn_all, !firstn_O, !app_nil_r.
  now constructor.
Qed.

Lemma fsd_whole (ds df : msg_dec_t) tid payload old old' :
  fsd_dec_rel ds df -> fsd_acc_rel old old' ->
  fsd_res_rel fsd_acc_rel (msg_whole ds tid payload old) (msg_whole df tid payload old').
Proof.
  intros Hd Ho. unfold msg_whole. pose proof (Hd tid 0 (x00 :: payload) payload old old' Ho) as H.
  unfold fsd_res_rel in *. destruct (ds tid 0 (x00 :: payload) payload old) as [[m r]|e],
    (df tid 0 (x00 :: payload) payload old') as [[m' r']|e']; try contradiction; [|exact H].
  destruct H as [H _]. exact H.
Qed.

Lemma fsd_store_scalar md fd (c : card) s fa fb :
  fsd_fields_rel fa fb ->
  fsd_fields_rel (if card_repeated c then msg_append_field fd [VS s] fa else msg_set_field md fd (VS s) fa)
                 (if card_repeated c then msg_append_field fd [VS s] fb else msg_set_field md fd (VS s) fb).
Proof.
  intros F. destruct (card_repeated c).
  - apply fsd_append_field; [|exact F]. constructor; [constructor|constructor].
  - apply fsd_set_field; [constructor|exact F].
Qed.

Lemma fsd_dec_packed_scalars sk : forall g bs acc vs,
  msg_dec_packed g sk bs acc = DOk vs -> Forall (fun v => exists s, v = VS s) acc ->
  Forall (fun v => exists s, v = VS s) vs.
Proof.
  induction g as [|x g IH]; intros bs acc vs H Hacc; cbn [msg_dec_packed] in H; [discriminate|].
  destruct bs as [|b0 bs0].
  - inversion H; subst. apply Forall_rev. exact Hacc.
  - destruct (parse_val 0 1 (sk_wt sk) (b0 :: bs0)) as [[w r]|e]; [|discriminate].
    destruct (sk_dec sk w) as [s|]; [|discriminate].
    eapply IH; [exact H|]. constructor; [now exists s|exact Hacc].
Qed.

Section StepRel.
  Variable md : mdesc.
  Hypothesis md_ok : forall num fd, msg_find_field md num = Some fd ->
    (forall t, f_kind fd <> KGrp t) /\ msg_field_utf8 true fd = msg_field_utf8 false fd.
  Variables ds df : msg_dec_t.
  Hypothesis Hd : fsd_dec_rel ds df.
  Variables ds2 df2 : option msg_dec_t.
  Hypothesis Hd2 : match ds2, df2 with
                   | Some a, Some b => fsd_dec_rel a b
                   | None, None => True
                   | _, _ => False
                   end.

  Lemma fsd_step bs num typ r a_s a_f :
    dec_tag bs = Ok (num, typ, r) -> fsd_acc_rel a_s a_f ->
    fsd_res_rel fsd_out_rel
      (msg_step true md ds ds2 (firstn (length bs - length r) bs) num typ r a_s)
      (msg_step false md df df2 (enc_tag num typ) num typ r a_f).
  Proof.
    intros Hdt Ha. pose proof (fsd_unknown _ _ _ _ _ _ Hdt Ha) as HU. destruct Ha as [F U].
    unfold msg_step. destruct (msg_find_field md num) as [fd|] eqn:Ef; [|exact HU].
    destruct (md_ok _ _ Ef) as [Hng Hutf].
    assert (forall c : card,
      fsd_res_rel fsd_out_rel
        (match f_kind fd with
         | KMsg tid =>
           if typ =? 2 then
             match dec_bytes r with
             | Err _ => DErr DParse
             | Ok (payload, r') =>
               match msg_whole ds tid payload (msg_old_sub fd (fst a_s)) with
               | DErr e => DErr e
               | DOk m => DOk ((msg_store_sub md fd m (fst a_s), snd a_s), r')
               end
             end
           else msg_unknown (firstn (length bs - length r) bs) num typ r a_s
         | KGrp tid =>
           if typ =? 3 then
             if true then
               match consume_group num r with
               | Err _ => DErr DParse
               | Ok (None, _) => DErr DFuel
               | Ok (Some content, n) =>
                 match msg_whole ds tid content (msg_old_sub fd (fst a_s)) with
                 | DErr e => DErr e
                 | DOk m => DOk ((msg_store_sub md fd m (fst a_s), snd a_s), skipn (N.to_nat n) r)
                 end
               end
             else
               match ds tid num (x00 :: r) r (msg_old_sub fd (fst a_s)) with
               | DErr e => DErr e
               | DOk (m, r') => DOk ((msg_store_sub md fd m (fst a_s), snd a_s), r')
               end
           else msg_unknown (firstn (length bs - length r) bs) num typ r a_s
         | KS sk =>
           if typ =? sk_wt sk then
             match parse_val 0 num typ r with
             | Err _ => DErr DParse
             | Ok (w, r') =>
               match msg_dec_scalar sk (msg_field_utf8 true fd) w with
               | None => msg_unknown (firstn (length bs - length r) bs) num typ r a_s
               | Some (DErr e) => DErr e
               | Some (DOk s) =>
                 DOk ((if card_repeated c then msg_append_field fd [VS s] (fst a_s)
                       else msg_set_field md fd (VS s) (fst a_s), snd a_s), r')
               end
             end
           else if (typ =? 2) && msg_packable sk && card_repeated c then
             match dec_bytes r with
             | Err _ => DErr DParse
             | Ok (payload, r') =>
               match msg_dec_packed (x00 :: payload) sk payload [] with
               | DErr e => DErr e
               | DOk vs => DOk ((msg_append_field fd vs (fst a_s), snd a_s), r')
               end
             end
           else msg_unknown (firstn (length bs - length r) bs) num typ r a_s
         end)
        (match f_kind fd with
         | KMsg tid =>
           if typ =? 2 then
             match dec_bytes r with
             | Err _ => DErr DParse
             | Ok (payload, r') =>
               match msg_whole df tid payload (msg_old_sub fd (fst a_f)) with
               | DErr e => DErr e
               | DOk m => DOk ((msg_store_sub md fd m (fst a_f), snd a_f), r')
               end
             end
           else msg_unknown (enc_tag num typ) num typ r a_f
         | KGrp tid =>
           if typ =? 3 then
             if false then
               match consume_group num r with
               | Err _ => DErr DParse
               | Ok (None, _) => DErr DFuel
               | Ok (Some content, n) =>
                 match msg_whole df tid content (msg_old_sub fd (fst a_f)) with
                 | DErr e => DErr e
                 | DOk m => DOk ((msg_store_sub md fd m (fst a_f), snd a_f), skipn (N.to_nat n) r)
                 end
               end
             else
               match df tid num (x00 :: r) r (msg_old_sub fd (fst a_f)) with
               | DErr e => DErr e
               | DOk (m, r') => DOk ((msg_store_sub md fd m (fst a_f), snd a_f), r')
               end
           else msg_unknown (enc_tag num typ) num typ r a_f
         | KS sk =>
           if typ =? sk_wt sk then
             match parse_val 0 num typ r with
             | Err _ => DErr DParse
             | Ok (w, r') =>
               match msg_dec_scalar sk (msg_field_utf8 false fd) w with
               | None => msg_unknown (enc_tag num typ) num typ r a_f
               | Some (DErr e) => DErr e
               | Some (DOk s) =>
                 DOk ((if card_repeated c then msg_append_field fd [VS s] (fst a_f)
                       else msg_set_field md fd (VS s) (fst a_f), snd a_f), r')
               end
             end
           else if (typ =? 2) && msg_packable sk && card_repeated c then
             match dec_bytes r with
             | Err _ => DErr DParse
             | Ok (payload, r') =>
               match msg_dec_packed (x00 :: payload) sk payload [] with
               | DErr e => DErr e
               | DOk vs => DOk ((msg_append_field fd vs (fst a_f), snd a_f), r')
               end
             end
           else msg_unknown (enc_tag num typ) num typ r a_f
         end)) as Hnonmap.
    { intros c. destruct (f_kind fd) as [sk|t|t] eqn:Ek; [| |exfalso; eapply Hng; reflexivity].
      - rewrite Hutf. destruct (typ =? sk_wt sk).
        + destruct (parse_val 0 num typ r) as [[w r']|e]; [|reflexivity].
          destruct (msg_dec_scalar sk (msg_field_utf8 false fd) w) as [[s|e]|]; [|reflexivity|exact HU].
          split; [|reflexivity]. split; [|exact U]. cbn [fst snd]. now apply fsd_store_scalar.
        + destruct ((typ =? 2) && msg_packable sk && card_repeated c); [|exact HU].
          destruct (dec_bytes r) as [[payload r']|e]; [|reflexivity].
          destruct (msg_dec_packed (x00 :: payload) sk payload []) as [vs|e] eqn:Edp; [|reflexivity].
          split; [|reflexivity]. split; [|exact U]. cbn [fst snd].
          apply fsd_append_field; [|exact F]. apply fsd_vals_scalars.
          eapply fsd_dec_packed_scalars; [exact Edp|constructor].
      - destruct (typ =? 2); [|exact HU].
        destruct (dec_bytes r) as [[payload r']|e]; [|reflexivity].
        pose proof (fsd_whole ds df t payload _ _ Hd (fsd_old_sub fd _ _ F)) as HW. unfold fsd_res_rel in *.
        destruct (msg_whole ds t payload (msg_old_sub fd (fst a_s))) as [m|e],
                 (msg_whole df t payload (msg_old_sub fd (fst a_f))) as [m'|e']; try contradiction; [|exact HW].
        split; [|reflexivity]. split; [|exact U]. cbn [fst snd]. now apply fsd_store_sub. }
    destruct (f_card fd) eqn:Ec; try apply Hnonmap.
    (* map *)
    destruct ds2 as [d2s|], df2 as [d2f|]; try contradiction; [|reflexivity].
    destruct (typ =? 2); [|exact HU].
    destruct (dec_bytes r) as [[payload r']|e]; [|reflexivity].
    set (dms := fun (p : list byte) (v : value) =>
                  match f_kind fd with
                  | KMsg tid => match msg_whole d2s tid p (msg_macc_of v) with
                                | DOk m => DOk (VMsg (fst m) (snd m)) | DErr e => DErr e end
                  | _ => DErr DSchema
                  end).
    set (dmf := fun (p : list byte) (v : value) =>
                  match f_kind fd with
                  | KMsg tid => match msg_whole d2f tid p (msg_macc_of v) with
                                | DOk m => DOk (VMsg (fst m) (snd m)) | DErr e => DErr e end
                  | _ => DErr DSchema
                  end).
    assert (forall p v v', fsd_val_rel v v' -> fsd_res_rel fsd_val_rel (dms p v) (dmf p v')) as HP.
    { intros p v v' V. unfold dms, dmf. destruct (f_kind fd) as [sk|t|t]; try reflexivity.
      pose proof (fsd_whole d2s d2f t p _ _ Hd2 (fsd_macc_of _ _ V)) as HW. unfold fsd_res_rel in *.
      destruct (msg_whole d2s t p (msg_macc_of v)) as [m|e], (msg_whole d2f t p (msg_macc_of v')) as [m'|e'];
        try contradiction; [|exact HW]. destruct HW. now constructor. }
    pose proof (fsd_dec_entry kk kutf8 (f_kind fd) (f_utf8 fd) dms dmf HP (x00 :: payload) payload (sk_zero kk) _ _
                              (fsd_entry_default (f_kind fd) vdef)) as HE.
    unfold fsd_res_rel in *.
    destruct (msg_dec_entry (x00 :: payload) kk kutf8 (f_kind fd) (f_utf8 fd) dms payload (sk_zero kk) (msg_entry_default (f_kind fd) vdef)) as [[key v]|e],
             (msg_dec_entry (x00 :: payload) kk kutf8 (f_kind fd) (f_utf8 fd) dmf payload (sk_zero kk) (msg_entry_default (f_kind fd) vdef)) as [[key' v']|e'];
      try contradiction; [|exact HE].
    destruct HE as [Ek Ev]. cbn [fst snd] in Ek, Ev. subst key'. split; [|reflexivity]. cbn [fst snd].
    split; [|exact U]. apply fsd_fset; [exact F|]. apply fsd_map_put; [now apply fsd_fget|exact Ev].
  Qed.
End StepRel.

(* ------------------------------------------------------------------ the tag loop *)
Definition fsd_md_ok (md : mdesc) : Prop :=
  forall num fd, msg_find_field md num = Some fd ->
    (forall t, f_kind fd <> KGrp t) /\ msg_field_utf8 true fd = msg_field_utf8 false fd.
Definition fsd_schema_ok (S : schema) : Prop := forall tid md, nth_error S tid = Some md -> fsd_md_ok md.

Lemma fsd_decode_msg_rel_le S : fsd_schema_ok S ->
  forall n d, (d <= n)%nat -> fsd_dec_rel (msg_decode_msg true S d) (msg_decode_msg false S d).
Proof.
  intros HS. induction n as [|n IHn]; intros d Hd.
  - assert (d = O) as -> by lia. intros tid grp g bs a_s a_f Ha. reflexivity.
  - destruct d as [|d]; [intros tid grp g bs a_s a_f Ha; reflexivity|].
    assert (fsd_dec_rel (msg_decode_msg true S d) (msg_decode_msg false S d)) as IH by (apply IHn; lia).
    assert (match msg_dsub2 true S d, msg_dsub2 false S d with
            | Some a, Some b => fsd_dec_rel a b
            | None, None => True
            | _, _ => False
            end) as IH2.
    { unfold msg_dsub2. destruct d as [|d1]; [exact I|]. apply IHn. lia. }
    intros tid grp g. destruct (nth_error S tid) as [md|] eqn:En.
    + induction g as [|x g IHg]; intros bs a_s a_f Ha.
      * cbn [msg_decode_msg]. rewrite En. reflexivity.
      * rewrite !(msg_dm_unfold _ _ _ _ _ _ _ _ _ _ En).
        destruct bs as [|b0 bs0]; [destruct (grp =? 0); [split; [exact Ha|reflexivity]|reflexivity]|].
        destruct (dec_tag (b0 :: bs0)) as [[[num typ] r]|e] eqn:Ed; [|reflexivity].
        destruct (msg_max_num <? num); [reflexivity|].
        destruct (typ =? 4); [destruct (num =? grp); [split; [exact Ha|reflexivity]|reflexivity]|].
        cbv zeta iota.
        pose proof (fsd_step md (HS _ _ En) _ _ IH _ _ IH2 _ _ _ _ _ _ Ed Ha) as HSt.
        unfold fsd_res_rel in HSt |- *.
        destruct (msg_step true md (msg_decode_msg true S d) (msg_dsub2 true S d)
                           (firstn (length (b0 :: bs0) - length r) (b0 :: bs0)) num typ r a_s) as [[a1 r1]|e1],
                 (msg_step false md (msg_decode_msg false S d) (msg_dsub2 false S d) (enc_tag num typ) num typ r a_f) as [[a2 r2]|e2];
          try contradiction; [|exact HSt].
        destruct HSt as [Ha' Er]. cbn [fst snd] in Ha', Er. subst r2. now apply IHg.
    + intros bs a_s a_f Ha. cbn [msg_decode_msg]. rewrite En. reflexivity.
Qed.

Theorem fsd_decode_msg_rel S dep : fsd_schema_ok S ->
  fsd_dec_rel (msg_decode_msg true S dep) (msg_decode_msg false S dep).
Proof. intros HS. apply (fsd_decode_msg_rel_le S HS dep dep). lia. Qed.

(* ------------------------------------------------------------------ the relation is normalisation *)
Lemma fsd_unk_rel_chunks u u' :
  fsd_unk_rel u u' -> exists cs, Forall fsm_chunk_ok cs /\ u = fsm_flat_raw cs /\ u' = fsm_flat_min cs.
Proof.
  induction 1 as [|u u' raw num typ val H [cs [Hc [E1 E2]]] Ht Hv].
  - exists []. repeat split. constructor.
  - exists (cs ++ [mkChunk num typ raw val]). split; [|split].
    + apply Forall_app. split; [exact Hc|]. constructor; [split; assumption|constructor].
    + unfold fsm_flat_raw in *. rewrite map_app, concat_app. cbn [map concat fc_rawtag fc_val]. now rewrite app_nil_r, E1.
    + unfold fsm_flat_min in *. rewrite map_app, concat_app. cbn [map concat fc_num fc_typ fc_val]. now rewrite app_nil_r, E2.
Qed.

Lemma fsd_unk_rel_normalize u u' : fsd_unk_rel u u' -> fsm_normalize_unknown_tags u = u'.
Proof. intros H. destruct (fsd_unk_rel_chunks _ _ H) as [cs [Hc [-> ->]]]. now apply fsm_normalize_raw_to_min. Qed.

Lemma fsd_val_rel_normalize : forall v v', fsd_val_rel v v' -> fsm_normalize v = v'.
Proof.
  induction v as [s|fs unk IH|k x IH] using msg_value_ind; intros v' H; inversion H; subst; cbn [fsm_normalize].
  - reflexivity.
  - rewrite (fsd_unk_rel_normalize _ _ H2). f_equal.
    clear H H2. revert fb H4. induction fs as [|p r IHr]; intros fb HF; inversion HF; subst; cbn [map]; [reflexivity|].
    inversion IH as [|? ? IHp IHrest]; subst. f_equal; [|now apply IHr].
    destruct H1 as [E V]. destruct p as [n vs], y as [n' vs']. cbn [fst snd] in *. subst n'. f_equal.
    clear -IHp V. revert vs' V. induction vs as [|a t IHt]; intros vs' V; inversion V; subst; cbn [map]; [reflexivity|].
    inversion IHp as [|? ? Ha Ht']; subst. f_equal; [now apply Ha|now apply IHt].
  - f_equal. now apply IH.
Qed.

(* C08: same verdict; equal decoded messages modulo the normalisation of unknown-field tags *)
Theorem fsd_decode_equal S limit tid bs : fsd_schema_ok S ->
  fsd_res_rel (fun v_slow v_fast => fsm_normalize v_slow = v_fast)
              (msg_decode true S limit tid bs) (msg_decode false S limit tid bs).
Proof.
  intros HS. unfold msg_decode, msg_decode_into.
  pose proof (fsd_decode_msg_rel S limit HS tid 0 (x00 :: bs) bs _ _ (fsd_macc_of _ _ fsd_val_empty)) as H.
  unfold fsd_res_rel in *.
  destruct (msg_decode_msg true S limit tid 0 (x00 :: bs) bs (msg_macc_of msg_empty)) as [[m r]|e],
           (msg_decode_msg false S limit tid 0 (x00 :: bs) bs (msg_macc_of msg_empty)) as [[m' r']|e'];
    try contradiction; [|exact H].
  destruct H as [[F U] _]. apply fsd_val_rel_normalize. now constructor.
Qed.

(* a decidable sufficient condition for [fsd_schema_ok] *)
Definition fsd_fd_okb (fd : fdesc) : bool :=
  match f_kind fd with KGrp _ => false | _ => true end &&
  Bool.eqb (msg_field_utf8 true fd) (msg_field_utf8 false fd).
Definition fsd_schema_okb (S : schema) : bool := forallb (forallb fsd_fd_okb) S.

Lemma fsd_find_in md num fd : msg_find_field md num = Some fd -> In fd md.
Proof.
  induction md as [|f r IH]; cbn [msg_find_field]; [discriminate|].
  destruct (f_num f =? num); [intros [= ->]; now left|intros H; right; now apply IH].
Qed.

Lemma fsd_schema_okb_ok S : fsd_schema_okb S = true -> fsd_schema_ok S.
Proof.
  unfold fsd_schema_okb. rewrite forallb_forall. intros H tid md En num fd Ef.
  apply nth_error_In in En. specialize (H _ En). rewrite forallb_forall in H.
  specialize (H _ (fsd_find_in _ _ _ Ef)). unfold fsd_fd_okb in H. apply andb_true_iff in H. destruct H as [H1 H2].
  split; [|now apply Bool.eqb_prop].
  intros t E. rewrite E in H1. discriminate.
Qed.
