(* MsgEnc — deterministic binary encoder and size function of the message codec model.
   Definitions only.

   Mirrors internal/impl/encode.go (marshalAppendPointer: extensions sorted by number,
   then orderedCoderFields, which is order.LegacyFieldOrder as soon as the message has a
   oneof and field-number order otherwise — the same order —, then unknown bytes) and
   proto/encode.go (marshalMessageSlow with order.LegacyFieldOrder).  Map entries are
   emitted in the order of the canonical value, i.e. sorted by key (Deterministic).

   API
     msg_enc_body S tid v : list byte   body (no tag, no length) of message value v of type tid
     msg_encode S tid v                 = msg_enc_body: what Marshal returns for a top-level message
     msg_enc_field eb fd vs             one field with all its values (eb encodes sub-message bodies)
     msg_size_body S tid v : N          proto.Size, computed from closed forms, never from the bytes
     msg_chunk_sort                     stable insertion sort of (key, bytes) chunks
     msg_enc_utf8_ok slow S tid v : bool  false when Marshal reports invalid UTF-8 *)
From Coq Require Import List NArith ZArith Bool.
From PB Require Import Base.PBytes Wire.WireModel Msg.MsgSchema Msg.MsgValue Msg.MsgUtf8.
Import ListNotations.
Open Scope N_scope.

(* ---------- chunk ordering ---------- *)
Fixpoint msg_chunk_insert {A} (c : N * A) (l : list (N * A)) : list (N * A) :=
  match l with
  | [] => [c]
  | d :: r => if fst d <=? fst c then d :: msg_chunk_insert c r else c :: l
  end.
Fixpoint msg_chunk_sort {A} (l : list (N * A)) : list (N * A) :=
  match l with
  | [] => []
  | c :: r => msg_chunk_insert c (msg_chunk_sort r)
  end.

(* ---------- bytes ---------- *)
Definition msg_enc_scalar (sk : skind) (s : scalar) : list byte := render_val 0 (sk_enc sk s).

Definition msg_enc_key (kk : skind) (key : scalar) : list byte :=
  enc_tag 1 (sk_wt kk) ++ msg_enc_scalar kk key.

Section FieldEnc.
  Variable eb : nat -> value -> list byte.

  (* tag + value of one element *)
  Definition msg_enc_elem (num : N) (k : kind) (v : value) : list byte :=
    match k, v with
    | KS sk, VS s => enc_tag num (sk_wt sk) ++ msg_enc_scalar sk s
    | KMsg tid, VMsg _ _ => enc_tag num 2 ++ enc_bytes (eb tid v)
    | KGrp tid, VMsg _ _ => enc_tag num 3 ++ eb tid v ++ enc_tag num 4
    | _, _ => []
    end.

  Definition msg_enc_entry (num : N) (kk : skind) (vk : kind) (e : value) : list byte :=
    match e with
    | VEntry key v => enc_tag num 2 ++ enc_bytes (msg_enc_key kk key ++ msg_enc_elem 2 vk v)
    | _ => []
    end.

  Definition msg_enc_packed_payload (sk : skind) (vs : list value) : list byte :=
    flat_map (fun v => match v with VS s => msg_enc_scalar sk s | _ => [] end) vs.

  Definition msg_enc_field (fd : fdesc) (vs : list value) : list byte :=
    match f_card fd with
    | CMap kk _ _ => flat_map (fun e => msg_enc_entry (f_num fd) kk (f_kind fd) e) vs
    | CPacked =>
      match f_kind fd, vs with
      | KS sk, _ :: _ =>
        if msg_packable sk then enc_tag (f_num fd) 2 ++ enc_bytes (msg_enc_packed_payload sk vs)
        else flat_map (fun e => msg_enc_elem (f_num fd) (f_kind fd) e) vs
      | _, _ => flat_map (fun e => msg_enc_elem (f_num fd) (f_kind fd) e) vs
      end
    | _ => flat_map (fun e => msg_enc_elem (f_num fd) (f_kind fd) e) vs
    end.

  Definition msg_enc_chunk (md : mdesc) (p : N * list value) : N * list byte :=
    match msg_find_field md (fst p) with
    | Some fd => (msg_legacy_key fd, msg_enc_field fd (snd p))
    | None => (0, [])
    end.
End FieldEnc.

Fixpoint msg_enc_body (S : schema) (tid : nat) (v : value) {struct v} : list byte :=
  match v with
  | VMsg fs unk =>
    concat (map snd (msg_chunk_sort (map (fun p => msg_enc_chunk (msg_enc_body S) (nth tid S []) p) fs))) ++ unk
  | _ => []
  end.

Definition msg_encode (S : schema) (tid : nat) (v : value) : list byte := msg_enc_body S tid v.

(* ---------- sizes ---------- *)
Definition msg_size_scalar (sk : skind) (s : scalar) : N :=
  match sk_enc sk s with
  | WVarint x => size_varint x
  | WFixed32 _ => 4
  | WFixed64 _ => 8
  | WLen b => size_bytes (N.of_nat (length b))
  | WGroup _ => 0
  end.

Definition msg_sum (l : list N) : N := fold_right N.add 0 l.

Definition msg_size_key (kk : skind) (key : scalar) : N := size_tag 1 + msg_size_scalar kk key.

Section FieldSize.
  Variable sb : nat -> value -> N.

  Definition msg_size_elem (num : N) (k : kind) (v : value) : N :=
    match k, v with
    | KS sk, VS s => size_tag num + msg_size_scalar sk s
    | KMsg tid, VMsg _ _ => size_tag num + size_bytes (sb tid v)
    | KGrp tid, VMsg _ _ => size_tag num + sb tid v + size_tag num
    | _, _ => 0
    end.

  Definition msg_size_entry (num : N) (kk : skind) (vk : kind) (e : value) : N :=
    match e with
    | VEntry key v => size_tag num + size_bytes (msg_size_key kk key + msg_size_elem 2 vk v)
    | _ => 0
    end.

  Definition msg_size_packed_payload (sk : skind) (vs : list value) : N :=
    msg_sum (map (fun v => match v with VS s => msg_size_scalar sk s | _ => 0 end) vs).

  Definition msg_size_field (fd : fdesc) (vs : list value) : N :=
    match f_card fd with
    | CMap kk _ _ => msg_sum (map (msg_size_entry (f_num fd) kk (f_kind fd)) vs)
    | CPacked =>
      match f_kind fd, vs with
      | KS sk, _ :: _ =>
        if msg_packable sk then size_tag (f_num fd) + size_bytes (msg_size_packed_payload sk vs)
        else msg_sum (map (msg_size_elem (f_num fd) (f_kind fd)) vs)
      | _, _ => msg_sum (map (msg_size_elem (f_num fd) (f_kind fd)) vs)
      end
    | _ => msg_sum (map (msg_size_elem (f_num fd) (f_kind fd)) vs)
    end.

  Definition msg_size_chunk (md : mdesc) (p : N * list value) : N :=
    match msg_find_field md (fst p) with
    | Some fd => msg_size_field fd (snd p)
    | None => 0
    end.
End FieldSize.

Fixpoint msg_size_body (S : schema) (tid : nat) (v : value) {struct v} : N :=
  match v with
  | VMsg fs unk =>
    msg_sum (map (msg_size_chunk (msg_size_body S) (nth tid S [])) fs) + N.of_nat (length unk)
  | _ => 0
  end.

(* ---------- Marshal's UTF-8 check ---------- *)
Definition msg_str_ok (sk : skind) (utf8 : bool) (v : value) : bool :=
  match sk, v with
  | SkString, VS (SBy b) => negb utf8 || msg_utf8_valid b
  | _, _ => true
  end.

Section FieldUtf8.
  Variable slow : bool.
  Variable ub : nat -> value -> bool.
  Definition msg_utf8_elem (k : kind) (utf8 : bool) (v : value) : bool :=
    match k with
    | KS sk => msg_str_ok sk utf8 v
    | KMsg tid | KGrp tid => ub tid v
    end.
  Definition msg_utf8_field (fd : fdesc) (vs : list value) : bool :=
    match f_card fd with
    | CMap kk kutf8 _ =>
      forallb (fun e => match e with
                        | VEntry key v => msg_str_ok kk kutf8 (VS key) && msg_utf8_elem (f_kind fd) (f_utf8 fd) v
                        | _ => true end) vs
    | _ => forallb (msg_utf8_elem (f_kind fd) (msg_field_utf8 slow fd)) vs
    end.
  Definition msg_utf8_chunk (md : mdesc) (p : N * list value) : bool :=
    match msg_find_field md (fst p) with
    | Some fd => msg_utf8_field fd (snd p)
    | None => true
    end.
End FieldUtf8.

Fixpoint msg_enc_utf8_ok (slow : bool) (S : schema) (tid : nat) (v : value) {struct v} : bool :=
  match v with
  | VMsg fs _ => forallb (msg_utf8_chunk slow (msg_enc_utf8_ok slow S) (nth tid S [])) fs
  | _ => true
  end.

(* MarshalAppend: the encoding is appended to the caller's bytes *)
Definition msg_marshal_append (prefix : list byte) (S : schema) (tid : nat) (v : value) : list byte :=
  prefix ++ msg_encode S tid v.

(* ---------- the speculative length prefix of the reflection encoder (proto/encode.go) ----------
   appendSpeculativeLength sets one byte aside; after the body has been appended,
   finishSpeculativeLength grows the buffer by SizeVarint(len)-1 bytes, moves the body up
   (copy), and writes the length in place (AppendVarint into b[:pos]). *)
Definition msg_append_spec (b : list byte) : list byte * nat := (b ++ [x00], length b).

(* in-place write of [src] at offset [pos] (the buffer is long enough) *)
Definition msg_overwrite (b : list byte) (pos : nat) (src : list byte) : list byte :=
  firstn pos b ++ src ++ skipn (pos + length src) b.

Definition msg_finish_spec (b : list byte) (pos : nat) : list byte :=
  let mlen := (length b - pos - 1)%nat in
  let msiz := N.to_nat (size_varint (N.of_nat mlen)) in
  let b1 := if Nat.eqb msiz 1 then b
            else let ext := b ++ repeat x00 (msiz - 1) in
                 msg_overwrite ext (pos + msiz) (firstn mlen (skipn (pos + 1) ext)) in
  msg_overwrite b1 pos (enc_varint (N.of_nat mlen)).
