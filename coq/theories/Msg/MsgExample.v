(* MsgExample — a small schema table and a message using most constructors; the non-vacuity
   witness of the C03/C04 theorems.  Definitions only. *)
From Coq Require Import List NArith ZArith Bool.
From PB Require Import Base.PBytes Wire.WireModel Msg.MsgSchema Msg.MsgValue.
Import ListNotations.
Open Scope N_scope.

Definition ex_fd num k c o utf8 ext := mkF num k c o utf8 ext false.

(* type 0: all shapes; type 1: a small message that refers back to type 0 *)
Definition ex_T0 : mdesc :=
  [ ex_fd 1 (KS SkInt32) COpt None false false;
    ex_fd 2 (KS SkString) CImp None true false;
    ex_fd 3 (KS SkSint64) CPacked None false false;
    ex_fd 4 (KS SkFixed32) CRep None false false;
    ex_fd 5 (KMsg 1) (CMap SkString true 0) None false false;
    ex_fd 6 (KMsg 1) COpt None false false;
    ex_fd 7 (KGrp 1) CRep None false false;
    ex_fd 9 (KS SkBool) COpt (Some 0) false false;
    ex_fd 8 (KS SkBytes) COpt (Some 0) false false;
    ex_fd 10 (KS SkDouble) CReq None false false;
    ex_fd 11 (KS SkEnum) COpt None false false;
    ex_fd 12 (KS SkEnum) (CMap SkInt32 false 1) None false false;
    ex_fd 100 (KS SkUint64) COpt None false true ].
Definition ex_T1 : mdesc :=
  [ ex_fd 1 (KS SkUint32) COpt None false false;
    ex_fd 2 (KMsg 0) COpt None false false ].
Definition ex_schema : schema := [ex_T0; ex_T1].

Definition ex_sub : value := VMsg [(1, [VS (SN 300)])] [].
Definition ex_inner : value := VMsg [(1, [VS (SZ (-1))]); (10, [VS (SN 0)])] [].
Definition ex_msg : value :=
  VMsg [ (1, [VS (SZ (-2147483648))]);
         (2, [VS (SBy [x68; x69])]);
         (3, [VS (SZ (-1)); VS (SZ 9223372036854775807)]);
         (4, [VS (SN 4294967295); VS (SN 0)]);
         (5, [VEntry (SBy []) msg_empty; VEntry (SBy [x61]) ex_sub]);
         (6, [VMsg [(2, [ex_inner])] []]);
         (7, [ex_sub; msg_empty]);
         (8, [VS (SBy [])]);
         (10, [VS (SN 9221120237041090561)]);       (* a NaN with payload *)
         (11, [VS (SZ (-5))]);
         (12, [VEntry (SZ (-7)) (VS (SZ 1)); VEntry (SZ 3) (VS (SZ 0))]);
         (100, [VS (SN 18446744073709551615)]) ]
       [x98; x06; x07; xa5; x06; x01; x02; x03; x04].   (* unknown: 99:varint 7, 100:fixed32 *)

(* Witness of finding FB3: a known group field whose value carries, as unknown bytes, a group
   nested [n] deep.  n = 10001 is accepted wherever the wire scanner starts afresh
   (ConsumeFieldValue allows nesting 10001), but protowire.ConsumeGroup over the enclosing known
   group has one level less left. *)
Definition fb3_schema : schema := [ [mkF 1 (KGrp 1) COpt None false false false]; [] ].
Definition fb3_unknown (n : nat) : list byte :=
  concat (repeat [xc3; x3e] n) ++ concat (repeat [xc4; x3e] n).   (* field 1000: start / end group *)
Definition fb3_msg (n : nat) : value := VMsg [(1, [VMsg [] (fb3_unknown n)])] [].
