(* AliasModel — provenance of every byte region reachable from a message (C14).  Definitions only.

   A region is either storage the message owns ([ROwn], freshly allocated by the operation that
   created it) or a VIEW of memory somebody else can still write: the caller's input buffer
   ([RInput buf off len]) or the storage of another message ([RShared src off len]).
   The operations are modelled with the copy decisions of the code:

     decode     internal/impl/codec_gen.go consumeBytes*: append(emptyBuf[:], v...)      -> ROwn
                unknown fields: appended to the message's own slice                     -> ROwn
                internal/impl/lazy.go unmarshalPointerLazy: a message type with lazy fields
                keeps its whole buffer: b = append([]byte{}, b...) unless AliasBuffer, and sets
                AliasBuffer for the nested calls (which then view the private copy)     -> ROwn
                with UnmarshalAliasBuffer (internal flag): the lazy fields view the input -> RInput
     clone      proto.Clone / mergeOptions: cloneBytes, append(nil, unknown...), lazily held
                sub-messages are unmarshalled and merged                                -> ROwn
     merge      proto.Merge(dst, src): everything taken from src is copied              -> ROwn
     protodelim UnmarshalFrom: Peek(size) is a view of the bufio buffer, which is then
                handed to Unmarshal WITHOUT the alias flag                              -> decode

   [layout] is the parsed shape of an input (offsets into the buffer being parsed); parsing itself
   is C03/C05, only what is retained matters here.
   [obs ext m] reads every region (views through the external memory [ext]). *)
From Coq Require Import List NArith Bool.
From PB Require Import Base.PBytes.
Import ListNotations.

Inductive region :=
| ROwn (b : list byte)
| RInput (buf off len : nat)
| RShared (src off len : nat).

(* external memory: what the caller can write after the operation returned *)
Record extmem := mkExt { ext_input : nat -> list byte; ext_shared : nat -> list byte }.

Definition alias_slice (data : list byte) (off len : nat) : list byte := firstn len (skipn off data).

Definition alias_read (ext : extmem) (r : region) : list byte :=
  match r with
  | ROwn b => b
  | RInput buf off len => alias_slice (ext_input ext buf) off len
  | RShared src off len => alias_slice (ext_shared ext src) off len
  end.

Definition region_fresh (r : region) : bool := match r with ROwn _ => true | _ => false end.

(* a message: bytes-like fields, lazily retained sub-message encodings, sub-messages, unknown bytes *)
Inductive anode :=
| NBytes (num : N) (r : region)
| NLazy (num : N) (r : region)
| NMsg (num : N) (kids : list anode) (unk : region).

Fixpoint node_fresh (n : anode) : bool :=
  match n with
  | NBytes _ r | NLazy _ r => region_fresh r
  | NMsg _ kids unk => forallb node_fresh kids && region_fresh unk
  end.

(* the observation: all bytes, in place *)
Inductive otree := OLeaf (num : N) (b : list byte) | ONode (num : N) (kids : list otree) (unk : list byte).

Fixpoint alias_obs (ext : extmem) (n : anode) : otree :=
  match n with
  | NBytes num r | NLazy num r => OLeaf num (alias_read ext r)
  | NMsg num kids unk => ONode num (map (alias_obs ext) kids) (alias_read ext unk)
  end.

(* ---------- the parsed shape of an input ---------- *)
Inductive litem :=
| LBytes (num : N) (off len : nat)
| LUnknown (off len : nat)
| LSub (num : N) (lazyfield : bool) (off len : nat) (items : list litem).

Definition is_lazy_item (it : litem) : bool :=
  match it with LSub _ lz _ _ _ => lz | _ => false end.

(* decoding one item of the message being parsed from buffer [data];
   origin = Some n: [data] is the caller's buffer n; None: a private copy made by a lazy parent.
   Returns the nodes of the item and the unknown bytes it contributes. *)
Fixpoint dec_item (alias lazyon : bool) (origin : option nat) (data : list byte) (it : litem) {struct it}
    : list anode * list byte :=
  match it with
  | LBytes num off len => ([NBytes num (ROwn (alias_slice data off len))], [])
  | LUnknown off len => ([], alias_slice data off len)
  | LSub num lz off len items =>
    if lz && lazyon then
      ([NLazy num match origin with
                  | Some n => RInput n off len
                  | None => ROwn (alias_slice data off len)
                  end], [])
    else
      let haslazy := existsb is_lazy_item items && lazyon in
      let origin' := if haslazy && negb alias then None else origin in    (* b = append([]byte{}, b...) *)
      let alias' := alias || haslazy in                                   (* flags |= UnmarshalAliasBuffer *)
      let rs := map (dec_item alias' lazyon origin' data) items in
      ([NMsg num (flat_map fst rs) (ROwn (flat_map snd rs))], [])
  end.

(* Unmarshal(b, m): the top-level message *)
Definition alias_decode (alias lazyon : bool) (buf : nat) (ext : extmem) (items : list litem) : anode :=
  match dec_item alias lazyon (Some buf) (ext_input ext buf) (LSub 0%N false 0 0 items) with
  | (n :: _, _) => n
  | ([], _) => NMsg 0%N [] (ROwn [])
  end.

(* proto.Clone: every region is copied *)
Fixpoint alias_clone (ext : extmem) (n : anode) : anode :=
  match n with
  | NBytes num r => NBytes num (ROwn (alias_read ext r))
  | NLazy num r => NLazy num (ROwn (alias_read ext r))
  | NMsg num kids unk => NMsg num (map (alias_clone ext) kids) (ROwn (alias_read ext unk))
  end.

(* proto.Merge(dst, src): what comes from src is copied; dst keeps what it had *)
Definition alias_merge (ext : extmem) (dst src : anode) : anode :=
  match dst, src with
  | NMsg num dk du, NMsg _ sk su =>
    NMsg num (dk ++ map (alias_clone ext) sk) (ROwn (alias_read ext du ++ alias_read ext su))
  | _, _ => dst
  end.

(* protodelim.UnmarshalFrom with a *bufio.Reader: Peek(size) views the reader's buffer [rbuf];
   the bytes are decoded with the caller's options, which cannot carry the internal alias flag *)
Definition alias_delim_read (lazyon : bool) (rbuf : nat) (ext : extmem) (items : list litem) : anode :=
  alias_decode false lazyon rbuf ext items.
