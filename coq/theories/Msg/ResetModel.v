(* Model of the state of one message as far as ERASURE is concerned (C15):
   what proto.Reset and proto.Unmarshal (without Merge) have to wipe.
   Definitions only (proofs: Msg/ResetP.v).

   Anchors:
     proto/reset.go            Reset (generated Reset method, else resetMessage)
     proto/decode.go           UnmarshalOptions.unmarshal (Reset unless Merge, then the merge decoder)
     proto/merge.go, internal/impl/merge.go              proto.Merge
     internal/impl/message_reflect_field.go              open-struct field accessors (has/clear/set/mutable)
     internal/impl/message_opaque.go                     opaque accessors (presence bits, lazy message fields)
     internal/impl/lazy.go  unmarshalPointerLazy         (lazy decode only into a message without presence bits,
                                                          buffer set at the start, index only at successful end)
     internal/impl/decode.go unmarshalPointerEager, internal/impl/codec_field.go consumeMessageInfo
     internal/impl/encode.go sizePointerSlow             (size cache store; Deterministic forces lazy fields)
     internal/impl/message_reflect.go extensionMap, types/dynamicpb/dynamic.go (Reset, Clear, Range)
     generated code: func (x *T) Reset() { *x = T{}; ... }  for open, hybrid and opaque messages

   Contents are abstract: a value is an identifier [N]; a message value is the
   list of identifiers of everything merged into it (merge = concatenation, as
   for wire bytes); a list / map is the list of its elements.  A field is
   described by its number and its CLASS, which fixes the Go representation:

     SP  scalar with explicit presence (open: pointer / non-nil bytes; opaque: presence bit + value)
     SI  scalar with implicit presence (stored directly; populated iff non-zero)
     M   singular message (pointer)
     ML  singular message that is lazy in an opaque message (presence bit + pointer,
         pointer nil while the field still lives in the lazy buffer)
     L   repeated scalar, or repeated message of an open struct (slice)
     LO  repeated message of an opaque struct (pointer to slice; Clear keeps the pointer)
     MP  map
     OO  member of a real oneof (group [fgrp]; one interface cell per group) *)
From Coq Require Import List NArith Bool Arith.
From PB Require Import Base.PBytes.
Import ListNotations.
Open Scope N_scope.

Inductive flavour := Open | Opaque | Dyn.
Inductive cls := SP | SI | M | ML | L | LO | MP | OO.

Record fld := mkFld { fnum : N; fcls : cls; fgrp : N }.

(* build configuration and message type *)
Record cfg := mkCfg {
  flav : flavour;
  fast : bool;      (* package proto uses the generated methods (false: -tags protoreflect) *)
  haslazy : bool    (* the struct has XXX_lazyUnmarshalInfo (opaque message with a lazy field) *)
}.

(* one Go storage cell *)
Inductive cell :=
| CZero                          (* the Go zero value: nil pointer / slice / map, 0, "" *)
| CScalar (nz : bool) (v : N)    (* a scalar was stored; nz = it differs from the zero value *)
| CMsg (body : list N)           (* non-nil message pointer *)
| CSeq (elems : list N).         (* allocated slice / map / *[]*T, possibly empty *)

Inductive xcell :=
| XVal (islist : bool) (elems : list N).

Record lazyinfo := mkLazy {
  lbuf : list (N * N);            (* retained input: (field number, value) of each wire item *)
  lgood : bool;                   (* the retained input parses to its end (buildIndex succeeds) *)
  lidx : option (list (N * nat))  (* index: (field number, position in lbuf); None = not built *)
}.

Record state := mkState {
  cells : N -> cell;                   (* field number |-> cell (all classes but OO) *)
  oneofs : N -> option (N * cell);     (* oneof group |-> active member and its value *)
  pres : list N;                       (* opaque: field numbers whose presence bit is set *)
  lazy : option lazyinfo;              (* XXX_lazyUnmarshalInfo *)
  exts : list (N * xcell);             (* extension map *)
  unk : list byte;                     (* unknown fields *)
  szc : bool                           (* the sizecache cell is non-zero *)
}.

Definition init : state :=
  mkState (fun _ => CZero) (fun _ => None) [] None [] [] false.

(* ---------- small helpers ---------- *)
Definition memN (n : N) (l : list N) : bool := existsb (N.eqb n) l.
Definition addN (n : N) (l : list N) : list N := if memN n l then l else n :: l.
Definition delN (n : N) (l : list N) : list N := filter (fun k => negb (N.eqb n k)) l.

Definition seqN (v : N) (cnt : nat) : list N := map (fun i => v + N.of_nat i) (seq 0 cnt).

Definition sc (nz : bool) (v : N) : cell := CScalar nz (if nz then v else 0).

Definition is_oo (c : cls) : bool := match c with OO => true | _ => false end.
Definition has_bit (c : cls) : bool := match c with SP | ML => true | _ => false end.

Fixpoint xget (n : N) (l : list (N * xcell)) : option xcell :=
  match l with
  | [] => None
  | (k, x) :: r => if N.eqb n k then Some x else xget n r
  end.
Definition xdel (n : N) (l : list (N * xcell)) : list (N * xcell) :=
  filter (fun kx => negb (N.eqb n (fst kx))) l.
Definition xput (n : N) (x : xcell) (l : list (N * xcell)) : list (N * xcell) := (n, x) :: xdel n l.

(* ---------- primitive writes ---------- *)
Definition with_cells (s : state) (f : N -> cell) : state :=
  mkState f (oneofs s) (pres s) (lazy s) (exts s) (unk s) (szc s).
Definition with_oneofs (s : state) (o : N -> option (N * cell)) : state :=
  mkState (cells s) o (pres s) (lazy s) (exts s) (unk s) (szc s).
Definition with_pres (s : state) (p : list N) : state :=
  mkState (cells s) (oneofs s) p (lazy s) (exts s) (unk s) (szc s).
Definition with_lazy (s : state) (l : option lazyinfo) : state :=
  mkState (cells s) (oneofs s) (pres s) l (exts s) (unk s) (szc s).
Definition with_exts (s : state) (e : list (N * xcell)) : state :=
  mkState (cells s) (oneofs s) (pres s) (lazy s) e (unk s) (szc s).
Definition with_unk (s : state) (u : list byte) : state :=
  mkState (cells s) (oneofs s) (pres s) (lazy s) (exts s) u (szc s).
Definition with_szc (s : state) (b : bool) : state :=
  mkState (cells s) (oneofs s) (pres s) (lazy s) (exts s) (unk s) b.

(* the cell of a non-oneof field *)
Definition put (f : fld) (c : cell) (s : state) : state :=
  if is_oo (fcls f) then s
  else with_cells s (fun n => if N.eqb n (fnum f) then c else cells s n).
(* presence bits exist in opaque messages, for SP and ML fields *)
Definition pset (cf : cfg) (f : fld) (s : state) : state :=
  match flav cf with
  | Opaque => if has_bit (fcls f) then with_pres s (addN (fnum f) (pres s)) else s
  | _ => s
  end.
Definition pclr (f : fld) (s : state) : state :=
  if has_bit (fcls f) then with_pres s (delN (fnum f) (pres s)) else s.
Definition oput (f : fld) (c : cell) (s : state) : state :=
  if is_oo (fcls f)
  then with_oneofs s (fun g => if N.eqb g (fgrp f) then Some (fnum f, c) else oneofs s g)
  else s.
Definition oclr (f : fld) (s : state) : state :=
  if is_oo (fcls f)
  then match oneofs s (fgrp f) with
       | Some (n, _) => if N.eqb n (fnum f)
                        then with_oneofs s (fun g => if N.eqb g (fgrp f) then None else oneofs s g)
                        else s
       | None => s
       end
  else s.

Definition get (f : fld) (s : state) : cell := cells s (fnum f).
Definition present (f : fld) (s : state) : bool := memN (fnum f) (pres s).

(* ---------- the lazy buffer ---------- *)
Definition build_index (buf : list (N * N)) : list (N * nat) :=
  map (fun p => (fst (fst p), snd p)) (combine buf (seq 0 (length buf))).

(* lazyUnmarshal of field n: the entries of the index for n, decoded with
   unmarshalField (which keeps only occurrences of n).  A missing index is built
   from the buffer; if that is impossible Go panics: [None]. *)
Definition lazy_lookup (s : state) (n : N) : option (list N) :=
  match lazy s with
  | None => Some []
  | Some li =>
      let use idx :=
        flat_map (fun e : N * nat =>
                    if N.eqb (fst e) n
                    then match nth_error (lbuf li) (snd e) with
                         | Some (k, v) => if N.eqb k n then [v] else []
                         | None => []
                         end
                    else []) idx in
      match lidx li with
      | Some idx => Some (use idx)
      | None => if lgood li then Some (use (build_index (lbuf li))) else None
      end
  end.

(* make the pointer of a lazily present ML field non-nil; [None] = Go panics *)
Definition force (f : fld) (s : state) : option state :=
  match fcls f, get f s with
  | ML, CZero => if present f s
                 then match lazy_lookup s (fnum f) with
                      | Some b => Some (put f (CMsg b) s)
                      | None => None
                      end
                 else Some s
  | _, _ => Some s
  end.
Definition force_or_keep (f : fld) (s : state) : state :=
  match force f s with Some s' => s' | None => s end.

(* ---------- the abstract content ---------- *)
Inductive aval := AScalar (v : N) | AMsg (body : list N) | ASeq (l : list N).

Definition aval_of_cell (c : cell) : aval :=
  match c with
  | CMsg b => AMsg b
  | CScalar true v => AScalar v
  | CSeq (x :: l) => ASeq (x :: l)
  | _ => AScalar 0      (* zero value (an allocated empty slice reads like nil) *)
  end.

Definition abs_field (cf : cfg) (s : state) (f : fld) : option aval :=
  let c := get f s in
  match fcls f with
  | SP => match flav cf with
          | Opaque => if present f s then Some (aval_of_cell c) else None
          | _ => match c with CScalar _ _ => Some (aval_of_cell c) | _ => None end
          end
  | SI => match c with CScalar true v => Some (AScalar v) | _ => None end
  | M => match c with CMsg b => Some (AMsg b) | _ => None end
  | ML => if present f s
          then Some (AMsg (match c with
                           | CMsg b => b
                           | _ => match lazy_lookup s (fnum f) with Some b => b | None => [] end
                           end))
          else None
  | L | LO | MP => match c with CSeq (x :: l) => Some (ASeq (x :: l)) | _ => None end
  | OO => match oneofs s (fgrp f) with
          | Some (n, c) => if N.eqb n (fnum f) then Some (aval_of_cell c) else None
          | None => None
          end
  end.

(* an extension set to an empty list is not populated (extensionMap.Range / Has) *)
Definition abs_ext (s : state) (n : N) : option (list N) :=
  match xget n (exts s) with
  | Some (XVal true []) => None
  | Some (XVal _ l) => Some l
  | None => None
  end.

Definition abs_eq (cf : cfg) (s1 s2 : state) : Prop :=
  (forall f, abs_field cf s1 f = abs_field cf s2 f) /\
  (forall n, abs_ext s1 n = abs_ext s2 n) /\
  unk s1 = unk s2.

Definition abs_empty (cf : cfg) (s : state) : Prop :=
  (forall f, abs_field cf s f = None) /\ (forall n, abs_ext s n = None) /\ unk s = [].

(* ---------- reflection operations (protoreflect.Message methods) ---------- *)
(* m.Set(fd, v) *)
Definition do_set (cf : cfg) (f : fld) (nz : bool) (cnt : nat) (v : N) (s : state) : state :=
  match fcls f with
  | SP => pset cf f (put f (sc nz v) s)
  | SI => put f (if nz then sc true v else CZero) s
  | M => put f (CMsg [v]) s
  | ML => pset cf f (put f (CMsg [v]) s)
  | L => put f (match cnt, flav cf with O, Dyn => CSeq [] | O, _ => CZero | _, _ => CSeq (seqN v cnt) end) s
  | LO | MP => put f (CSeq (seqN v cnt)) s
  | OO => oput f (if (0 <? N.of_nat cnt)%N then CMsg [v] else sc nz v) s
  end.

(* m.Clear(fd) *)
Definition do_clear (cf : cfg) (f : fld) (s : state) : state :=
  match fcls f with
  | OO => oclr f s
  | LO => match flav cf, get f s with
          | Opaque, CZero => s
          | Opaque, _ => put f (CSeq []) s      (* the *[]*T pointer stays *)
          | _, _ => put f CZero s
          end
  | _ => pclr f (put f CZero s)
  end.

(* m.Mutable(fd) *)
Definition do_mutable (cf : cfg) (f : fld) (s : state) : state :=
  match fcls f with
  | M => match get f s with CMsg _ => s | _ => put f (CMsg []) s end
  | ML => match get f s with
          | CMsg _ => s
          | _ => if present f s then force_or_keep f s
                 else pset cf f (put f (CMsg []) s)
          end
  | L => match flav cf, get f s with Dyn, CZero => put f (CSeq []) s | _, _ => s end
  | LO | MP => match get f s with CZero => put f (CSeq []) s | _ => s end
  | OO => match oneofs s (fgrp f) with
          | Some (n, CMsg _) => if N.eqb n (fnum f) then s else oput f (CMsg []) s
          | _ => oput f (CMsg []) s
          end
  | _ => s
  end.

Definition app_cell (c : cell) (l : list N) : cell :=
  match c with CSeq old => CSeq (old ++ l) | _ => CSeq l end.

(* m.Mutable(fd).List().Append / Map().Set *)
Definition do_append (cf : cfg) (f : fld) (v : N) (s : state) : state :=
  match fcls f with
  | L | LO | MP => put f (app_cell (get f s) [v]) s
  | _ => s
  end.

(* m.Mutable(fd).List().Truncate(0) *)
Definition do_trunc (cf : cfg) (f : fld) (s : state) : state :=
  match fcls f with
  | L => match flav cf, get f s with
         | Dyn, _ => put f (CSeq []) s
         | _, CZero => s
         | _, _ => put f (CSeq []) s
         end
  | LO => put f (CSeq []) s
  | _ => s
  end.

Definition xelems (islist : bool) (cnt : nat) (v : N) : list N :=
  if islist then seqN v cnt else [v].

(* ---------- merging one value into a field: shared by the wire decoder and proto.Merge ---------- *)
Definition merge_msg (c : cell) (body : list N) : cell :=
  match c with CMsg old => CMsg (old ++ body) | _ => CMsg body end.

(* [eager]: the eager decoder / proto.Merge.  For ML the destination is forced first. *)
Definition merge_field (cf : cfg) (f : fld) (nz : bool) (body : list N) (v : N) (s : state) : state :=
  match fcls f with
  | SP => pset cf f (put f (sc nz v) s)
  | SI => put f (if nz then sc true v else CZero) s
  | M => put f (merge_msg (get f s) body) s
  | ML => let s1 := force_or_keep f s in pset cf f (put f (merge_msg (get f s1) body) s1)
  | L | LO | MP => put f (app_cell (get f s) body) s
  | OO => match body, oneofs s (fgrp f) with
          | _ :: _, Some (n, CMsg old) =>
              if N.eqb n (fnum f) then oput f (CMsg (old ++ body)) s else oput f (CMsg body) s
          | _ :: _, _ => oput f (CMsg body) s
          | [], _ => oput f (sc nz v) s
          end
  end.

Definition merge_ext (n : N) (islist : bool) (l : list N) (s : state) : state :=
  match xget n (exts s) with
  | Some (XVal true old) => if islist then with_exts s (xput n (XVal true (old ++ l)) (exts s))
                            else with_exts s (xput n (XVal islist l) (exts s))
  | _ => with_exts s (xput n (XVal islist l) (exts s))
  end.

(* ---------- wire input ---------- *)
Inductive witem :=
| WField (f : fld) (nz : bool) (cnt : nat) (v : N)   (* cnt: elements of a list / map; for OO: 1 = message member *)
| WExt (n : N) (islist : bool) (cnt : nat) (v : N)
| WUnk (raw : list byte).

(* where decoding fails: before item k; [good] = the input is nevertheless
   accepted by protolazy.buildIndex, which only skips over top-level fields
   (invalid UTF-8, an unparsable nested message, field number 0); [bad] = the
   failing chunk is message field ff whose payload does not parse (the field is
   touched before the error is noticed) *)
Inductive failspec := FNone | FAt (k : nat) (good : bool) (bad : option fld).

Definition item_body (f : fld) (cnt : nat) (v : N) : list N :=
  match fcls f with
  | M | ML => [v]
  | L | LO | MP => seqN v cnt
  | OO => if (0 <? N.of_nat cnt)%N then [v] else []
  | _ => []
  end.

(* one wire item.  [lz] = this call of unmarshalPointerLazy decodes lazily. *)
Definition wire_item (cf : cfg) (lz : bool) (s : state) (it : witem) : state :=
  match it with
  | WField f nz cnt v =>
      match fcls f, lz with
      | ML, true => pset cf f s          (* validated and skipped: presence bit only *)
      | SI, _ => (* a zero on the wire overwrites *) put f (if nz then sc true v else CZero) s
      | _, _ => merge_field cf f nz (item_body f cnt v) v s
      end
  | WExt n islist cnt v => merge_ext n islist (xelems islist cnt v) s
  | WUnk raw => with_unk s (unk s ++ raw)
  end.

Definition lazy_entry (it : witem) : list (N * N) :=
  match it with
  | WField f _ _ v => [(fnum f, v)]
  | WExt n _ _ v => [(n, v)]
  | WUnk _ => [(0, 0)]
  end.

Definition lazy_index (buf : list (N * N)) (items : list witem) : list (N * nat) :=
  flat_map (fun p : witem * nat =>
              match fst p with
              | WField f _ _ _ => match fcls f with ML => [(fnum f, snd p)] | _ => [] end
              | _ => []
              end) (combine items (seq 0 (length items))).

(* the partial effect of a message field whose payload fails to parse *)
Definition bad_nested (cf : cfg) (lz : bool) (ff : fld) (s : state) : state :=
  match fcls ff with
  | M => put ff (merge_msg (get ff s) []) s
  | ML => if lz then s
          else let s1 := force_or_keep ff s in
               let s2 := put ff (merge_msg (get ff s1) []) s1 in
               if fast cf then s2 else pset cf ff s2      (* slow path: Mutable sets the bit *)
  | _ => s
  end.

(* the merge decoder: methods.Unmarshal (fast) / unmarshalMessageSlow *)
Definition um (cf : cfg) (items : list witem) (fl : failspec) (s : state) : state :=
  let lz := fast cf && haslazy cf && match flav cf with Opaque => true | _ => false end
            && match pres s with [] => true | _ => false end in
  let ok := match fl with FNone => true | _ => false end in
  let buf := flat_map lazy_entry items in
  let good := match fl with FNone => true | FAt _ g _ => g end in
  let s0 := if lz then with_lazy s (Some (mkLazy buf good (match lazy s with Some li => lidx li | None => None end)))
            else s in
  let done := match fl with FNone => items | FAt k _ _ => firstn k items end in
  let s1 := fold_left (wire_item cf lz) done s0 in
  let s2 := match fl with FAt _ _ (Some ff) => bad_nested cf lz ff s1 | _ => s1 end in
  if lz && ok then with_lazy s2 (Some (mkLazy buf true (Some (lazy_index buf items)))) else s2.

(* ---------- proto.Merge(m, src) where src was built by Set calls ---------- *)
Definition src_item (cf : cfg) (s : state) (it : witem) : state :=
  match it with
  | WField f nz cnt v => do_set cf f nz cnt v s
  | WExt n islist cnt v => with_exts s (xput n (XVal islist (xelems islist cnt v)) (exts s))
  | WUnk raw => with_unk s (unk s ++ raw)
  end.

Definition fld_eqb (a b : fld) : bool := N.eqb (fnum a) (fnum b).

Definition item_key (it : witem) : option (bool * N) :=
  match it with
  | WField f _ _ _ => Some (match fcls f with OO => (true, fgrp f + 1000000000) | _ => (false, fnum f) end)
  | WExt n _ _ _ => Some (true, n)
  | WUnk _ => None
  end.
Definition key_eqb (a b : option (bool * N)) : bool :=
  match a, b with
  | Some (x, n), Some (y, k) => Bool.eqb x y && N.eqb n k
  | _, _ => false
  end.

(* merge what [src] holds for the field / extension of [it] into dst *)
Definition merge_from (cf : cfg) (src : state) (s : state) (it : witem) : state :=
  match it with
  | WField f _ _ _ =>
      match fcls f with
      | OO => match oneofs src (fgrp f) with
              | Some (n, CMsg b) => merge_field cf (mkFld n OO (fgrp f)) true b 0 s
              | Some (n, CScalar nz v) => merge_field cf (mkFld n OO (fgrp f)) nz [] v s
              | _ => s
              end
      | SP => match get f src with CScalar nz v => merge_field cf f nz [] v s | _ => s end
      | SI => match get f src with CScalar true v => merge_field cf f true [] v s | _ => s end
      | M | ML => match get f src with CMsg b => merge_field cf f true b 0 s | _ => s end
      | L | LO | MP => match get f src with CSeq (x :: l) => merge_field cf f true (x :: l) 0 s | _ => s end
      end
  | WExt n _ _ _ =>
      match xget n (exts src) with
      | Some (XVal islist l) => merge_ext n islist l s
      | None => s
      end
  | WUnk _ => s
  end.

Fixpoint merge_all (cf : cfg) (src : state) (items : list witem) (s : state) : state :=
  match items with
  | [] => s
  | it :: r =>
      (* a field set several times in src is merged once (at its last mention) *)
      let s' := if existsb (fun j => key_eqb (item_key it) (item_key j)) r then s else merge_from cf src s it in
      merge_all cf src r s'
  end.

Definition do_merge (cf : cfg) (items : list witem) (s : state) : state :=
  let src := fold_left (src_item cf) items init in
  let s1 := merge_all cf src items s in
  with_unk s1 (unk s1 ++ unk src).

(* ---------- Size / Marshal / reading ---------- *)
Definition force_all (schema : list fld) (s : state) : state :=
  fold_left (fun s f => force_or_keep f s) schema s.

Definition stores_szc (cf : cfg) : bool :=
  fast cf && match flav cf with Dyn => false | _ => true end.

(* ---------- Reset ---------- *)
(* generated Reset: *x = T{} (dynamicpb: fresh maps) *)
Definition reset_gen (s : state) : state := init.

(* resetMessage: Clear every field of the descriptor, Clear every extension that
   Range visits (the populated ones), SetUnknown(nil).  Clear of a field that was
   never written is a no-op in every class, so it is enough to walk the fields
   of [schema] = the fields the history mentions. *)
Definition ext_populated (kx : N * xcell) : bool :=
  match snd kx with XVal true [] => false | _ => true end.

Definition reset_refl (cf : cfg) (schema : list fld) (s : state) : state :=
  let s1 := fold_left (fun s f => do_clear cf f s) schema s in
  let s2 := with_exts s1 (filter (fun kx => negb (ext_populated kx)) (exts s1)) in
  with_unk s2 [].

(* proto.Reset *)
Definition reset (cf : cfg) (schema : list fld) (s : state) : state :=
  if fast cf then reset_gen s else reset_refl cf schema s.

(* proto.Unmarshal without Merge *)
Definition unmarshal (cf : cfg) (schema : list fld) (items : list witem) (fl : failspec) (s : state) : state :=
  um cf items fl (reset cf schema s).

(* ---------- histories ---------- *)
Inductive op :=
| OSet (f : fld) (nz : bool) (cnt : nat) (v : N)
| OClr (f : fld)
| OMut (f : fld)
| OApp (f : fld) (v : N)
| OTrn (f : fld)
| OXSet (n : N) (islist : bool) (cnt : nat) (v : N)
| OXClr (n : N)
| OUnk (raw : list byte)
| OSize
| ODMar
| OTouch
| OMrg (items : list witem)
| OUm (items : list witem) (fl : failspec)
| OUn (items : list witem) (fl : failspec)
| ORst.

Definition step (cf : cfg) (schema : list fld) (s : state) (o : op) : state :=
  match o with
  | OSet f nz cnt v => do_set cf f nz cnt v s
  | OClr f => do_clear cf f s
  | OMut f => do_mutable cf f s
  | OApp f v => do_append cf f v s
  | OTrn f => do_trunc cf f s
  | OXSet n islist cnt v => with_exts s (xput n (XVal islist (xelems islist cnt v)) (exts s))
  | OXClr n => with_exts s (xdel n (exts s))
  | OUnk raw => with_unk s raw
  | OSize => if stores_szc cf then with_szc s true else s
  | ODMar => let s1 := force_all schema s in if stores_szc cf then with_szc s1 true else s1
  | OTouch => force_all schema s
  | OMrg items => do_merge cf items s
  | OUm items fl => um cf items fl s
  | OUn items fl => unmarshal cf schema items fl s
  | ORst => reset cf schema s
  end.

Definition run (cf : cfg) (schema : list fld) (ops : list op) (s : state) : state :=
  fold_left (step cf schema) ops s.

(* ---------- what the harness observes ---------- *)
Definition has_field (cf : cfg) (s : state) (f : fld) : bool :=
  match abs_field cf s f with Some _ => true | None => false end.

Definition obs_has (cf : cfg) (s : state) (schema : list fld) : list N :=
  map fnum (filter (has_field cf s) schema).

Definition obs_exts (s : state) (nums : list N) : list N :=
  filter (fun n => match abs_ext s n with Some _ => true | None => false end) nums.

(* is the Go struct field of f non-zero? *)
Definition cell_nonzero (cf : cfg) (f : fld) (s : state) : bool :=
  match get f s with
  | CZero => false
  | CScalar nz _ => match flav cf, fcls f with Open, SP => true | _, _ => nz end
  | CMsg _ => true
  | CSeq _ => true
  end.

Definition obs_cells (cf : cfg) (s : state) (schema : list fld) : list N :=
  map fnum (filter (fun f => negb (is_oo (fcls f)) && cell_nonzero cf f s) schema).

Definition obs_groups (s : state) (groups : list N) : list N :=
  filter (fun g => match oneofs s g with Some _ => true | None => false end) groups.

Definition obs_flags (s : state) : bool * bool * bool * N :=
  (match pres s with [] => false | _ => true end,
   match lazy s with None => false | Some _ => true end,
   szc s,
   N.of_nat (length (exts s))).
