(* C12 — oneof members are mutually exclusive: model of
     internal/impl/message_reflect_field.go   fieldInfoForOneof, makeOneofInfo (which)
     internal/impl/codec_field.go             initOneofFieldCoders (unmarshal, merge)
     types/dynamicpb/dynamic.go               Set/Mutable/Clear/Has/WhichOneof, clearOtherOneofFields
     generated opaque/hybrid accessors        Set<M>, Clear<M>, Clear<Oneof>, Has<M>, Which<Oneof>
     proto/merge.go, proto/decode.go          reflection merge and decode of oneof members
     encoding/protojson/decode.go, encoding/prototext/decode.go   seenNums / seenOneofs
   In this version of the repository opaque messages store a oneof exactly like open ones (an
   interface field holding a pointer to a wrapper struct; message_opaque.go: "Oneofs are no
   different for opaque"); the case number of Which<Oneof> is computed by a type switch.
   Definitions only; proofs are in OneofP.v. *)
From Coq Require Import List NArith Bool.
From PB Require Import Base.PBytes.
Import ListNotations.
Open Scope N_scope.

(** * Values *)
(* a sub-message is abstracted to two of its optional scalar fields *)
Definition omsg := (option N * option N)%type.
Definition empty_msg : omsg := (None, None).
Definition merge_opt (d s : option N) : option N := match s with Some x => Some x | None => d end.
Definition merge_msg (d s : omsg) : omsg := (merge_opt (fst d) (fst s), merge_opt (snd d) (snd s)).

Inductive oval :=
| OVScalar (n : N)             (* numeric, bool, enum: the 64-bit image *)
| OVBytes (b : list byte)      (* string or bytes *)
| OVMsg (m : omsg).            (* message or group *)

(** * Abstract state: at most one (member, value) *)
Definition astate := option (N * oval).

Inductive oop :=
| OSet (m : N) (v : oval)     (* reflection Set, generated setter, open-struct assignment of a wrapper *)
| OClear (m : N)              (* reflection Clear(member), generated Clear<Member> *)
| OMutable (m : N)            (* reflection Mutable on a message member *)
| OClearOneof                 (* generated Clear<Oneof>; open struct: x.Oneof = nil *)
| OSetNilMsg (m : N)          (* generated opaque setter of a message member called with nil *)
| OSetTypedNil (m : N)        (* open struct: x.Oneof = (W_m)(nil), a typed nil wrapper pointer *)
| OMerge (src : astate)       (* proto.Merge(dst, src) where the oneof of src is in state src *)
| OWire (m : N) (v : oval).   (* binary decoding of one occurrence of member m *)

(* merging / decoding one (member, value) into the state *)
Definition merge_into (st : astate) (m : N) (v : oval) : astate :=
  match v with
  | OVMsg sm =>
      match st with
      | Some (m', OVMsg dm) => if m' =? m then Some (m, OVMsg (merge_msg dm sm))
                               else Some (m, OVMsg (merge_msg empty_msg sm))
      | _ => Some (m, OVMsg (merge_msg empty_msg sm))
      end
  | _ => Some (m, v)
  end.

Definition astep (st : astate) (o : oop) : astate :=
  match o with
  | OSet m v => Some (m, v)
  | OClear m => match st with Some (m', _) => if m' =? m then None else st | None => None end
  | OMutable m => match st with
                  | Some (m', _) => if m' =? m then st else Some (m, OVMsg empty_msg)
                  | None => Some (m, OVMsg empty_msg) end
  | OClearOneof | OSetNilMsg _ | OSetTypedNil _ => None
  | OMerge None => st
  | OMerge (Some (m, v)) => merge_into st m v
  | OWire m v => merge_into st m v
  end.
Definition arun (st : astate) (ops : list oop) : astate := fold_left astep ops st.
Definition awhich (st : astate) : option N := option_map fst st.
Definition ahas (st : astate) (m : N) : bool := match st with Some (m', _) => m' =? m | None => false end.

(** * (a) the interface-wrapper representation (open, hybrid and opaque structs) *)
Inductive wrap :=
| WNil                         (* nil interface *)
| WTypedNil (m : N)            (* interface holding a nil pointer of wrapper type m *)
| WVal (m : N) (v : oval).     (* pointer to a wrapper struct of type m *)

(* codec_field.go: unmarshal and merge reuse the wrapper when its type matches *)
Definition wmerge_into (w : wrap) (m : N) (v : oval) : wrap :=
  match v with
  | OVMsg sm =>
      match w with
      | WVal m' (OVMsg dm) => if m' =? m then WVal m (OVMsg (merge_msg dm sm))
                              else WVal m (OVMsg (merge_msg empty_msg sm))
      | _ => WVal m (OVMsg (merge_msg empty_msg sm))
      end
  | _ => WVal m v
  end.

Definition wstep (w : wrap) (o : oop) : wrap :=
  match o with
  | OSet m v => WVal m v
  | OClear m => match w with
                | WNil => WNil
                | WTypedNil m' => if m' =? m then WNil else w
                | WVal m' _ => if m' =? m then WNil else w
                end
  | OMutable m => match w with
                  | WVal m' _ => if m' =? m then w else WVal m (OVMsg empty_msg)
                  | _ => WVal m (OVMsg empty_msg)
                  end
  | OClearOneof | OSetNilMsg _ => WNil
  | OSetTypedNil m => WTypedNil m
  | OMerge None => w
  | OMerge (Some (m, v)) => wmerge_into w m v
  | OWire m v => wmerge_into w m v
  end.
Definition wrun (w : wrap) (ops : list oop) : wrap := fold_left wstep ops w.

Definition whas (w : wrap) (m : N) : bool := match w with WVal m' _ => m' =? m | _ => false end.
Definition wwhich (w : wrap) : option N := match w with WVal m _ => Some m | _ => None end.
(* The generated hybrid/opaque accessors Which<Oneof>() and Has<Member>() use a Go type switch /
   type assertion on the interface value; a typed nil wrapper pointer still matches its type.
   (message_reflect_field.go: "assumes that oneof fields are well-formatted. That is, the oneof
   interface never contains a typed nil pointer to one of the wrapper structs.") *)
Definition gcase (w : wrap) : N := match w with WVal m _ | WTypedNil m => m | WNil => 0 end.
Definition ghas (w : wrap) (m : N) : bool := match w with WVal m' _ | WTypedNil m' => m' =? m | WNil => false end.
Definition wrap_wf (w : wrap) : bool := match w with WTypedNil _ => false | _ => true end.
Definition wabs (w : wrap) : astate := match w with WVal m v => Some (m, v) | _ => None end.
(* number of members for which Has is true *)
Definition wpopulated (members : list N) (w : wrap) : nat := length (filter (whas w) members).

(** * (b) dynamicpb: the [known] map and clearOtherOneofFields *)
Definition known := N -> option oval.
Definition kempty : known := fun _ => None.
Definition kput (k : known) (n : N) (v : oval) : known := fun x => if x =? n then Some v else k x.
Definition kdel (k : known) (n : N) : known := fun x => if x =? n then None else k x.

(* for i := 0; i < od.Fields().Len(); i++ { if n != num { delete(m.known, n) } } *)
Definition clear_others (members : list N) (m : N) (k : known) : known :=
  fold_left (fun k n => if n =? m then k else kdel k n) members k.

Definition dmerge_into (members : list N) (k : known) (m : N) (v : oval) : known :=
  match v with
  | OVMsg sm =>
      (* dst.Mutable(fd) then merge / unmarshal into the returned message *)
      match k m with
      | Some (OVMsg dm) => kput k m (OVMsg (merge_msg dm sm))
      | Some _ => kput k m (OVMsg (merge_msg empty_msg sm))   (* not reachable: member kinds are fixed *)
      | None => kput (clear_others members m k) m (OVMsg (merge_msg empty_msg sm))
      end
  | _ => kput (clear_others members m k) m v                  (* dst.Set(fd, v) *)
  end.

Definition dstep (members : list N) (k : known) (o : oop) : known :=
  match o with
  | OSet m v => kput (clear_others members m k) m v
  | OClear m => kdel k m
  | OMutable m => match k m with
                  | Some _ => k
                  | None => kput (clear_others members m k) m (OVMsg empty_msg)
                  end
  (* not part of the dynamicpb API; the harness performs them as Clear of every member *)
  | OClearOneof | OSetNilMsg _ | OSetTypedNil _ => fold_left kdel members k
  | OMerge None => k
  | OMerge (Some (m, v)) => dmerge_into members k m v
  | OWire m v => dmerge_into members k m v
  end.
Definition drun (members : list N) (k : known) (ops : list oop) : known := fold_left (dstep members) ops k.

Definition dhas (k : known) (m : N) : bool := match k m with Some _ => true | None => false end.
(* WhichOneof: the first member, in declaration order, for which Has holds *)
Definition dwhich (members : list N) (k : known) : option N := find (dhas k) members.
Definition dabs (members : list N) (k : known) : astate :=
  match dwhich members k with
  | Some m => match k m with Some v => Some (m, v) | None => None end
  | None => None
  end.
Definition dpopulated (members : list N) (k : known) : nat := length (filter (dhas k) members).

(* the member named by an operation (None: the operation names no member of this oneof) *)
Definition op_member (o : oop) : option N :=
  match o with
  | OSet m _ | OClear m | OMutable m | OSetNilMsg m | OSetTypedNil m | OWire m _ => Some m
  | OMerge (Some (m, _)) => Some m
  | OClearOneof | OMerge None => None
  end.
Definition op_ok (members : list N) (o : oop) : bool :=
  match op_member o with Some m => existsb (N.eqb m) members | None => true end.

(** * Binary decoding: the occurrences of members on the wire, in order *)
Definition wire_decode (st : astate) (occ : list (N * oval)) : astate :=
  fold_left (fun st mv => merge_into st (fst mv) (snd mv)) occ st.
(* merging the trailing block of occurrences of one message member *)
Definition merge_block (vs : list omsg) : omsg := fold_left merge_msg vs empty_msg.

(** * JSON and text decoding: the seenNums / seenOneofs checks *)
Record tev := mkTev {
  te_num : N;                  (* field number *)
  te_oneof : option N;         (* index of the containing oneof (singular fields only) *)
  te_null : bool               (* JSON: the value is null and the field is not Value/NullValue: skipped *)
}.
Inductive terr := EDuplicate | EOneofSet.
Inductive tres := TOk (applied : list N) | TErr (e : terr).

Definition mem (x : N) (l : list N) : bool := existsb (N.eqb x) l.

(* protojson unmarshalMessage: duplicate check, then null skip, then the oneof check *)
Fixpoint json_loop (evs : list tev) (seenNums seenOneofs applied : list N) : tres :=
  match evs with
  | [] => TOk (rev applied)
  | e :: r =>
      if mem (te_num e) seenNums then TErr EDuplicate
      else
        let seenNums' := te_num e :: seenNums in
        if te_null e then json_loop r seenNums' seenOneofs applied
        else match te_oneof e with
             | Some o => if mem o seenOneofs then TErr EOneofSet
                         else json_loop r seenNums' (o :: seenOneofs) (te_num e :: applied)
             | None => json_loop r seenNums' seenOneofs (te_num e :: applied)
             end
  end.
Definition json_decode (evs : list tev) : tres := json_loop evs [] [] [].

(* prototext unmarshalMessage: the oneof check, then the duplicate check (no null) *)
Fixpoint text_loop (evs : list tev) (seenNums seenOneofs applied : list N) : tres :=
  match evs with
  | [] => TOk (rev applied)
  | e :: r =>
      match (match te_oneof e with
             | Some o => if mem o seenOneofs then None else Some (o :: seenOneofs)
             | None => Some seenOneofs end) with
      | None => TErr EOneofSet
      | Some seenOneofs' =>
          if mem (te_num e) seenNums then TErr EDuplicate
          else text_loop r (te_num e :: seenNums) seenOneofs' (te_num e :: applied)
      end
  end.
Definition text_decode (evs : list tev) : tres := text_loop evs [] [] [].
