(* EqualP — proofs for C30, part 1: scalars, unknown fields, association-list facts. *)
From Coq Require Import List Arith NArith ZArith Lia Bool Permutation.
From Coq Require Import ZifyBool ZifyNat ZifyN.
From PB Require Import Base.PBytes Wire.WireModel.
From PB Require Import Msg.MsgSchema Msg.MsgValue Msg.DetModel Msg.DetP Msg.EqualModel.
Import ListNotations.
Open Scope N_scope.

(* ------------------------------------------------------------------ bytes and keys *)
Lemma eqm_bytes_eqb_refl a : eqm_bytes_eqb a a = true.
Proof. unfold eqm_bytes_eqb. now rewrite det_bytes_cmp_refl. Qed.

Lemma eqm_bytes_eqb_eq a b : eqm_bytes_eqb a b = true <-> a = b.
Proof.
  unfold eqm_bytes_eqb. split.
  - destruct (msg_bytes_cmp a b) eqn:E; try discriminate. intros _. now apply det_bytes_cmp_eq.
  - intros ->. now rewrite det_bytes_cmp_refl.
Qed.

Lemma eqm_key_eq x y : eqm_key x y = true <-> x = y.
Proof.
  destruct x as [a|a|a|a], y as [b|b|b|b]; cbn [eqm_key]; try (split; [discriminate|intros H; discriminate H]).
  - rewrite Z.eqb_eq. split; [now intros ->|now intros [= ->]].
  - rewrite N.eqb_eq. split; [now intros ->|now intros [= ->]].
  - rewrite Bool.eqb_true_iff. split; [now intros ->|now intros [= ->]].
  - rewrite eqm_bytes_eqb_eq. split; [now intros ->|now intros [= ->]].
Qed.

Lemma eqm_key_refl x : eqm_key x x = true.
Proof. now apply eqm_key_eq. Qed.

(* ------------------------------------------------------------------ floats *)
(* equalFloat identifies exactly the values of one class: all NaNs, both zeros, each other bit pattern *)
Definition eqm_fclass (nan zero : N -> bool) (x : N) : N :=
  if nan x then 0 else if zero x then 1 else x + 2.

Lemma eqm_float_class nan zero x y :
  eqm_float nan zero x y = (eqm_fclass nan zero x =? eqm_fclass nan zero y).
Proof.
  unfold eqm_float, eqm_fclass.
  destruct (nan x) eqn:Nx, (nan y) eqn:Ny; cbn [orb andb]; try reflexivity.
  - destruct (zero y); symmetry; apply N.eqb_neq; lia.
  - destruct (zero x); symmetry; apply N.eqb_neq; lia.
  - destruct (x =? y) eqn:E.
    + apply N.eqb_eq in E. subst y. rewrite orb_true_r. symmetry. apply N.eqb_refl.
    + rewrite orb_false_r. destruct (zero x), (zero y); cbn [andb]; symmetry;
        try (apply N.eqb_neq; apply N.eqb_neq in E; lia). reflexivity.
Qed.

Definition eqm_sclass (k : kind) (x : scalar) : scalar :=
  match x with
  | SN a => match k with
            | KS SkFloat => SN (eqm_fclass eqm_nan32 eqm_zero32 a)
            | KS SkDouble => SN (eqm_fclass eqm_nan64 eqm_zero64 a)
            | _ => x
            end
  | _ => x
  end.

(* eqm_scalar is equality of classes: an equivalence relation *)
Lemma eqm_scalar_class k x y : eqm_scalar k x y = eqm_key (eqm_sclass k x) (eqm_sclass k y).
Proof.
  destruct x as [a|a|a|a], y as [b|b|b|b]; cbn [eqm_scalar eqm_sclass eqm_key]; try reflexivity;
  destruct k as [[]| |]; cbn [eqm_key]; try reflexivity; apply eqm_float_class.
Qed.

Lemma eqm_scalar_refl k x : eqm_scalar k x x = true.
Proof. rewrite eqm_scalar_class. apply eqm_key_refl. Qed.
Lemma eqm_scalar_sym k x y : eqm_scalar k x y = true -> eqm_scalar k y x = true.
Proof. rewrite !eqm_scalar_class, !eqm_key_eq. congruence. Qed.
Lemma eqm_scalar_trans k x y z : eqm_scalar k x y = true -> eqm_scalar k y z = true -> eqm_scalar k x z = true.
Proof. rewrite !eqm_scalar_class, !eqm_key_eq. congruence. Qed.

(* ------------------------------------------------------------------ unknown fields *)
Lemma eqm_group_notin cs k : ~ In k (map fst cs) -> eqm_group cs k = [].
Proof.
  unfold eqm_group. induction cs as [|c r IH]; cbn [map filter]; intros H; [reflexivity|].
  destruct (fst c =? k) eqn:E.
  - apply N.eqb_eq in E. exfalso. apply H. now left.
  - apply IH. intros Hin. apply H. now right.
Qed.

Lemma eqm_groups_eq_spec cx cy :
  eqm_groups_eq cx cy = true <-> (forall k, eqm_group cx k = eqm_group cy k).
Proof.
  unfold eqm_groups_eq. rewrite forallb_forall. split.
  - intros H k. destruct (in_dec N.eq_dec k (map fst cx ++ map fst cy)) as [Hin|Hn].
    + now apply eqm_bytes_eqb_eq, H.
    + rewrite !eqm_group_notin; [reflexivity| |]; intros Hin; apply Hn, in_or_app; tauto.
  - intros H k _. rewrite H. apply eqm_bytes_eqb_refl.
Qed.

Definition eqm_unknown_rel (x y : list byte) : Prop :=
  length x = length y /\
  (x = y \/ forall k, eqm_group (eqm_split (x00 :: x) x) k = eqm_group (eqm_split (x00 :: y) y) k).

Lemma eqm_unknown_spec x y : eqm_unknown x y = true <-> eqm_unknown_rel x y.
Proof.
  unfold eqm_unknown, eqm_unknown_rel.
  rewrite andb_true_iff, orb_true_iff, Nat.eqb_eq, eqm_bytes_eqb_eq, eqm_groups_eq_spec. tauto.
Qed.

Lemma eqm_unknown_refl x : eqm_unknown x x = true.
Proof. apply eqm_unknown_spec. split; [reflexivity|now left]. Qed.

Lemma eqm_unknown_sym x y : eqm_unknown x y = true -> eqm_unknown y x = true.
Proof.
  rewrite !eqm_unknown_spec. intros [L [E|G]]; (split; [now symmetry|]).
  - left. now symmetry.
  - right. intros k. now symmetry.
Qed.

Lemma eqm_unknown_trans x y z : eqm_unknown x y = true -> eqm_unknown y z = true -> eqm_unknown x z = true.
Proof.
  rewrite !eqm_unknown_spec. intros [L1 H1] [L2 H2]. split; [congruence|].
  destruct H1 as [->|G1]; [exact H2|]. destruct H2 as [<-|G2]; [now right|].
  right. intros k. now rewrite G1, G2.
Qed.

(* unknown fields are compared per field number: chunks of different numbers commute *)
Lemma eqm_group_app cs cs' k : eqm_group (cs ++ cs') k = eqm_group cs k ++ eqm_group cs' k.
Proof. unfold eqm_group. now rewrite filter_app, map_app, concat_app. Qed.

Lemma eqm_groups_interleave (c1 c2 : N * list byte) pre post :
  fst c1 <> fst c2 ->
  forall k, eqm_group (pre ++ c1 :: c2 :: post) k = eqm_group (pre ++ c2 :: c1 :: post) k.
Proof.
  intros Hne k. rewrite !eqm_group_app. f_equal. unfold eqm_group. cbn [filter].
  destruct (fst c1 =? k) eqn:E1, (fst c2 =? k) eqn:E2; try reflexivity.
  apply N.eqb_eq in E1, E2. congruence.
Qed.

(* ------------------------------------------------------------------ association lists *)
Lemma eqm_fget_in (fs : fields) n : msg_fget fs n <> [] -> In (n, msg_fget fs n) fs.
Proof.
  induction fs as [|[k0 v0] r IH]; cbn [msg_fget]; intros H; [congruence|].
  destruct (n =? k0) eqn:E.
  - apply N.eqb_eq in E. subst. now left.
  - right. now apply IH.
Qed.

Lemma eqm_fget_nodup (fs : fields) n v : NoDup (map fst fs) -> In (n, v) fs -> msg_fget fs n = v.
Proof.
  induction fs as [|[k0 v0] r IH]; cbn [msg_fget map]; intros Hn Hin; [contradiction|].
  inversion Hn as [|? ? Hk Hr]; subst. destruct Hin as [E|Hin].
  - inversion E; subst. now rewrite N.eqb_refl.
  - destruct (n =? k0) eqn:E; [|now apply IH].
    apply N.eqb_eq in E. subst. exfalso. apply Hk. change k0 with (fst (k0, v)). now apply in_map.
Qed.

Lemma eqm_fget_notin (fs : fields) n : ~ In n (map fst fs) -> msg_fget fs n = [].
Proof.
  induction fs as [|[k0 v0] r IH]; cbn [msg_fget map]; intros H; [reflexivity|].
  destruct (n =? k0) eqn:E.
  - apply N.eqb_eq in E. subst. exfalso. apply H. now left.
  - apply IH. intros Hin. apply H. now right.
Qed.

Lemma eqm_nodup_n_spec l : eqm_nodup_n l = true <-> NoDup l.
Proof.
  induction l as [|x r IH]; cbn [eqm_nodup_n]; [split; [constructor|reflexivity]|].
  rewrite andb_true_iff, negb_true_iff, IH. split.
  - intros [H1 H2]. constructor; [|exact H2]. intros Hin.
    assert (existsb (N.eqb x) r = true) as E by (apply existsb_exists; exists x; split; [exact Hin|apply N.eqb_refl]).
    congruence.
  - intros H. inversion H as [|? ? Hn Hr]; subst. split; [|exact Hr].
    destruct (existsb (N.eqb x) r) eqn:E; [|reflexivity].
    apply existsb_exists in E. destruct E as [y [Hy E]]. apply N.eqb_eq in E. subst. contradiction.
Qed.

(* populated numbers *)
Definition eqm_pop (p : N * list value) : bool := negb (eqm_nil (snd p)).
Definition eqm_popnums (fs : fields) : list N := map fst (filter eqm_pop fs).

Lemma eqm_populated_len fs : eqm_populated fs = length (eqm_popnums fs).
Proof. unfold eqm_populated, eqm_popnums. now rewrite map_length. Qed.

Lemma eqm_popnums_in fs n : In n (eqm_popnums fs) <-> exists v, v <> [] /\ In (n, v) fs.
Proof.
  unfold eqm_popnums. rewrite in_map_iff. split.
  - intros [[n' v] [E H]]. cbn [fst] in E. subst n'. apply filter_In in H. destruct H as [H1 H2].
    exists v. split; [|exact H1]. unfold eqm_pop in H2. cbn [snd] in H2. destruct v; [discriminate|congruence].
  - intros [v [Hv Hin]]. exists (n, v). split; [reflexivity|]. apply filter_In. split; [exact Hin|].
    unfold eqm_pop. cbn [snd]. destruct v; [congruence|reflexivity].
Qed.

Lemma eqm_popnums_nodup fs : NoDup (map fst fs) -> NoDup (eqm_popnums fs).
Proof.
  unfold eqm_popnums. induction fs as [|p r IH]; cbn [map filter]; intros H; [constructor|].
  inversion H as [|? ? Hk Hr]; subst. destruct (eqm_pop p); [|now apply IH].
  cbn [map]. constructor; [|now apply IH].
  intros Hin. apply Hk. apply in_map_iff in Hin. destruct Hin as [q [E Hq]]. apply filter_In in Hq.
  rewrite <- E. apply in_map. tauto.
Qed.

Lemma eqm_popnums_fget fs n : NoDup (map fst fs) -> (In n (eqm_popnums fs) <-> msg_fget fs n <> []).
Proof.
  intros Hn. rewrite eqm_popnums_in. split.
  - intros [v [Hv Hin]]. now rewrite (eqm_fget_nodup _ _ _ Hn Hin).
  - intros H. exists (msg_fget fs n). split; [exact H|now apply eqm_fget_in].
Qed.

(* if every populated number of a is populated in b and the counts agree, the converse holds too *)
Lemma eqm_pop_pigeonhole fa fb :
  NoDup (map fst fa) ->
  incl (eqm_popnums fa) (eqm_popnums fb) -> eqm_populated fa = eqm_populated fb ->
  incl (eqm_popnums fb) (eqm_popnums fa).
Proof.
  intros Hn Hi Hl. rewrite !eqm_populated_len in Hl.
  apply NoDup_length_incl; [now apply eqm_popnums_nodup|lia|exact Hi].
Qed.

(* map entries *)
Definition eqm_keys (es : list value) : list scalar :=
  flat_map (fun e => match e with VEntry k _ => [k] | _ => [] end) es.

Lemma eqm_efind_in es k v : eqm_efind es k = Some v -> In (VEntry k v) es.
Proof.
  induction es as [|e r IH]; cbn [eqm_efind]; [discriminate|].
  destruct e as [s|fs u|k0 x]; try (intros H; right; now apply IH).
  destruct (eqm_key k0 k) eqn:E.
  - apply eqm_key_eq in E. subst. intros [= ->]. now left.
  - intros H. right. now apply IH.
Qed.

Lemma eqm_efind_none es k : eqm_efind es k = None -> ~ In k (eqm_keys es).
Proof.
  induction es as [|e r IH]; cbn [eqm_efind eqm_keys flat_map]; [intros _ []|].
  destruct e as [s|fs u|k0 x]; cbn [app]; try exact IH.
  destruct (eqm_key k0 k) eqn:E; [discriminate|]. intros H [->|Hin]; [|now apply IH].
  rewrite eqm_key_refl in E. discriminate.
Qed.

Lemma eqm_nodup_keys_spec es :
  eqm_nodup_keys es = true -> NoDup (eqm_keys es) /\ length (eqm_keys es) = length es /\
                              (forall e, In e es -> exists k x, e = VEntry k x).
Proof.
  induction es as [|e r IH]; cbn [eqm_nodup_keys eqm_keys flat_map]; [intros _; repeat split; [constructor|intros e []]|].
  destruct e as [s|fs u|k0 x]; try discriminate.
  rewrite andb_true_iff, negb_true_iff. intros [H1 H2]. destruct (IH H2) as [N1 [L1 A1]].
  cbn [app length]. repeat split.
  - constructor; [|exact N1]. intros Hin. unfold eqm_keys in Hin. apply in_flat_map in Hin.
    destruct Hin as [e [He Hk]]. destruct e as [s|fs u|k1 x1]; try contradiction. destruct Hk as [->|[]].
    assert (existsb (fun e => match e with VEntry k' _ => eqm_key k' k0 | _ => false end) r = true) as F.
    { apply existsb_exists. exists (VEntry k0 x1). split; [exact He|apply eqm_key_refl]. }
    congruence.
  - fold (eqm_keys r). now rewrite L1.
  - intros e [<-|He]; [now exists k0, x|now apply A1].
Qed.

Lemma eqm_efind_nodup es k v : eqm_nodup_keys es = true -> In (VEntry k v) es -> eqm_efind es k = Some v.
Proof.
  induction es as [|e r IH]; cbn [eqm_efind eqm_nodup_keys]; intros Hn Hin; [contradiction|].
  destruct e as [s|fs u|k0 x]; try discriminate.
  apply andb_true_iff in Hn. destruct Hn as [H1 H2]. apply negb_true_iff in H1.
  destruct Hin as [E|Hin].
  - inversion E; subst. now rewrite eqm_key_refl.
  - destruct (eqm_key k0 k) eqn:E; [|now apply IH].
    apply eqm_key_eq in E. subst.
    assert (existsb (fun e => match e with VEntry k' _ => eqm_key k' k | _ => false end) r = true) as F.
    { apply existsb_exists. exists (VEntry k v). split; [exact Hin|apply eqm_key_refl]. }
    congruence.
Qed.

Lemma eqm_keys_in es k : In k (eqm_keys es) <-> exists x, In (VEntry k x) es.
Proof.
  unfold eqm_keys. rewrite in_flat_map. split.
  - intros [e [He Hk]]. destruct e as [s|fs u|k1 x1]; try contradiction. destruct Hk as [->|[]]. now exists x1.
  - intros [x Hx]. exists (VEntry k x). split; [exact Hx|now left].
Qed.
