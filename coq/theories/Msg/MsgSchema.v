(* MsgSchema — schema tables for the message codec model (shared by C03, C04 and
   the later message properties).  Definitions only.

   API
     skind                 the 16 scalar kinds (15 scalar kinds + enum)
     kind                  KS sk | KMsg tid | KGrp tid   (tid = index into the schema table)
     card                  COpt (explicit presence) | CImp (implicit presence, proto3 scalars)
                           | CReq | CRep (repeated, expanded) | CPacked (repeated, packed)
                           | CMap kk kutf8 vdef  (map; key kind, enforce-UTF8 on the key,
                             default number of an enum-typed value; the value kind is
                             [f_kind], its enforce-UTF8 flag is [f_utf8])
     fdesc                 one field (or one registered extension of the message: [f_ext])
     mdesc = list fdesc    fields in declaration order (extensions appended)
     schema = list mdesc   table of message types; message-typed fields refer to it by index,
                           so recursive schemas are fine
     msg_find_field md n   first field with number n
     sk_wt sk              wire type of a scalar kind; msg_packable sk
     msg_field_utf8 slow fd  whether string values of fd are validated (fast path quirk for
                           repeated string extensions)
     msg_legacy_key fd     sort key realising order.LegacyFieldOrder (extensions by number,
                           then plain fields by number, then oneofs by oneof index) *)
From Coq Require Import List NArith ZArith Bool.
Import ListNotations.
Open Scope N_scope.

Inductive skind :=
| SkDouble | SkFloat | SkInt64 | SkUint64 | SkInt32 | SkFixed64 | SkFixed32 | SkBool
| SkString | SkBytes | SkUint32 | SkEnum | SkSfixed32 | SkSfixed64 | SkSint32 | SkSint64.

Inductive kind := KS (sk : skind) | KMsg (tid : nat) | KGrp (tid : nat).

Inductive card :=
| COpt | CImp | CReq | CRep | CPacked
| CMap (kk : skind) (kutf8 : bool) (vdef : Z).

Record fdesc := mkF {
  f_num : N;
  f_kind : kind;
  f_card : card;
  f_oneof : option N;     (* index of the real (non-synthetic) oneof *)
  f_utf8 : bool;          (* strs.EnforceUTF8(fd) *)
  f_ext : bool;           (* extension field registered for this message *)
  f_lazy : bool           (* [lazy = true]; carried for C17 *)
}.

Definition mdesc := list fdesc.
Definition schema := list mdesc.

Fixpoint msg_find_field (md : mdesc) (num : N) : option fdesc :=
  match md with
  | [] => None
  | fd :: r => if f_num fd =? num then Some fd else msg_find_field r num
  end.

(* wireTypes[kind] *)
Definition sk_wt (sk : skind) : N :=
  match sk with
  | SkDouble | SkFixed64 | SkSfixed64 => 1
  | SkFloat | SkFixed32 | SkSfixed32 => 5
  | SkString | SkBytes => 2
  | _ => 0
  end.
Definition msg_packable (sk : skind) : bool := negb (sk_wt sk =? 2).

Definition kind_wt (k : kind) : N :=
  match k with KS sk => sk_wt sk | KMsg _ => 2 | KGrp _ => 3 end.

Definition card_repeated (c : card) : bool :=
  match c with CRep | CPacked => true | _ => false end.

(* Is UTF-8 validation performed for string values of this field?  The reflection path follows
   strs.EnforceUTF8.  The table-driven path has no validating coder for repeated string
   *extension* fields (codec_tables.go encoderFuncsForValue: "Extensions are never proto3"),
   so those are never validated there, although extensions declared in proto3/editions files
   do have EnforceUTF8 = true. *)
Definition msg_field_utf8 (slow : bool) (fd : fdesc) : bool :=
  f_utf8 fd && (slow || negb (f_ext fd && card_repeated (f_card fd))).

(* protowire.MaxValidNumber = 2^29 - 1 *)
Definition msg_max_num : N := 536870911.

(* order.LegacyFieldOrder as a key: field numbers are < 2^29 *)
Definition msg_legacy_key (fd : fdesc) : N :=
  if f_ext fd then f_num fd
  else match f_oneof fd with
       | None => 536870912 + f_num fd
       | Some i => 1073741824 * (1 + i) + f_num fd
       end.
