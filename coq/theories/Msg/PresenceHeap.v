(* Support definitions for Gen/PresenceGo.v (Tier T for C11): the memory that the unsafe pointer
   arithmetic of internal/impl/presence.go addresses.  Hand-written; definitions only.

   A heap is one array of uint32 words stored from the absolute address [h_base] on (the
   XXX_presence array of an opaque message).  unsafe.Pointer, uintptr and *uint32 values are
   absolute addresses (Z in [0, 2^64)).  A load or store through an address that is not the
   address of a word of the array -- below the base, misaligned, or at or beyond the end -- is a
   memory-safety violation in Go; here it is the outcome [Panic], which the theorems exclude.

   atomic.LoadUint32 is [load32]; atomic.CompareAndSwapUint32 is [cas32], ONE atomic step of a
   sequentially consistent memory.  The theorems about SetPresent / ClearPresent are about a
   single thread: no other goroutine writes between the load and the compare-and-swap of the
   retry loop (interleavings are the concern of C18), so the loop leaves after one iteration
   and [cas_retry_fuel] is enough; the theorems show the outcome [Fuel] unreachable. *)
From Coq Require Import List ZArith Bool.
From PB Require Import Base.GoInt.
Import ListNotations.
Open Scope Z_scope.

Record heap := mkHeap { h_base : Z; h_words : list Z }.

(* the index of the word that the address q points to *)
Definition word_index (h : heap) (q : Z) : outcome Z :=
  let o := q - h_base h in
  if (o <? 0) || negb (Z.rem o 4 =? 0) || (len (h_words h) <=? Z.quot o 4) then Panic
  else Val (Z.quot o 4).

Fixpoint upd_word (ws : list Z) (k : nat) (v : Z) : list Z :=
  match ws, k with
  | [], _ => []
  | _ :: r, O => v :: r
  | w :: r, S k' => w :: upd_word r k' v
  end.

Definition load32 (h : heap) (q : Z) : outcome Z :=
  bind (word_index h q) (fun i => Val (nth (Z.to_nat i) (h_words h) 0)).

Definition store32 (h : heap) (q : Z) (v : Z) : outcome heap :=
  bind (word_index h q) (fun i => Val (mkHeap (h_base h) (upd_word (h_words h) (Z.to_nat i) v))).

Definition cas32 (h : heap) (q : Z) (old new : Z) : outcome (heap * bool) :=
  bind (load32 h q) (fun cur =>
  if cur =? old then bind (store32 h q new) (fun h' => Val (h', true)) else Val (h, false)).

Definition cas_retry_fuel : nat := 2.
