(* Message-level proofs about the MessageSet model: the Unmarshal loop, the
   unknown-section re-framing, encode/decode round trip, Size, fast vs slow. *)
From Coq Require Import List Arith NArith ZArith Lia Bool.
From Coq Require Import ZifyBool ZifyNat ZifyN.
From PB Require Import Base.PBytes Wire.WireModel Wire.VarintP Msg.MsetModel Msg.MsetWireP Msg.MsetP.
Ltac Zify.zify_post_hook ::= Z.div_mod_to_equations.
Import ListNotations.
Open Scope N_scope.

(* ================================================================== *)
(* 1. The Unmarshal loop on a sequence of well-formed items             *)
(* ================================================================== *)

(* an item whose message subfield is spelled [raw] *)
Definition gen_item (id : N) (raw : list byte) : list byte :=
  enc_tag 1 3 ++ enc_tag 2 0 ++ enc_varint id ++ enc_tag 3 2 ++ raw ++ enc_tag 1 4.

Lemma append_item_gen id p : append_item id p = gen_item id (enc_bytes p).
Proof.
  unfold append_item, gen_item, append_field_start, append_field_end, field_item, field_type_id, field_message.
  now rewrite <- !app_assoc.
Qed.

Lemma enc_tag_1_3 : enc_tag 1 3 = [x0b]. Proof. reflexivity. Qed.

Definition witem := (N * list byte * list byte)%type.   (* id, raw, payload *)
Definition witem_ok (e : witem) : Prop :=
  let '(id, raw, p) := e in valid_id id /\ lp raw p /\ N.of_nat (length p) < 2^64.
Definition witem_bytes (e : witem) : list byte := let '(id, raw, _) := e in gen_item id raw.
Definition witem_val (wl : bool) (e : witem) : list byte := let '(_, raw, p) := e in if wl then raw else p.

Fixpoint fold_items {S : Type} (wl : bool) (fn : N -> list byte -> S -> mres S) (items : list witem) (s : S) : mres S :=
  match items with
  | [] => MOk s
  | e :: r =>
      match fn (fst (fst e)) (witem_val wl e) s with
      | MOk s' => fold_items wl fn r s'
      | MErr err => MErr err
      end
  end.

Lemma gen_item_consume wl id raw p rest :
  valid_id id -> lp raw p -> N.of_nat (length p) < 2^64 ->
  consume_item wl (enc_tag 2 0 ++ enc_varint id ++ enc_tag 3 2 ++ raw ++ enc_tag 1 4 ++ rest)
  = MOk (id, if wl then raw else p, rest).
Proof.
  intros Hid Hlp Hp.
  pose proof (consume_item_parts wl [PId id; PChunk raw p] rest) as H.
  cbn [flat_map render_part last_id chunks_of app] in H.
  rewrite <- !app_assoc in H. cbn [app] in H.
  rewrite H.
  - unfold item_message, stored. rewrite payload_of_single. destruct wl; reflexivity.
  - constructor; [exact Hid|]. constructor; [exact Hlp|constructor].
  - now rewrite payload_of_single.
Qed.

Lemma unmarshal_loop_items {S : Type} wl (fn : N -> list byte -> S -> mres S) :
  forall items g s,
  (length items < length g)%nat ->
  Forall witem_ok items ->
  unmarshal_loop wl fn g (flat_map witem_bytes items) s = fold_items wl fn items s.
Proof.
  induction items as [|[[id raw] p] items IH]; intros g s Hg Hok.
  - destruct g; [cbn [length] in Hg; lia|]. reflexivity.
  - destruct g as [|g0 g]; [cbn [length] in Hg; lia|]. cbn [length] in Hg.
    inversion Hok as [|? ? Hx Hok']; subst. destruct Hx as (Hid & Hlp & Hp).
    cbn [flat_map witem_bytes]. unfold gen_item at 1. rewrite <- !app_assoc.
    rewrite enc_tag_1_3 at 1. cbn [app unmarshal_loop].
    change (x0b :: ?t) with ([x0b] ++ t). rewrite <- enc_tag_1_3.
    rewrite dec_tag_enc_tag by (unfold valid_num; lia).
    unfold field_item. change ((1 =? 1) && (3 =? 3)) with true. cbv iota.
    rewrite (gen_item_consume wl id raw p) by assumption.
    assert (Hid0 : (id =? 0) = false) by (unfold valid_id in Hid; lia).
    rewrite Hid0. cbn [fold_items fst witem_val].
    destruct (fn id (if wl then raw else p) s) as [s'|e]; [|reflexivity].
    apply IH; [lia|exact Hok'].
Qed.

Lemma witem_bytes_length items : (length items <= length (flat_map witem_bytes items))%nat.
Proof.
  induction items as [|[[id raw] p] r IH]; [reflexivity|].
  cbn [flat_map witem_bytes length]. unfold gen_item. rewrite enc_tag_1_3. cbn [app length]. rewrite app_length. lia.
Qed.

Lemma unmarshal_items {S : Type} wl (fn : N -> list byte -> S -> mres S) items s :
  Forall witem_ok items ->
  unmarshal wl fn (flat_map witem_bytes items) s = fold_items wl fn items s.
Proof.
  intros Hok. unfold unmarshal. apply unmarshal_loop_items; [|exact Hok].
  cbn [length]. pose proof (witem_bytes_length items). lia.
Qed.

(* ================================================================== *)
(* 2. The unknown section                                               *)
(* ================================================================== *)

Definition uentry_raw (e : witem) : list byte := let '(id, raw, _) := e in enc_tag id 2 ++ raw.
Definition uentry_norm (e : witem) : list byte := let '(id, _, p) := e in unknown_entry id p.

Lemma enc_tag_cons num typ : exists b t, enc_tag num typ = b :: t.
Proof.
  unfold enc_tag. pose proof (enc_varint_nonempty (encode_tag num typ)).
  destruct (enc_varint (encode_tag num typ)) as [|b t]; [congruence|]. eauto.
Qed.

Lemma valid_id_num id : valid_id id -> valid_num id.
Proof. unfold valid_id, valid_num, max_int32. lia. Qed.

Lemma append_unknown_loop_step g0 g u acc :
  u <> [] ->
  append_unknown_loop (g0 :: g) u acc =
  match dec_tag u with
  | Err _ => MErr MUnknownData
  | Ok (num, typ, r) =>
      if negb (typ =? 2) then MErr MUnknownData else
      match dec_bytes r with
      | Err _ => MErr MUnknownData
      | Ok (_, r') =>
          append_unknown_loop g r'
            (acc ++ append_field_start num ++ enc_tag field_message 2
                 ++ firstn (length r - length r') r ++ append_field_end)
      end
  end.
Proof. destruct u; [congruence|reflexivity]. Qed.

Lemma enc_tag_app_nonempty num typ x : enc_tag num typ ++ x <> [].
Proof. destruct (enc_tag_cons num typ) as (b & t & E). rewrite E. discriminate. Qed.

Lemma append_unknown_loop_items : forall items g acc,
  (length items < length g)%nat ->
  Forall witem_ok items ->
  append_unknown_loop g (flat_map uentry_raw items) acc = MOk (acc ++ flat_map witem_bytes items).
Proof.
  induction items as [|[[id raw] p] items IH]; intros g acc Hg Hok.
  - destruct g; [cbn [length] in Hg; lia|]. cbn [flat_map append_unknown_loop]. now rewrite app_nil_r.
  - destruct g as [|g0 g]; [cbn [length] in Hg; lia|]. cbn [length] in Hg.
    inversion Hok as [|? ? Hx Hok']; subst. destruct Hx as (Hid & Hlp & Hp).
    cbn [flat_map uentry_raw witem_bytes]. rewrite <- !app_assoc.
    rewrite append_unknown_loop_step by apply enc_tag_app_nonempty.
    rewrite dec_tag_enc_tag by (auto using valid_id_num; lia).
    change (negb (2 =? 2)) with false. cbv iota.
    rewrite Hlp. rewrite firstn_consumed.
    rewrite IH by (auto; lia).
    f_equal. unfold gen_item, append_field_start, append_field_end, field_item, field_type_id, field_message.
    now rewrite <- !app_assoc.
Qed.

Lemma uentry_raw_length items : (length items <= length (flat_map uentry_raw items))%nat.
Proof.
  induction items as [|[[id raw] p] r IH]; [reflexivity|].
  cbn [flat_map uentry_raw length]. destruct (enc_tag_cons id 2) as (b & t & Eb). rewrite Eb.
  cbn [app length]. rewrite !app_length. lia.
Qed.

Lemma append_unknown_items items :
  Forall witem_ok items ->
  append_unknown (flat_map uentry_raw items) = MOk (flat_map witem_bytes items).
Proof.
  intros Hok. unfold append_unknown.
  rewrite append_unknown_loop_items; [reflexivity| |exact Hok].
  cbn [length]. pose proof (uentry_raw_length items). lia.
Qed.

(* SizeUnknown agrees with AppendUnknown on EVERY unknown section: the length of
   the output when it succeeds, 0 when it reports invalid data. *)
Lemma item_frame_length num raw :
  valid_num num ->
  N.of_nat (length (append_field_start num ++ enc_tag field_message 2 ++ raw ++ append_field_end))
  = size_field num + size_tag field_message + N.of_nat (length raw).
Proof.
  intros Hn. unfold append_field_start, append_field_end, size_field, field_item, field_type_id, field_message.
  rewrite !app_length, !Nat2N.inj_add.
  rewrite <- (size_varint_length num) by (unfold valid_num in Hn; change (2^64) with 18446744073709551616; lia).
  change (size_tag 1) with 1. change (size_tag 2) with 1. change (size_tag 3) with 1.
  change (length (enc_tag 1 3)) with 1%nat. change (length (enc_tag 2 0)) with 1%nat.
  change (length (enc_tag 3 2)) with 1%nat. change (length (enc_tag 1 4)) with 1%nat.
  lia.
Qed.

Lemma size_append_unknown_loop : forall g u n acc,
  match append_unknown_loop g u acc with
  | MOk bs => size_unknown_loop g u n + N.of_nat (length acc) = n + N.of_nat (length bs)
  | MErr _ => size_unknown_loop g u n = 0
  end.
Proof.
  induction g as [|g0 g IH]; intros u n acc; [reflexivity|].
  cbn [append_unknown_loop size_unknown_loop].
  destruct u as [|u0 u]; [lia|].
  destruct (dec_tag (u0 :: u)) as [[[num typ] r]|e] eqn:Et; [|reflexivity].
  destruct (negb (typ =? 2)); [reflexivity|].
  destruct (dec_bytes r) as [[m r']|e] eqn:Eb; [|reflexivity].
  apply dec_tag_prefix in Et. destruct Et as (Hn & _).
  specialize (IH r' (n + size_field num + size_tag field_message + N.of_nat (length r - length r'))
                 (acc ++ append_field_start num ++ enc_tag field_message 2 ++ firstn (length r - length r') r ++ append_field_end)).
  destruct (append_unknown_loop g r' _) as [bs|e]; [|exact IH].
  rewrite app_length in IH. rewrite Nat2N.inj_add in IH.
  rewrite (item_frame_length num _ Hn) in IH.
  apply dec_bytes_len in Eb.
  rewrite firstn_length in IH.
  replace (Nat.min (length r - length r') (length r)) with (length r - length r')%nat in IH by lia.
  lia.
Qed.

Theorem size_unknown_spec u :
  match append_unknown u with
  | MOk bs => size_unknown u = N.of_nat (length bs)
  | MErr _ => size_unknown u = 0
  end.
Proof.
  unfold append_unknown, size_unknown.
  pose proof (size_append_unknown_loop (x00 :: u) u 0 []) as H.
  destruct (append_unknown_loop (x00 :: u) u []); [|exact H]. cbn [length] in H. lia.
Qed.

(* ================================================================== *)
(* 3. Messages: encode, decode, round trip                              *)
(* ================================================================== *)

Fixpoint sorted_ids (l : list (N * list byte)) : Prop :=
  match l with
  | [] => True
  | e :: r => Forall (fun x => fst e < fst x) r /\ sorted_ids r
  end.

Lemma ext_merge_snoc id p l :
  Forall (fun x => fst x < id) l -> ext_merge id p l = l ++ [(id, p)].
Proof.
  induction l as [|[i q] r IH]; intros H; [reflexivity|].
  inversion H; subst. cbn [fst] in *. cbn [ext_merge app].
  replace (id <? i) with false by lia. replace (id =? i) with false by lia.
  now rewrite IH.
Qed.

Definition ext_ok (kn : N -> bool) (pok : list byte -> bool) (e : N * list byte) : Prop :=
  valid_id (fst e) /\ kn (fst e) = true /\ pok (snd e) = true /\ N.of_nat (length (snd e)) < 2^64.
Definition unk_ok (kn : N -> bool) (e : witem) : Prop := witem_ok e /\ kn (fst (fst e)) = false.

Definition ext_witem (e : N * list byte) : witem := (fst e, enc_bytes (snd e), snd e).

Lemma encode_exts_witems l : encode_exts l = flat_map witem_bytes (map ext_witem l).
Proof.
  unfold encode_exts. induction l as [|[id p] r IH]; [reflexivity|].
  cbn [flat_map map ext_witem witem_bytes fst snd]. now rewrite IH, append_item_gen.
Qed.

Lemma ext_witem_ok kn pok e : ext_ok kn pok e -> witem_ok (ext_witem e).
Proof.
  destruct e as [id p]. unfold ext_ok, ext_witem, witem_ok. cbn [fst snd].
  intros (Hid & _ & _ & Hp). split; [exact Hid|]. split; [now apply lp_enc_bytes|exact Hp].
Qed.

(* folding the fast / slow callback over the extension items of a sorted list *)
Lemma fold_exts wl kn pok : forall todo done u,
  Forall (ext_ok kn pok) todo ->
  sorted_ids (done ++ todo) ->
  fold_items wl (if wl then fn_fast kn pok else fn_slow kn pok) (map ext_witem todo)
    {| m_ext := done; m_unknown := u |}
  = MOk {| m_ext := done ++ todo; m_unknown := u |}.
Proof.
  induction todo as [|[id p] todo IH]; intros done u Hok Hs.
  - cbn [map fold_items]. now rewrite app_nil_r.
  - inversion Hok as [|? ? Hx Hok']; subst. destruct Hx as (Hid & Hkn & Hpok & Hp). cbn [fst snd] in *.
    cbn [map fold_items ext_witem fst snd witem_val].
    assert (Hbelow : Forall (fun x => fst x < id) done).
    { clear -Hs. induction done as [|d done IHd]; [constructor|].
      cbn [app sorted_ids] in Hs. destruct Hs as [H1 H2]. constructor.
      - apply Forall_app in H1. destruct H1 as [_ H1]. apply Forall_inv in H1. exact H1.
      - apply IHd. exact H2. }
    assert (Hstep : forall v, (if wl then v = enc_bytes p else v = p) ->
       (if wl then fn_fast kn pok else fn_slow kn pok) id v {| m_ext := done; m_unknown := u |}
       = MOk {| m_ext := done ++ [(id, p)]; m_unknown := u |}).
    { intros v Hv. destruct wl; subst v.
      - unfold fn_fast. rewrite Hkn.
        rewrite <- (app_nil_r (enc_bytes p)). rewrite dec_bytes_enc_bytes by exact Hp.
        rewrite Hpok. cbn [m_ext m_unknown]. now rewrite ext_merge_snoc.
      - unfold fn_slow. rewrite Hkn, Hpok. cbn [m_ext m_unknown]. now rewrite ext_merge_snoc. }
    rewrite Hstep by (destruct wl; reflexivity).
    rewrite IH; [|exact Hok'|now rewrite <- app_assoc].
    now rewrite <- app_assoc.
Qed.

Lemma fold_unks_fast kn pok : forall items ext u,
  Forall (unk_ok kn) items ->
  fold_items true (fn_fast kn pok) items {| m_ext := ext; m_unknown := u |}
  = MOk {| m_ext := ext; m_unknown := u ++ flat_map uentry_raw items |}.
Proof.
  induction items as [|[[id raw] p] items IH]; intros ext u Hok.
  - cbn [fold_items flat_map]. now rewrite app_nil_r.
  - inversion Hok as [|? ? [Hw Hkn] Hok']; subst. cbn [fst] in Hkn.
    cbn [fold_items fst witem_val]. unfold fn_fast at 1. rewrite Hkn. cbn [m_ext m_unknown].
    rewrite IH by exact Hok'. cbn [flat_map uentry_raw]. now rewrite <- !app_assoc.
Qed.

Lemma fold_unks_slow kn pok : forall items ext u,
  Forall (unk_ok kn) items ->
  fold_items false (fn_slow kn pok) items {| m_ext := ext; m_unknown := u |}
  = MOk {| m_ext := ext; m_unknown := u ++ flat_map uentry_norm items |}.
Proof.
  induction items as [|[[id raw] p] items IH]; intros ext u Hok.
  - cbn [fold_items flat_map]. now rewrite app_nil_r.
  - inversion Hok as [|? ? [Hw Hkn] Hok']; subst. cbn [fst] in Hkn.
    cbn [fold_items fst witem_val]. unfold fn_slow at 1. rewrite Hkn. cbn [m_ext m_unknown].
    rewrite IH by exact Hok'. cbn [flat_map uentry_norm]. now rewrite <- !app_assoc.
Qed.

Lemma fold_items_app {S} wl (fn : N -> list byte -> S -> mres S) a b s :
  fold_items wl fn (a ++ b) s =
  match fold_items wl fn a s with MOk s' => fold_items wl fn b s' | MErr e => MErr e end.
Proof.
  revert s. induction a as [|x a IH]; intros s; [reflexivity|].
  cbn [app fold_items]. destruct (fn (fst (fst x)) (witem_val wl x) s); [apply IH|reflexivity].
Qed.

(* a MessageSet message as a decoder can produce it *)
Definition content_ok (kn : N -> bool) (pok : list byte -> bool) (exts : list (N * list byte)) (unks : list witem) : Prop :=
  Forall (ext_ok kn pok) exts /\ sorted_ids exts /\ Forall (unk_ok kn) unks.

Definition mk_mset (exts : list (N * list byte)) (unks : list witem) : mset :=
  {| m_ext := exts; m_unknown := flat_map uentry_raw unks |}.
Definition mk_mset_norm (exts : list (N * list byte)) (unks : list witem) : mset :=
  {| m_ext := exts; m_unknown := flat_map uentry_norm unks |}.

Definition content_bytes (exts : list (N * list byte)) (unks : list witem) : list byte :=
  flat_map witem_bytes (map ext_witem exts ++ unks).

Theorem encode_content kn pok exts unks :
  content_ok kn pok exts unks ->
  encode (mk_mset exts unks) = MOk (content_bytes exts unks).
Proof.
  intros (He & Hs & Hu). unfold encode, mk_mset, content_bytes. cbn [m_ext m_unknown].
  rewrite append_unknown_items.
  - now rewrite encode_exts_witems, flat_map_app.
  - eapply Forall_impl; [|exact Hu]. now intros a [H _].
Qed.

Lemma content_items_ok kn pok exts unks :
  content_ok kn pok exts unks -> Forall witem_ok (map ext_witem exts ++ unks).
Proof.
  intros (He & Hs & Hu). apply Forall_app. split.
  - apply Forall_map. eapply Forall_impl; [|exact He]. intros a. apply ext_witem_ok.
  - eapply Forall_impl; [|exact Hu]. now intros a [H _].
Qed.

Theorem decode_fast_content kn pok exts unks :
  content_ok kn pok exts unks ->
  decode_fast kn pok (content_bytes exts unks) mset_empty = MOk (mk_mset exts unks).
Proof.
  intros Hc. pose proof (content_items_ok _ _ _ _ Hc) as Hok. destruct Hc as (He & Hs & Hu).
  unfold decode_fast, content_bytes. rewrite unmarshal_items by exact Hok.
  rewrite fold_items_app. unfold mset_empty.
  rewrite (fold_exts true kn pok exts [] []) by assumption.
  cbn [app]. rewrite fold_unks_fast by exact Hu. reflexivity.
Qed.

Theorem decode_slow_content kn pok exts unks :
  content_ok kn pok exts unks ->
  decode_slow kn pok (content_bytes exts unks) mset_empty = MOk (mk_mset_norm exts unks).
Proof.
  intros Hc. pose proof (content_items_ok _ _ _ _ Hc) as Hok. destruct Hc as (He & Hs & Hu).
  unfold decode_slow, content_bytes. rewrite unmarshal_items by exact Hok.
  rewrite fold_items_app. unfold mset_empty.
  rewrite (fold_exts false kn pok exts [] []) by assumption.
  cbn [app]. rewrite fold_unks_slow by exact Hu. reflexivity.
Qed.

(* canonical unknown items: minimal length prefixes; then raw = normalised *)
Definition canon (e : witem) : Prop := let '(_, raw, p) := e in raw = enc_bytes p.

Lemma canon_raw_norm unks : Forall canon unks -> flat_map uentry_raw unks = flat_map uentry_norm unks.
Proof.
  induction 1 as [|[[id raw] p] r Hc _ IH]; [reflexivity|].
  cbn [flat_map uentry_raw uentry_norm]. unfold canon in Hc. subst raw. unfold unknown_entry.
  now rewrite IH.
Qed.

(* ---------- Size ---------- *)
Lemma append_item_length id p :
  valid_id id -> N.of_nat (length p) < 2^64 ->
  N.of_nat (length (append_item id p)) = size_item id (N.of_nat (length p)).
Proof.
  intros Hid Hp. unfold append_item, size_item, size_bytes.
  replace (append_field_start id ++ enc_tag field_message 2 ++ enc_bytes p ++ append_field_end)
    with (append_field_start id ++ enc_tag field_message 2 ++ enc_bytes p ++ append_field_end) by reflexivity.
  rewrite (item_frame_length id (enc_bytes p)) by (now apply valid_id_num).
  unfold enc_bytes. rewrite app_length, Nat2N.inj_add.
  rewrite <- size_varint_length by exact Hp. lia.
Qed.

Lemma encode_exts_length l :
  Forall (fun e => valid_id (fst e) /\ N.of_nat (length (snd e)) < 2^64) l ->
  N.of_nat (length (encode_exts l)) = size_exts l.
Proof.
  unfold encode_exts, size_exts.
  induction 1 as [|[id p] r [Hid Hp] _ IH]; [reflexivity|].
  cbn [flat_map fold_right fst snd] in *. rewrite app_length, Nat2N.inj_add.
  rewrite append_item_length by assumption. now rewrite IH.
Qed.

Theorem size_eq_length m bs :
  Forall (fun e => valid_id (fst e) /\ N.of_nat (length (snd e)) < 2^64) (m_ext m) ->
  encode m = MOk bs -> size m = N.of_nat (length bs).
Proof.
  intros He. unfold encode, size.
  pose proof (size_unknown_spec (m_unknown m)) as Hu.
  destruct (append_unknown (m_unknown m)) as [u|e]; [|discriminate].
  intros H; inversion H; subst.
  rewrite app_length, Nat2N.inj_add, encode_exts_length by exact He. now rewrite Hu.
Qed.

(* ================================================================== *)
(* 4. Fast path and slow path agree                                     *)
(* ================================================================== *)

(* marshal: the two paths write the same bytes and compute the same size *)
Theorem encode_fast_slow m : encode_slow m = encode m.
Proof.
  unfold encode_slow, encode, encode_exts.
  destruct (append_unknown (m_unknown m)); [|reflexivity].
  f_equal. f_equal. apply flat_map_ext. intros [id p].
  unfold append_item_slow, append_item, enc_bytes. cbn [fst snd]. now rewrite <- !app_assoc.
Qed.

Theorem size_fast_slow m : size_slow m = size m.
Proof.
  unfold size_slow, size, size_exts, size_item. reflexivity.
Qed.

(* unmarshal: same acceptance, same error, same extensions; the unknown
   sections hold the same items in the same order and differ at most in the
   spelling of a length prefix (the fast path keeps the bytes of a single
   message chunk as they were, the slow path re-encodes the length) *)
Inductive unk_rel : list byte -> list byte -> Prop :=
| unk_refl u : unk_rel u u
| unk_snoc u nu id v p : unk_rel u nu -> lp v p ->
    unk_rel (u ++ enc_tag id 2 ++ v) (nu ++ unknown_entry id p).

Definition st_rel (f s : mset) : Prop := m_ext f = m_ext s /\ unk_rel (m_unknown f) (m_unknown s).

Lemma unmarshal_loop_sim {S T : Type} (R : S -> T -> Prop)
    (fn_t : N -> list byte -> S -> mres S) (fn_f : N -> list byte -> T -> mres T) :
  (forall id v p s t, R s t -> lp v p -> valid_id id ->
     match fn_f id p t with
     | MOk t' => exists s', fn_t id v s = MOk s' /\ R s' t'
     | MErr e => fn_t id v s = MErr e /\ e <> MFuel /\ e <> MImpossible
     end) ->
  forall g bs s t, (length bs < length g)%nat -> N.of_nat (length bs) < 2^64 -> R s t ->
  match unmarshal_loop false fn_f g bs t with
  | MOk t' => exists s', unmarshal_loop true fn_t g bs s = MOk s' /\ R s' t'
  | MErr e => unmarshal_loop true fn_t g bs s = MErr e /\ e <> MFuel /\ e <> MImpossible
  end.
Proof.
  intros Hfn. induction g as [|g0 g IH]; intros bs s t Hg Hlen HR; [cbn [length] in Hg; lia|].
  cbn [length] in Hg. cbn [unmarshal_loop].
  destruct bs as [|b0 bs']; [exists s; auto|].
  set (bs := b0 :: bs') in *.
  destruct (dec_tag bs) as [[[num typ] r]|e] eqn:Et; [|split; [reflexivity|split; discriminate]].
  pose proof (dec_tag_len _ _ _ _ Et) as Hr.
  destruct ((num =? field_item) && (typ =? 3)).
  - pose proof (consume_item_sim r ltac:(lia)) as Hsim.
    destruct (consume_item false r) as [[[id p] r']|e].
    + destruct Hsim as (v & Hv & Hlp & Hid & Hr'). rewrite Hv.
      destruct (id =? 0) eqn:E0.
      * apply IH; [lia|lia|exact HR].
      * assert (Hvid : valid_id id) by (unfold valid_id; lia).
        specialize (Hfn id v p s t HR Hlp Hvid).
        destruct (fn_f id p t) as [t'|e].
        -- destruct Hfn as (s' & Hs' & HR'). rewrite Hs'. apply IH; [lia|lia|exact HR'].
        -- destruct Hfn as (Hs' & Hne). rewrite Hs'. auto.
    + destruct Hsim as (Hv & Hne). rewrite Hv. auto.
  - destruct (parse_val default_dep num typ r) as [[v0 r']|e] eqn:Ep; [|split; [reflexivity|split; discriminate]].
    pose proof (parse_val_len _ _ _ _ _ _ Ep) as Hr'.
    apply IH; [lia|lia|exact HR].
Qed.

Lemma fn_fast_slow_sim kn pok id v p s t :
  st_rel s t -> lp v p -> valid_id id ->
  match fn_slow kn pok id p t with
  | MOk t' => exists s', fn_fast kn pok id v s = MOk s' /\ st_rel s' t'
  | MErr e => fn_fast kn pok id v s = MErr e /\ e <> MFuel /\ e <> MImpossible
  end.
Proof.
  intros [He Hu] Hlp Hid. unfold fn_slow, fn_fast.
  destruct (kn id).
  - pose proof (Hlp []) as Hd. rewrite app_nil_r in Hd. rewrite Hd.
    destruct (pok p).
    + eexists. split; [reflexivity|]. split; cbn [m_ext m_unknown]; [now rewrite He|exact Hu].
    + split; [reflexivity|split; discriminate].
  - eexists. split; [reflexivity|]. split; cbn [m_ext m_unknown]; [exact He|].
    now apply unk_snoc.
Qed.

Theorem decode_fast_slow_agree kn pok bs s :
  N.of_nat (length bs) < 2^64 ->
  match decode_slow kn pok bs s with
  | MOk t' => exists s', decode_fast kn pok bs s = MOk s' /\ st_rel s' t'
  | MErr e => decode_fast kn pok bs s = MErr e /\ e <> MFuel /\ e <> MImpossible
  end.
Proof.
  intros Hlen. unfold decode_slow, decode_fast, unmarshal.
  apply (unmarshal_loop_sim st_rel (fn_fast kn pok) (fn_slow kn pok)).
  - intros. now apply fn_fast_slow_sim.
  - cbn [length]. lia.
  - exact Hlen.
  - split; [reflexivity|apply unk_refl].
Qed.

(* fuel is never exhausted (the loops of the model are total on every input a Go slice can hold) *)
Corollary decode_no_fuel kn pok bs s :
  N.of_nat (length bs) < 2^64 ->
  decode_slow kn pok bs s <> MErr MFuel /\ decode_fast kn pok bs s <> MErr MFuel
  /\ decode_fast kn pok bs s <> MErr MImpossible.
Proof.
  intros Hlen. pose proof (decode_fast_slow_agree kn pok bs s Hlen) as H.
  destruct (decode_slow kn pok bs s) as [t'|e].
  - destruct H as (s' & -> & _). repeat split; discriminate.
  - destruct H as (-> & H1 & H2). repeat split; congruence.
Qed.

(* ================================================================== *)
(* 5. Statements in the form used by Props/C47.v                        *)
(* ================================================================== *)

Theorem item_roundtrip wl id p rest :
  valid_id id -> N.of_nat (length p) < 2^64 ->
  exists body,
    dec_tag (append_item id p ++ rest) = Ok (1, 3, body) /\
    consume_item wl body = MOk (id, if wl then enc_bytes p else p, rest).
Proof.
  intros Hid Hp. exists (item_body id p ++ rest). split.
  - rewrite append_item_body, <- app_assoc. apply dec_tag_enc_tag; [unfold valid_num|]; lia.
  - now apply item_body_roundtrip.
Qed.

Theorem mset_roundtrip kn pok exts unks :
  content_ok kn pok exts unks -> Forall canon unks ->
  exists bs, encode (mk_mset exts unks) = MOk bs /\
             decode_fast kn pok bs mset_empty = MOk (mk_mset exts unks) /\
             decode_slow kn pok bs mset_empty = MOk (mk_mset exts unks).
Proof.
  intros Hc Hcan. exists (content_bytes exts unks).
  split; [now apply (encode_content kn pok)|]. split; [now apply decode_fast_content|].
  rewrite decode_slow_content by exact Hc. unfold mk_mset, mk_mset_norm.
  now rewrite canon_raw_norm.
Qed.

Theorem mset_unknown_preserved kn pok exts unks :
  content_ok kn pok exts unks ->
  exists bs, encode (mk_mset exts unks) = MOk bs /\
             decode_fast kn pok bs mset_empty = MOk (mk_mset exts unks) /\
             decode_slow kn pok bs mset_empty = MOk (mk_mset_norm exts unks).
Proof.
  intros Hc. exists (content_bytes exts unks).
  split; [now apply (encode_content kn pok)|]. split; [now apply decode_fast_content|now apply decode_slow_content].
Qed.

(* FJ1: on an unresolved item whose length prefix is not minimal the two paths
   store different unknown bytes (equal content, different spelling) *)
Definition fj1_witness : list byte :=
  [x0b; x10; x88; x27; x1a; x82; x00; xaa; xbb; x0c].
Theorem fast_slow_unknown_differ :
  exists f s, decode_fast (fun _ => false) (fun _ => true) fj1_witness mset_empty = MOk f /\
              decode_slow (fun _ => false) (fun _ => true) fj1_witness mset_empty = MOk s /\
              m_unknown f <> m_unknown s.
Proof.
  eexists. eexists. split; [vm_compute; reflexivity|]. split; [vm_compute; reflexivity|].
  cbn [m_unknown]. discriminate.
Qed.

(* a length-delimited spelling with an arbitrary (possibly non-minimal) length varint *)
Lemma lp_of_prefix pre p :
  (forall y, dec_varint (pre ++ y) = Ok (N.of_nat (length p), y)) -> lp (pre ++ p) p.
Proof.
  intros H y. unfold dec_bytes. rewrite <- app_assoc, H. rewrite app_length.
  replace (N.of_nat (length p + length y) <? N.of_nat (length p)) with false by lia.
  rewrite Nat2N.id, take_app. reflexivity.
Qed.

Lemma encode_size_fast_slow m : encode_slow m = encode m /\ size_slow m = size m.
Proof. split; [apply encode_fast_slow|apply size_fast_slow]. Qed.
