(* Proofs about the protorange model (Msg/RangeModel.v). *)
From Coq Require Import List Arith NArith Bool Lia Wf_nat.
From Coq Require Import ZifyBool ZifyNat ZifyN.
From PB Require Import Msg.RangeModel.
Import ListNotations.
Open Scope N_scope.

(* ---------- a uniform view: the children ("kids") of a value, in range order ---------- *)
Fixpoint indexed (i : N) (l : list tree) : list (step * tree) :=
  match l with [] => [] | v :: r => (SIndex i, v) :: indexed (i + 1) r end.

Definition fkid (nv : N * tree) : step * tree := (SField (fst nv), snd nv).
Definition kkid (kv : N * tree) : step * tree := (SKey (fst kv), snd kv).

Definition kids (t : tree) : list (step * tree) :=
  match t with
  | Scalar => []
  | Message fields unk (Some m2) => [(SAny, m2)]
  | Message fields unk None => map fkid fields ++ (if unk then [(SUnknown, Scalar)] else [])
  | TList elems => indexed 0 elems
  | TMap entries => map kkid entries
  end.

Fixpoint loop (vis : step -> tree -> verdict * list event) (ks : list (step * tree)) : verdict * list event :=
  match ks with
  | [] => (Continue, [])
  | (s, v) :: r =>
      let '(e, ev) := vis s v in
      if is_nil e then let '(e', ev') := loop vis r in (e', ev ++ ev') else (e, ev)
  end.

Lemma is_nil_true e : is_nil e = true -> e = Continue.
Proof. destruct e; cbn; congruence. Qed.

Lemma loop_app vis a b :
  loop vis (a ++ b) =
  let '(e, ev) := loop vis a in
  if is_nil e then let '(e', ev') := loop vis b in (e', ev ++ ev') else (e, ev).
Proof.
  induction a as [|[s v] a IH]; cbn [app loop].
  - cbn. now destruct (loop vis b).
  - destruct (vis s v) as [e ev]. destruct (is_nil e) eqn:E.
    + rewrite IH. destruct (loop vis a) as [e1 ev1]. destruct (is_nil e1) eqn:E1.
      * destruct (loop vis b) as [e2 ev2]. now rewrite app_assoc.
      * reflexivity.
    + now rewrite E.
Qed.

Lemma loop_ext vis1 vis2 ks :
  (forall s v, In (s, v) ks -> vis1 s v = vis2 s v) -> loop vis1 ks = loop vis2 ks.
Proof.
  induction ks as [|[s v] r IH]; intros H; cbn [loop]; [reflexivity|].
  rewrite (H s v) by now left. rewrite IH by (intros; apply H; now right). reflexivity.
Qed.

Section Unfold.
Variable push pop : callback.
Let vis (p : path) := fun s v => visit push pop (children push pop) (p ++ [s]) v.

Lemma children_kids p t :
  children push pop p t = let '(e, ev) := loop (vis p) (kids t) in (clear_break e, ev).
Proof.
  destruct t as [|fields unk [m2|]|elems|entries]; cbn [children kids].
  - reflexivity.
  - cbn [loop]. unfold vis. destruct (visit push pop (children push pop) (p ++ [SAny]) m2) as [e ev].
    destruct (is_nil e) eqn:E; [|reflexivity].
    apply is_nil_true in E; subst. now rewrite app_nil_r.
  - rewrite loop_app.
    match goal with |- context [match ?F fields with pair _ _ => _ end] => is_fix F; set (fl := F) end.
    assert (Hfl : forall fs, fl fs = loop (vis p) (map fkid fs)).
    { induction fs as [|[num v] r IH]; [reflexivity|].
      cbn [map fkid fst snd loop]. unfold vis at 1. unfold fl at 1. cbn fix beta iota.
      destruct (visit push pop (children push pop) (p ++ [SField num]) v) as [e ev].
      fold fl. rewrite IH. reflexivity. }
    rewrite Hfl. destruct (loop (vis p) (map fkid fields)) as [e ev].
    destruct unk; cbn [andb].
    + destruct (is_nil e) eqn:E; [|now rewrite app_nil_r].
      cbn [loop]. unfold vis.
      assert (Hv : visit push pop (fun _ _ => (Continue, [])) (p ++ [SUnknown]) Scalar
                   = visit push pop (children push pop) (p ++ [SUnknown]) Scalar) by reflexivity.
      rewrite Hv. destruct (visit push pop (children push pop) (p ++ [SUnknown]) Scalar) as [e' ev'].
      destruct (is_nil e') eqn:E'; [|reflexivity].
      apply is_nil_true in E'; subst. now rewrite app_nil_r.
    + cbn [loop]. destruct (is_nil e) eqn:E; [|now rewrite app_nil_r].
      apply is_nil_true in E; subst. reflexivity.
  - match goal with |- context [match ?F 0 elems with pair _ _ => _ end] => is_fix F; set (ll := F) end.
    assert (Hll : forall l i, ll i l = loop (vis p) (indexed i l)).
    { induction l as [|v r IH]; intros i; [reflexivity|].
      cbn [indexed loop]. unfold vis at 1. unfold ll at 1. cbn fix beta iota.
      destruct (visit push pop (children push pop) (p ++ [SIndex i]) v) as [e ev].
      fold ll. rewrite IH. reflexivity. }
    rewrite Hll. reflexivity.
  - match goal with |- context [match ?F entries with pair _ _ => _ end] => is_fix F; set (ml := F) end.
    assert (Hml : forall es, ml es = loop (vis p) (map kkid es)).
    { induction es as [|[k v] r IH]; [reflexivity|].
      cbn [map kkid fst snd loop]. unfold vis at 1. unfold ml at 1. cbn fix beta iota.
      destruct (visit push pop (children push pop) (p ++ [SKey k]) v) as [e ev].
      fold ml. rewrite IH. reflexivity. }
    rewrite Hml. reflexivity.
Qed.
End Unfold.

(* ---------- induction over kids ---------- *)
Fixpoint size (t : tree) : nat :=
  (match t with
   | Scalar => 1
   | Message fields _ any =>
       S (S ((fix sz (l : list (N * tree)) : nat := match l with [] => O | (_, v) :: r => size v + sz r end) fields
          + match any with Some m => size m | None => O end))
   | TList elems => S ((fix sz (l : list tree) : nat := match l with [] => O | v :: r => size v + sz r end) elems)
   | TMap entries =>
       S ((fix sz (l : list (N * tree)) : nat := match l with [] => O | (_, v) :: r => size v + sz r end) entries)
   end)%nat.

Lemma kids_size t s v : In (s, v) (kids t) -> (size v < size t)%nat.
Proof.
  destruct t as [|fields unk [m2|]|elems|entries]; cbn [kids].
  - intros [].
  - intros [H|[]]. inversion H; subst. cbn [size]. lia.
  - intros H. apply in_app_or in H. destruct H as [H|H].
    + cbn [size]. induction fields as [|[n0 v0] r IH]; [destruct H|].
      destruct H as [H|H].
      * inversion H; subst. cbn. lia.
      * specialize (IH H). cbn in IH |- *. lia.
    + destruct unk; [|destruct H]. destruct H as [H|[]]. inversion H; subst.
      cbn. lia.
  - cbn [size]. generalize 0 at 1. induction elems as [|v0 r IH]; intros i H; [destruct H|].
    destruct H as [H|H].
    + inversion H; subst. lia.
    + specialize (IH _ H). lia.
  - intros H. cbn [size]. induction entries as [|[k0 v0] r IH]; [destruct H|].
    destruct H as [H|H].
    + inversion H; subst. cbn. lia.
    + specialize (IH H). cbn in IH |- *. lia.
Qed.

Lemma tree_kids_ind (P : tree -> Prop) :
  (forall t, (forall s v, In (s, v) (kids t) -> P v) -> P t) -> forall t, P t.
Proof.
  intros H t. induction t as [t IH] using (induction_ltof1 _ size).
  apply H. intros s v Hin. apply IH. unfold ltof. now apply kids_size in Hin.
Qed.

(* ---------- range_balanced: the trace is well nested ---------- *)
Inductive wn : path -> list event -> Prop :=
| wn_nil p : wn p []
| wn_cons p s v inner rest :
    wn (p ++ [s]) inner -> wn p rest ->
    wn p (Push (p ++ [s]) v :: inner ++ Pop (p ++ [s]) v :: rest).

Lemma wn_app p a b : wn p a -> wn p b -> wn p (a ++ b).
Proof.
  induction 1 as [|p s v inner rest Hi _ Hr IH]; intros Hb; [exact Hb|].
  cbn [app]. rewrite <- app_assoc. cbn [app]. constructor; [exact Hi | now apply IH].
Qed.

Section Balanced.
Variable push pop : callback.

Lemma visit_wn ch p s v :
  wn (p ++ [s]) (snd (ch (p ++ [s]) v)) -> wn p (snd (visit push pop ch (p ++ [s]) v)).
Proof.
  intros H. unfold visit.
  destruct (is_nil (amend Continue (push (p ++ [s])))).
  - destruct (ch (p ++ [s]) v) as [e2 ev]. cbn [snd] in *. constructor; [exact H | constructor].
  - cbn [snd]. apply (wn_cons p s v [] []); constructor.
Qed.

Lemma loop_wn vis p ks :
  (forall s v, In (s, v) ks -> wn p (snd (vis s v))) -> wn p (snd (loop vis ks)).
Proof.
  induction ks as [|[s v] r IH]; intros H; cbn [loop]; [constructor|].
  pose proof (H s v (or_introl eq_refl)) as Hv.
  destruct (vis s v) as [e ev]. cbn [snd] in Hv.
  destruct (is_nil e); [|exact Hv].
  specialize (IH (fun s' v' Hin => H s' v' (or_intror Hin))).
  destruct (loop vis r) as [e' ev']. cbn [snd] in *. now apply wn_app.
Qed.

Lemma children_wn : forall t p, wn p (snd (children push pop p t)).
Proof.
  induction t as [t IH] using tree_kids_ind. intros p.
  rewrite children_kids.
  pose proof (loop_wn (fun s v => visit push pop (children push pop) (p ++ [s]) v) p (kids t)) as H.
  destruct (loop _ (kids t)) as [e ev]. cbn [snd] in *. apply H.
  intros s v Hin. apply visit_wn. now apply (IH s v).
Qed.

Theorem range_wn root : wn [] (snd (range push pop root)).
Proof.
  unfold range.
  pose proof (visit_wn (children push pop) [] SRoot root (children_wn root _)) as H.
  cbn [app] in H. destruct (visit push pop (children push pop) [SRoot] root) as [e ev]. exact H.
Qed.

(* every event list produced is "push root ... pop root" *)
Theorem range_root_events root :
  exists inner, snd (range push pop root) = Push [SRoot] root :: inner ++ [Pop [SRoot] root]
                /\ wn [SRoot] inner.
Proof.
  unfold range, visit.
  destruct (is_nil (amend Continue (push [SRoot]))).
  - pose proof (children_wn root [SRoot]) as H.
    destruct (children push pop [SRoot] root) as [e2 ev]. cbn [snd] in *. now exists ev.
  - exists []. split; [reflexivity | constructor].
Qed.
End Balanced.

(* ---------- range_visits_once ---------- *)
Definition posf (positions : path -> tree -> list path) (p : path) (sv : step * tree) : list path :=
  (p ++ [fst sv]) :: positions (p ++ [fst sv]) (snd sv).

Lemma positions_kids p t : positions p t = flat_map (posf positions p) (kids t).
Proof.
  destruct t as [|fields unk [m2|]|elems|entries]; cbn [positions kids].
  - reflexivity.
  - cbn. now rewrite app_nil_r.
  - rewrite flat_map_app. f_equal.
    + induction fields as [|[num v] r IH]; [reflexivity|].
      cbn [map flat_map fkid posf fst snd]. rewrite <- IH. reflexivity.
    + destruct unk; reflexivity.
  - generalize 0. induction elems as [|v r IH]; intros i; [reflexivity|].
    cbn [indexed flat_map posf fst snd]. rewrite <- IH. reflexivity.
  - induction entries as [|[k v] r IH]; [reflexivity|].
    cbn [map flat_map kkid posf fst snd]. rewrite <- IH. reflexivity.
Qed.

Lemma pushes_app a b : pushes (a ++ b) = pushes a ++ pushes b.
Proof. unfold pushes. apply flat_map_app. Qed.

Definition cont : callback := always Continue.

Lemma visit_continue ch p v :
  fst (ch p v) = Continue -> visit cont cont ch p v = (Continue, Push p v :: snd (ch p v) ++ [Pop p v]).
Proof.
  intros H. unfold visit. cbn [cont always amend is_nil].
  destruct (ch p v) as [e ev]. cbn [fst snd] in *. subst e. reflexivity.
Qed.

Lemma children_continue : forall t p,
  fst (children cont cont p t) = Continue /\ pushes (snd (children cont cont p t)) = positions p t.
Proof.
  induction t as [t IH] using tree_kids_ind. intros p.
  rewrite children_kids, positions_kids.
  assert (H : forall ks, (forall s v, In (s, v) ks -> In (s, v) (kids t)) ->
              fst (loop (fun s v => visit cont cont (children cont cont) (p ++ [s]) v) ks) = Continue /\
              pushes (snd (loop (fun s v => visit cont cont (children cont cont) (p ++ [s]) v) ks))
              = flat_map (posf positions p) ks).
  { induction ks as [|[s v] r IHr]; intros Hsub; [split; reflexivity|].
    cbn [loop flat_map posf fst snd].
    destruct (IH s v (Hsub s v (or_introl eq_refl)) (p ++ [s])) as [He Hp].
    rewrite visit_continue by exact He. cbn [is_nil].
    destruct IHr as [He' Hp']; [intros; apply Hsub; now right|].
    destruct (loop _ r) as [e' ev']. cbn [fst snd] in *. split; [exact He'|].
    change (Push (p ++ [s]) v :: snd (children cont cont (p ++ [s]) v) ++ [Pop (p ++ [s]) v])
      with ([Push (p ++ [s]) v] ++ snd (children cont cont (p ++ [s]) v) ++ [Pop (p ++ [s]) v]).
    rewrite !pushes_app. cbn [pushes flat_map app]. rewrite Hp, Hp', app_nil_r. reflexivity. }
  specialize (H (kids t) (fun s v Hin => Hin)).
  destruct (loop _ (kids t)) as [e ev]. cbn [fst snd] in *. destruct H as [-> H]. split; [reflexivity | exact H].
Qed.

Theorem range_visits_once root :
  range cont cont root = (Continue, snd (range cont cont root)) /\
  pushes (snd (range cont cont root)) = all_positions root.
Proof.
  destruct (children_continue root [SRoot]) as [He Hp].
  unfold range, all_positions. rewrite visit_continue by exact He. cbn [snd]. split; [reflexivity|].
  change (Push [SRoot] root :: snd (children cont cont [SRoot] root) ++ [Pop [SRoot] root])
    with ([Push [SRoot] root] ++ snd (children cont cont [SRoot] root) ++ [Pop [SRoot] root]).
  rewrite !pushes_app. cbn [pushes flat_map app]. now rewrite Hp, app_nil_r.
Qed.

(* well-formed trees: distinct field numbers / map keys at every level *)
Inductive wf : tree -> Prop :=
| wf_intro t : NoDup (map fst (kids t)) -> (forall s v, In (s, v) (kids t) -> wf v) -> wf t.

Lemma positions_prefix : forall t p q, In q (positions p t) -> exists l, l <> [] /\ q = p ++ l.
Proof.
  induction t as [t IH] using tree_kids_ind. intros p q. rewrite positions_kids.
  intros H. apply in_flat_map in H. destruct H as [[s v] [Hin Hq]].
  cbn [posf fst snd] in Hq. destruct Hq as [<-|Hq].
  - exists [s]. split; [discriminate | reflexivity].
  - destruct (IH s v Hin _ _ Hq) as [l [Hl ->]].
    exists (s :: l). split; [discriminate | now rewrite <- app_assoc].
Qed.

Lemma NoDup_app_intro {A} (a b : list A) :
  NoDup a -> NoDup b -> (forall x, In x a -> ~ In x b) -> NoDup (a ++ b).
Proof.
  induction a as [|x a IH]; intros Ha Hb Hd; [exact Hb|].
  inversion Ha; subst. cbn. constructor.
  - intros Hin. apply in_app_or in Hin. destruct Hin as [Hin|Hin]; [contradiction|].
    apply (Hd x); [now left | exact Hin].
  - apply IH; auto. intros y Hy. apply Hd. now right.
Qed.

Lemma NoDup_app_l {A} (a b : list A) : NoDup (a ++ b) -> NoDup a.
Proof.
  induction a as [|x a IH]; intros H; [constructor|].
  cbn in H. inversion H; subst. constructor; [|now apply IH].
  intros Hin. apply H2. apply in_or_app. now left.
Qed.

Lemma positions_nodup : forall t p, wf t -> NoDup (positions p t).
Proof.
  induction t as [t IH] using tree_kids_ind. intros p Hwf. rewrite positions_kids.
  inversion Hwf as [t' Hnd Hkids]; subst t'.
  assert (Hgen : forall ks, NoDup (map fst ks) -> (forall s v, In (s, v) ks -> In (s, v) (kids t)) ->
                 NoDup (flat_map (posf positions p) ks)).
  { induction ks as [|[s v] r IHr]; intros Hn Hsub; [constructor|].
    cbn [flat_map posf fst snd]. inversion Hn as [|? ? Hnotin Hn']; subst.
    change ((p ++ [s]) :: positions (p ++ [s]) v ++ flat_map (posf positions p) r)
      with (((p ++ [s]) :: positions (p ++ [s]) v) ++ flat_map (posf positions p) r).
    apply NoDup_app_intro.
    - constructor.
      + intros Hin. apply positions_prefix in Hin. destruct Hin as [l [Hl Heq]].
        rewrite <- (app_nil_r (p ++ [s])) in Heq at 1. apply app_inv_head in Heq. congruence.
      + apply (IH s v); [apply Hsub; now left | apply (Hkids s v), Hsub; now left].
    - apply IHr; [exact Hn' | intros; apply Hsub; now right].
    - intros q Hq Hq'. apply in_flat_map in Hq'. destruct Hq' as [[s' v'] [Hin' Hq']].
      assert (Hs : s <> s').
      { intros ->. apply Hnotin. apply (in_map fst) in Hin'. exact Hin'. }
      assert (H1 : exists l, q = p ++ s :: l).
      { destruct Hq as [<-|Hq]; [now exists [] |].
        apply positions_prefix in Hq. destruct Hq as [l [_ ->]]. exists l. now rewrite <- app_assoc. }
      assert (H2 : exists l, q = p ++ s' :: l).
      { cbn [posf fst snd] in Hq'. destruct Hq' as [<-|Hq']; [now exists [] |].
        apply positions_prefix in Hq'. destruct Hq' as [l [_ ->]]. exists l. now rewrite <- app_assoc. }
      destruct H1 as [l1 E1], H2 as [l2 E2]. rewrite E1 in E2. apply app_inv_head in E2. congruence. }
  apply Hgen; auto.
Qed.

Theorem all_positions_nodup root : wf root -> NoDup (all_positions root).
Proof.
  intros Hwf. unfold all_positions. constructor; [|now apply positions_nodup].
  intros Hin. apply positions_prefix in Hin. destruct Hin as [l [Hl Heq]].
  rewrite <- (app_nil_r [SRoot]) in Heq at 1. apply app_inv_head in Heq. congruence.
Qed.

(* ---------- range_step_value ---------- *)
Definition ev_val (e : event) : tree := match e with Push _ v | Pop _ v => v end.

Lemma assoc_nodup l k v : NoDup (map fst l) -> In (k, v) l -> assoc l k = Some v.
Proof.
  induction l as [|[k0 v0] r IH]; intros Hn Hin; [destruct Hin|].
  cbn [assoc]. inversion Hn as [|? ? Hnotin Hn']; subst. destruct Hin as [Hin|Hin].
  - inversion Hin; subst. now rewrite N.eqb_refl.
  - destruct (k0 =? k) eqn:E.
    + apply N.eqb_eq in E; subst. exfalso. apply Hnotin. now apply (in_map fst) in Hin.
    + now apply IH.
Qed.

Lemma indexed_in : forall l k i v,
  In (SIndex i, v) (indexed k l) -> k <= i /\ nth_error l (N.to_nat (i - k)) = Some v.
Proof.
  induction l as [|v0 r IH]; intros k i v Hin; [destruct Hin|].
  cbn [indexed] in Hin. destruct Hin as [Hin|Hin].
  - inversion Hin; subst. split; [lia|]. now rewrite N.sub_diag.
  - apply IH in Hin. destruct Hin as [Hle Hn]. split; [lia|].
    replace (N.to_nat (i - k)) with (S (N.to_nat (i - (k + 1)))) by lia. exact Hn.
Qed.

Lemma indexed_steps : forall l k s v, In (s, v) (indexed k l) -> exists i, s = SIndex i.
Proof.
  induction l as [|v0 r IH]; intros k s v Hin; [destruct Hin|].
  destruct Hin as [Hin|Hin]; [inversion Hin; eauto | eauto].
Qed.

Lemma apply_step_kids t s v : wf t -> In (s, v) (kids t) -> apply_step t s = Some v.
Proof.
  intros Hwf Hin. inversion Hwf as [t' Hnd _]; subst t'.
  destruct t as [|fields unk [m2|]|elems|entries]; cbn [kids] in *.
  - destruct Hin.
  - destruct Hin as [Hin|[]]. inversion Hin; subst. reflexivity.
  - rewrite map_app in Hnd. apply in_app_or in Hin. destruct Hin as [Hin|Hin].
    + apply in_map_iff in Hin. destruct Hin as [[num v'] [Heq Hin]]. inversion Heq; subst.
      cbn [apply_step fst]. apply assoc_nodup; [|exact Hin].
      apply NoDup_app_l in Hnd. rewrite map_map in Hnd. cbn [fkid fst] in Hnd.
      rewrite <- (map_map fst SField) in Hnd. now apply NoDup_map_inv in Hnd.
    + destruct unk; [|destruct Hin]. destruct Hin as [Hin|[]]. inversion Hin; subst. reflexivity.
  - destruct (indexed_steps _ _ _ _ Hin) as [i ->].
    apply indexed_in in Hin. destruct Hin as [_ Hn]. cbn [apply_step]. now rewrite N.sub_0_r in Hn.
  - apply in_map_iff in Hin. destruct Hin as [[k v'] [Heq Hin]]. inversion Heq; subst.
    cbn [apply_step fst]. apply assoc_nodup; [|exact Hin].
    rewrite map_map in Hnd. cbn [kkid fst] in Hnd.
    rewrite <- (map_map fst SKey) in Hnd. now apply NoDup_map_inv in Hnd.
Qed.

Section StepValue.
Variable push pop : callback.

Lemma visit_events ch p v e :
  In e (snd (visit push pop ch p v)) ->
  (ev_path e = p /\ ev_val e = v) \/ In e (snd (ch p v)).
Proof.
  unfold visit. destruct (is_nil (amend Continue (push p))).
  - destruct (ch p v) as [e2 ev]. cbn [snd]. intros [<-|Hin]; [now left|].
    apply in_app_or in Hin. destruct Hin as [Hin|[<-|[]]]; [now right | now left].
  - cbn [snd]. intros [<-|[<-|[]]]; now left.
Qed.

Lemma loop_events vis ks e :
  In e (snd (loop vis ks)) -> exists s v, In (s, v) ks /\ In e (snd (vis s v)).
Proof.
  induction ks as [|[s v] r IH]; cbn [loop]; [intros []|].
  destruct (vis s v) as [e1 ev1] eqn:Ev. destruct (is_nil e1).
  - destruct (loop vis r) as [e2 ev2]. cbn [snd] in *. intros Hin. apply in_app_or in Hin.
    destruct Hin as [Hin|Hin].
    + exists s, v. split; [now left | now rewrite Ev].
    + destruct (IH Hin) as (s' & v' & Hin' & He). exists s', v'. split; [now right | exact He].
  - cbn [snd]. intros Hin. exists s, v. split; [now left | now rewrite Ev].
Qed.

Lemma children_values : forall t p e, wf t -> In e (snd (children push pop p t)) ->
  exists l, l <> [] /\ ev_path e = p ++ l /\ apply_steps t l = Some (ev_val e).
Proof.
  induction t as [t IH] using tree_kids_ind. intros p e Hwf Hin.
  rewrite children_kids in Hin.
  destruct (loop _ (kids t)) as [e0 ev0] eqn:El. cbn [snd] in Hin.
  assert (Hin' : In e (snd (loop (fun s v => visit push pop (children push pop) (p ++ [s]) v) (kids t))))
    by now rewrite El.
  apply loop_events in Hin'. destruct Hin' as (s & v & Hk & He).
  pose proof (apply_step_kids t s v Hwf Hk) as Hs.
  apply visit_events in He. destruct He as [[Hp Hv]|He].
  - exists [s]. repeat split; [discriminate | exact Hp |]. cbn [apply_steps]. now rewrite Hs, Hv.
  - inversion Hwf as [t' _ Hkids]; subst t'.
    destruct (IH s v Hk (p ++ [s]) e (Hkids s v Hk) He) as (l & Hl & Hp & Hv).
    exists (s :: l). repeat split; [discriminate | now rewrite Hp, <- app_assoc |].
    cbn [apply_steps]. now rewrite Hs.
Qed.

Theorem range_step_value root e :
  wf root -> In e (snd (range push pop root)) -> resolve root (ev_path e) = Some (ev_val e).
Proof.
  intros Hwf Hin. unfold range in Hin.
  destruct (visit push pop (children push pop) [SRoot] root) as [e0 ev0] eqn:Ev. cbn [snd] in Hin.
  assert (Hin' : In e (snd (visit push pop (children push pop) [SRoot] root))) by now rewrite Ev.
  apply visit_events in Hin'. destruct Hin' as [[Hp Hv]|Hin'].
  - rewrite Hp, Hv. reflexivity.
  - destruct (children_values root [SRoot] e Hwf Hin') as (l & _ & Hp & Hv).
    rewrite Hp. cbn [app resolve]. exact Hv.
Qed.
End StepValue.

(* ---------- callbacks that agree below a path give the same traversal ---------- *)
Lemma visit_ext push1 pop1 push2 pop2 ch1 ch2 p v :
  push1 p = push2 p -> pop1 p = pop2 p -> ch1 p v = ch2 p v ->
  visit push1 pop1 ch1 p v = visit push2 pop2 ch2 p v.
Proof. intros H1 H2 H3. unfold visit. now rewrite H1, H2, H3. Qed.

Lemma children_ext push1 pop1 push2 pop2 : forall t p,
  (forall l, l <> [] -> push1 (p ++ l) = push2 (p ++ l)) ->
  (forall l, l <> [] -> pop1 (p ++ l) = pop2 (p ++ l)) ->
  children push1 pop1 p t = children push2 pop2 p t.
Proof.
  induction t as [t IH] using tree_kids_ind. intros p H1 H2.
  rewrite !children_kids.
  rewrite (loop_ext (fun s v => visit push1 pop1 (children push1 pop1) (p ++ [s]) v)
                    (fun s v => visit push2 pop2 (children push2 pop2) (p ++ [s]) v)); [reflexivity|].
  intros s v Hin. apply visit_ext.
  - apply H1. discriminate.
  - apply H2. discriminate.
  - apply (IH s v Hin).
    + intros l Hl. rewrite <- app_assoc. apply H1. discriminate.
    + intros l Hl. rewrite <- app_assoc. apply H2. discriminate.
Qed.

(* ---------- break_semantics / terminate_semantics ---------- *)
Definition step_eq_dec : forall a b : step, {a = b} + {a <> b}.
Proof. decide equality; apply N.eq_dec. Defined.
Definition path_eq_dec : forall a b : path, {a = b} + {a <> b} := list_eq_dec step_eq_dec.

(* the callback that returns V exactly at path q *)
Definition at_path (q : path) (V : verdict) : callback :=
  fun p => if path_eq_dec p q then V else Continue.

Lemma at_path_eq q V : at_path q V q = V.
Proof. unfold at_path. destruct (path_eq_dec q q); congruence. Qed.
Lemma at_path_neq q V p : p <> q -> at_path q V p = Continue.
Proof. unfold at_path. destruct (path_eq_dec p q); congruence. Qed.

(* kid lists: keep the kids up to and including step s (value replaced) / replace only *)
Fixpoint upto (ks : list (step * tree)) (s : step) (v' : tree) : list (step * tree) :=
  match ks with
  | [] => []
  | (s0, v) :: r => if step_eq_dec s0 s then [(s0, v')] else (s0, v) :: upto r s v'
  end.
Fixpoint replk (ks : list (step * tree)) (s : step) (v' : tree) : list (step * tree) :=
  match ks with
  | [] => []
  | (s0, v) :: r => if step_eq_dec s0 s then (s0, v') :: r else (s0, v) :: replk r s v'
  end.

Definition strip (t : tree) : tree :=
  match t with
  | Scalar => Scalar
  | Message _ _ _ => Message [] false None
  | TList _ => TList []
  | TMap _ => TMap []
  end.
Lemma kids_strip t : kids (strip t) = [].
Proof. destruct t; reflexivity. Qed.

Definition paths (ev : list event) : list (bool * path) :=
  map (fun e => match e with Push p _ => (true, p) | Pop p _ => (false, p) end) ev.
Lemma paths_app a b : paths (a ++ b) = paths a ++ paths b.
Proof. apply map_app. Qed.

(* a non-nil verdict V from push at q: no children, pop still called *)
Lemma visit_hit V q v : is_nil V = false ->
  visit (at_path q V) cont (children (at_path q V) cont) q v = (V, [Push q v; Pop q v]).
Proof.
  intros V_not_nil. unfold visit. rewrite at_path_eq.
  assert (amend Continue V = V) as -> by (destruct V; reflexivity || discriminate).
  rewrite V_not_nil. cbn [cont always amend app]. destruct V; reflexivity.
Qed.

Lemma visit_strip p v :
  visit cont cont (children cont cont) p (strip v) = (Continue, [Push p (strip v); Pop p (strip v)]).
Proof.
  rewrite visit_continue by apply children_continue.
  rewrite children_kids, kids_strip. reflexivity.
Qed.

(* V from pop at q: the children have been visited *)
Lemma visit_hit_pop V q v :
  visit cont (at_path q V) (children cont (at_path q V)) q v
  = (V, Push q v :: snd (children cont cont q v) ++ [Pop q v]).
Proof.
  assert (Hc : children cont (at_path q V) q v = children cont cont q v).
  { apply children_ext; [reflexivity|]. intros l Hl. apply at_path_neq.
    intros E. rewrite <- (app_nil_r q) in E at 2. apply app_inv_head in E. congruence. }
  unfold visit. rewrite Hc, at_path_eq. cbn [cont always amend is_nil].
  pose proof (proj1 (children_continue v q)) as He.
  destruct (children cont cont q v) as [e ev]. cbn [fst snd] in *. subst e.
  cbn [amend]. destruct V; reflexivity.
Qed.

(* all-continue loops end with Continue *)
Lemma loop_continue p ks :
  fst (loop (fun s0 v0 => visit cont cont (children cont cont) (p ++ [s0]) v0) ks) = Continue.
Proof.
  induction ks as [|[s2 v2] r2 IH2]; [reflexivity|]. cbn [loop].
  rewrite visit_continue by apply children_continue. cbn [is_nil].
  destruct (loop _ r2). exact IH2.
Qed.

Section Cut.
(* callbacks that return Continue everywhere except possibly at q = p ++ s :: r' *)
Variables push1 pop1 : callback.
Variables (p : path) (s : step) (r' : list step).
Hypothesis off_push : forall x, x <> p ++ s :: r' -> push1 x = Continue.
Hypothesis off_pop : forall x, x <> p ++ s :: r' -> pop1 x = Continue.

(* a subtree that q does not pass through is traversed as with all-continue callbacks *)
Lemma visit_miss s0 v0 :
  s0 <> s ->
  visit push1 pop1 (children push1 pop1) (p ++ [s0]) v0
  = visit cont cont (children cont cont) (p ++ [s0]) v0.
Proof.
  intros Hne.
  assert (Hq : forall l, (p ++ [s0]) ++ l <> p ++ s :: r').
  { intros l. rewrite <- app_assoc. intros E. apply app_inv_head in E. cbn in E. congruence. }
  apply visit_ext.
  - rewrite <- (app_nil_r (p ++ [s0])). apply off_push, Hq.
  - rewrite <- (app_nil_r (p ++ [s0])). apply off_pop, Hq.
  - apply children_ext; intros l _; [apply off_push, Hq | apply off_pop, Hq].
Qed.

(* the loop over the kids, given what happens at the kid (s, v) on the path *)
Lemma loop_cut v v' E ev1 ev2 :
  let vis1 := fun s0 v0 => visit push1 pop1 (children push1 pop1) (p ++ [s0]) v0 in
  let vis2 := fun s0 v0 => visit cont cont (children cont cont) (p ++ [s0]) v0 in
  vis1 s v = (E, ev1) ->
  vis2 s v' = (Continue, ev2) ->
  paths ev1 = paths ev2 ->
  forall ks, In (s, v) ks -> NoDup (map fst ks) ->
  fst (loop vis1 ks) = E /\
  paths (snd (loop vis1 ks)) = paths (snd (loop vis2 (if is_nil E then replk ks s v' else upto ks s v'))).
Proof.
  intros vis1 vis2 H1 H2 Hp.
  assert (Hm : forall s0 v0, s0 <> s -> vis1 s0 v0 = vis2 s0 v0) by (intros; now apply visit_miss).
  assert (Hc : forall s0 v0, is_nil (fst (vis2 s0 v0)) = true).
  { intros. unfold vis2. now rewrite visit_continue by apply children_continue. }
  induction ks as [|[s0 v0] r IH]; intros Hin Hnd; [destruct Hin|].
  cbn [map fst] in Hnd. inversion Hnd as [|? ? Hnotin Hnd']; subst.
  cbn [loop upto replk]. destruct (step_eq_dec s0 s) as [->|Hne].
  - (* the kid on the path *)
    assert (v0 = v) as ->.
    { destruct Hin as [Hin|Hin]; [now inversion Hin|].
      exfalso. apply Hnotin. now apply (in_map fst) in Hin. }
    rewrite H1. destruct (is_nil E) eqn:HE.
    + apply is_nil_true in HE. subst E. cbn [loop]. rewrite H2. cbn [is_nil].
      assert (Hrest : loop vis1 r = loop vis2 r).
      { apply loop_ext. intros s1 v1 Hin1. apply Hm.
        intros ->. apply Hnotin. now apply (in_map fst) in Hin1. }
      rewrite Hrest. pose proof (loop_continue p r) as Hl. fold vis2 in Hl.
      destruct (loop vis2 r) as [e' ev']. cbn [fst snd] in *.
      split; [exact Hl | now rewrite !paths_app, Hp].
    + cbn [loop]. rewrite H2. cbn [is_nil fst snd].
      split; [reflexivity|]. now rewrite app_nil_r.
  - (* a kid before the path: unaffected *)
    assert (Hin' : In (s, v) r) by (destruct Hin as [Hin|Hin]; [inversion Hin; congruence | exact Hin]).
    specialize (IH Hin' Hnd'). destruct IH as [IHe IHp].
    rewrite (Hm s0 v0 Hne). specialize (Hc s0 v0).
    destruct (loop vis1 r) as [e1 evs1]. cbn [fst snd] in IHe, IHp.
    destruct (is_nil E); cbn [loop]; destruct (vis2 s0 v0) as [e0 ev0]; cbn [fst] in Hc; rewrite Hc.
    + destruct (loop vis2 (replk r s v')) as [e2 evs2]. cbn [fst snd] in *.
      split; [exact IHe | now rewrite !paths_app, IHp].
    + destruct (loop vis2 (upto r s v')) as [e2 evs2]. cbn [fst snd] in *.
      split; [exact IHe | now rewrite !paths_app, IHp].
Qed.
End Cut.

(* ---------- pruned trees ---------- *)
Fixpoint upto_assoc (l : list (N * tree)) (k : N) (v' : tree) : list (N * tree) :=
  match l with
  | [] => []
  | (k0, v) :: r => if k0 =? k then [(k0, v')] else (k0, v) :: upto_assoc r k v'
  end.
Fixpoint repl_assoc (l : list (N * tree)) (k : N) (v' : tree) : list (N * tree) :=
  match l with
  | [] => []
  | (k0, v) :: r => if k0 =? k then (k0, v') :: r else (k0, v) :: repl_assoc r k v'
  end.
Fixpoint upto_nth (l : list tree) (i : nat) (v' : tree) : list tree :=
  match l with
  | [] => []
  | v :: r => match i with O => [v'] | S i' => v :: upto_nth r i' v' end
  end.
Fixpoint repl_nth (l : list tree) (i : nat) (v' : tree) : list tree :=
  match l with
  | [] => []
  | v :: r => match i with O => v' :: r | S i' => v :: repl_nth r i' v' end
  end.

(* [trunc t s v']: t without the kids after step s, the value at s replaced by v'
   (for the unknown-fields step, which is last and has no children, t itself) *)
Definition trunc (t : tree) (s : step) (v' : tree) : tree :=
  match t with
  | Scalar => t
  | Message fields unk any =>
      match any with
      | Some _ => match s with SAny => Message fields unk (Some v') | _ => t end
      | None => match s with SField n => Message (upto_assoc fields n v') false None | _ => t end
      end
  | TList elems => match s with SIndex i => TList (upto_nth elems (N.to_nat i) v') | _ => t end
  | TMap es => match s with SKey k => TMap (upto_assoc es k v') | _ => t end
  end.

(* [repl t s v']: t with the value at step s replaced by v' *)
Definition repl (t : tree) (s : step) (v' : tree) : tree :=
  match t with
  | Scalar => t
  | Message fields unk any =>
      match any with
      | Some _ => match s with SAny => Message fields unk (Some v') | _ => t end
      | None => match s with SField n => Message (repl_assoc fields n v') unk None | _ => t end
      end
  | TList elems => match s with SIndex i => TList (repl_nth elems (N.to_nat i) v') | _ => t end
  | TMap es => match s with SKey k => TMap (repl_assoc es k v') | _ => t end
  end.

Lemma upto_fields l tail k v' :
  In k (map fst l) -> upto (map fkid l ++ tail) (SField k) v' = map fkid (upto_assoc l k v').
Proof.
  induction l as [|[k0 v0] r IH]; intros Hin; [destruct Hin|].
  cbn [map app fkid fst snd upto upto_assoc].
  destruct (step_eq_dec (SField k0) (SField k)) as [E|E].
  - inversion E; subst. now rewrite N.eqb_refl.
  - destruct (k0 =? k) eqn:Ek; [apply N.eqb_eq in Ek; congruence|].
    cbn [map fkid fst snd]. f_equal. apply IH. destruct Hin as [Hin|Hin]; [cbn in Hin; congruence | exact Hin].
Qed.

Lemma replk_fields l tail k v' :
  In k (map fst l) -> replk (map fkid l ++ tail) (SField k) v' = map fkid (repl_assoc l k v') ++ tail.
Proof.
  induction l as [|[k0 v0] r IH]; intros Hin; [destruct Hin|].
  cbn [map app fkid fst snd replk repl_assoc].
  destruct (step_eq_dec (SField k0) (SField k)) as [E|E].
  - inversion E; subst. now rewrite N.eqb_refl.
  - destruct (k0 =? k) eqn:Ek; [apply N.eqb_eq in Ek; congruence|].
    cbn [map app fkid fst snd]. f_equal. apply IH. destruct Hin as [Hin|Hin]; [cbn in Hin; congruence | exact Hin].
Qed.

Lemma upto_keys l k v' :
  In k (map fst l) -> upto (map kkid l) (SKey k) v' = map kkid (upto_assoc l k v').
Proof.
  induction l as [|[k0 v0] r IH]; intros Hin; [destruct Hin|].
  cbn [map kkid fst snd upto upto_assoc].
  destruct (step_eq_dec (SKey k0) (SKey k)) as [E|E].
  - inversion E; subst. now rewrite N.eqb_refl.
  - destruct (k0 =? k) eqn:Ek; [apply N.eqb_eq in Ek; congruence|].
    cbn [map kkid fst snd]. f_equal. apply IH. destruct Hin as [Hin|Hin]; [cbn in Hin; congruence | exact Hin].
Qed.

Lemma replk_keys l k v' :
  In k (map fst l) -> replk (map kkid l) (SKey k) v' = map kkid (repl_assoc l k v').
Proof.
  induction l as [|[k0 v0] r IH]; intros Hin; [destruct Hin|].
  cbn [map kkid fst snd replk repl_assoc].
  destruct (step_eq_dec (SKey k0) (SKey k)) as [E|E].
  - inversion E; subst. now rewrite N.eqb_refl.
  - destruct (k0 =? k) eqn:Ek; [apply N.eqb_eq in Ek; congruence|].
    cbn [map kkid fst snd]. f_equal. apply IH. destruct Hin as [Hin|Hin]; [cbn in Hin; congruence | exact Hin].
Qed.

Lemma upto_unknown l v' :
  upto (map fkid l ++ [(SUnknown, Scalar)]) SUnknown v' = map fkid l ++ [(SUnknown, v')].
Proof.
  induction l as [|[k0 v0] r IH]; cbn [map app fkid fst snd upto].
  - destruct (step_eq_dec SUnknown SUnknown); congruence.
  - destruct (step_eq_dec (SField k0) SUnknown); [discriminate|]. now rewrite IH.
Qed.
Lemma replk_unknown l v' :
  replk (map fkid l ++ [(SUnknown, Scalar)]) SUnknown v' = map fkid l ++ [(SUnknown, v')].
Proof.
  induction l as [|[k0 v0] r IH]; cbn [map app fkid fst snd replk].
  - destruct (step_eq_dec SUnknown SUnknown); congruence.
  - destruct (step_eq_dec (SField k0) SUnknown); [discriminate|]. now rewrite IH.
Qed.

Lemma upto_indexed : forall l k i v',
  k <= i -> (N.to_nat (i - k) < length l)%nat ->
  upto (indexed k l) (SIndex i) v' = indexed k (upto_nth l (N.to_nat (i - k)) v').
Proof.
  induction l as [|v0 r IH]; intros k i v' Hle Hlt; [cbn in Hlt; lia|].
  cbn [indexed upto]. destruct (step_eq_dec (SIndex k) (SIndex i)) as [E|E].
  - inversion E; subst. rewrite N.sub_diag. reflexivity.
  - assert (k <> i) by congruence.
    replace (N.to_nat (i - k)) with (S (N.to_nat (i - (k + 1)))) by lia.
    cbn [upto_nth indexed]. f_equal. apply IH; [lia | cbn [length] in Hlt; lia].
Qed.
Lemma replk_indexed : forall l k i v',
  k <= i -> (N.to_nat (i - k) < length l)%nat ->
  replk (indexed k l) (SIndex i) v' = indexed k (repl_nth l (N.to_nat (i - k)) v').
Proof.
  induction l as [|v0 r IH]; intros k i v' Hle Hlt; [cbn in Hlt; lia|].
  cbn [indexed replk]. destruct (step_eq_dec (SIndex k) (SIndex i)) as [E|E].
  - inversion E; subst. rewrite N.sub_diag. reflexivity.
  - assert (k <> i) by congruence.
    replace (N.to_nat (i - k)) with (S (N.to_nat (i - (k + 1)))) by lia.
    cbn [repl_nth indexed]. f_equal. apply IH; [lia | cbn [length] in Hlt; lia].
Qed.

Lemma in_fkid_map l n v : In (SField n, v) (map fkid l) -> In n (map fst l).
Proof.
  intros H. apply in_map_iff in H. destruct H as [[n' v'] [E Hin]]. inversion E; subst.
  now apply (in_map fst) in Hin.
Qed.
Lemma in_kkid_map l n v : In (SKey n, v) (map kkid l) -> In n (map fst l).
Proof.
  intros H. apply in_map_iff in H. destruct H as [[n' v'] [E Hin]]. inversion E; subst.
  now apply (in_map fst) in Hin.
Qed.
Lemma fkid_steps l s v : In (s, v) (map fkid l) -> exists n, s = SField n.
Proof. intros H. apply in_map_iff in H. destruct H as [[n' v'] [E _]]. inversion E; eauto. Qed.
Lemma kkid_steps l s v : In (s, v) (map kkid l) -> exists n, s = SKey n.
Proof. intros H. apply in_map_iff in H. destruct H as [[n' v'] [E _]]. inversion E; eauto. Qed.

(* the unknown-fields kid can only be replaced by itself *)
Definition unk_ok (s : step) (v' : tree) : Prop := s = SUnknown -> v' = Scalar.

Lemma kids_trunc t s v v' :
  In (s, v) (kids t) -> unk_ok s v' -> kids (trunc t s v') = upto (kids t) s v'.
Proof.
  intros Hin Hu. destruct t as [|fields unk [m2|]|elems|entries]; cbn [kids] in Hin.
  - destruct Hin.
  - destruct Hin as [Hin|[]]. inversion Hin; subst. cbn [trunc kids upto].
    destruct (step_eq_dec SAny SAny); congruence.
  - apply in_app_or in Hin. destruct Hin as [Hin|Hin].
    + destruct (fkid_steps _ _ _ Hin) as [n ->]. cbn [trunc kids].
      rewrite upto_fields by (eapply in_fkid_map; eauto). now rewrite app_nil_r.
    + destruct unk; [|destruct Hin]. destruct Hin as [Hin|[]]. inversion Hin; subst.
      cbn [trunc kids]. rewrite upto_unknown. now rewrite (Hu eq_refl).
  - destruct (indexed_steps _ _ _ _ Hin) as [i ->]. apply indexed_in in Hin. destruct Hin as [_ Hn].
    cbn [trunc kids]. rewrite upto_indexed; [now rewrite N.sub_0_r | lia |].
    apply nth_error_Some. congruence.
  - destruct (kkid_steps _ _ _ Hin) as [n ->]. cbn [trunc kids].
    symmetry. apply upto_keys. eapply in_kkid_map; eauto.
Qed.

Lemma kids_repl t s v v' :
  In (s, v) (kids t) -> unk_ok s v' -> kids (repl t s v') = replk (kids t) s v'.
Proof.
  intros Hin Hu. destruct t as [|fields unk [m2|]|elems|entries]; cbn [kids] in Hin.
  - destruct Hin.
  - destruct Hin as [Hin|[]]. inversion Hin; subst. cbn [repl kids replk].
    destruct (step_eq_dec SAny SAny); congruence.
  - apply in_app_or in Hin. destruct Hin as [Hin|Hin].
    + destruct (fkid_steps _ _ _ Hin) as [n ->]. cbn [repl kids].
      now rewrite replk_fields by (eapply in_fkid_map; eauto).
    + destruct unk; [|destruct Hin]. destruct Hin as [Hin|[]]. inversion Hin; subst.
      cbn [repl kids]. rewrite replk_unknown. now rewrite (Hu eq_refl).
  - destruct (indexed_steps _ _ _ _ Hin) as [i ->]. apply indexed_in in Hin. destruct Hin as [_ Hn].
    cbn [repl kids]. rewrite replk_indexed; [now rewrite N.sub_0_r | lia |].
    apply nth_error_Some. congruence.
  - destruct (kkid_steps _ _ _ Hin) as [n ->]. cbn [repl kids].
    symmetry. apply replk_keys. eapply in_kkid_map; eauto.
Qed.

(* Pruned trees: what an all-continue traversal must see to produce the same
   callback sequence.  [leaf] is applied to the value at the end of the path:
   [strip] when the verdict comes from push (its children are skipped), the
   identity when it comes from pop (its children have been visited).

   [trm]: Terminate / error at relative path r: at every level along r the
   later siblings are gone. *)
Fixpoint trm (leaf : tree -> tree) (r : list step) (t : tree) : tree :=
  match r with
  | [] => t
  | s :: r' =>
      match apply_step t s with
      | None => t
      | Some v => trunc t s (match r' with [] => leaf v | _ => trm leaf r' v end)
      end
  end.

(* [brk]: Break at r: the later siblings of the value at r are gone;
   everything above is untouched *)
Fixpoint brk (leaf : tree -> tree) (r : list step) (t : tree) : tree :=
  match r with
  | [] => t
  | s :: r' =>
      match apply_step t s with
      | None => t
      | Some v => match r' with [] => trunc t s (leaf v) | _ => repl t s (brk leaf r' v) end
      end
  end.

Lemma trm_scalar leaf r : trm leaf r Scalar = Scalar.
Proof. destruct r; reflexivity. Qed.
Lemma brk_scalar leaf r : brk leaf r Scalar = Scalar.
Proof. destruct r; reflexivity. Qed.

Lemma assoc_in l k v : assoc l k = Some v -> In (k, v) l.
Proof.
  induction l as [|[k0 v0] r IH]; cbn [assoc]; [discriminate|].
  destruct (k0 =? k) eqn:E.
  - apply N.eqb_eq in E. intros H; inversion H; subst. now left.
  - intros H. right. now apply IH.
Qed.

Lemma indexed_nth : forall l k n v,
  nth_error l n = Some v -> In (SIndex (k + N.of_nat n), v) (indexed k l).
Proof.
  induction l as [|v0 r IH]; intros k n v H; [destruct n; discriminate|].
  destruct n as [|n]; cbn [nth_error indexed] in *.
  - inversion H; subst. left. f_equal. f_equal. lia.
  - right. replace (k + N.of_nat (S n)) with (k + 1 + N.of_nat n) by lia. now apply IH.
Qed.

Lemma apply_step_in t s v : apply_step t s = Some v -> In (s, v) (kids t).
Proof.
  destruct t as [|fields unk [m2|]|elems|entries]; cbn [apply_step kids].
  - discriminate.
  - destruct s; try discriminate. intros H; inversion H; subst. now left.
  - destruct s; try discriminate.
    + intros H. apply in_or_app. left. apply assoc_in in H.
      apply in_map_iff. exists (num, v). split; [reflexivity | exact H].
    + destruct unk; [|discriminate]. intros H; inversion H; subst. apply in_or_app. right. now left.
  - destruct s; try discriminate. intros H.
    apply (indexed_nth _ 0) in H. now replace (0 + N.of_nat (N.to_nat i)) with i in H by lia.
  - destruct s; try discriminate. intros H. apply assoc_in in H.
    apply in_map_iff. exists (k, v). split; [reflexivity | exact H].
Qed.

Lemma apply_step_unknown t v : apply_step t SUnknown = Some v -> v = Scalar.
Proof.
  destruct t as [|fields unk [m2|]|elems|entries]; cbn [apply_step]; try discriminate.
  destruct unk; [|discriminate]. congruence.
Qed.

Lemma visit_through push pop ch p v :
  push p = Continue -> pop p = Continue ->
  visit push pop ch p v = (fst (ch p v), Push p v :: snd (ch p v) ++ [Pop p v]).
Proof.
  intros H1 H2. unfold visit. rewrite H1, H2. cbn [amend is_nil].
  destruct (ch p v) as [e ev]. cbn [fst snd]. destruct e; reflexivity.
Qed.

Lemma fst_clear (x : verdict * list event) :
  fst (let '(e, ev) := x in (clear_break e, ev)) = clear_break (fst x).
Proof. now destruct x. Qed.
Lemma snd_clear (x : verdict * list event) :
  snd (let '(e, ev) := x in (clear_break e, ev)) = snd x.
Proof. now destruct x. Qed.

Lemma paths_visit p v v' ev ev' :
  paths ev = paths ev' ->
  paths (Push p v :: ev ++ [Pop p v]) = paths (Push p v' :: ev' ++ [Pop p v']).
Proof.
  intros H. cbn [paths map]. fold (paths (ev ++ [Pop p v])). fold (paths (ev' ++ [Pop p v'])).
  now rewrite !paths_app, H.
Qed.

Lemma snoc_neq_deeper (p : path) s s' r'' : p ++ [s] <> p ++ s :: s' :: r''.
Proof. intros E. apply app_inv_head in E. discriminate. Qed.

Section Semantics.
(* [cbs q] = the (push, pop) callbacks that misbehave only at q, where they make
   the visit of q end with the non-nil verdict V *)
Variable V : verdict.
Variable cbs : path -> callback * callback.
Variable leaf : tree -> tree.
Hypothesis V_not_nil : is_nil V = false.
Hypothesis leaf_scalar : leaf Scalar = Scalar.
Hypothesis off : forall q x, x <> q -> fst (cbs q) x = Continue /\ snd (cbs q) x = Continue.
Hypothesis hit : forall q v, exists ev1 ev2,
  visit (fst (cbs q)) (snd (cbs q)) (children (fst (cbs q)) (snd (cbs q))) q v = (V, ev1) /\
  visit cont cont (children cont cont) q (leaf v) = (Continue, ev2) /\
  paths ev1 = paths ev2.

Lemma children_trm : V <> Break ->
  forall r t p, r <> [] -> wf t -> apply_steps t r <> None ->
  fst (children (fst (cbs (p ++ r))) (snd (cbs (p ++ r))) p t) = V /\
  paths (snd (children (fst (cbs (p ++ r))) (snd (cbs (p ++ r))) p t))
  = paths (snd (children cont cont p (trm leaf r t))).
Proof.
  intros HB. induction r as [|s r' IH]; intros t p Hr Hwf Hres; [congruence|].
  cbn [apply_steps] in Hres. destruct (apply_step t s) as [v|] eqn:Es; [|congruence].
  pose proof (apply_step_in _ _ _ Es) as Hin.
  inversion Hwf as [t' Hnd Hkids]; subst t'.
  cbn [trm]. rewrite Es. rewrite !children_kids, fst_clear, !snd_clear.
  set (v' := match r' return tree with nil => leaf v | cons _ _ => trm leaf r' v end).
  assert (Hu : unk_ok s v').
  { intros ->. apply apply_step_unknown in Es. subst v. unfold v'.
    destruct r'; [exact leaf_scalar | apply trm_scalar]. }
  rewrite (kids_trunc t s v v' Hin Hu).
  set (q := p ++ s :: r').
  assert (H12 : exists ev1 ev2,
    visit (fst (cbs q)) (snd (cbs q)) (children (fst (cbs q)) (snd (cbs q))) (p ++ [s]) v = (V, ev1) /\
    visit cont cont (children cont cont) (p ++ [s]) v' = (Continue, ev2) /\ paths ev1 = paths ev2).
  { destruct r' as [|s' r''].
    - apply (hit (p ++ [s]) v).
    - assert (Hq : q = (p ++ [s]) ++ s' :: r'') by (unfold q; now rewrite <- app_assoc).
      destruct (IH v (p ++ [s])) as [He Hp]; [discriminate | now apply (Hkids s v) | exact Hres |].
      rewrite <- Hq in He, Hp.
      destruct (off q (p ++ [s]) (snoc_neq_deeper p s s' r'')) as [Hpu Hpo].
      eexists _, _. split; [|split].
      + rewrite visit_through by assumption. rewrite He. reflexivity.
      + apply visit_continue. apply children_continue.
      + apply paths_visit. exact Hp. }
  destruct H12 as (ev1 & ev2 & H1 & H2 & Hp).
  destruct (loop_cut (fst (cbs q)) (snd (cbs q)) p s r'
              (fun x Hx => proj1 (off q x Hx)) (fun x Hx => proj2 (off q x Hx))
              v v' V ev1 ev2 H1 H2 Hp (kids t) Hin Hnd) as [He Hl].
  rewrite V_not_nil in Hl. rewrite He. split; [destruct V; try reflexivity; congruence | exact Hl].
Qed.

Lemma children_brk : V = Break ->
  forall r t p, r <> [] -> wf t -> apply_steps t r <> None ->
  fst (children (fst (cbs (p ++ r))) (snd (cbs (p ++ r))) p t) = Continue /\
  paths (snd (children (fst (cbs (p ++ r))) (snd (cbs (p ++ r))) p t))
  = paths (snd (children cont cont p (brk leaf r t))).
Proof.
  intros HB. induction r as [|s r' IH]; intros t p Hr Hwf Hres; [congruence|].
  cbn [apply_steps] in Hres. destruct (apply_step t s) as [v|] eqn:Es; [|congruence].
  pose proof (apply_step_in _ _ _ Es) as Hin.
  inversion Hwf as [t' Hnd Hkids]; subst t'.
  cbn [brk]. rewrite Es. rewrite children_kids, fst_clear, snd_clear.
  set (q := p ++ s :: r').
  destruct r' as [|s' r''].
  - (* Break at this kid: the later kids are skipped, then Break is cleared *)
    assert (Hu : unk_ok s (leaf v)).
    { intros ->. apply apply_step_unknown in Es. now subst v. }
    rewrite children_kids, snd_clear, (kids_trunc t s v (leaf v) Hin Hu).
    destruct (hit (p ++ [s]) v) as (ev1 & ev2 & H1 & H2 & Hp).
    destruct (loop_cut (fst (cbs q)) (snd (cbs q)) p s []
                (fun x Hx => proj1 (off q x Hx)) (fun x Hx => proj2 (off q x Hx))
                v (leaf v) V ev1 ev2 H1 H2 Hp (kids t) Hin Hnd) as [He Hl].
    rewrite V_not_nil in Hl. rewrite He, HB. split; [reflexivity | exact Hl].
  - (* Break further down: cleared below, this level continues *)
    assert (Hq : q = (p ++ [s]) ++ s' :: r'') by (unfold q; now rewrite <- app_assoc).
    destruct (IH v (p ++ [s])) as [He Hp]; [discriminate | now apply (Hkids s v) | exact Hres |].
    rewrite <- Hq in He, Hp.
    assert (Hu : unk_ok s (brk leaf (s' :: r'') v)).
    { intros ->. apply apply_step_unknown in Es. subst v. apply brk_scalar. }
    rewrite children_kids, snd_clear, (kids_repl t s v _ Hin Hu).
    destruct (off q (p ++ [s]) (snoc_neq_deeper p s s' r'')) as [Hpu Hpo].
    assert (H1 : visit (fst (cbs q)) (snd (cbs q)) (children (fst (cbs q)) (snd (cbs q))) (p ++ [s]) v
                 = (Continue, Push (p ++ [s]) v :: snd (children (fst (cbs q)) (snd (cbs q)) (p ++ [s]) v)
                                ++ [Pop (p ++ [s]) v])).
    { rewrite visit_through by assumption. now rewrite He. }
    destruct (loop_cut (fst (cbs q)) (snd (cbs q)) p s (s' :: r'')
                (fun x Hx => proj1 (off q x Hx)) (fun x Hx => proj2 (off q x Hx))
                v (brk leaf (s' :: r'') v) Continue _ _ H1
                (visit_continue _ _ _ (proj1 (children_continue _ _))) (paths_visit _ _ _ _ _ Hp)
                (kids t) Hin Hnd) as [He' Hl].
    cbn [is_nil] in Hl. rewrite He'. split; [reflexivity | exact Hl].
Qed.
End Semantics.

Definition final (e : verdict) : verdict := match e with Break | Terminate => Continue | _ => e end.

Lemma range_unfold push pop root :
  range push pop root =
  (final (fst (visit push pop (children push pop) [SRoot] root)),
   snd (visit push pop (children push pop) [SRoot] root)).
Proof. unfold range, final. now destruct (visit push pop (children push pop) [SRoot] root). Qed.

(* the two instances: verdict from push / from pop *)
Definition on_push (V : verdict) (q : path) : callback * callback := (at_path q V, cont).
Definition on_pop (V : verdict) (q : path) : callback * callback := (cont, at_path q V).
Definition keep (t : tree) : tree := t.

Lemma on_push_off V q x : x <> q -> fst (on_push V q) x = Continue /\ snd (on_push V q) x = Continue.
Proof. intros H. split; [now apply at_path_neq | reflexivity]. Qed.
Lemma on_pop_off V q x : x <> q -> fst (on_pop V q) x = Continue /\ snd (on_pop V q) x = Continue.
Proof. intros H. split; [reflexivity | now apply at_path_neq]. Qed.

Lemma on_push_hit V : is_nil V = false -> forall q v, exists ev1 ev2,
  visit (fst (on_push V q)) (snd (on_push V q)) (children (fst (on_push V q)) (snd (on_push V q))) q v = (V, ev1) /\
  visit cont cont (children cont cont) q (strip v) = (Continue, ev2) /\ paths ev1 = paths ev2.
Proof.
  intros HV q v. eexists _, _. split; [apply visit_hit; exact HV | split; [apply visit_strip | reflexivity]].
Qed.
Lemma on_pop_hit V : forall q v, exists ev1 ev2,
  visit (fst (on_pop V q)) (snd (on_pop V q)) (children (fst (on_pop V q)) (snd (on_pop V q))) q v = (V, ev1) /\
  visit cont cont (children cont cont) q (keep v) = (Continue, ev2) /\ paths ev1 = paths ev2.
Proof.
  intros q v. eexists _, _. split; [apply visit_hit_pop | split].
  - apply visit_continue. apply children_continue.
  - reflexivity.
Qed.

Section Top.
Variable V : verdict.
Variable cbs : path -> callback * callback.
Variable leaf : tree -> tree.
Hypothesis V_not_nil : is_nil V = false.
Hypothesis leaf_scalar : leaf Scalar = Scalar.
Hypothesis off : forall q x, x <> q -> fst (cbs q) x = Continue /\ snd (cbs q) x = Continue.
Hypothesis hit : forall q v, exists ev1 ev2,
  visit (fst (cbs q)) (snd (cbs q)) (children (fst (cbs q)) (snd (cbs q))) q v = (V, ev1) /\
  visit cont cont (children cont cont) q (leaf v) = (Continue, ev2) /\
  paths ev1 = paths ev2.

Lemma range_trm r root : V <> Break ->
  r <> [] -> wf root -> apply_steps root r <> None ->
  fst (range (fst (cbs (SRoot :: r))) (snd (cbs (SRoot :: r))) root) = final V /\
  paths (snd (range (fst (cbs (SRoot :: r))) (snd (cbs (SRoot :: r))) root))
  = paths (snd (range cont cont (trm leaf r root))).
Proof.
  intros HB Hr Hwf Hres.
  destruct (children_trm V cbs leaf V_not_nil leaf_scalar off hit HB r root [SRoot] Hr Hwf Hres) as [He Hp].
  cbn [app] in He, Hp. rewrite !range_unfold. cbn [fst snd].
  destruct (off (SRoot :: r) [SRoot]) as [Hpu Hpo]; [intros E; inversion E; congruence|].
  rewrite visit_through by assumption.
  rewrite visit_continue by apply children_continue. cbn [fst snd]. rewrite He.
  split; [reflexivity | now apply paths_visit].
Qed.

Lemma range_brk r root : V = Break ->
  r <> [] -> wf root -> apply_steps root r <> None ->
  fst (range (fst (cbs (SRoot :: r))) (snd (cbs (SRoot :: r))) root) = Continue /\
  paths (snd (range (fst (cbs (SRoot :: r))) (snd (cbs (SRoot :: r))) root))
  = paths (snd (range cont cont (brk leaf r root))).
Proof.
  intros HB Hr Hwf Hres.
  destruct (children_brk V cbs leaf V_not_nil leaf_scalar off hit HB r root [SRoot] Hr Hwf Hres) as [He Hp].
  cbn [app] in He, Hp. rewrite !range_unfold. cbn [fst snd].
  destruct (off (SRoot :: r) [SRoot]) as [Hpu Hpo]; [intros E; inversion E; congruence|].
  rewrite visit_through by assumption.
  rewrite visit_continue by apply children_continue. cbn [fst snd]. rewrite He.
  split; [reflexivity | now apply paths_visit].
Qed.
End Top.

(* ----- the named theorems ----- *)
Theorem terminate_semantics V r root :
  is_nil V = false -> V <> Break ->
  r <> [] -> wf root -> apply_steps root r <> None ->
  fst (range (at_path (SRoot :: r) V) cont root) = final V /\
  paths (snd (range (at_path (SRoot :: r) V) cont root)) = paths (snd (range cont cont (trm strip r root))).
Proof.
  intros HV HB. apply (range_trm V (on_push V) strip HV eq_refl (on_push_off V) (on_push_hit V HV) r root HB).
Qed.

Theorem terminate_pop_semantics V r root :
  is_nil V = false -> V <> Break ->
  r <> [] -> wf root -> apply_steps root r <> None ->
  fst (range cont (at_path (SRoot :: r) V) root) = final V /\
  paths (snd (range cont (at_path (SRoot :: r) V) root)) = paths (snd (range cont cont (trm keep r root))).
Proof.
  intros HV HB. apply (range_trm V (on_pop V) keep HV eq_refl (on_pop_off V) (on_pop_hit V) r root HB).
Qed.

Theorem break_semantics r root :
  r <> [] -> wf root -> apply_steps root r <> None ->
  fst (range (at_path (SRoot :: r) Break) cont root) = Continue /\
  paths (snd (range (at_path (SRoot :: r) Break) cont root)) = paths (snd (range cont cont (brk strip r root))).
Proof.
  apply (range_brk Break (on_push Break) strip eq_refl eq_refl (on_push_off Break) (on_push_hit Break eq_refl) r root eq_refl).
Qed.

Theorem break_pop_semantics r root :
  r <> [] -> wf root -> apply_steps root r <> None ->
  fst (range cont (at_path (SRoot :: r) Break) root) = Continue /\
  paths (snd (range cont (at_path (SRoot :: r) Break) root)) = paths (snd (range cont cont (brk keep r root))).
Proof.
  apply (range_brk Break (on_pop Break) keep eq_refl eq_refl (on_pop_off Break) (on_pop_hit Break) r root eq_refl).
Qed.

(* a non-nil verdict from the push of the root step: nothing else is visited;
   from its pop: everything has been visited *)
Theorem root_push_verdict V root :
  is_nil V = false ->
  range (at_path [SRoot] V) cont root = (final V, [Push [SRoot] root; Pop [SRoot] root]).
Proof. intros HV. rewrite range_unfold, visit_hit by exact HV. reflexivity. Qed.

Theorem root_pop_verdict V root :
  range cont (at_path [SRoot] V) root = (final V, snd (range cont cont root)).
Proof.
  rewrite !range_unfold, visit_hit_pop, visit_continue by apply children_continue. reflexivity.
Qed.
