(* Proofs about the protorange model (Msg/RangeModel.v). *)
From Coq Require Import List Arith NArith Bool Lia Wf_nat.
From Coq Require Import ZifyBool ZifyNat ZifyN.
From PB Require Import Msg.RangeModel.
Import ListNotations.
Open Scope N_scope.

(* ---------- a uniform view: the children ("kids") of a value, in range order ---------- *)
Fixpoint indexed (i : N) (l : list tree) : list (step * tree) :=
  match l with [] => [] | v :: r => (SIndex i, v) :: indexed (i + 1) r end.

Definition fkid (nv : N * tree) : step * tree := (SField (fst nv), snd nv).
Definition kkid (kv : N * tree) : step * tree := (SKey (fst kv), snd kv).

Definition kids (t : tree) : list (step * tree) :=
  match t with
  | Scalar => []
  | Message fields unk (Some m2) => [(SAny, m2)]
  | Message fields unk None => map fkid fields ++ (if unk then [(SUnknown, Scalar)] else [])
  | TList elems => indexed 0 elems
  | TMap entries => map kkid entries
  end.

Fixpoint loop (vis : step -> tree -> verdict * list event) (ks : list (step * tree)) : verdict * list event :=
  match ks with
  | [] => (Continue, [])
  | (s, v) :: r =>
      let '(e, ev) := vis s v in
      if is_nil e then let '(e', ev') := loop vis r in (e', ev ++ ev') else (e, ev)
  end.

Lemma is_nil_true e : is_nil e = true -> e = Continue.
Proof. destruct e; cbn; congruence. Qed.

Lemma loop_app vis a b :
  loop vis (a ++ b) =
  let '(e, ev) := loop vis a in
  if is_nil e then let '(e', ev') := loop vis b in (e', ev ++ ev') else (e, ev).
Proof.
  induction a as [|[s v] a IH]; cbn [app loop].
  - cbn. now destruct (loop vis b).
  - destruct (vis s v) as [e ev]. destruct (is_nil e) eqn:E.
    + rewrite IH. destruct (loop vis a) as [e1 ev1]. destruct (is_nil e1) eqn:E1.
      * destruct (loop vis b) as [e2 ev2]. now rewrite app_assoc.
      * reflexivity.
    + now rewrite E.
Qed.

Lemma loop_ext vis1 vis2 ks :
  (forall s v, In (s, v) ks -> vis1 s v = vis2 s v) -> loop vis1 ks = loop vis2 ks.
Proof.
  induction ks as [|[s v] r IH]; intros H; cbn [loop]; [reflexivity|].
  rewrite (H s v) by now left. rewrite IH by (intros; apply H; now right). reflexivity.
Qed.

Section Unfold.
Variable push pop : callback.
Let vis (p : path) := fun s v => visit push pop (children push pop) (p ++ [s]) v.

Lemma children_kids p t :
  children push pop p t = let '(e, ev) := loop (vis p) (kids t) in (clear_break e, ev).
Proof.
  destruct t as [|fields unk [m2|]|elems|entries]; cbn [children kids].
  - reflexivity.
  - cbn [loop]. unfold vis. destruct (visit push pop (children push pop) (p ++ [SAny]) m2) as [e ev].
    destruct (is_nil e) eqn:E; [|reflexivity].
    apply is_nil_true in E; subst. now rewrite app_nil_r.
  - rewrite loop_app.
    match goal with |- context [match ?F fields with pair _ _ => _ end] => is_fix F; set (fl := F) end.
    assert (Hfl : forall fs, fl fs = loop (vis p) (map fkid fs)).
    { induction fs as [|[num v] r IH]; [reflexivity|].
      cbn [map fkid fst snd loop]. unfold vis at 1. unfold fl at 1. cbn fix beta iota.
      destruct (visit push pop (children push pop) (p ++ [SField num]) v) as [e ev].
      fold fl. rewrite IH. reflexivity. }
    rewrite Hfl. destruct (loop (vis p) (map fkid fields)) as [e ev].
    destruct unk; cbn [andb].
    + destruct (is_nil e) eqn:E; [|now rewrite app_nil_r].
      cbn [loop]. unfold vis.
      assert (Hv : visit push pop (fun _ _ => (Continue, [])) (p ++ [SUnknown]) Scalar
                   = visit push pop (children push pop) (p ++ [SUnknown]) Scalar) by reflexivity.
      rewrite Hv. destruct (visit push pop (children push pop) (p ++ [SUnknown]) Scalar) as [e' ev'].
      destruct (is_nil e') eqn:E'; [|reflexivity].
      apply is_nil_true in E'; subst. now rewrite app_nil_r.
    + cbn [loop]. destruct (is_nil e) eqn:E; [|now rewrite app_nil_r].
      apply is_nil_true in E; subst. reflexivity.
  - match goal with |- context [match ?F 0 elems with pair _ _ => _ end] => is_fix F; set (ll := F) end.
    assert (Hll : forall l i, ll i l = loop (vis p) (indexed i l)).
    { induction l as [|v r IH]; intros i; [reflexivity|].
      cbn [indexed loop]. unfold vis at 1. unfold ll at 1. cbn fix beta iota.
      destruct (visit push pop (children push pop) (p ++ [SIndex i]) v) as [e ev].
      fold ll. rewrite IH. reflexivity. }
    rewrite Hll. reflexivity.
  - match goal with |- context [match ?F entries with pair _ _ => _ end] => is_fix F; set (ml := F) end.
    assert (Hml : forall es, ml es = loop (vis p) (map kkid es)).
    { induction es as [|[k v] r IH]; [reflexivity|].
      cbn [map kkid fst snd loop]. unfold vis at 1. unfold ml at 1. cbn fix beta iota.
      destruct (visit push pop (children push pop) (p ++ [SKey k]) v) as [e ev].
      fold ml. rewrite IH. reflexivity. }
    rewrite Hml. reflexivity.
Qed.
End Unfold.

(* ---------- induction over kids ---------- *)
Fixpoint size (t : tree) : nat :=
  (match t with
   | Scalar => 1
   | Message fields _ any =>
       S (S ((fix sz (l : list (N * tree)) : nat := match l with [] => O | (_, v) :: r => size v + sz r end) fields
          + match any with Some m => size m | None => O end))
   | TList elems => S ((fix sz (l : list tree) : nat := match l with [] => O | v :: r => size v + sz r end) elems)
   | TMap entries =>
       S ((fix sz (l : list (N * tree)) : nat := match l with [] => O | (_, v) :: r => size v + sz r end) entries)
   end)%nat.

Lemma kids_size t s v : In (s, v) (kids t) -> (size v < size t)%nat.
Proof.
  destruct t as [|fields unk [m2|]|elems|entries]; cbn [kids].
  - intros [].
  - intros [H|[]]. inversion H; subst. cbn [size]. lia.
  - intros H. apply in_app_or in H. destruct H as [H|H].
    + cbn [size]. induction fields as [|[n0 v0] r IH]; [destruct H|].
      destruct H as [H|H].
      * inversion H; subst. cbn. lia.
      * specialize (IH H). cbn in IH |- *. lia.
    + destruct unk; [|destruct H]. destruct H as [H|[]]. inversion H; subst.
      cbn. lia.
  - cbn [size]. generalize 0 at 1. induction elems as [|v0 r IH]; intros i H; [destruct H|].
    destruct H as [H|H].
    + inversion H; subst. lia.
    + specialize (IH _ H). lia.
  - intros H. cbn [size]. induction entries as [|[k0 v0] r IH]; [destruct H|].
    destruct H as [H|H].
    + inversion H; subst. cbn. lia.
    + specialize (IH H). cbn in IH |- *. lia.
Qed.

Lemma tree_kids_ind (P : tree -> Prop) :
  (forall t, (forall s v, In (s, v) (kids t) -> P v) -> P t) -> forall t, P t.
Proof.
  intros H t. induction t as [t IH] using (induction_ltof1 _ size).
  apply H. intros s v Hin. apply IH. unfold ltof. now apply kids_size in Hin.
Qed.

(* ---------- range_balanced: the trace is well nested ---------- *)
Inductive wn : path -> list event -> Prop :=
| wn_nil p : wn p []
| wn_cons p s v inner rest :
    wn (p ++ [s]) inner -> wn p rest ->
    wn p (Push (p ++ [s]) v :: inner ++ Pop (p ++ [s]) v :: rest).

Lemma wn_app p a b : wn p a -> wn p b -> wn p (a ++ b).
Proof.
  induction 1 as [|p s v inner rest Hi _ Hr IH]; intros Hb; [exact Hb|].
  cbn [app]. rewrite <- app_assoc. cbn [app]. constructor; [exact Hi | now apply IH].
Qed.

Section Balanced.
Variable push pop : callback.

Lemma visit_wn ch p s v :
  wn (p ++ [s]) (snd (ch (p ++ [s]) v)) -> wn p (snd (visit push pop ch (p ++ [s]) v)).
Proof.
  intros H. unfold visit.
  destruct (is_nil (amend Continue (push (p ++ [s])))).
  - destruct (ch (p ++ [s]) v) as [e2 ev]. cbn [snd] in *. constructor; [exact H | constructor].
  - cbn [snd]. apply (wn_cons p s v [] []); constructor.
Qed.

Lemma loop_wn vis p ks :
  (forall s v, In (s, v) ks -> wn p (snd (vis s v))) -> wn p (snd (loop vis ks)).
Proof.
  induction ks as [|[s v] r IH]; intros H; cbn [loop]; [constructor|].
  pose proof (H s v (or_introl eq_refl)) as Hv.
  destruct (vis s v) as [e ev]. cbn [snd] in Hv.
  destruct (is_nil e); [|exact Hv].
  specialize (IH (fun s' v' Hin => H s' v' (or_intror Hin))).
  destruct (loop vis r) as [e' ev']. cbn [snd] in *. now apply wn_app.
Qed.

Lemma children_wn : forall t p, wn p (snd (children push pop p t)).
Proof.
  induction t as [t IH] using tree_kids_ind. intros p.
  rewrite children_kids.
  pose proof (loop_wn (fun s v => visit push pop (children push pop) (p ++ [s]) v) p (kids t)) as H.
  destruct (loop _ (kids t)) as [e ev]. cbn [snd] in *. apply H.
  intros s v Hin. apply visit_wn. now apply (IH s v).
Qed.

Theorem range_wn root : wn [] (snd (range push pop root)).
Proof.
  unfold range.
  pose proof (visit_wn (children push pop) [] SRoot root (children_wn root _)) as H.
  cbn [app] in H. destruct (visit push pop (children push pop) [SRoot] root) as [e ev]. exact H.
Qed.

(* every event list produced is "push root ... pop root" *)
Theorem range_root_events root :
  exists inner, snd (range push pop root) = Push [SRoot] root :: inner ++ [Pop [SRoot] root]
                /\ wn [SRoot] inner.
Proof.
  unfold range, visit.
  destruct (is_nil (amend Continue (push [SRoot]))).
  - pose proof (children_wn root [SRoot]) as H.
    destruct (children push pop [SRoot] root) as [e2 ev]. cbn [snd] in *. now exists ev.
  - exists []. split; [reflexivity | constructor].
Qed.
End Balanced.

(* ---------- range_visits_once ---------- *)
Definition posf (positions : path -> tree -> list path) (p : path) (sv : step * tree) : list path :=
  (p ++ [fst sv]) :: positions (p ++ [fst sv]) (snd sv).

Lemma positions_kids p t : positions p t = flat_map (posf positions p) (kids t).
Proof.
  destruct t as [|fields unk [m2|]|elems|entries]; cbn [positions kids].
  - reflexivity.
  - cbn. now rewrite app_nil_r.
  - rewrite flat_map_app. f_equal.
    + induction fields as [|[num v] r IH]; [reflexivity|].
      cbn [map flat_map fkid posf fst snd]. rewrite <- IH. reflexivity.
    + destruct unk; reflexivity.
  - generalize 0. induction elems as [|v r IH]; intros i; [reflexivity|].
    cbn [indexed flat_map posf fst snd]. rewrite <- IH. reflexivity.
  - induction entries as [|[k v] r IH]; [reflexivity|].
    cbn [map flat_map kkid posf fst snd]. rewrite <- IH. reflexivity.
Qed.

Lemma pushes_app a b : pushes (a ++ b) = pushes a ++ pushes b.
Proof. unfold pushes. apply flat_map_app. Qed.

Definition cont : callback := always Continue.

Lemma visit_continue ch p v :
  fst (ch p v) = Continue -> visit cont cont ch p v = (Continue, Push p v :: snd (ch p v) ++ [Pop p v]).
Proof.
  intros H. unfold visit. cbn [cont always amend is_nil].
  destruct (ch p v) as [e ev]. cbn [fst snd] in *. subst e. reflexivity.
Qed.

Lemma children_continue : forall t p,
  fst (children cont cont p t) = Continue /\ pushes (snd (children cont cont p t)) = positions p t.
Proof.
  induction t as [t IH] using tree_kids_ind. intros p.
  rewrite children_kids, positions_kids.
  assert (H : forall ks, (forall s v, In (s, v) ks -> In (s, v) (kids t)) ->
              fst (loop (fun s v => visit cont cont (children cont cont) (p ++ [s]) v) ks) = Continue /\
              pushes (snd (loop (fun s v => visit cont cont (children cont cont) (p ++ [s]) v) ks))
              = flat_map (posf positions p) ks).
  { induction ks as [|[s v] r IHr]; intros Hsub; [split; reflexivity|].
    cbn [loop flat_map posf fst snd].
    destruct (IH s v (Hsub s v (or_introl eq_refl)) (p ++ [s])) as [He Hp].
    rewrite visit_continue by exact He. cbn [is_nil].
    destruct IHr as [He' Hp']; [intros; apply Hsub; now right|].
    destruct (loop _ r) as [e' ev']. cbn [fst snd] in *. split; [exact He'|].
    change (Push (p ++ [s]) v :: snd (children cont cont (p ++ [s]) v) ++ [Pop (p ++ [s]) v])
      with ([Push (p ++ [s]) v] ++ snd (children cont cont (p ++ [s]) v) ++ [Pop (p ++ [s]) v]).
    rewrite !pushes_app. cbn [pushes flat_map app]. rewrite Hp, Hp', app_nil_r. reflexivity. }
  specialize (H (kids t) (fun s v Hin => Hin)).
  destruct (loop _ (kids t)) as [e ev]. cbn [fst snd] in *. destruct H as [-> H]. split; [reflexivity | exact H].
Qed.

Theorem range_visits_once root :
  range cont cont root = (Continue, snd (range cont cont root)) /\
  pushes (snd (range cont cont root)) = all_positions root.
Proof.
  destruct (children_continue root [SRoot]) as [He Hp].
  unfold range, all_positions. rewrite visit_continue by exact He. cbn [snd]. split; [reflexivity|].
  change (Push [SRoot] root :: snd (children cont cont [SRoot] root) ++ [Pop [SRoot] root])
    with ([Push [SRoot] root] ++ snd (children cont cont [SRoot] root) ++ [Pop [SRoot] root]).
  rewrite !pushes_app. cbn [pushes flat_map app]. now rewrite Hp, app_nil_r.
Qed.

(* well-formed trees: distinct field numbers / map keys at every level *)
Inductive wf : tree -> Prop :=
| wf_intro t : NoDup (map fst (kids t)) -> (forall s v, In (s, v) (kids t) -> wf v) -> wf t.

Lemma positions_prefix : forall t p q, In q (positions p t) -> exists l, l <> [] /\ q = p ++ l.
Proof.
  induction t as [t IH] using tree_kids_ind. intros p q. rewrite positions_kids.
  intros H. apply in_flat_map in H. destruct H as [[s v] [Hin Hq]].
  cbn [posf fst snd] in Hq. destruct Hq as [<-|Hq].
  - exists [s]. split; [discriminate | reflexivity].
  - destruct (IH s v Hin _ _ Hq) as [l [Hl ->]].
    exists (s :: l). split; [discriminate | now rewrite <- app_assoc].
Qed.

Lemma NoDup_app_intro {A} (a b : list A) :
  NoDup a -> NoDup b -> (forall x, In x a -> ~ In x b) -> NoDup (a ++ b).
Proof.
  induction a as [|x a IH]; intros Ha Hb Hd; [exact Hb|].
  inversion Ha; subst. cbn. constructor.
  - intros Hin. apply in_app_or in Hin. destruct Hin as [Hin|Hin]; [contradiction|].
    apply (Hd x); [now left | exact Hin].
  - apply IH; auto. intros y Hy. apply Hd. now right.
Qed.

Lemma NoDup_app_l {A} (a b : list A) : NoDup (a ++ b) -> NoDup a.
Proof.
  induction a as [|x a IH]; intros H; [constructor|].
  cbn in H. inversion H; subst. constructor; [|now apply IH].
  intros Hin. apply H2. apply in_or_app. now left.
Qed.

Lemma positions_nodup : forall t p, wf t -> NoDup (positions p t).
Proof.
  induction t as [t IH] using tree_kids_ind. intros p Hwf. rewrite positions_kids.
  inversion Hwf as [t' Hnd Hkids]; subst t'.
  assert (Hgen : forall ks, NoDup (map fst ks) -> (forall s v, In (s, v) ks -> In (s, v) (kids t)) ->
                 NoDup (flat_map (posf positions p) ks)).
  { induction ks as [|[s v] r IHr]; intros Hn Hsub; [constructor|].
    cbn [flat_map posf fst snd]. inversion Hn as [|? ? Hnotin Hn']; subst.
    change ((p ++ [s]) :: positions (p ++ [s]) v ++ flat_map (posf positions p) r)
      with (((p ++ [s]) :: positions (p ++ [s]) v) ++ flat_map (posf positions p) r).
    apply NoDup_app_intro.
    - constructor.
      + intros Hin. apply positions_prefix in Hin. destruct Hin as [l [Hl Heq]].
        rewrite <- (app_nil_r (p ++ [s])) in Heq at 1. apply app_inv_head in Heq. congruence.
      + apply (IH s v); [apply Hsub; now left | apply (Hkids s v), Hsub; now left].
    - apply IHr; [exact Hn' | intros; apply Hsub; now right].
    - intros q Hq Hq'. apply in_flat_map in Hq'. destruct Hq' as [[s' v'] [Hin' Hq']].
      assert (Hs : s <> s').
      { intros ->. apply Hnotin. apply (in_map fst) in Hin'. exact Hin'. }
      assert (H1 : exists l, q = p ++ s :: l).
      { destruct Hq as [<-|Hq]; [now exists [] |].
        apply positions_prefix in Hq. destruct Hq as [l [_ ->]]. exists l. now rewrite <- app_assoc. }
      assert (H2 : exists l, q = p ++ s' :: l).
      { cbn [posf fst snd] in Hq'. destruct Hq' as [<-|Hq']; [now exists [] |].
        apply positions_prefix in Hq'. destruct Hq' as [l [_ ->]]. exists l. now rewrite <- app_assoc. }
      destruct H1 as [l1 E1], H2 as [l2 E2]. rewrite E1 in E2. apply app_inv_head in E2. congruence. }
  apply Hgen; auto.
Qed.

Theorem all_positions_nodup root : wf root -> NoDup (all_positions root).
Proof.
  intros Hwf. unfold all_positions. constructor; [|now apply positions_nodup].
  intros Hin. apply positions_prefix in Hin. destruct Hin as [l [Hl Heq]].
  rewrite <- (app_nil_r [SRoot]) in Heq at 1. apply app_inv_head in Heq. congruence.
Qed.

(* ---------- range_step_value ---------- *)
Definition ev_val (e : event) : tree := match e with Push _ v | Pop _ v => v end.

Lemma assoc_nodup l k v : NoDup (map fst l) -> In (k, v) l -> assoc l k = Some v.
Proof.
  induction l as [|[k0 v0] r IH]; intros Hn Hin; [destruct Hin|].
  cbn [assoc]. inversion Hn as [|? ? Hnotin Hn']; subst. destruct Hin as [Hin|Hin].
  - inversion Hin; subst. now rewrite N.eqb_refl.
  - destruct (k0 =? k) eqn:E.
    + apply N.eqb_eq in E; subst. exfalso. apply Hnotin. now apply (in_map fst) in Hin.
    + now apply IH.
Qed.

Lemma indexed_in : forall l k i v,
  In (SIndex i, v) (indexed k l) -> k <= i /\ nth_error l (N.to_nat (i - k)) = Some v.
Proof.
  induction l as [|v0 r IH]; intros k i v Hin; [destruct Hin|].
  cbn [indexed] in Hin. destruct Hin as [Hin|Hin].
  - inversion Hin; subst. split; [lia|]. now rewrite N.sub_diag.
  - apply IH in Hin. destruct Hin as [Hle Hn]. split; [lia|].
    replace (N.to_nat (i - k)) with (S (N.to_nat (i - (k + 1)))) by lia. exact Hn.
Qed.

Lemma indexed_steps : forall l k s v, In (s, v) (indexed k l) -> exists i, s = SIndex i.
Proof.
  induction l as [|v0 r IH]; intros k s v Hin; [destruct Hin|].
  destruct Hin as [Hin|Hin]; [inversion Hin; eauto | eauto].
Qed.

Lemma apply_step_kids t s v : wf t -> In (s, v) (kids t) -> apply_step t s = Some v.
Proof.
  intros Hwf Hin. inversion Hwf as [t' Hnd _]; subst t'.
  destruct t as [|fields unk [m2|]|elems|entries]; cbn [kids] in *.
  - destruct Hin.
  - destruct Hin as [Hin|[]]. inversion Hin; subst. reflexivity.
  - rewrite map_app in Hnd. apply in_app_or in Hin. destruct Hin as [Hin|Hin].
    + apply in_map_iff in Hin. destruct Hin as [[num v'] [Heq Hin]]. inversion Heq; subst.
      cbn [apply_step fst]. apply assoc_nodup; [|exact Hin].
      apply NoDup_app_l in Hnd. rewrite map_map in Hnd. cbn [fkid fst] in Hnd.
      rewrite <- (map_map fst SField) in Hnd. now apply NoDup_map_inv in Hnd.
    + destruct unk; [|destruct Hin]. destruct Hin as [Hin|[]]. inversion Hin; subst. reflexivity.
  - destruct (indexed_steps _ _ _ _ Hin) as [i ->].
    apply indexed_in in Hin. destruct Hin as [_ Hn]. cbn [apply_step]. now rewrite N.sub_0_r in Hn.
  - apply in_map_iff in Hin. destruct Hin as [[k v'] [Heq Hin]]. inversion Heq; subst.
    cbn [apply_step fst]. apply assoc_nodup; [|exact Hin].
    rewrite map_map in Hnd. cbn [kkid fst] in Hnd.
    rewrite <- (map_map fst SKey) in Hnd. now apply NoDup_map_inv in Hnd.
Qed.

Section StepValue.
Variable push pop : callback.

Lemma visit_events ch p v e :
  In e (snd (visit push pop ch p v)) ->
  (ev_path e = p /\ ev_val e = v) \/ In e (snd (ch p v)).
Proof.
  unfold visit. destruct (is_nil (amend Continue (push p))).
  - destruct (ch p v) as [e2 ev]. cbn [snd]. intros [<-|Hin]; [now left|].
    apply in_app_or in Hin. destruct Hin as [Hin|[<-|[]]]; [now right | now left].
  - cbn [snd]. intros [<-|[<-|[]]]; now left.
Qed.

Lemma loop_events vis ks e :
  In e (snd (loop vis ks)) -> exists s v, In (s, v) ks /\ In e (snd (vis s v)).
Proof.
  induction ks as [|[s v] r IH]; cbn [loop]; [intros []|].
  destruct (vis s v) as [e1 ev1] eqn:Ev. destruct (is_nil e1).
  - destruct (loop vis r) as [e2 ev2]. cbn [snd] in *. intros Hin. apply in_app_or in Hin.
    destruct Hin as [Hin|Hin].
    + exists s, v. split; [now left | now rewrite Ev].
    + destruct (IH Hin) as (s' & v' & Hin' & He). exists s', v'. split; [now right | exact He].
  - cbn [snd]. intros Hin. exists s, v. split; [now left | now rewrite Ev].
Qed.

Lemma children_values : forall t p e, wf t -> In e (snd (children push pop p t)) ->
  exists l, l <> [] /\ ev_path e = p ++ l /\ apply_steps t l = Some (ev_val e).
Proof.
  induction t as [t IH] using tree_kids_ind. intros p e Hwf Hin.
  rewrite children_kids in Hin.
  destruct (loop _ (kids t)) as [e0 ev0] eqn:El. cbn [snd] in Hin.
  assert (Hin' : In e (snd (loop (fun s v => visit push pop (children push pop) (p ++ [s]) v) (kids t))))
    by now rewrite El.
  apply loop_events in Hin'. destruct Hin' as (s & v & Hk & He).
  pose proof (apply_step_kids t s v Hwf Hk) as Hs.
  apply visit_events in He. destruct He as [[Hp Hv]|He].
  - exists [s]. repeat split; [discriminate | exact Hp |]. cbn [apply_steps]. now rewrite Hs, Hv.
  - inversion Hwf as [t' _ Hkids]; subst t'.
    destruct (IH s v Hk (p ++ [s]) e (Hkids s v Hk) He) as (l & Hl & Hp & Hv).
    exists (s :: l). repeat split; [discriminate | now rewrite Hp, <- app_assoc |].
    cbn [apply_steps]. now rewrite Hs.
Qed.

Theorem range_step_value root e :
  wf root -> In e (snd (range push pop root)) -> resolve root (ev_path e) = Some (ev_val e).
Proof.
  intros Hwf Hin. unfold range in Hin.
  destruct (visit push pop (children push pop) [SRoot] root) as [e0 ev0] eqn:Ev. cbn [snd] in Hin.
  assert (Hin' : In e (snd (visit push pop (children push pop) [SRoot] root))) by now rewrite Ev.
  apply visit_events in Hin'. destruct Hin' as [[Hp Hv]|Hin'].
  - rewrite Hp, Hv. reflexivity.
  - destruct (children_values root [SRoot] e Hwf Hin') as (l & _ & Hp & Hv).
    rewrite Hp. cbn [app resolve]. exact Hv.
Qed.
End StepValue.
