(* LazyValueP — a first piece of "the value after forcing = the eagerly decoded value" (C17):
   the tag loop of lazy Unmarshal ([lz_loop]) is the tag loop of the eager decoder on every field
   that is not a lazy one -- same accumulator, same error -- and its index/presence bookkeeping
   does not touch the decoded fields.  Hence, for a message type without lazy fields, lazy
   Unmarshal returns exactly the eager verdict and (nothing being left to force) the eager value.

   Still missing for the full statement (inputs outside the F1 class, types WITH lazy fields):
     (1) depth monotonicity of the eager decoder (forcing decodes with depth 10000, Unmarshal
         validated with the remaining depth),
     (2) locality of [msg_step]: a field changes only its own entry of the sorted field list,
     (3) index correctness: the ranges [lz_lookup] returns for a lazy field are exactly its
         occurrences, in input order, and [lz_range] re-parses them as the eager loop did,
     (4) assembly: [msg_fset] of the forced value commutes with the entries of the other fields. *)
From Coq Require Import List Arith NArith ZArith Lia Bool.
From Coq Require Import ZifyBool ZifyNat ZifyN.
From PB Require Import Base.PBytes Wire.WireModel Wire.VarintP Wire.ScanP.
From PB Require Import Msg.MsgSchema Msg.MsgValue Msg.MsgUtf8 Msg.MsgEnc Msg.MsgDec.
From PB Require Import Msg.ValidateMsgModel Msg.ValidateMsgP Msg.LazyModel.
Import ListNotations.
Open Scope N_scope.

Definition lzv_nolazy (md : mdesc) : Prop := forall fd, In fd md -> lz_is_lazy fd = false.
Definition lzv_nolazyb (md : mdesc) : bool := forallb (fun fd => negb (lz_is_lazy fd)) md.
Lemma lzv_nolazyb_spec md : lzv_nolazyb md = true -> lzv_nolazy md.
Proof.
  unfold lzv_nolazyb, lzv_nolazy. rewrite forallb_forall. intros H fd Hin.
  specialize (H fd Hin). destruct (lz_is_lazy fd); [discriminate|reflexivity].
Qed.

(* one field that is not a lazy one: the eager step, plus bookkeeping *)
Lemma lzv_step_eager S d md total st bs num typ r :
  (forall fd, msg_find_field md num = Some fd -> lz_is_lazy fd = false) ->
  lz_step S d md total st bs num typ r =
  match msg_step false md (msg_decode_msg false S d) (vp_dsub2 S d) (enc_tag num typ) num typ r (s_acc st) with
  | DErr e => DErr e
  | DOk (acc', r') => DOk (lz_note total st false num (total - length bs) r' acc' (s_present st), r')
  end.
Proof.
  intros H. unfold lz_step. destruct (msg_find_field md num) as [fd|] eqn:E; [|reflexivity].
  rewrite (H fd eq_refl). reflexivity.
Qed.

Lemma lzv_loop_nolazy S d tid md total :
  nth_error S tid = Some md -> lzv_nolazy md ->
  forall g bs st,
    match msg_decode_msg false S (Datatypes.S d) tid 0 g bs (s_acc st) with
    | DOk (acc, _) => exists st', lz_loop S d md total g bs st = DOk st' /\
                                  s_acc st' = acc /\ s_present st' = s_present st
    | DErr e => lz_loop S d md total g bs st = DErr e
    end.
Proof.
  intros Hmd Hnl. induction g as [|x g IH]; intros bs st.
  - cbn [msg_decode_msg]. rewrite Hmd. reflexivity.
  - rewrite (vp_dm_unfold S d tid 0 md x g bs (s_acc st) Hmd). cbn [lz_loop].
    destruct bs as [|b0 t] eqn:Ebs.
    { cbn [N.eqb]. exists st. auto. }
    rewrite <- Ebs. clear Ebs.
    destruct (dec_tag bs) as [[[num typ] r]|e] eqn:Et; [|reflexivity].
    destruct (msg_max_num <? num); [reflexivity|].
    destruct (typ =? 4).
    { replace (num =? 0) with false; [reflexivity|]. symmetry. apply N.eqb_neq. intros ->.
      apply dec_tag_sound in Et. destruct Et as (p & _ & (_ & _ & _ & Hlo & _)). lia. }
    rewrite lzv_step_eager.
    2: { intros fd Hf. apply Hnl. eapply vp_find_field_in. exact Hf. }
    destruct (msg_step false md (msg_decode_msg false S d) (vp_dsub2 S d) (enc_tag num typ) num typ r (s_acc st))
      as [[acc' r']|e]; [|reflexivity].
    apply (IH r' (lz_note total st false num (total - length bs) r' acc' (s_present st))).
Qed.

Theorem lzv_value_nolazy S limit tid bs md :
  nth_error S tid = Some md -> lzv_nolazy md ->
  lz_value_of S limit tid bs = match msg_decode false S limit tid bs with DOk v => Some v | DErr _ => None end /\
  lz_verdict S limit tid bs = match msg_decode false S limit tid bs with DOk _ => 0 | DErr e => derr_code e end.
Proof.
  intros Hmd Hnl. unfold lz_value_of, lz_verdict, lz_unmarshal, msg_decode, msg_decode_into.
  destruct limit as [|d]; [split; reflexivity|]. rewrite Hmd.
  pose proof (lzv_loop_nolazy S d tid md (length bs) Hmd Hnl (x00 :: bs) bs (mkLS ([], []) [] [] 0 false)) as H.
  cbn [s_acc s_present] in H. change (msg_macc_of msg_empty) with (@nil (N * list value), @nil byte).
  destruct (msg_decode_msg false S (Datatypes.S d) tid 0 (x00 :: bs) bs ([], [])) as [[acc r]|e].
  - destruct H as (st' & -> & Ha & Hp). split; [|reflexivity].
    unfold lz_value, lz_force_all. cbn [l_lazy l_fields l_unk]. rewrite Hp. cbn [lz_dedup fold_left l_fields l_unk].
    rewrite Ha. reflexivity.
  - rewrite H. split; reflexivity.
Qed.
