(* Proofs about the protodelim model (Msg/DelimModel.v). *)
From Coq Require Import List Arith NArith ZArith Lia Bool.
From Coq Require Import ZifyBool ZifyNat ZifyN.
From PB Require Import Base.PBytes Wire.WireModel Wire.VarintP Msg.DelimModel Gen.DelimConsts.
Ltac Zify.zify_post_hook ::= Z.div_mod_to_equations.
Import ListNotations.
Open Scope N_scope.

(* ---------- take_upto ---------- *)
Lemma take_upto_spec : forall s n,
  take_upto s n = (firstn (N.to_nat n) s, skipn (N.to_nat n) s).
Proof.
  induction s as [|b r IH]; intros n; cbn [take_upto].
  - now rewrite firstn_nil, skipn_nil.
  - destruct (n =? 0) eqn:E.
    + replace (N.to_nat n) with O by lia. reflexivity.
    + rewrite IH. replace (N.to_nat n) with (S (N.to_nat (N.pred n))) by lia. reflexivity.
Qed.

Lemma firstn_add {A} (a b : nat) (l : list A) :
  firstn (a + b) l = firstn a l ++ firstn b (skipn a l).
Proof.
  revert l; induction a as [|a IH]; intros l; cbn; [reflexivity|].
  destruct l; cbn; [now rewrite firstn_nil | now rewrite IH].
Qed.
Lemma skipn_add {A} (a b : nat) (l : list A) :
  skipn (a + b) l = skipn b (skipn a l).
Proof.
  revert l; induction a as [|a IH]; intros l; cbn; [reflexivity|].
  destruct l; cbn; [now rewrite skipn_nil | now rewrite IH].
Qed.

(* ---------- io.ReadFull is independent of the chunking ---------- *)
Lemma read_full_spec : forall fuel o i need acc s,
  (length s < fuel)%nat ->
  read_full fuel o i need acc s =
    if need <=? N.of_nat (length s)
    then RFOk (acc ++ firstn (N.to_nat need) s) (skipn (N.to_nat need) s)
    else RFShort.
Proof.
  induction fuel as [|f IH]; intros o i need acc s Hf; [lia|].
  cbn [read_full].
  destruct (need =? 0) eqn:E0.
  - replace (need <=? N.of_nat (length s)) with true by lia.
    replace (N.to_nat need) with O by lia. cbn. now rewrite app_nil_r.
  - destruct s as [|b r].
    + cbn [length]. replace (need <=? N.of_nat 0) with false by lia. reflexivity.
    + set (s := b :: r) in *.
      set (c := N.min (N.max (chunk o i) 1) need).
      rewrite take_upto_spec.
      assert (Hc1 : 1 <= c) by (unfold c; lia).
      assert (Hc2 : c <= need) by (unfold c; lia).
      assert (Hls : (1 <= length s)%nat) by (unfold s; cbn; lia).
      set (k := N.to_nat c).
      assert (Hlen : length (firstn k s) = Nat.min k (length s)) by apply firstn_length.
      assert (Hlen2 : length (skipn k s) = (length s - k)%nat) by apply skipn_length.
      rewrite IH by (rewrite Hlen2; unfold k; lia).
      rewrite Hlen, Hlen2.
      destruct (need <=? N.of_nat (length s)) eqn:En.
      * (* enough data: the chunk is entirely available *)
        assert (Hk : (k <= length s)%nat) by (unfold k; lia).
        replace (Nat.min k (length s)) with k by lia.
        replace (need - N.of_nat k <=? N.of_nat (length s - k)) with true by lia.
        replace (N.to_nat need) with (k + N.to_nat (need - N.of_nat k))%nat by lia.
        rewrite firstn_add, skipn_add, app_assoc. reflexivity.
      * replace (need - N.of_nat (Nat.min k (length s)) <=? N.of_nat (length s - k)) with false by lia.
        reflexivity.
Qed.

Section DelimProofs.
Variable body_ok : list byte -> bool.

(* ---------- the size loop on a well-formed varint ---------- *)
Lemma read_size_enc : forall k terr v first acc rest,
  (0 < k)%nat -> v < 2^(7 * N.of_nat k) ->
  read_size terr k first acc (enc_varint_fuel k v ++ rest) = RSBuf (acc ++ enc_varint_fuel k v) rest.
Proof.
  induction k as [|k IH]; intros terr v first acc rest Hk Hv; [lia|].
  cbn [enc_varint_fuel read_size].
  destruct (v <? 128) eqn:Hlt.
  - cbn [app]. rewrite b2n_n2b by lia. rewrite Hlt. reflexivity.
  - cbn [app]. rewrite b2n_n2b by (pose proof (N.mod_lt v 128); lia).
    replace (v mod 128 + 128 <? 128) with false by lia.
    assert (Hk' : (0 < k)%nat).
    { destruct k; [|lia]. change (2 ^ (7 * N.of_nat 1)) with 128 in Hv. lia. }
    rewrite IH; [now rewrite <- app_assoc | exact Hk' |].
    replace (7 * N.of_nat (S k)) with (7 * N.of_nat k + 7) in Hv by lia.
    rewrite N.pow_add_r in Hv. change (2^7) with 128 in Hv.
    apply N.div_lt_upper_bound; lia.
Qed.

Lemma read_size_varint terr v rest : v < 2^64 ->
  read_size terr size_arr_len true [] (enc_varint v ++ rest) = RSBuf (enc_varint v) rest.
Proof.
  intros Hv. unfold enc_varint, size_arr_len. rewrite read_size_enc; [reflexivity | lia |].
  change (7 * N.of_nat 10) with 70. assert (2^64 < 2^70) by (apply N.pow_lt_mono_r; lia). lia.
Qed.

Lemma dec_varint_enc v : v < 2^64 -> dec_varint (enc_varint v) = Ok (v, []).
Proof. intros H. rewrite <- (app_nil_r (enc_varint v)). now apply varint_roundtrip. Qed.

(* one complete frame, any reader *)
Lemma unmarshal_from_frame terr o max body rest :
  N.of_nat (length body) < 2^64 ->
  N.of_nat (length body) <= effective_max max ->
  N.of_nat (length body) <= max_int ->
  unmarshal_from body_ok terr o max (marshal_to body ++ rest) = (unmarshal body_ok body, rest).
Proof.
  intros H64 Hmax Halloc. unfold unmarshal_from, marshal_to.
  rewrite <- app_assoc, read_size_varint by exact H64.
  rewrite dec_varint_enc by exact H64.
  set (size := N.of_nat (length body)).
  replace (effective_max max <? size) with false by lia.
  assert (Hf : firstn (N.to_nat size) (body ++ rest) = body).
  { unfold size. rewrite Nat2N.id, firstn_app, Nat.sub_diag, firstn_all. cbn. now rewrite app_nil_r. }
  assert (Hs : skipn (N.to_nat size) (body ++ rest) = rest).
  { unfold size. rewrite Nat2N.id, skipn_app, Nat.sub_diag, skipn_all. reflexivity. }
  destruct (is_bufio o && peek_ok o size && (size <=? max_int) && (size <=? N.of_nat (length (body ++ rest)))).
  - rewrite take_upto_spec, Hf, Hs. reflexivity.
  - replace (size <=? max_int) with true by lia. rewrite orb_true_r.
    rewrite read_full_spec by lia.
    rewrite app_length. replace (size <=? N.of_nat (length body + length rest)) with true by lia.
    rewrite Hf, Hs. reflexivity.
Qed.

(* ---------- structure of the size loop ---------- *)
Lemma read_size_inv : forall k terr first acc s,
  match read_size terr k first acc s with
  | RSBuf _ r => (length r <= length s)%nat
  | RSErr e r => r = [] /\ (e = DReaderErr /\ terr = true \/
                            e = DEOF /\ terr = false /\ first = true /\ s = [])
  end.
Proof.
  induction k as [|k IH]; intros terr first acc s; cbn [read_size]; [lia|].
  destruct s as [|b r].
  - destruct terr; [intuition|]. destruct first; [intuition | cbn; lia].
  - destruct (b2n b <? 128); [cbn; lia|].
    specialize (IH terr false (acc ++ [b]) r).
    destruct (read_size terr k false (acc ++ [b]) r); [cbn; lia|].
    destruct IH as (-> & [H|(_ & _ & H & _)]); [|discriminate].
    split; [reflexivity | now left].
Qed.

(* ---------- oracle independence ---------- *)
Theorem unmarshal_from_ref_eq terr o max s :
  unmarshal_from body_ok terr o max s = unmarshal_from_ref body_ok terr max s.
Proof.
  unfold unmarshal_from, unmarshal_from_ref.
  destruct (read_size terr size_arr_len true [] s) as [buf r|e r]; [|reflexivity].
  destruct (dec_varint buf) as [[size rest]|e]; [|reflexivity].
  destruct (effective_max max <? size); [reflexivity|].
  destruct (max_int <? size) eqn:Ei.
  - (* int(size) / int64(size) is negative: no Peek, nothing read *)
    replace (size <=? max_int) with false by lia. rewrite andb_false_r, andb_false_l, orb_false_r.
    replace (size <=? max_prealloc_size) with false by (unfold max_prealloc_size, max_int in *; lia).
    reflexivity.
  - replace (size <=? max_int) with true by lia. rewrite andb_true_r, orb_true_r.
    destruct (size <=? N.of_nat (length r)) eqn:Es.
    + rewrite andb_true_r.
      destruct (is_bufio o && peek_ok o size).
      * now rewrite take_upto_spec.
      * rewrite read_full_spec by lia. rewrite Es. reflexivity.
    + rewrite andb_false_r. rewrite read_full_spec by lia. rewrite Es. reflexivity.
Qed.

(* ---------- io.EOF exactly on the empty stream ---------- *)
Lemma unmarshal_not_eof b : unmarshal body_ok b <> DEOF.
Proof. unfold unmarshal. destruct (body_ok b); discriminate. Qed.

Theorem eof_exact terr o max s :
  fst (unmarshal_from body_ok terr o max s) = DEOF <-> s = [] /\ terr = false.
Proof.
  split.
  - unfold unmarshal_from.
    pose proof (read_size_inv size_arr_len terr true [] s) as Hr.
    destruct (read_size terr size_arr_len true [] s) as [buf r|e r].
    + destruct (dec_varint buf) as [[size rest]|[]]; cbn [fst]; try discriminate.
      destruct (effective_max max <? size); [discriminate|].
      destruct (is_bufio o && peek_ok o size && (size <=? max_int) && (size <=? N.of_nat (length r))).
      * destruct (take_upto r size). cbn [fst]. intros H. now apply unmarshal_not_eof in H.
      * destruct ((size <=? max_prealloc_size) || (size <=? max_int));
          [|cbn [fst]; intros H; now apply unmarshal_not_eof in H].
        destruct (read_full (S (length r)) o 0 size [] r); cbn [fst].
        -- intros H. now apply unmarshal_not_eof in H.
        -- destruct terr; discriminate.
        -- discriminate.
    + cbn [fst]. intros ->. destruct Hr as (_ & [[H _]|(_ & Ht & _ & Hs)]); [discriminate | now split].
  - intros [-> ->]. reflexivity.
Qed.

(* ---------- SizeTooLargeError exactly when the size exceeds the effective maximum ---------- *)
Lemma unmarshal_not_big b sz m : unmarshal body_ok b <> DTooLarge sz m.
Proof. unfold unmarshal. destruct (body_ok b); discriminate. Qed.

Theorem too_large_iff terr o max s sz m :
  fst (unmarshal_from body_ok terr o max s) = DTooLarge sz m <->
  exists buf r rest, read_size terr size_arr_len true [] s = RSBuf buf r /\ dec_varint buf = Ok (sz, rest) /\
                     m = effective_max max /\ m < sz.
Proof.
  unfold unmarshal_from. split.
  - pose proof (read_size_inv size_arr_len terr true [] s) as Hr.
    destruct (read_size terr size_arr_len true [] s) as [buf r|e r].
    + destruct (dec_varint buf) as [[size rest]|[]] eqn:Ed; cbn [fst]; try discriminate.
      destruct (effective_max max <? size) eqn:Em.
      * cbn [fst]. intros H; inversion H; subst. exists buf, r, rest. repeat split; auto; lia.
      * destruct (is_bufio o && peek_ok o size && (size <=? max_int) && (size <=? N.of_nat (length r))).
        -- destruct (take_upto r size). cbn [fst]. intros H. now apply unmarshal_not_big in H.
        -- destruct ((size <=? max_prealloc_size) || (size <=? max_int));
             [|cbn [fst]; intros H; now apply unmarshal_not_big in H].
           destruct (read_full (S (length r)) o 0 size [] r); cbn [fst].
           ++ intros H. now apply unmarshal_not_big in H.
           ++ destruct terr; discriminate.
           ++ discriminate.
    + cbn [fst]. intros ->. destruct Hr as (_ & [[H _]|(H & _)]); discriminate.
  - intros (buf & r & rest & -> & -> & -> & Hlt).
    replace (effective_max max <? sz) with true by lia. reflexivity.
Qed.

Corollary too_large_frame terr o max sz rest :
  sz < 2^64 ->
  (fst (unmarshal_from body_ok terr o max (enc_varint sz ++ rest)) = DTooLarge sz (effective_max max)
   <-> effective_max max < sz).
Proof.
  intros H64. rewrite too_large_iff. rewrite read_size_varint by exact H64. split.
  - intros (buf & r & rest' & Hb & Hd & _ & Hlt). exact Hlt.
  - intros Hlt. exists (enc_varint sz), rest, []. rewrite dec_varint_enc by exact H64. auto.
Qed.

(* ---------- truncated streams ---------- *)
Definition cont (b : byte) : Prop := 128 <= b2n b.

Lemma enc_varint_fuel_prefix : forall k v j,
  (j < length (enc_varint_fuel k v))%nat -> Forall cont (firstn j (enc_varint_fuel k v)).
Proof.
  induction k as [|k IH]; intros v j Hj; cbn [enc_varint_fuel] in *; [cbn in Hj; lia|].
  destruct (v <? 128).
  - cbn in Hj. replace j with O by lia. constructor.
  - destruct j as [|j]; [constructor|]. cbn [firstn]. constructor.
    + unfold cont. rewrite b2n_n2b by (pose proof (N.mod_lt v 128); lia). lia.
    + apply IH. cbn [length] in Hj. lia.
Qed.

Lemma enc_varint_fuel_len : forall k v, (length (enc_varint_fuel k v) <= k)%nat.
Proof.
  induction k as [|k IH]; intros v; cbn [enc_varint_fuel]; [cbn; lia|].
  destruct (v <? 128); cbn [length]; [lia|]. specialize (IH (v / 128)). lia.
Qed.

Lemma read_size_cont : forall k first acc p,
  Forall cont p -> (length p < k)%nat -> (first = false \/ p <> []) ->
  read_size false k first acc p = RSBuf (acc ++ p) [].
Proof.
  induction k as [|k IH]; intros first acc p Hp Hl Hf; [lia|].
  cbn [read_size]. destruct p as [|b r].
  - destruct Hf as [->|Hf]; [now rewrite app_nil_r | congruence].
  - inversion Hp as [|? ? Hb Hr]; subst. unfold cont in Hb.
    replace (b2n b <? 128) with false by lia.
    rewrite IH; [now rewrite <- app_assoc | exact Hr | cbn in Hl; lia | now left].
Qed.

Lemma dec_varint_cont : forall k shift acc p,
  Forall cont p -> (length p < k)%nat -> dec_varint_aux k shift acc p = Err Truncated.
Proof.
  induction k as [|k IH]; intros shift acc p Hp Hl; [lia|].
  cbn [dec_varint_aux]. destruct p as [|b r]; [reflexivity|].
  inversion Hp as [|? ? Hb Hr]; subst. unfold cont in Hb. cbn [length] in Hl.
  destruct k as [|k']; [lia|].
  replace (b2n b <? 128) with false by lia.
  apply IH; [exact Hr | lia].
Qed.

(* cut strictly inside the size varint *)
Lemma unmarshal_from_cut_size o max v j :
  (0 < j < length (enc_varint v))%nat ->
  unmarshal_from body_ok false o max (firstn j (enc_varint v)) = (DUnexpectedEOF, []).
Proof.
  intros Hj. unfold unmarshal_from.
  pose proof (enc_varint_fuel_prefix 10 v j (proj2 Hj)) as Hc.
  pose proof (enc_varint_fuel_len 10 v) as Hl.
  fold (enc_varint v) in Hc, Hl.
  assert (Hlen : length (firstn j (enc_varint v)) = j) by (apply firstn_length_le; lia).
  rewrite read_size_cont; [| exact Hc | unfold size_arr_len; lia | right; intros E; rewrite E in Hlen; cbn in Hlen; lia].
  cbn [app]. unfold dec_varint. rewrite dec_varint_cont; [reflexivity | exact Hc | lia].
Qed.

(* cut after the size, strictly inside the body (including: nothing of a non-empty body) *)
Lemma unmarshal_from_cut_body o max body j :
  N.of_nat (length body) < 2^64 ->
  N.of_nat (length body) <= effective_max max ->
  N.of_nat (length body) <= max_int ->
  (j < length body)%nat ->
  unmarshal_from body_ok false o max (enc_varint (N.of_nat (length body)) ++ firstn j body) = (DUnexpectedEOF, []).
Proof.
  intros H64 Hmax Halloc Hj. unfold unmarshal_from.
  rewrite read_size_varint, dec_varint_enc by exact H64.
  set (size := N.of_nat (length body)).
  replace (effective_max max <? size) with false by lia.
  assert (Hlen : length (firstn j body) = j) by (apply firstn_length_le; lia).
  rewrite Hlen.
  replace (size <=? N.of_nat j) with false by lia. rewrite andb_false_r.
  replace (size <=? max_int) with true by lia. rewrite orb_true_r.
  rewrite read_full_spec by lia. rewrite Hlen.
  replace (size <=? N.of_nat j) with false by lia. reflexivity.
Qed.

Lemma marshal_to_length body : length (marshal_to body) = (length (enc_varint (N.of_nat (length body))) + length body)%nat.
Proof. unfold marshal_to. now rewrite app_length. Qed.

Lemma enc_varint_nonempty v : (0 < length (enc_varint v))%nat.
Proof. unfold enc_varint. cbn [enc_varint_fuel]. destruct (v <? 128); cbn; lia. Qed.

Definition frame_ok (max : Z) (body : list byte) : Prop :=
  N.of_nat (length body) < 2^64 /\ N.of_nat (length body) <= effective_max max /\
  N.of_nat (length body) <= max_int /\ body_ok body = true.

Lemma unmarshal_from_cut o max body j :
  frame_ok max body -> (0 < j < length (marshal_to body))%nat ->
  unmarshal_from body_ok false o max (firstn j (marshal_to body)) = (DUnexpectedEOF, []).
Proof.
  intros (H64 & Hmax & Halloc & _) Hj. rewrite marshal_to_length in Hj. unfold marshal_to.
  set (ev := enc_varint (N.of_nat (length body))) in *.
  rewrite firstn_app.
  destruct (Nat.lt_ge_cases j (length ev)) as [Hlt|Hge].
  - replace (j - length ev)%nat with O by lia. cbn [firstn]. rewrite app_nil_r.
    apply unmarshal_from_cut_size. fold ev. lia.
  - rewrite firstn_all2 by lia. apply unmarshal_from_cut_body; auto. lia.
Qed.

(* ---------- sequences of frames ---------- *)
Definition stream_of (bs : list (list byte)) : list byte := concat (map marshal_to bs).

Lemma read_all_frames orc max : forall bs fuel i tail,
  Forall (frame_ok max) bs -> (length bs <= fuel)%nat ->
  read_all body_ok false fuel orc i max (stream_of bs ++ tail) =
  map DOk bs ++ read_all body_ok false (fuel - length bs) orc (i + length bs) max tail.
Proof.
  induction bs as [|b bs IH]; intros fuel i tail Hok Hf.
  - cbn. now rewrite Nat.sub_0_r, Nat.add_0_r.
  - inversion Hok as [|? ? (H64 & Hmax & Halloc & Hbody) Hrest]; subst.
    destruct fuel as [|f]; [cbn in Hf; lia|].
    unfold stream_of. cbn [map concat]. rewrite <- app_assoc.
    cbn [read_all]. rewrite unmarshal_from_frame by assumption.
    unfold unmarshal. rewrite Hbody. cbn [map app length]. f_equal.
    fold (stream_of bs). rewrite IH by (auto; cbn in Hf; lia).
    do 2 f_equal. cbn. lia.
Qed.

Lemma stream_of_length_ge bs : (length bs <= length (stream_of bs))%nat.
Proof.
  induction bs as [|b bs IH]; [cbn; lia|].
  unfold stream_of in *. cbn [map concat length]. rewrite app_length, marshal_to_length.
  pose proof (enc_varint_nonempty (N.of_nat (length b))). lia.
Qed.

Theorem roundtrip orc max bs :
  Forall (frame_ok max) bs ->
  read_stream body_ok false orc max (stream_of bs) = map DOk bs ++ [DEOF].
Proof.
  intros Hok. unfold read_stream.
  rewrite <- (app_nil_r (stream_of bs)) at 2.
  pose proof (stream_of_length_ge bs).
  rewrite read_all_frames by (auto; lia).
  f_equal. destruct (S (length (stream_of bs)) - length bs)%nat eqn:E; [lia|]. reflexivity.
Qed.

Theorem truncation orc max bs body j :
  Forall (frame_ok max) bs -> frame_ok max body -> (0 < j < length (marshal_to body))%nat ->
  read_stream body_ok false orc max (stream_of bs ++ firstn j (marshal_to body)) = map DOk bs ++ [DUnexpectedEOF].
Proof.
  intros Hok Hb Hj. unfold read_stream.
  pose proof (stream_of_length_ge bs).
  rewrite read_all_frames by (auto; rewrite app_length; lia).
  f_equal. rewrite app_length.
  destruct (S (length (stream_of bs) + length (firstn j (marshal_to body))) - length bs)%nat eqn:E; [lia|].
  cbn [read_all]. rewrite unmarshal_from_cut by assumption. reflexivity.
Qed.

(* io.EOF is returned exactly at a message boundary: after any number of whole
   frames, the next result is io.EOF iff nothing follows *)
Theorem eof_at_boundary orc max bs tail :
  Forall (frame_ok max) bs ->
  (read_stream body_ok false orc max (stream_of bs ++ tail) = map DOk bs ++ [DEOF] <-> tail = []).
Proof.
  intros Hok. split.
  - unfold read_stream. pose proof (stream_of_length_ge bs).
    rewrite read_all_frames by (auto; rewrite app_length; lia).
    intros Heq. apply app_inv_head in Heq. rewrite app_length in Heq.
    destruct (S (length (stream_of bs) + length tail) - length bs)%nat eqn:E; [lia|].
    cbn [read_all] in Heq.
    pose proof (eof_exact false (orc (0 + length bs)%nat) max tail) as [Hx _].
    destruct (unmarshal_from body_ok false (orc (0 + length bs)%nat) max tail) as [[] r] eqn:Eu;
      try discriminate; cbn [fst] in Hx.
    now destruct (Hx eq_refl).
  - intros ->. rewrite app_nil_r. now apply roundtrip.
Qed.
(* ---------- the fuel of the model is never exhausted ---------- *)

Lemma read_size_consumes terr k acc s buf r :
  read_size terr (S k) true acc s = RSBuf buf r -> (length r < length s)%nat.
Proof.
  cbn [read_size]. destruct s as [|b r0].
  - destruct terr; discriminate.
  - destruct (b2n b <? 128).
    + intros H; inversion H; subst. cbn; lia.
    + intros H. pose proof (read_size_inv k terr false (acc ++ [b]) r0) as Hi. rewrite H in Hi. cbn; lia.
Qed.

Lemma unmarshal_not_fuel b : unmarshal body_ok b <> DOutOfFuel.
Proof. unfold unmarshal. destruct (body_ok b); discriminate. Qed.

Lemma unmarshal_from_progress terr o max s :
  fst (unmarshal_from body_ok terr o max s) <> DOutOfFuel /\
  (forall b, fst (unmarshal_from body_ok terr o max s) = DOk b ->
             (length (snd (unmarshal_from body_ok terr o max s)) < length s)%nat).
Proof.
  unfold unmarshal_from, size_arr_len.
  pose proof (read_size_inv 10 terr true [] s) as Hinv.
  destruct (read_size terr 10 true [] s) as [buf r|e r] eqn:Er.
  - apply read_size_consumes in Er.
    destruct (dec_varint buf) as [[size rest]|[]]; cbn [fst snd]; try (split; [discriminate | intros; discriminate]).
    destruct (effective_max max <? size); [split; [discriminate | intros; discriminate]|].
    destruct (is_bufio o && peek_ok o size && (size <=? max_int) && (size <=? N.of_nat (length r))).
    + rewrite take_upto_spec. cbn [fst snd]. split; [apply unmarshal_not_fuel|].
      intros _ _. rewrite skipn_length. lia.
    + destruct ((size <=? max_prealloc_size) || (size <=? max_int));
        [|cbn [fst snd]; split; [apply unmarshal_not_fuel | intros; lia]].
      rewrite read_full_spec by lia.
      destruct (size <=? N.of_nat (length r)); cbn [fst snd].
      * split; [apply unmarshal_not_fuel|]. intros _ _. rewrite skipn_length. lia.
      * split; [destruct terr; discriminate | destruct terr; intros; discriminate].
  - cbn [fst snd]. destruct Hinv as (_ & [[-> _]|(-> & _)]); split; try discriminate; intros; discriminate.
Qed.

Lemma read_all_no_fuel terr orc max : forall fuel i s,
  (length s < fuel)%nat -> ~ In DOutOfFuel (read_all body_ok terr fuel orc i max s).
Proof.
  induction fuel as [|f IH]; intros i s Hf; [lia|].
  cbn [read_all].
  destruct (unmarshal_from_progress terr (orc i) max s) as [Hnf Hprog].
  destruct (unmarshal_from body_ok terr (orc i) max s) as [res r]. cbn [fst snd] in *.
  destruct res; try (intros [H|[]]; congruence).
  intros [H|H]; [discriminate|].
  specialize (Hprog body eq_refl). apply (IH (S i) r); [lia | exact H].
Qed.

Theorem read_stream_no_fuel terr orc max s :
  ~ In DOutOfFuel (read_stream body_ok terr orc max s).
Proof. unfold read_stream. apply read_all_no_fuel. lia. Qed.
End DelimProofs.


(* ---------- the constants of the model are those of the source (Tier T: Gen/DelimConsts.v) ---------- *)
Lemma delim_consts_ok :
  default_max_size = DelimConsts.defaultMaxSize /\
  N.of_nat size_arr_len = DelimConsts.sizeArrLen /\
  max_int = DelimConsts.unlimitedBound /\
  effective_max DelimConsts.unlimitedMaxSize = DelimConsts.unlimitedBound /\
  effective_max 0 = DelimConsts.defaultMaxSize /\
  max_prealloc_size = DelimConsts.maxPreallocSize.
Proof. repeat split; reflexivity. Qed.

(* ---------- regression for F15 (repaired): MaxSize = -1 and a size the stream cannot back ---------- *)
Definition f15_stream : list byte := [xff; xff; xff; xff; xff; xff; xff; xff; x7f].
Definition plain_oracle : oracle := {| is_bufio := false; peek_ok := fun _ => false; chunk := fun _ => 1 |}.
Lemma f15_unexpected_eof :
  unmarshal_from (fun _ => true) false plain_oracle (-1) f15_stream = (DUnexpectedEOF, []).
Proof. vm_compute. reflexivity. Qed.
