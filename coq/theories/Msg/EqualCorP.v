(* EqualCorP — proofs for C30, part 4: corollaries.
   - unknown fields: fields of different numbers may be interleaved freely;
   - the order of the bindings of a message is irrelevant (a copy made through reflection, a
     clone, a merge into an empty message list the same bindings in their own order);
   - a valid canonical value (C03's predicate) is well-formed in the sense of the equality model;
   - Equal holds between a message and its decoded encoding (corollary of C03). *)
From Coq Require Import List Arith NArith ZArith Lia Bool Permutation.
From Coq Require Import ZifyBool ZifyNat ZifyN.
From PB Require Import Base.PBytes Wire.WireModel Wire.WireGrammar Wire.VarintP Wire.ScanP.
From PB Require Import Msg.MsgSchema Msg.MsgValue Msg.MsgEnc Msg.MsgDec Msg.MsgValid Msg.MsgWireP Msg.MsgSizeP
     Msg.MsgAssocP Msg.MsgRoundP.
From PB Require Import Msg.DetModel Msg.DetP Msg.EqualModel Msg.EqualP Msg.EqualMsgP.
Import ListNotations.
Open Scope N_scope.

(* ------------------------------------------------------------------ unknown fields as chunk lists *)
(* a chunk: one complete well-formed field and its number *)
Definition eqm_is_chunk (c : N * list byte) : Prop :=
  exists typ, consume_field (snd c) = Ok (fst c, typ, N.of_nat (length (snd c))).

Definition eqm_flat (cs : list (N * list byte)) : list byte := concat (map snd cs).

Lemma eqm_chunk_nonempty c : eqm_is_chunk c -> snd c <> [].
Proof.
  intros [typ H] E. rewrite E in H. unfold consume_field in H. cbn in H. discriminate.
Qed.

Lemma eqm_chunk_extend c rest :
  eqm_is_chunk c -> exists typ, consume_field (snd c ++ rest) = Ok (fst c, typ, N.of_nat (length (snd c))).
Proof.
  intros [typ H]. exists typ. apply consume_field_iff in H. apply consume_field_iff.
  destruct H as (tag & val & r0 & E & Ht & Hv & Hn).
  assert (r0 = []) as ->.
  { apply (f_equal (@length byte)) in E. rewrite !app_length in E. apply Nat2N.inj in Hn.
    destruct r0; [reflexivity|]. cbn [length] in E. lia. }
  exists tag, val, rest. rewrite app_nil_r in E. split; [rewrite E; now rewrite <- app_assoc|].
  split; [exact Ht|]. split; [exact Hv|]. rewrite E, app_length. reflexivity.
Qed.

Lemma eqm_split_chunks : forall cs g,
  Forall eqm_is_chunk cs -> (length (eqm_flat cs) < length g)%nat -> eqm_split g (eqm_flat cs) = cs.
Proof.
  induction cs as [|c r IH]; intros g Hc Hg.
  - destruct g; reflexivity.
  - inversion Hc as [|? ? H1 H2]; subst. destruct g as [|g0 g']; [cbn [length] in Hg; lia|].
    unfold eqm_flat in *. cbn [map concat] in *.
    pose proof (eqm_chunk_nonempty _ H1) as Hne. destruct (eqm_chunk_extend c (concat (map snd r)) H1) as [typ E].
    destruct c as [num f]. cbn [fst snd] in *. destruct f as [|b0 f']; [congruence|].
    cbn [eqm_split app]. change (b0 :: f' ++ concat (map snd r)) with ((b0 :: f') ++ concat (map snd r)).
    rewrite E. rewrite Nat2N.id.
    rewrite firstn_app, Nat.sub_diag, firstn_all, firstn_O, app_nil_r.
    rewrite skipn_app, Nat.sub_diag, skipn_all. cbn [skipn app].
    f_equal. apply IH; [exact H2|]. rewrite app_length in Hg. cbn [length] in Hg. lia.
Qed.

Lemma eqm_flat_length_swap (c1 c2 : N * list byte) pre post :
  length (eqm_flat (pre ++ c1 :: c2 :: post)) = length (eqm_flat (pre ++ c2 :: c1 :: post)).
Proof.
  unfold eqm_flat. rewrite !map_app, !concat_app. cbn [map concat]. rewrite !app_length. lia.
Qed.

(* permuting unknown fields ACROSS different numbers preserves equality *)
Theorem eqm_unknown_interleaving (c1 c2 : N * list byte) pre post :
  Forall eqm_is_chunk (pre ++ c1 :: c2 :: post) -> fst c1 <> fst c2 ->
  eqm_unknown (eqm_flat (pre ++ c1 :: c2 :: post)) (eqm_flat (pre ++ c2 :: c1 :: post)) = true.
Proof.
  intros Hc Hne. apply eqm_unknown_spec. split; [apply eqm_flat_length_swap|]. right.
  assert (Forall eqm_is_chunk (pre ++ c2 :: c1 :: post)) as Hc'.
  { rewrite Forall_forall in *. intros c Hin. apply Hc. apply in_app_or in Hin. apply in_or_app.
    destruct Hin as [H|[<-|[<-|H]]]; [now left|right; right; now left|right; now left|right; right; now right]. }
  rewrite !eqm_split_chunks by (try assumption; cbn [length]; lia).
  now apply eqm_groups_interleave.
Qed.

(* ------------------------------------------------------------------ binding order is irrelevant *)
Lemma eqm_fget_perm (fs fs' : fields) n :
  NoDup (map fst fs) -> Permutation fs fs' -> msg_fget fs n = msg_fget fs' n.
Proof.
  intros Hn P.
  assert (NoDup (map fst fs')) as Hn' by (eapply Permutation_NoDup; [apply Permutation_map; exact P|exact Hn]).
  destruct (in_dec N.eq_dec n (map fst fs)) as [Hin|Hni].
  - apply in_map_iff in Hin. destruct Hin as [[n' v] [E Hin]]. cbn [fst] in E. subst n'.
    rewrite (eqm_fget_nodup _ _ _ Hn Hin). symmetry. apply eqm_fget_nodup; [exact Hn'|].
    eapply Permutation_in; eassumption.
  - rewrite (eqm_fget_notin _ _ Hni). symmetry. apply eqm_fget_notin. intros Hin. apply Hni.
    eapply Permutation_in; [apply Permutation_sym, Permutation_map; exact P|exact Hin].
Qed.

Lemma eqm_forallb_perm {A} (f : A -> bool) l l' : Permutation l l' -> forallb f l = forallb f l'.
Proof.
  induction 1 as [|x l l' P IH|x y l|l l' l'' P1 IH1 P2 IH2]; cbn [forallb]; try congruence.
  destruct (f x), (f y); reflexivity.
Qed.

Lemma eqm_populated_perm fs fs' : Permutation fs fs' -> eqm_populated fs = eqm_populated fs'.
Proof.
  intros P. unfold eqm_populated. apply Permutation_length.
  induction P as [|x l l' P IH|x y l|l l' l'' P1 IH1 P2 IH2]; cbn [filter].
  - constructor.
  - destruct (negb (eqm_nil (snd x))); [now constructor|exact IH].
  - destruct (negb (eqm_nil (snd x))), (negb (eqm_nil (snd y))); try reflexivity. apply perm_swap.
  - etransitivity; eassumption.
Qed.

Theorem eqm_value_binding_order S k fa fa' ua fb fb' ub :
  Permutation fa fa' -> Permutation fb fb' -> NoDup (map fst fb) ->
  eqm_value S k (VMsg fa ua) (VMsg fb ub) = eqm_value S k (VMsg fa' ua) (VMsg fb' ub).
Proof.
  intros Pa Pb Nb. rewrite !eqm_value_msg.
  rewrite (eqm_populated_perm _ _ Pa), (eqm_populated_perm _ _ Pb). f_equal. f_equal.
  rewrite (eqm_forallb_perm _ _ _ Pa). apply eqm_forallb_ext_in. intros p _.
  unfold eqm_bind. now rewrite (eqm_fget_perm _ _ (fst p) Nb Pb).
Qed.

(* ------------------------------------------------------------------ valid canonical values are well-formed *)
Lemma eqm_entries_sorted_nodup es : msg_entries_sorted es = true -> eqm_nodup_keys es = true.
Proof.
  induction es as [|e r IH]; cbn [msg_entries_sorted eqm_nodup_keys]; [reflexivity|].
  destruct e as [s|fs u|key x]; try discriminate.
  rewrite andb_true_iff. intros [Ha Hs]. rewrite (IH Hs), andb_true_r. apply negb_true_iff.
  destruct (existsb _ r) eqn:E; [|reflexivity]. exfalso.
  apply existsb_exists in E. destruct E as [e [He Hk]]. destruct e as [s|fs u|k' x']; try discriminate.
  apply eqm_key_eq in Hk. subst k'. unfold msg_keys_after in Ha. rewrite forallb_forall in Ha.
  specialize (Ha _ He). cbn in Ha. rewrite det_scmp_refl in Ha. discriminate.
Qed.

Section TypedWf.
  Variable slow : bool.
  Variable S : schema.

  Definition eqm_Q (x : value) : Prop :=
    forall dep tid k, eqm_md S k = nth tid S [] -> msg_typed slow S dep tid x = true -> eqm_wf S k x = true.
  Definition eqm_P_typed (x : value) : Prop :=
    eqm_Q x /\ (forall key inner, x = VEntry key inner -> eqm_Q inner).

  Lemma eqm_typed_elem_wf d fd v :
    eqm_P_typed v -> msg_typed_elem slow (msg_typed slow S d) fd v = true -> eqm_wf S (f_kind fd) v = true.
  Proof.
    intros [Q _]. unfold msg_typed_elem. destruct (f_kind fd) as [sk|t|t], v as [s|fs u|k0 x0]; try discriminate.
    - reflexivity.
    - intros H. eapply Q; [reflexivity|exact H].
    - rewrite !andb_true_iff. intros [[_ H] _]. eapply Q; [reflexivity|exact H].
  Qed.

  Lemma eqm_typed_wf_all : forall x, eqm_P_typed x.
  Proof.
    induction x as [s|fs unk IH|k0 x0 IH] using msg_value_ind.
    - split; [intros dep tid k _ H; discriminate H|intros key inner E; discriminate E].
    - split; [|intros key inner E; discriminate E].
      intros dep tid k Emd H. apply msg_typed_unfold in H.
      destruct H as (d & md & -> & Hnth & Hsort & Hall & _ & _).
      rewrite eqm_wf_msg, Emd, (msg_nth_error_nth _ _ _ Hnth). apply andb_true_iff. split.
      + apply eqm_nodup_n_spec. apply msg_keys_sorted_spec in Hsort. exact (msg_sorted_nodup _ _ Hsort).
      + rewrite forallb_forall in *. intros p Hp. specialize (Hall p Hp).
        rewrite Forall_forall in IH. specialize (IH p Hp). rewrite Forall_forall in IH.
        unfold msg_typed_chunk in Hall. unfold eqm_wf_bind.
        destruct (msg_find_field md (fst p)) as [fd|]; [|discriminate].
        unfold msg_typed_field in Hall. apply andb_true_iff in Hall. destruct Hall as [_ Hall].
        destruct (f_card fd) eqn:Ec.
        * destruct (snd p) as [|v [|? ?]] eqn:Ev; try discriminate. cbn [forallb]. rewrite andb_true_r.
          eapply eqm_typed_elem_wf; [apply IH; try rewrite Ev; now left|exact Hall].
        * destruct (snd p) as [|v [|? ?]] eqn:Ev; try discriminate. cbn [forallb]. rewrite andb_true_r.
          apply andb_true_iff in Hall. destruct Hall as [Hall _].
          eapply eqm_typed_elem_wf; [apply IH; try rewrite Ev; now left|exact Hall].
        * destruct (snd p) as [|v [|? ?]] eqn:Ev; try discriminate. cbn [forallb]. rewrite andb_true_r.
          eapply eqm_typed_elem_wf; [apply IH; try rewrite Ev; now left|exact Hall].
        * destruct (snd p) as [|v r] eqn:Ev; [discriminate|]. rewrite forallb_forall in *. intros x Hx.
          eapply eqm_typed_elem_wf; [apply IH; exact Hx|now apply Hall].
        * destruct (snd p) as [|v r] eqn:Ev; [discriminate|]. rewrite forallb_forall in *. intros x Hx.
          eapply eqm_typed_elem_wf; [apply IH; exact Hx|now apply Hall].
        * rewrite !andb_true_iff in Hall. destruct Hall as [[_ Hent] Hs].
          rewrite (eqm_entries_sorted_nodup _ Hs). cbn [andb].
          destruct (snd p) as [|v r] eqn:Ev; [reflexivity|]. rewrite forallb_forall in *. intros e He.
          specialize (Hent _ He). unfold msg_typed_entry in Hent.
          destruct e as [s|fs' u'|key inner]; try discriminate.
          destruct (IH _ He) as [_ Qi]. specialize (Qi key inner eq_refl).
          rewrite !andb_true_iff in Hent. destruct Hent as [_ Hent].
          destruct (f_kind fd) as [sk|t|t], inner as [s|fs' u'|k1 x1]; try discriminate; [reflexivity|].
          destruct d as [|d1]; [discriminate|]. eapply Qi; [reflexivity|exact Hent].
    - destruct IH as [Q _]. split; [intros dep tid k _ H; discriminate H|].
      intros key inner E. inversion E; subst. exact Q.
  Qed.

  Theorem eqm_typed_wf dep tid v : msg_typed slow S dep tid v = true -> eqm_wf S (KMsg tid) v = true.
  Proof. intros H. destruct (eqm_typed_wf_all v) as [Q _]. eapply Q; [reflexivity|exact H]. Qed.
End TypedWf.

(* ------------------------------------------------------------------ corollaries of C03 *)
Theorem eqm_equal_decode_encode :
  forall (slow : bool) (S : schema) (limit : nat) (tid : nat) (v : value),
    msg_valid slow S limit tid v = true ->
    exists v', msg_decode slow S limit tid (msg_encode S tid v) = DOk v' /\ eqm_equal S tid v v' = true.
Proof.
  intros slow S limit tid v Hv. exists v. split; [now apply msg_roundtrip|].
  unfold msg_valid in Hv. apply andb_true_iff in Hv. destruct Hv as [_ Ht].
  apply eqm_value_refl. eapply eqm_typed_wf; exact Ht.
Qed.

(* ------------------------------------------------------------------ C05, converse direction *)
From PB Require Import Msg.DetHistP.

(* equal deterministic bytes of two valid messages: same abstract content, hence proto.Equal *)
Theorem eqm_det_equal_converse :
  forall (slow : bool) (S : schema) (limit : nat) (tid : nat) (m1 m2 : value)
         (pf1 pf2 : fields -> fields) (pi1 pi2 : list value -> list value),
    det_perm_oracle pf1 -> det_perm_oracle pf2 -> det_perm_oracle pi1 -> det_perm_oracle pi2 ->
    det_wf m1 = true -> det_wf m2 = true ->
    msg_valid slow S limit tid (det_canon m1) = true -> msg_valid slow S limit tid (det_canon m2) = true ->
    det_encode pf1 pi1 S tid m1 = det_encode pf2 pi2 S tid m2 ->
    eqm_equal S tid (det_canon m1) (det_canon m2) = true.
Proof.
  intros slow S limit tid m1 m2 pf1 pf2 pi1 pi2 F1 F2 P1 P2 W1 W2 V1 V2 E.
  rewrite (det_equal_bytes_same_content slow S limit tid m1 m2 pf1 pf2 pi1 pi2 F1 F2 P1 P2 W1 W2 V1 V2 E).
  unfold msg_valid in V2. apply andb_true_iff in V2. destruct V2 as [_ Ht].
  apply eqm_value_refl. eapply eqm_typed_wf; exact Ht.
Qed.
