(* Proofs about Msg/OneofModel.v (C12). *)
From Coq Require Import List Arith NArith ZArith Lia Bool.
From Coq Require Import ZifyBool ZifyNat ZifyN.
From PB Require Import Base.PBytes Msg.OneofModel.
Import ListNotations.
Open Scope N_scope.

Lemma merge_msg_empty_l s : merge_msg empty_msg s = s.
Proof. destruct s as [[a|] [b|]]; reflexivity. Qed.
Lemma merge_msg_empty_r d : merge_msg d empty_msg = d.
Proof. destruct d as [a b]; reflexivity. Qed.
Lemma merge_msg_assoc a b c : merge_msg (merge_msg a b) c = merge_msg a (merge_msg b c).
Proof.
  destruct a as [a1 a2], b as [b1 b2], c as [[c1|] [c2|]]; unfold merge_msg; cbn; reflexivity.
Qed.

(* ------------------------------------------------------------------ *)
(** * (a) wrapper representation *)

Lemma wmerge_abs w m v : wabs (wmerge_into w m v) = merge_into (wabs w) m v.
Proof.
  destruct v as [n|b|sm]; cbn; try reflexivity.
  destruct w as [|m'|m' [n|b|dm]]; cbn; try reflexivity.
  destruct (m' =? m); reflexivity.
Qed.

Lemma wstep_refines w o : wabs (wstep w o) = astep (wabs w) o.
Proof.
  destruct o as [m v|m|m| |m|m|[[m v]|]|m v]; cbn [wstep astep]; try reflexivity.
  - destruct w as [|m'|m' v']; cbn; try reflexivity; destruct (m' =? m); reflexivity.
  - destruct w as [|m'|m' v']; cbn; try reflexivity; destruct (m' =? m); reflexivity.
  - apply wmerge_abs.
  - apply wmerge_abs.
Qed.

Lemma wrun_refines ops : forall w, wabs (wrun w ops) = arun (wabs w) ops.
Proof.
  unfold wrun, arun. induction ops as [|o r IH]; intros w; [reflexivity|].
  cbn [fold_left]. now rewrite IH, wstep_refines.
Qed.

Lemma whas_abs w m : whas w m = ahas (wabs w) m.
Proof. destruct w; reflexivity. Qed.
Lemma wwhich_abs w : wwhich w = awhich (wabs w).
Proof. destruct w; reflexivity. Qed.
(* on well-formed wrappers the generated accessors agree with reflection *)
Lemma gcase_which w : wrap_wf w = true -> gcase w = match wwhich w with Some m => m | None => 0 end.
Proof. destruct w; cbn; congruence. Qed.
Lemma ghas_whas w m : wrap_wf w = true -> ghas w m = whas w m.
Proof. destruct w; cbn; congruence. Qed.
(* every operation except the direct assignment of a typed nil pointer yields a well-formed wrapper
   or leaves the wrapper as it was *)
Lemma wstep_wf w o : wrap_wf w = true -> (forall m, o <> OSetTypedNil m) -> wrap_wf (wstep w o) = true.
Proof.
  intros Hw Ho. destruct o as [m v|m|m| |m|m|[[m v]|]|m v]; cbn [wstep]; try reflexivity; try assumption.
  - destruct w as [|m'|m' v']; cbn in *; try reflexivity; try discriminate. now destruct (m' =? m).
  - destruct w as [|m'|m' v']; cbn in *; try reflexivity; try discriminate. now destruct (m' =? m).
  - now destruct (Ho m).
  - destruct v as [n|b|sm]; cbn; try reflexivity. destruct w as [|m'|m' [n|b|dm]]; cbn; try reflexivity. now destruct (m' =? m).
  - destruct v as [n|b|sm]; cbn; try reflexivity. destruct w as [|m'|m' [n|b|dm]]; cbn; try reflexivity. now destruct (m' =? m).
Qed.
(* the ill-formed state: generated accessors and reflection disagree *)
Lemma typed_nil_disagreement m : m <> 0 ->
  gcase (WTypedNil m) = m /\ wwhich (WTypedNil m) = None /\ ghas (WTypedNil m) m = true /\ whas (WTypedNil m) m = false.
Proof. intros _. cbn. now rewrite N.eqb_refl. Qed.

Lemma whas_iff_which w m : whas w m = true <-> wwhich w = Some m.
Proof.
  destruct w as [|m'|m' v]; cbn; try (split; discriminate).
  split; [intros H; f_equal; lia|intros H; inversion H; lia].
Qed.

Lemma filter_unique_le1 {A} (f : A -> bool) (l : list A) :
  NoDup l -> (forall a b, In a l -> In b l -> f a = true -> f b = true -> a = b) ->
  (length (filter f l) <= 1)%nat.
Proof.
  induction l as [|x r IH]; intros Hnd Hu; [cbn; lia|].
  inversion Hnd as [|? ? Hx Hr]; subst. cbn [filter].
  destruct (f x) eqn:Ex.
  - assert (filter f r = []) as ->.
    { destruct (filter f r) as [|y t] eqn:E; [reflexivity|].
      assert (Hy : In y (filter f r)) by (rewrite E; now left).
      apply filter_In in Hy. destruct Hy as [Hyr Hfy].
      assert (x = y) by (apply Hu; cbn; auto). subst. contradiction. }
    cbn. lia.
  - apply IH; [assumption|]. intros a b Ha Hb. apply Hu; now right.
Qed.

Lemma wpopulated_le1 members w : NoDup members -> (wpopulated members w <= 1)%nat.
Proof.
  intros Hnd. unfold wpopulated. apply filter_unique_le1; [assumption|].
  intros a b _ _ Ha Hb. apply whas_iff_which in Ha, Hb. congruence.
Qed.

Theorem wrapper_invariant members ops w0 :
  NoDup members ->
  let w := wrun w0 ops in
  (wpopulated members w <= 1)%nat /\
  (forall m, whas w m = true <-> wwhich w = Some m) /\
  wabs w = arun (wabs w0) ops /\
  (forall m, whas w m = ahas (arun (wabs w0) ops) m) /\
  wwhich w = awhich (arun (wabs w0) ops).
Proof.
  intros Hnd w. repeat split.
  - now apply wpopulated_le1.
  - apply whas_iff_which.
  - apply whas_iff_which.
  - apply wrun_refines.
  - intros m. rewrite whas_abs. unfold w. now rewrite wrun_refines.
  - rewrite wwhich_abs. unfold w. now rewrite wrun_refines.
Qed.

(* ------------------------------------------------------------------ *)
(** * (b) dynamicpb *)

Lemma mem_In x l : mem x l = true <-> In x l.
Proof.
  unfold mem. rewrite existsb_exists. split.
  - intros [y [Hy E]]. apply N.eqb_eq in E. now subst.
  - intros H. exists x. split; [assumption|apply N.eqb_refl].
Qed.

Lemma clear_others_spec members m : forall k x,
  clear_others members m k x = if mem x members && negb (x =? m) then None else k x.
Proof.
  unfold clear_others. induction members as [|n r IH]; intros k x; [reflexivity|].
  cbn [fold_left]. rewrite IH. cbn [mem existsb]. fold (mem x r).
  destruct (N.eqb_spec n m) as [->|Hnm].
  - destruct (N.eqb_spec x m) as [->|Hxm]; cbn.
    + now rewrite andb_false_r.
    + destruct (mem x r); reflexivity.
  - unfold kdel. destruct (N.eqb_spec x n) as [->|Hxn]; cbn.
    + replace (n =? m) with false by lia. cbn. now destruct (mem n r).
    + reflexivity.
Qed.

Lemma fold_kdel_spec members : forall k x,
  fold_left kdel members k x = if mem x members then None else k x.
Proof.
  induction members as [|n r IH]; intros k x; [reflexivity|].
  cbn [fold_left]. rewrite IH. cbn [mem existsb]. fold (mem x r). unfold kdel.
  destruct (N.eqb_spec x n); cbn; [now destruct (mem x r)|reflexivity].
Qed.

Definition dinv (members : list N) (k : known) : Prop :=
  forall m1 m2, In m1 members -> In m2 members -> dhas k m1 = true -> dhas k m2 = true -> m1 = m2.

Lemma find_unique {A} (f : A -> bool) l m :
  In m l -> f m = true -> (forall n, In n l -> f n = true -> n = m) -> find f l = Some m.
Proof.
  induction l as [|x r IH]; intros Hin Hf Hu; [contradiction|].
  cbn [find]. destruct (f x) eqn:Ex.
  - f_equal. apply Hu; [now left|assumption].
  - destruct Hin as [->|Hin]; [congruence|]. apply IH; auto. intros n Hn. apply Hu. now right.
Qed.

Lemma find_none {A} (f : A -> bool) l : (forall n, In n l -> f n = false) -> find f l = None.
Proof.
  induction l as [|x r IH]; intros H; [reflexivity|].
  cbn [find]. rewrite (H x) by now left. apply IH. intros n Hn. apply H. now right.
Qed.

(* a state in which exactly member m (with value v) is populated *)
Definition only (members : list N) (k : known) (m : N) (v : oval) : Prop :=
  k m = Some v /\ forall n, In n members -> n <> m -> k n = None.

Lemma only_abs members k m v : In m members -> only members k m v ->
  dinv members k /\ dabs members k = Some (m, v) /\ dwhich members k = Some m.
Proof.
  intros Hin [Hm Ho].
  assert (Hu : forall n, In n members -> dhas k n = true -> n = m).
  { intros n Hn Hh. destruct (N.eq_dec n m) as [|Hne]; [assumption|].
    unfold dhas in Hh. now rewrite (Ho n Hn Hne) in Hh. }
  assert (Hw : dwhich members k = Some m).
  { unfold dwhich. apply find_unique; [assumption| |assumption]. unfold dhas. now rewrite Hm. }
  repeat split.
  - intros m1 m2 H1 H2 Hh1 Hh2. rewrite (Hu m1), (Hu m2); auto.
  - unfold dabs. now rewrite Hw, Hm.
  - exact Hw.
Qed.

Lemma none_abs members k : (forall n, In n members -> k n = None) ->
  dinv members k /\ dabs members k = None /\ dwhich members k = None.
Proof.
  intros H.
  assert (Hw : dwhich members k = None).
  { unfold dwhich. apply find_none. intros n Hn. unfold dhas. now rewrite H. }
  repeat split.
  - intros m1 m2 H1 _ Hh1 _. unfold dhas in Hh1. now rewrite H in Hh1.
  - unfold dabs. now rewrite Hw.
  - exact Hw.
Qed.

(* under the invariant the state is either "only m" or "none" *)
Lemma dinv_cases members k : dinv members k ->
  (exists m v, In m members /\ only members k m v) \/ (forall n, In n members -> k n = None).
Proof.
  intros Hinv. destruct (dwhich members k) as [m|] eqn:Hw.
  - left. unfold dwhich in Hw. apply find_some in Hw. destruct Hw as [Hin Hh].
    unfold dhas in Hh. destruct (k m) as [v|] eqn:Hm; [|discriminate].
    exists m, v. split; [assumption|]. split; [assumption|].
    intros n Hn Hne. destruct (k n) eqn:Hkn; [|reflexivity].
    exfalso. apply Hne. apply Hinv; try assumption; unfold dhas; now rewrite ?Hkn, ?Hm.
  - right. intros n Hn. unfold dwhich in Hw.
    destruct (k n) eqn:Hkn; [|reflexivity].
    exfalso. assert (Hc : dhas k n = true) by (unfold dhas; now rewrite Hkn).
    clear -Hw Hn Hc. induction members as [|x r IH]; [contradiction|].
    cbn [find] in Hw. destruct (dhas k x) eqn:Ex; [discriminate|].
    destruct Hn as [->|Hn]; [congruence|auto].
Qed.

Lemma set_only members k m v :
  only members (kput (clear_others members m k) m v) m v.
Proof.
  split.
  - unfold kput. now rewrite N.eqb_refl.
  - intros n Hn Hne. unfold kput. replace (n =? m) with false by lia.
    rewrite clear_others_spec. apply mem_In in Hn. rewrite Hn.
    replace (n =? m) with false by lia. reflexivity.
Qed.

Lemma dmerge_refines members k m v :
  dinv members k -> In m members ->
  dinv members (dmerge_into members k m v) /\
  dabs members (dmerge_into members k m v) = merge_into (dabs members k) m v.
Proof.
  intros Hinv Hin.
  assert (Hset : forall v', dinv members (kput (clear_others members m k) m v') /\
                            dabs members (kput (clear_others members m k) m v') = Some (m, v')).
  { intros v'. destruct (only_abs members _ m v' Hin (set_only members k m v')) as [A [B _]]. now split. }
  destruct v as [n|b|sm]; cbn [dmerge_into merge_into]; try apply Hset.
  destruct (dinv_cases members k Hinv) as [[m' [v' [Hin' Ho]]]|Hnone].
  - destruct (only_abs members k m' v' Hin' Ho) as [_ [Habs _]]. rewrite Habs.
    destruct Ho as [Hm' Hothers].
    destruct (N.eqb_spec m' m) as [->|Hne].
    + rewrite Hm'. destruct v' as [n|b|dm].
      * assert (Ho2 : only members (kput k m (OVMsg (merge_msg empty_msg sm))) m (OVMsg (merge_msg empty_msg sm))).
        { split; [unfold kput; now rewrite N.eqb_refl|].
          intros x Hx Hxm. unfold kput. replace (x =? m) with false by lia. now apply Hothers. }
        destruct (only_abs members _ m _ Hin Ho2) as [A [B _]]. now split.
      * assert (Ho2 : only members (kput k m (OVMsg (merge_msg empty_msg sm))) m (OVMsg (merge_msg empty_msg sm))).
        { split; [unfold kput; now rewrite N.eqb_refl|].
          intros x Hx Hxm. unfold kput. replace (x =? m) with false by lia. now apply Hothers. }
        destruct (only_abs members _ m _ Hin Ho2) as [A [B _]]. now split.
      * assert (Ho2 : only members (kput k m (OVMsg (merge_msg dm sm))) m (OVMsg (merge_msg dm sm))).
        { split; [unfold kput; now rewrite N.eqb_refl|].
          intros x Hx Hxm. unfold kput. replace (x =? m) with false by lia. now apply Hothers. }
        destruct (only_abs members _ m _ Hin Ho2) as [A [B _]]. now split.
    + rewrite (Hothers m Hin) by congruence.
      destruct v' as [n|b|dm]; apply Hset.
  - destruct (none_abs members k Hnone) as [_ [Habs _]]. rewrite Habs, (Hnone m Hin). apply Hset.
Qed.

Lemma dstep_refines members k o :
  dinv members k -> op_ok members o = true ->
  dinv members (dstep members k o) /\ dabs members (dstep members k o) = astep (dabs members k) o.
Proof.
  intros Hinv Hok.
  assert (Hset : forall m v', In m members ->
            dinv members (kput (clear_others members m k) m v') /\
            dabs members (kput (clear_others members m k) m v') = Some (m, v')).
  { intros m v' Hin. destruct (only_abs members _ m v' Hin (set_only members k m v')) as [A [B _]]. now split. }
  assert (Hclr : dinv members (fold_left kdel members k) /\ dabs members (fold_left kdel members k) = None).
  { destruct (none_abs members (fold_left kdel members k)) as [A [B _]]; [|now split].
    intros n Hn. rewrite fold_kdel_spec. apply mem_In in Hn. now rewrite Hn. }
  destruct o as [m v|m|m| |m|m|[[m v]|]|m v]; cbn [dstep astep]; unfold op_ok in Hok; cbn [op_member] in Hok;
    try (apply mem_In in Hok).
  - (* OSet *) now apply Hset.
  - (* OClear *)
    destruct (dinv_cases members k Hinv) as [[m' [v' [Hin' Ho]]]|Hnone].
    + destruct (only_abs members k m' v' Hin' Ho) as [_ [Habs _]]. rewrite Habs.
      destruct Ho as [Hm' Hothers].
      destruct (N.eqb_spec m' m) as [->|Hne].
      * destruct (none_abs members (kdel k m)) as [A [B _]]; [|now split].
        intros n Hn. unfold kdel. destruct (N.eqb_spec n m); [reflexivity|now apply Hothers].
      * assert (Ho2 : only members (kdel k m) m' v').
        { split; [unfold kdel; replace (m' =? m) with false by lia; assumption|].
          intros x Hx Hxm. unfold kdel. destruct (x =? m); [reflexivity|now apply Hothers]. }
        destruct (only_abs members _ m' v' Hin' Ho2) as [A [B _]]. now split.
    + destruct (none_abs members k Hnone) as [_ [Habs _]]. rewrite Habs.
      destruct (none_abs members (kdel k m)) as [A [B _]]; [|now split].
      intros n Hn. unfold kdel. destruct (n =? m); [reflexivity|now apply Hnone].
  - (* OMutable *)
    destruct (dinv_cases members k Hinv) as [[m' [v' [Hin' Ho]]]|Hnone].
    + destruct (only_abs members k m' v' Hin' Ho) as [_ [Habs _]]. rewrite Habs.
      destruct Ho as [Hm' Hothers].
      destruct (N.eqb_spec m' m) as [->|Hne].
      * rewrite Hm'. split; [assumption|]. exact Habs.
      * rewrite (Hothers m Hok) by congruence. now apply Hset.
    + destruct (none_abs members k Hnone) as [_ [Habs _]]. rewrite Habs, (Hnone m Hok). now apply Hset.
  - exact Hclr.
  - exact Hclr.
  - exact Hclr.
  - (* OMerge Some *) now apply dmerge_refines.
  - (* OMerge None *) now split.
  - (* OWire *) now apply dmerge_refines.
Qed.

Lemma dinv_empty members : dinv members kempty.
Proof. intros m1 m2 _ _ H. discriminate H. Qed.
Lemma dabs_empty members : dabs members kempty = None.
Proof. destruct (none_abs members kempty) as [_ [B _]]; [reflexivity|exact B]. Qed.

Lemma drun_refines members ops : forall k,
  dinv members k -> Forall (fun o => op_ok members o = true) ops ->
  dinv members (drun members k ops) /\ dabs members (drun members k ops) = arun (dabs members k) ops.
Proof.
  unfold drun, arun. induction ops as [|o r IH]; intros k Hinv Hok; [now split|].
  inversion Hok; subst. cbn [fold_left].
  destruct (dstep_refines members k o Hinv) as [A B]; [assumption|].
  destruct (IH (dstep members k o) A) as [C D]; [assumption|]. split; [exact C|]. now rewrite D, B.
Qed.

Lemma dhas_iff_which members k m : dinv members k -> In m members ->
  (dhas k m = true <-> dwhich members k = Some m).
Proof.
  intros Hinv Hin. split.
  - intros Hh. unfold dwhich. apply find_unique; [assumption|assumption|].
    intros n Hn Hhn. now apply Hinv.
  - intros Hw. unfold dwhich in Hw. apply find_some in Hw. tauto.
Qed.

Lemma dhas_abs members k m : dinv members k -> In m members -> dhas k m = ahas (dabs members k) m.
Proof.
  intros Hinv Hin.
  destruct (dinv_cases members k Hinv) as [[m' [v' [Hin' Ho]]]|Hnone].
  - destruct (only_abs members k m' v' Hin' Ho) as [_ [Habs _]]. rewrite Habs. cbn.
    destruct Ho as [Hm' Hothers]. unfold dhas.
    destruct (N.eqb_spec m' m) as [->|Hne]; [now rewrite Hm'|].
    now rewrite (Hothers m Hin) by congruence.
  - destruct (none_abs members k Hnone) as [_ [Habs _]]. rewrite Habs. unfold dhas. now rewrite Hnone.
Qed.

Lemma dwhich_abs members k : dinv members k -> dwhich members k = awhich (dabs members k).
Proof.
  intros Hinv.
  destruct (dinv_cases members k Hinv) as [[m' [v' [Hin' Ho]]]|Hnone].
  - destruct (only_abs members k m' v' Hin' Ho) as [_ [Habs Hw]]. now rewrite Habs, Hw.
  - destruct (none_abs members k Hnone) as [_ [Habs Hw]]. now rewrite Habs, Hw.
Qed.

Theorem dynamic_invariant members ops :
  NoDup members -> Forall (fun o => op_ok members o = true) ops ->
  let k := drun members kempty ops in
  (dpopulated members k <= 1)%nat /\
  (forall m, In m members -> (dhas k m = true <-> dwhich members k = Some m)) /\
  dabs members k = arun None ops /\
  (forall m, In m members -> dhas k m = ahas (arun None ops) m) /\
  dwhich members k = awhich (arun None ops).
Proof.
  intros Hnd Hok k.
  destruct (drun_refines members ops kempty (dinv_empty members) Hok) as [Hinv Habs].
  rewrite dabs_empty in Habs. fold k in Hinv, Habs.
  repeat split.
  - unfold dpopulated. apply filter_unique_le1; [assumption|]. intros a b Ha Hb. now apply Hinv.
  - now apply dhas_iff_which.
  - now apply dhas_iff_which.
  - exact Habs.
  - intros m Hin. rewrite <- Habs. now apply dhas_abs.
  - rewrite <- Habs. now apply dwhich_abs.
Qed.

(* ------------------------------------------------------------------ *)
(** * Binary decoding: last member wins *)

Lemma wire_decode_app st a b : wire_decode st (a ++ b) = wire_decode (wire_decode st a) b.
Proof. unfold wire_decode. apply fold_left_app. Qed.

Lemma merge_into_which st m v : awhich (merge_into st m v) = Some m.
Proof.
  destruct v as [n|b|sm]; cbn; try reflexivity.
  destruct st as [[m' [n|b|dm]]|]; cbn; try reflexivity. destruct (m' =? m); reflexivity.
Qed.

Theorem binary_last_wins_which st occ m v : awhich (wire_decode st (occ ++ [(m, v)])) = Some m.
Proof. rewrite wire_decode_app. cbn. apply merge_into_which. Qed.

Theorem binary_last_wins_scalar st occ m v :
  (forall sm, v <> OVMsg sm) -> wire_decode st (occ ++ [(m, v)]) = Some (m, v).
Proof.
  intros Hv. rewrite wire_decode_app. cbn. destruct v; try reflexivity. now destruct (Hv m0).
Qed.

Lemma wire_decode_block m : forall block dm,
  wire_decode (Some (m, OVMsg dm)) (map (fun sm => (m, OVMsg sm)) block)
  = Some (m, OVMsg (fold_left merge_msg block dm)).
Proof.
  induction block as [|s r IH]; intros dm; [reflexivity|].
  cbn [map]. unfold wire_decode in *. cbn [fold_left fst snd merge_into].
  rewrite N.eqb_refl. apply IH.
Qed.

Theorem binary_last_wins_message st pre m block :
  block <> [] -> awhich (wire_decode st pre) <> Some m ->
  wire_decode st (pre ++ map (fun sm => (m, OVMsg sm)) block) = Some (m, OVMsg (merge_block block)).
Proof.
  intros Hb Hw. rewrite wire_decode_app. destruct block as [|s r]; [congruence|].
  cbn [map]. change (wire_decode ?s ((m, OVMsg ?x) :: ?t)) with (wire_decode (merge_into s m (OVMsg x)) t).
  assert (E : merge_into (wire_decode st pre) m (OVMsg s) = Some (m, OVMsg (merge_msg empty_msg s))).
  { destruct (wire_decode st pre) as [[m' [n|b|dm]]|]; cbn in *; try reflexivity.
    destruct (N.eqb_spec m' m); [subst; congruence|reflexivity]. }
  rewrite E, wire_decode_block. reflexivity.
Qed.

(* a repeated occurrence of the same message member merges (it does not replace) *)
Corollary binary_message_merges st m s1 s2 :
  awhich st <> Some m ->
  wire_decode st [(m, OVMsg s1); (m, OVMsg s2)] = Some (m, OVMsg (merge_msg s1 s2)).
Proof.
  intros H. change [(m, OVMsg s1); (m, OVMsg s2)] with ([] ++ map (fun sm => (m, OVMsg sm)) [s1; s2]).
  rewrite binary_last_wins_message; [|discriminate|exact H].
  unfold merge_block. cbn. now rewrite merge_msg_empty_l.
Qed.

(* decoding through either concrete representation gives the same abstract state *)
Lemma wire_decode_arun st occ : wire_decode st occ = arun st (map (fun mv => OWire (fst mv) (snd mv)) occ).
Proof.
  unfold wire_decode, arun. revert st. induction occ as [|[m v] r IH]; intros st; [reflexivity|].
  cbn. apply IH.
Qed.

(* ------------------------------------------------------------------ *)
(** * JSON / text: two members of one oneof are rejected *)

Definition names_oneof (o : N) (e : tev) : Prop := te_oneof e = Some o /\ te_null e = false.

Lemma json_seen_rejects o : forall evs sn so ap,
  mem o so = true -> Exists (names_oneof o) evs -> exists e, json_loop evs sn so ap = TErr e.
Proof.
  induction evs as [|e r IH]; intros sn so ap Hso Hex; [inversion Hex|].
  cbn [json_loop]. destruct (mem (te_num e) sn); [eauto|].
  inversion Hex as [? ? [Ho Hn]|? ? Hr]; subst.
  - rewrite Hn, Ho, Hso. eauto.
  - destruct (te_null e); [now apply IH|].
    destruct (te_oneof e) as [o'|]; [|now apply IH].
    destruct (mem o' so) eqn:E; [eauto|]. apply IH; [|assumption].
    cbn [mem existsb]. fold (mem o so). rewrite Hso. apply orb_true_r.
Qed.

Theorem json_rejects_two_members o pre e1 mid e2 post :
  names_oneof o e1 -> names_oneof o e2 ->
  exists e, json_decode (pre ++ e1 :: mid ++ e2 :: post) = TErr e.
Proof.
  intros H1 H2. unfold json_decode. generalize (@nil N) at 1 as sn. generalize (@nil N) at 1 as so. generalize (@nil N) as ap.
  induction pre as [|x r IH]; intros ap so sn.
  - cbn [app json_loop]. destruct (mem (te_num e1) sn); [eauto|].
    destruct H1 as [Ho Hn]. rewrite Hn, Ho.
    destruct (mem o so); [eauto|]. apply json_seen_rejects with (o := o).
    + cbn. now rewrite N.eqb_refl.
    + apply Exists_app. right. now left.
  - cbn [app json_loop]. destruct (mem (te_num x) sn); [eauto|].
    destruct (te_null x); [apply IH|].
    destruct (te_oneof x) as [o'|]; [|apply IH].
    destruct (mem o' so); [eauto|apply IH].
Qed.

Lemma text_seen_rejects o : forall evs sn so ap,
  mem o so = true -> Exists (fun e => te_oneof e = Some o) evs -> exists e, text_loop evs sn so ap = TErr e.
Proof.
  induction evs as [|e r IH]; intros sn so ap Hso Hex; [inversion Hex|].
  cbn [text_loop].
  inversion Hex as [? ? Ho|? ? Hr]; subst.
  - rewrite Ho, Hso. eauto.
  - destruct (te_oneof e) as [o'|].
    + destruct (mem o' so) eqn:E; [eauto|].
      destruct (mem (te_num e) sn); [eauto|]. apply IH; [|assumption].
      cbn [mem existsb]. fold (mem o so). rewrite Hso. apply orb_true_r.
    + destruct (mem (te_num e) sn); [eauto|]. now apply IH.
Qed.

Theorem text_rejects_two_members o pre e1 mid e2 post :
  te_oneof e1 = Some o -> te_oneof e2 = Some o ->
  exists e, text_decode (pre ++ e1 :: mid ++ e2 :: post) = TErr e.
Proof.
  intros H1 H2. unfold text_decode. generalize (@nil N) at 1 as sn. generalize (@nil N) at 1 as so. generalize (@nil N) as ap.
  induction pre as [|x r IH]; intros ap so sn.
  - cbn [app text_loop]. rewrite H1.
    destruct (mem o so); [eauto|]. destruct (mem (te_num e1) sn); [eauto|].
    apply text_seen_rejects with (o := o).
    + cbn. now rewrite N.eqb_refl.
    + apply Exists_app. right. now left.
  - cbn [app text_loop].
    destruct (te_oneof x) as [o'|].
    + destruct (mem o' so); [eauto|]. destruct (mem (te_num x) sn); [eauto|apply IH].
    + destruct (mem (te_num x) sn); [eauto|apply IH].
Qed.

