(* UnkModel — unknown-field handling on top of the message codec model (C09).  Definitions only.

   The retention of unknown fields is part of the decoder model itself (Msg/MsgDec.v [msg_unknown]:
   a field without schema entry, or with a wire type the field's kind rejects, is appended to the
   unknown section -- tag re-encoded minimally on the table-driven path, raw on the reflection
   path) and their re-emission part of the encoder model (Msg/MsgEnc.v: the unknown section is
   written after all known fields).  This file adds:

     msg_strip_unknown v            v with every unknown section of the tree emptied
     msg_decode_discard             UnmarshalOptions{DiscardUnknown: true}: the flag only replaces
                                    "append to the unknown section" by "skip" (internal/impl/decode.go
                                    unmarshalPointerEager, proto/decode.go unmarshalMessageSlow), the
                                    field is still scanned, so errors are the same
     msg_has_unknown v              some message of the tree holds unknown bytes
     msg_restrict keep S            the schema table with the fields [keep tid num = false] deleted
     msg_evolve                     decode with S', re-encode with S', decode with S
     msg_is_unknown_for md num typ  the decoder of md sends an occurrence (num, typ) to the unknown set *)
From Coq Require Import List NArith ZArith Bool.
From PB Require Import Base.PBytes Wire.WireModel Msg.MsgSchema Msg.MsgValue Msg.MsgEnc Msg.MsgDec Msg.MsgValid.
Import ListNotations.
Open Scope N_scope.

Fixpoint msg_strip_unknown (v : value) : value :=
  match v with
  | VS s => VS s
  | VMsg fs _ => VMsg (map (fun p => (fst p, map msg_strip_unknown (snd p))) fs) []
  | VEntry k v' => VEntry k (msg_strip_unknown v')
  end.

Fixpoint msg_has_unknown (v : value) : bool :=
  match v with
  | VS _ => false
  | VMsg fs u => negb (match u with [] => true | _ => false end)
                 || existsb (fun p => existsb msg_has_unknown (snd p)) fs
  | VEntry _ v' => msg_has_unknown v'
  end.

Definition msg_decode_discard (slow : bool) (S : schema) (limit : nat) (tid : nat) (bs : list byte) : dres value :=
  match msg_decode slow S limit tid bs with
  | DOk v => DOk (msg_strip_unknown v)
  | DErr e => DErr e
  end.

(* schema restriction: delete fields (extensions are fields of the table with [f_ext]) *)
Fixpoint msg_restrict_from (keep : nat -> N -> bool) (tid : nat) (S : schema) : schema :=
  match S with
  | [] => []
  | md :: r => filter (fun fd => keep tid (f_num fd)) md :: msg_restrict_from keep (Datatypes.S tid) r
  end.
Definition msg_restrict (keep : nat -> N -> bool) (S : schema) : schema := msg_restrict_from keep O S.

(* S' and S may be unrelated tables here (the harness dumps them independently); the theorems use
   S' = msg_restrict keep S *)
Definition msg_evolve (slow : bool) (S S' : schema) (limit : nat) (bs : list byte) : dres value :=
  match msg_decode true S' limit O bs with
  | DErr e => DErr e
  | DOk v' => msg_decode slow S limit O (msg_encode S' O v')
  end.

Definition msg_is_unknown_for (md : mdesc) (num typ : N) : bool := msg_rejects md true num typ.

(* the populated fields of the top-level message that are KEPT ([kp num = true]) have a scalar kind
   (scalars of all 16 kinds, lists of scalars, maps with scalar values); the deleted ones are
   arbitrary: the class of messages for which schema evolution is proved
   (C09_schema_evolution_partial) *)
Definition msg_scalar_kind (fd : fdesc) : bool := match f_kind fd with KS _ => true | _ => false end.
Definition msg_kept_scalar (kp : N -> bool) (md : mdesc) (fs : fields) : bool :=
  forallb (fun p => negb (kp (fst p)) ||
                    match msg_find_field md (fst p) with Some fd => msg_scalar_kind fd | None => false end) fs.

(* no field of any message type refers to the root type (index 0): the root is not recursive *)
Definition msg_root_unref (S : schema) : Prop :=
  forall t md fd t', nth_error S t = Some md -> In fd md -> (f_kind fd = KMsg t' \/ f_kind fd = KGrp t') -> t' <> O.
