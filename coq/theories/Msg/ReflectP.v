(* ReflectP — proofs about the protoreflect contract model (Msg/ReflectModel.v), C28.

   Part 1 (this file): the invariant [refl_wf] (numbers strictly increasing, no empty field,
   declared fields only, at most one member of every oneof, recursively in every sub-message) is
   preserved by every operation at every path, hence along every history; consequences:
   Range visits exactly the populated fields, each once; oneofs are exclusive; Get of an
   unpopulated field is the default / an empty read-only composite; writes through read-only
   composites panic and change nothing. *)
From Coq Require Import List NArith ZArith Bool Lia.
From Coq Require Import ZifyBool ZifyNat ZifyN.
From PB Require Import Base.PBytes Wire.WireModel Msg.MsgSchema Msg.MsgValue Msg.ReflectModel.
Import ListNotations.
Open Scope N_scope.

(* ---------------------------------------------------------------- sorted field lists *)
Definition lo_lt (lo : option N) (k : N) : Prop :=
  match lo with Some l => l < k | None => True end.

Lemma ks_cons : forall lo k vs r,
  refl_keys_sorted lo ((k, vs) :: r) = true <->
  lo_lt lo k /\ vs <> [] /\ refl_keys_sorted (Some k) r = true.
Proof.
  intros. cbn [refl_keys_sorted]. rewrite !andb_true_iff. split.
  - intros [[H1 H2] H3]. repeat split; auto.
    + destruct lo; cbn; auto. apply N.ltb_lt; auto.
    + destruct vs; [discriminate | discriminate].
  - intros [H1 [H2 H3]]. repeat split; auto.
    + destruct lo; cbn in *; auto. apply N.ltb_lt; auto.
    + destruct vs; auto.
Qed.

Lemma ks_weaken : forall fs lo lo',
  (forall k, lo_lt lo k -> lo_lt lo' k) ->
  refl_keys_sorted lo fs = true -> refl_keys_sorted lo' fs = true.
Proof.
  destruct fs as [|[k vs] r]; intros; auto.
  apply ks_cons in H0. apply ks_cons. intuition.
Qed.

Lemma ks_in : forall fs lo k vs,
  refl_keys_sorted lo fs = true -> In (k, vs) fs -> lo_lt lo k /\ vs <> [].
Proof.
  induction fs as [|[k0 v0] r IH]; intros lo k vs Hs Hin; [destruct Hin|].
  apply ks_cons in Hs. destruct Hs as [H1 [H2 H3]].
  destruct Hin as [E|Hin].
  - inversion E; subst; auto.
  - destruct (IH _ _ _ H3 Hin) as [Hlt Hne]. split; auto.
    destruct lo; cbn in *; auto. lia.
Qed.

Lemma ks_fget_in : forall fs lo k vs,
  refl_keys_sorted lo fs = true -> In (k, vs) fs -> msg_fget fs k = vs.
Proof.
  induction fs as [|[k0 v0] r IH]; intros lo k vs Hs Hin; [destruct Hin|].
  apply ks_cons in Hs. destruct Hs as [H1 [H2 H3]]. cbn [msg_fget].
  destruct Hin as [E|Hin].
  - inversion E; subst. rewrite N.eqb_refl. auto.
  - destruct (ks_in _ _ _ _ H3 Hin) as [Hlt _]. cbn in Hlt.
    destruct (N.eqb_spec k k0); [lia|]. eapply IH; eauto.
Qed.

Lemma fget_in : forall fs k, msg_fget fs k <> [] -> In (k, msg_fget fs k) fs.
Proof.
  induction fs as [|[k0 v0] r IH]; intros k H; cbn [msg_fget] in *; [congruence|].
  destruct (N.eqb_spec k k0).
  - subst. left; auto.
  - right. auto.
Qed.

Lemma fget_notin : forall fs k, ~ In k (map fst fs) -> msg_fget fs k = [].
Proof.
  induction fs as [|[k0 v0] r IH]; intros k H; cbn [msg_fget]; auto.
  cbn in H. destruct (N.eqb_spec k k0); [subst; tauto|]. apply IH. tauto.
Qed.

Lemma ks_fset : forall fs lo n vs,
  refl_keys_sorted lo fs = true -> lo_lt lo n -> vs <> [] ->
  refl_keys_sorted lo (msg_fset fs n vs) = true.
Proof.
  induction fs as [|[k0 v0] r IH]; intros lo n vs Hs Hlo Hne; cbn [msg_fset].
  - apply ks_cons. auto.
  - pose proof Hs as Hs'. apply ks_cons in Hs. destruct Hs as [H1 [H2 H3]].
    destruct (N.ltb_spec n k0).
    + apply ks_cons. repeat split; auto. apply ks_cons. repeat split; auto.
    + destruct (N.eqb_spec n k0).
      * subst. apply ks_cons. auto.
      * apply ks_cons. repeat split; auto. apply IH; auto. cbn. lia.
Qed.

Lemma ks_fdel : forall fs lo n,
  refl_keys_sorted lo fs = true -> refl_keys_sorted lo (msg_fdel fs n) = true.
Proof.
  induction fs as [|[k0 v0] r IH]; intros lo n Hs; cbn [msg_fdel]; auto.
  apply ks_cons in Hs. destruct Hs as [H1 [H2 H3]].
  destruct (N.eqb_spec n k0).
  - eapply ks_weaken; [|exact H3]. intros k Hk. cbn in Hk. destruct lo; cbn in *; auto. lia.
  - apply ks_cons. auto.
Qed.

Lemma ks_filter : forall (P : N * list value -> bool) fs lo,
  refl_keys_sorted lo fs = true -> refl_keys_sorted lo (filter P fs) = true.
Proof.
  induction fs as [|[k0 v0] r IH]; intros lo Hs; cbn [filter]; auto.
  apply ks_cons in Hs. destruct Hs as [H1 [H2 H3]].
  destruct (P (k0, v0)).
  - apply ks_cons. auto.
  - eapply ks_weaken; [|apply IH; exact H3]. intros k Hk. cbn in Hk. destruct lo; cbn in *; auto. lia.
Qed.

Lemma in_fset : forall fs lo n vs k x,
  refl_keys_sorted lo fs = true ->
  (In (k, x) (msg_fset fs n vs) <-> (k = n /\ x = vs) \/ (k <> n /\ In (k, x) fs)).
Proof.
  induction fs as [|[k0 v0] r IH]; intros lo n vs k x Hs; cbn [msg_fset].
  - cbn. split; [intros [E|[]]; inversion E; auto | intros [[-> ->]|[_ []]]; auto].
  - pose proof Hs as Hs'. apply ks_cons in Hs. destruct Hs as [H1 [H2 H3]].
    destruct (N.ltb_spec n k0).
    + cbn [In]. split.
      * intros [E|[E|Hin]].
        -- inversion E; auto.
        -- inversion E; subst. right. split; [lia|auto].
        -- right. split; auto. destruct (ks_in _ _ _ _ H3 Hin) as [Hlt _]. cbn in Hlt. lia.
      * intros [[-> ->]|[Hne [E|Hin]]]; auto.
    + destruct (N.eqb_spec n k0).
      * subst. cbn [In]. split.
        -- intros [E|Hin]; [inversion E; auto|].
           right. destruct (ks_in _ _ _ _ H3 Hin) as [Hlt _]. cbn in Hlt. split; [lia|auto].
        -- intros [[-> ->]|[Hne [E|Hin]]]; auto. inversion E; congruence.
      * cbn [In]. rewrite (IH (Some k0) n vs k x H3). split.
        -- intros [E|[A|[B C]]]; auto. inversion E; subst. right. split; auto.
        -- intros [A|[B [E|C]]]; auto.
Qed.

Lemma in_fdel : forall fs lo n k x,
  refl_keys_sorted lo fs = true ->
  (In (k, x) (msg_fdel fs n) <-> k <> n /\ In (k, x) fs).
Proof.
  induction fs as [|[k0 v0] r IH]; intros lo n k x Hs; cbn [msg_fdel].
  - cbn. tauto.
  - apply ks_cons in Hs. destruct Hs as [H1 [H2 H3]].
    destruct (N.eqb_spec n k0).
    + subst. cbn [In]. split.
      * intros Hin. destruct (ks_in _ _ _ _ H3 Hin) as [Hlt _]. cbn in Hlt. split; [lia|auto].
      * intros [Hne [E|Hin]]; auto. inversion E; congruence.
    + cbn [In]. rewrite (IH (Some k0) n k x H3). split.
      * intros [E|[A B]]; auto. inversion E; subst. auto.
      * intros [A [E|B]]; auto.
Qed.

Lemma ks_nodup : forall fs lo, refl_keys_sorted lo fs = true -> NoDup (map fst fs).
Proof.
  induction fs as [|[k0 v0] r IH]; intros lo Hs; cbn; [constructor|].
  apply ks_cons in Hs. destruct Hs as [H1 [H2 H3]]. constructor; eauto.
  intros Hin. apply in_map_iff in Hin. destruct Hin as [[k x] [E Hin]]. cbn in E. subst.
  destruct (ks_in _ _ _ _ H3 Hin) as [Hlt _]. cbn in Hlt. lia.
Qed.

Lemma ks_has_iff : forall fs lo k,
  refl_keys_sorted lo fs = true -> (In k (map fst fs) <-> refl_has fs k = true).
Proof.
  intros fs lo k Hs. unfold refl_has. split.
  - intros Hin. apply in_map_iff in Hin. destruct Hin as [[k' x] [E Hin]]. cbn in E. subst.
    rewrite (ks_fget_in _ _ _ _ Hs Hin). destruct (ks_in _ _ _ _ Hs Hin) as [_ Hne].
    destruct x; congruence.
  - intros H. destruct (msg_fget fs k) eqn:E; [discriminate|].
    assert (Hne : msg_fget fs k <> []) by (rewrite E; discriminate).
    apply fget_in in Hne. apply in_map_iff. exists (k, msg_fget fs k). auto.
Qed.

(* ---------------------------------------------------------------- oneofs *)
Lemma find_field_num : forall md n fd, msg_find_field md n = Some fd -> f_num fd = n.
Proof.
  induction md as [|fd0 r IH]; intros n fd H; cbn [msg_find_field] in H; [discriminate|].
  destruct (N.eqb_spec (f_num fd0) n).
  - inversion H; subst; auto.
  - auto.
Qed.

Definition oneofs_okP (md : mdesc) (fs : fields) : Prop :=
  forall p, In p fs ->
    exists fd, msg_find_field md (fst p) = Some fd /\
      forall i, f_oneof fd = Some i ->
        forall q, In q fs -> refl_in_oneof md i (fst q) = true -> fst q = fst p.

Lemma oneofs_ok_iff : forall md fs, refl_oneofs_ok md fs = true <-> oneofs_okP md fs.
Proof.
  intros md fs. unfold refl_oneofs_ok, oneofs_okP. rewrite forallb_forall. split.
  - intros H p Hp. specialize (H p Hp).
    destruct (msg_find_field md (fst p)) as [fd|]; [|discriminate].
    exists fd. split; auto. intros i Hi q Hq Hin. rewrite Hi in H.
    rewrite forallb_forall in H. specialize (H q Hq).
    rewrite Hin in H. cbn in H. rewrite orb_false_r in H. apply N.eqb_eq in H. auto.
  - intros H p Hp. destruct (H p Hp) as [fd [Hf Ho]]. rewrite Hf.
    destruct (f_oneof fd) as [i|] eqn:Hi; auto.
    apply forallb_forall. intros q Hq.
    destruct (refl_in_oneof md i (fst q)) eqn:Hin; cbn; [|apply orb_true_r].
    rewrite orb_false_r. apply N.eqb_eq. eapply Ho; eauto.
Qed.

Lemma oneofs_sub : forall md fs fs',
  (forall p, In p fs' -> In p fs) -> oneofs_okP md fs -> oneofs_okP md fs'.
Proof.
  intros md fs fs' Hsub H p Hp. destruct (H p (Hsub p Hp)) as [fd [Hf Ho]].
  exists fd. split; auto. intros i Hi q Hq. apply Ho; auto.
Qed.

Lemma in_oneof_clear : forall md fd fs p,
  In p (refl_oneof_clear md fd fs) ->
  In p fs /\ (forall i, f_oneof fd = Some i -> fst p <> f_num fd -> refl_in_oneof md i (fst p) = false).
Proof.
  intros md fd fs p. unfold refl_oneof_clear. destruct (f_oneof fd) as [i|].
  - rewrite filter_In. intros [Hin Hk]. split; auto. intros i' E Hne. inversion E; subst.
    apply orb_true_iff in Hk. destruct Hk as [Hk|Hk].
    + apply negb_true_iff in Hk; auto.
    + apply N.eqb_eq in Hk. congruence.
  - intros; split; auto. intros; discriminate.
Qed.

Lemma ks_oneof_clear : forall md fd fs lo,
  refl_keys_sorted lo fs = true -> refl_keys_sorted lo (refl_oneof_clear md fd fs) = true.
Proof.
  intros. unfold refl_oneof_clear. destruct (f_oneof fd); auto. apply ks_filter; auto.
Qed.

Lemma oneofs_store : forall md fd fs vs,
  refl_keys_sorted None fs = true -> oneofs_okP md fs ->
  msg_find_field md (f_num fd) = Some fd ->
  oneofs_okP md (msg_fset (refl_oneof_clear md fd fs) (f_num fd) vs).
Proof.
  intros md fd fs vs Hs Hok Hfd [k x] Hp.
  pose proof (ks_oneof_clear md fd fs None Hs) as Hsc.
  apply (in_fset _ None _ _ _ _ Hsc) in Hp. cbn [fst].
  destruct Hp as [[-> ->]|[Hne Hin]].
  - exists fd. split; auto. intros i Hi [k' x'] Hq Hio. cbn [fst] in *.
    apply (in_fset _ None _ _ _ _ Hsc) in Hq. destruct Hq as [[-> _]|[Hne' Hin']]; auto.
    destruct (in_oneof_clear _ _ _ _ Hin') as [_ Hc]. cbn [fst] in Hc.
    rewrite (Hc i Hi Hne') in Hio. discriminate.
  - destruct (in_oneof_clear _ _ _ _ Hin) as [Hinfs Hc]. cbn [fst] in Hc.
    destruct (Hok _ Hinfs) as [fdp [Hfp Hop]]. cbn [fst] in *.
    exists fdp. split; auto. intros i Hi [k' x'] Hq Hio. cbn [fst] in *.
    apply (in_fset _ None _ _ _ _ Hsc) in Hq. destruct Hq as [[-> _]|[Hne' Hin']].
    + (* the stored field is in oneof i, so the clearing removed p *)
      exfalso. unfold refl_in_oneof in Hio. rewrite Hfd in Hio.
      destruct (f_oneof fd) as [j|] eqn:Hj; [|discriminate]. apply N.eqb_eq in Hio. subst j.
      specialize (Hc i eq_refl Hne). unfold refl_in_oneof in Hc. rewrite Hfp, Hi, N.eqb_refl in Hc.
      discriminate.
    + destruct (in_oneof_clear _ _ _ _ Hin') as [Hq _].
      apply (Hop i Hi (k', x') Hq Hio).
Qed.

(* ---------------------------------------------------------------- the invariant, unfolded *)
Definition LW (md : mdesc) (fs : fields) : Prop :=
  refl_keys_sorted None fs = true /\ oneofs_okP md fs.
Definition CW (S : schema) (md : mdesc) (fs : fields) : Prop :=
  forall p, In p fs -> refl_wf_chunk (refl_wf S) md p = true.
Definition WFm (S : schema) (md : mdesc) (fs : fields) : Prop := LW md fs /\ CW S md fs.

Lemma wf_unfold : forall S tid fs u,
  refl_wf S tid (VMsg fs u) = true <-> WFm S (nth tid S []) fs.
Proof.
  intros. cbn [refl_wf]. unfold WFm, LW, CW, refl_level_wf.
  rewrite !andb_true_iff, oneofs_ok_iff, forallb_forall. tauto.
Qed.

Lemma wf_empty : forall S tid, refl_wf S tid msg_empty = true.
Proof. intros. apply wf_unfold. repeat split; cbn; auto; intros ? []. Qed.

Lemma wf_vals_nil : forall S fd, refl_wf_vals (refl_wf S) fd [] = true.
Proof. intros. unfold refl_wf_vals. destruct (f_kind fd); auto. Qed.

Lemma wf_fget : forall S md fs f fd,
  WFm S md fs -> msg_find_field md f = Some fd ->
  refl_wf_vals (refl_wf S) fd (msg_fget fs f) = true.
Proof.
  intros S md fs f fd [[Hs _] Hc] Hf.
  destruct (msg_fget fs f) eqn:E; [apply wf_vals_nil|].
  assert (Hne : msg_fget fs f <> []) by (rewrite E; discriminate).
  apply fget_in in Hne. specialize (Hc _ Hne). unfold refl_wf_chunk in Hc. cbn [fst snd] in Hc.
  rewrite Hf in Hc. rewrite E in Hc. auto.
Qed.

Lemma wfm_fdel : forall S md fs n, WFm S md fs -> WFm S md (msg_fdel fs n).
Proof.
  intros S md fs n [[Hs Ho] Hc].
  assert (Hsub : forall p, In p (msg_fdel fs n) -> In p fs).
  { intros [k x] Hp. apply (in_fdel _ None _ _ _ Hs) in Hp. tauto. }
  repeat split.
  - apply ks_fdel; auto.
  - eapply oneofs_sub; eauto.
  - intros p Hp. auto.
Qed.

Lemma wfm_store : forall S md fd fs vs,
  WFm S md fs -> msg_find_field md (f_num fd) = Some fd ->
  refl_wf_vals (refl_wf S) fd vs = true ->
  WFm S md (refl_store md fd fs vs).
Proof.
  intros S md fd fs vs H Hfd Hv. unfold refl_store.
  destruct vs as [|v r]; [apply wfm_fdel; auto|].
  destruct H as [[Hs Ho] Hc].
  pose proof (ks_oneof_clear md fd fs None Hs) as Hsc.
  repeat split.
  - apply ks_fset; cbn; auto. discriminate.
  - apply oneofs_store; auto.
  - intros [k x] Hp. apply (in_fset _ None _ _ _ _ Hsc) in Hp.
    destruct Hp as [[-> ->]|[_ Hin]].
    + unfold refl_wf_chunk. cbn [fst snd]. rewrite Hfd. auto.
    + apply Hc. apply in_oneof_clear in Hin. tauto.
Qed.

Lemma wfm_set : forall S md fd fs vs,
  WFm S md fs -> msg_find_field md (f_num fd) = Some fd ->
  refl_wf_vals (refl_wf S) fd vs = true ->
  WFm S md (refl_set md fd fs vs).
Proof.
  intros. unfold refl_set.
  destruct (f_card fd); try (apply wfm_store; auto).
  destruct vs as [|[s| |] [|]]; try (apply wfm_store; auto).
  destruct (msg_scalar_is_zero s); [apply wfm_fdel; auto | apply wfm_store; auto].
Qed.

(* plain replacement of the values of a populated or unpopulated field (navigation) *)
Lemma wfm_fset_plain : forall S md fd fs f vs,
  WFm S md fs -> msg_find_field md f = Some fd -> refl_has fs f = true -> vs <> [] ->
  refl_wf_vals (refl_wf S) fd vs = true ->
  WFm S md (msg_fset fs f vs).
Proof.
  intros S md fd fs f vs [[Hs Ho] Hc] Hfd Hhas Hne Hv.
  assert (Hin : In (f, msg_fget fs f) fs).
  { apply fget_in. unfold refl_has in Hhas. destruct (msg_fget fs f); [discriminate|discriminate]. }
  repeat split.
  - apply ks_fset; cbn; auto.
  - intros [k x] Hp. apply (in_fset _ None _ _ _ _ Hs) in Hp. cbn [fst].
    destruct Hp as [[-> ->]|[Hnek Hp]].
    + destruct (Ho _ Hin) as [fd' [Hf' Ho']]. cbn [fst] in *. exists fd'. split; auto.
      intros i Hi [k' x'] Hq Hio. cbn [fst] in *.
      apply (in_fset _ None _ _ _ _ Hs) in Hq. destruct Hq as [[-> _]|[_ Hq]]; auto.
      apply (Ho' i Hi (k', x') Hq Hio).
    + destruct (Ho _ Hp) as [fd' [Hf' Ho']]. cbn [fst] in *. exists fd'. split; auto.
      intros i Hi [k' x'] Hq Hio. cbn [fst] in *.
      apply (in_fset _ None _ _ _ _ Hs) in Hq. destruct Hq as [[-> _]|[_ Hq]].
      * apply (Ho' i Hi (f, msg_fget fs f) Hin Hio).
      * apply (Ho' i Hi (k', x') Hq Hio).
  - intros [k x] Hp. apply (in_fset _ None _ _ _ _ Hs) in Hp.
    destruct Hp as [[-> ->]|[_ Hp]]; auto.
    unfold refl_wf_chunk. cbn [fst snd]. rewrite Hfd. auto.
Qed.

(* ---------------------------------------------------------------- value lists *)
Lemma forallb_firstn : forall (A : Type) (P : A -> bool) n l,
  forallb P l = true -> forallb P (firstn n l) = true.
Proof.
  induction n; intros l H; cbn; auto. destruct l; cbn in *; auto.
  apply andb_true_iff in H. destruct H. rewrite H. cbn. auto.
Qed.

Lemma forallb_replace_nth : forall (P : value -> bool) l i v,
  forallb P l = true -> P v = true -> forallb P (refl_replace_nth l i v) = true.
Proof.
  induction l as [|x r IH]; intros i v H Hv; cbn; auto.
  cbn in H. apply andb_true_iff in H. destruct H as [H1 H2].
  destruct i; cbn; rewrite ?Hv, ?H1; cbn; auto.
Qed.

Lemma forallb_map_put : forall (P : value -> bool) es k v,
  forallb P es = true -> P (VEntry k v) = true -> forallb P (msg_map_put es k v) = true.
Proof.
  induction es as [|e r IH]; intros k v H Hv; cbn [msg_map_put].
  - cbn. rewrite Hv. auto.
  - cbn in H. apply andb_true_iff in H. destruct H as [H1 H2].
    destruct e; try (cbn; rewrite H1; cbn; apply IH; auto).
    destruct (msg_scmp k k0); cbn; rewrite ?Hv, ?H1, ?H2; cbn; auto.
Qed.

Lemma forallb_map_del : forall (P : value -> bool) es k,
  forallb P es = true -> forallb P (refl_map_del es k) = true.
Proof.
  induction es as [|e r IH]; intros k H; cbn [refl_map_del]; auto.
  cbn in H. apply andb_true_iff in H. destruct H as [H1 H2].
  destruct e; try (cbn; rewrite H1; cbn; apply IH; auto).
  destruct (refl_scalar_eqb k k0); auto. cbn. rewrite H1. cbn. auto.
Qed.

Lemma forallb_map_replace : forall (P : value -> bool) es k v,
  forallb P es = true -> (forall k0, P (VEntry k0 v) = true) ->
  forallb P (refl_map_replace es k v) = true.
Proof.
  induction es as [|e r IH]; intros k v H Hv; cbn [refl_map_replace]; auto.
  cbn in H. apply andb_true_iff in H. destruct H as [H1 H2].
  destruct e; try (cbn; rewrite H1; cbn; apply IH; auto).
  destruct (refl_scalar_eqb k k0); cbn; rewrite ?Hv, ?H1, ?H2; cbn; auto.
Qed.

Lemma map_get_in : forall es k v, refl_map_get es k = Some v -> exists k0, In (VEntry k0 v) es.
Proof.
  induction es as [|e r IH]; intros k v H; cbn [refl_map_get] in H; [discriminate|].
  destruct e; try (destruct (IH _ _ H) as [k0 Hk]; exists k0; right; auto).
  destruct (refl_scalar_eqb k k0).
  - inversion H; subst. exists k0. left; auto.
  - destruct (IH _ _ H) as [k1 Hk]. exists k1; right; auto.
Qed.

(* closure of [refl_wf_vals] under the list and map edits *)
Section Vals.
  Variable S : schema.
  Variable fd : fdesc.
  Notation wfv := (refl_wf_vals (refl_wf S) fd).
  Definition wfarg (v : value) : bool :=
    match f_kind fd with KS _ => true | KMsg t | KGrp t => refl_wf S t v end.

  Lemma wfarg_val : forall v, wfarg v = true ->
    match f_kind fd with KS _ => True | KMsg t | KGrp t => refl_wf_val (refl_wf S) t v = true end.
  Proof.
    unfold wfarg. intros v H. destruct (f_kind fd); auto; destruct v; cbn in *; auto; discriminate.
  Qed.

  Lemma wfv_app : forall vs v, wfv vs = true -> wfarg v = true -> wfv (vs ++ [v]) = true.
  Proof.
    unfold refl_wf_vals. intros vs v H Hv. pose proof (wfarg_val v Hv) as Hv'.
    destruct (f_kind fd); auto; rewrite forallb_app, H; cbn; rewrite Hv'; auto.
  Qed.
  Lemma wfv_replace : forall vs i v, wfv vs = true -> wfarg v = true -> wfv (refl_replace_nth vs i v) = true.
  Proof.
    unfold refl_wf_vals. intros vs i v H Hv. pose proof (wfarg_val v Hv) as Hv'.
    destruct (f_kind fd); auto; apply forallb_replace_nth; auto.
  Qed.
  Lemma wfv_firstn : forall vs n, wfv vs = true -> wfv (firstn n vs) = true.
  Proof.
    unfold refl_wf_vals. intros vs n H. destruct (f_kind fd); auto; apply forallb_firstn; auto.
  Qed.
  Lemma wfv_map_put : forall es k v, wfv es = true -> wfarg v = true -> wfv (msg_map_put es k v) = true.
  Proof.
    unfold refl_wf_vals, wfarg. intros es k v H Hv.
    destruct (f_kind fd); auto; apply forallb_map_put; auto.
  Qed.
  Lemma wfv_map_del : forall es k, wfv es = true -> wfv (refl_map_del es k) = true.
  Proof.
    unfold refl_wf_vals. intros es k H. destruct (f_kind fd); auto; apply forallb_map_del; auto.
  Qed.
  Lemma wfv_map_replace : forall es k v, wfv es = true -> wfarg v = true -> wfv (refl_map_replace es k v) = true.
  Proof.
    unfold refl_wf_vals, wfarg. intros es k v H Hv.
    destruct (f_kind fd); auto; apply forallb_map_replace; auto.
  Qed.
  Lemma wfarg_empty : wfarg msg_empty = true.
  Proof. unfold wfarg. destruct (f_kind fd); auto; apply wf_empty. Qed.
  Lemma wfv_one : forall v, wfarg v = true -> wfv [v] = true.
  Proof. intros. apply (wfv_app [] v); auto. apply wf_vals_nil. Qed.
End Vals.

(* ---------------------------------------------------------------- one operation *)
Lemma list_edit_wf : forall S D tid fd lro o vs vs' out,
  refl_wf_vals (refl_wf S) fd vs = true ->
  match o with LSet _ v | LAppend v => wfarg S fd v = true | _ => True end ->
  refl_list_edit D tid fd lro o vs = (Some vs', out) ->
  refl_wf_vals (refl_wf S) fd vs' = true.
Proof.
  intros S D tid fd lro o vs vs' out Hold Harg E. unfold refl_list_edit in E.
  destruct o.
  - inversion E.
  - destruct (nth_error _ _); inversion E.
  - destruct (_ <? _); inversion E; subst. apply wfv_replace; auto.
  - destruct lro; inversion E; subst. apply wfv_app; auto.
  - destruct lro; [inversion E|]. destruct (_ <=? _); inversion E; subst. apply wfv_firstn; auto.
  - destruct lro; [inversion E|]. destruct (refl_kind_is_msg _); inversion E; subst.
    apply wfv_app; auto. apply wfarg_empty.
  - destruct (f_kind fd); inversion E.
Qed.

Lemma map_edit_wf : forall S fd mro o es es' out,
  refl_wf_vals (refl_wf S) fd es = true ->
  match o with MSet _ v => wfarg S fd v = true | _ => True end ->
  refl_map_edit fd mro o es = (Some es', out) ->
  refl_wf_vals (refl_wf S) fd es' = true.
Proof.
  intros S fd mro o es es' out Hold Harg E. unfold refl_map_edit in E.
  destruct o; try (inversion E; fail).
  - destruct mro; inversion E; subst. apply wfv_map_put; auto.
  - destruct mro; inversion E; subst. apply wfv_map_del; auto.
  - destruct mro; [inversion E|]. destruct (refl_kind_is_msg _); [|inversion E].
    destruct (refl_map_get _ _); inversion E; subst. apply wfv_map_put; auto. apply wfarg_empty.
  - destruct (f_kind fd) as [[]| |]; inversion E.
Qed.

Lemma list_op_wf : forall S D tid md fd lro o fs fs' out,
  WFm S md fs -> msg_find_field md (f_num fd) = Some fd ->
  match o with LSet _ v | LAppend v => wfarg S fd v = true | _ => True end ->
  refl_list_op D tid md fd lro o fs = (fs', out) -> WFm S md fs'.
Proof.
  intros S D tid md fd lro o fs fs' out H Hfd Harg E.
  pose proof (wf_fget S md fs (f_num fd) fd H Hfd) as Hold.
  unfold refl_list_op in E.
  destruct (refl_list_edit D tid fd lro o (msg_fget fs (f_num fd))) as [[vs'|] out'] eqn:Ee;
    inversion E; subst; auto.
  apply wfm_store; auto. eapply list_edit_wf; eauto.
Qed.

Lemma map_op_wf : forall S md fd mro o fs fs' out,
  WFm S md fs -> msg_find_field md (f_num fd) = Some fd ->
  match o with MSet _ v => wfarg S fd v = true | _ => True end ->
  refl_map_op md fd mro o fs = (fs', out) -> WFm S md fs'.
Proof.
  intros S md fd mro o fs fs' out H Hfd Harg E.
  pose proof (wf_fget S md fs (f_num fd) fd H Hfd) as Hold.
  unfold refl_map_op in E.
  destruct (refl_map_edit fd mro o (msg_fget fs (f_num fd))) as [[vs'|] out'] eqn:Ee;
    inversion E; subst; auto.
  apply wfm_store; auto. eapply map_edit_wf; eauto.
Qed.

Lemma step_wf : forall S D tid ro op fs u m' out,
  WFm S (nth tid S []) fs ->
  refl_step S D tid ro op (fs, u) = (m', out) ->
  WFm S (nth tid S []) (fst m').
Proof.
  intros S D tid ro op fs u m' out H E. unfold refl_step in E.
  destruct (refl_op_wf S (nth tid S []) op) eqn:Hop; cbn [negb] in E; [|inversion E; subst; auto].
  set (md := nth tid S []) in *.
  destruct op; cbn beta iota zeta in E;
    try (inversion E; subst; auto; fail);
    try (destruct (msg_find_field md f) as [fd|] eqn:Hf; [|inversion E; subst; auto];
         pose proof (find_field_num _ _ _ Hf) as Hn; subst f).
  - inversion E; subst; auto.
  - inversion E; subst; auto.
  - destruct ro; inversion E; subst; auto. cbn [fst].
    apply wfm_set; auto. cbn in Hop. rewrite Hf in Hop. apply andb_true_iff in Hop. tauto.
  - destruct ro; inversion E; subst; auto. cbn [fst]. apply wfm_fdel; auto.
  - destruct ro; [inversion E; subst; auto|].
    destruct (_ || _); [inversion E; subst; auto|].
    destruct (refl_kind_is_msg _); [|inversion E; subst; auto].
    destruct (msg_fget fs _); inversion E; subst; auto. cbn [fst].
    apply (wfm_store S md fd fs [msg_empty]); auto. apply wfv_one. apply wfarg_empty.
  - inversion E; subst; auto.
  - destruct ro; inversion E; subst; auto.
  - destruct (negb (refl_is_list fd)); [inversion E; subst; auto|].
    destruct (ro && negb viaget); [inversion E; subst; auto|].
    destruct (refl_list_op _ _ _ _ _ _ _) as [fs' o'] eqn:El. inversion E; subst. cbn [fst].
    eapply list_op_wf; eauto.
    cbn in Hop. rewrite Hf in Hop. destruct o; auto.
  - destruct (negb (refl_is_map fd)); [inversion E; subst; auto|].
    destruct (ro && negb viaget); [inversion E; subst; auto|].
    destruct (refl_map_op _ _ _ _ _) as [fs' o'] eqn:El. inversion E; subst. cbn [fst].
    eapply map_op_wf; eauto.
    cbn in Hop. rewrite Hf in Hop. destruct o; auto.
Qed.

(* ---------------------------------------------------------------- navigation *)
Lemma wfm_nil : forall S md, WFm S md [].
Proof. intros. repeat split; cbn; auto; intros ? []. Qed.

Lemma macc_wf : forall S t sub,
  match sub with VMsg _ _ => refl_wf S t sub = true | _ => True end ->
  WFm S (nth t S []) (fst (msg_macc_of sub)).
Proof.
  intros S t [s|fs u|k v] H; cbn; try apply wfm_nil. apply wf_unfold in H. auto.
Qed.

Lemma wf_val_sub : forall S t sub,
  refl_wf_val (refl_wf S) t sub = true ->
  match sub with VMsg _ _ => refl_wf S t sub = true | _ => True end.
Proof. intros S t [s|fs u|k v] H; cbn in *; auto. Qed.

Lemma val_wfarg : forall S fd (m : msg_macc),
  WFm S (nth (refl_kind_tid (f_kind fd)) S []) (fst m) ->
  wfarg S fd (refl_val_of m) = true.
Proof.
  intros S fd [fs u] H. unfold wfarg, refl_val_of. cbn [fst snd] in *.
  destruct (f_kind fd); auto; cbn [refl_kind_tid] in H; apply wf_unfold; auto.
Qed.

Lemma replace_nth_nonnil : forall l i v, l <> [] -> refl_replace_nth l i v <> [].
Proof. destruct l; intros; [congruence|]. destruct i; cbn; discriminate. Qed.

Lemma map_replace_nonnil : forall es k v, es <> [] -> refl_map_replace es k v <> [].
Proof.
  destruct es as [|e r]; intros; [congruence|]. cbn. destruct e; try discriminate.
  destruct (refl_scalar_eqb k k0); discriminate.
Qed.

Lemma has_of_fget : forall fs f, msg_fget fs f <> [] -> refl_has fs f = true.
Proof. intros. unfold refl_has. destruct (msg_fget fs f); congruence. Qed.

Lemma wf_vals_elem : forall S fd vs sub,
  refl_kind_is_msg (f_kind fd) = true ->
  refl_wf_vals (refl_wf S) fd vs = true -> In sub vs ->
  refl_wf_val (refl_wf S) (refl_kind_tid (f_kind fd)) sub = true.
Proof.
  intros S fd vs sub K H Hin. unfold refl_wf_vals in H.
  destruct (f_kind fd); cbn [refl_kind_tid]; [discriminate| |];
    rewrite forallb_forall in H; auto.
Qed.

Lemma focus_wf : forall S D w path tid ro op fs u m' out,
  WFm S (nth tid S []) fs ->
  refl_focus S D w path tid ro op (fs, u) = (m', out) ->
  WFm S (nth tid S []) (fst m').
Proof.
  intros S D w. induction path as [|st rest IH]; intros tid ro op fs u m' out H E.
  - cbn [refl_focus] in E. eapply step_wf; eauto.
  - cbn [refl_focus] in E. set (md := nth tid S []) in *.
    destruct (msg_find_field md match st with PF f => f | PL f _ => f | PM f _ => f end) as [fd|] eqn:Hf;
      [|inversion E; subst; auto].
    pose proof (find_field_num _ _ _ Hf) as Hn.
    destruct st as [f|f i|f k].
    + destruct (refl_is_msg fd) eqn:Km; cbn [negb] in E; [|inversion E; subst; auto].
      assert (K : refl_kind_is_msg (f_kind fd) = true).
      { unfold refl_is_msg in Km. apply andb_true_iff in Km. destruct Km as [Km _].
        apply andb_true_iff in Km. tauto. }
      pose proof (wf_fget S md fs f fd H Hf) as Hold.
      destruct (msg_fget fs f) as [|sub l] eqn:Eg.
      * destruct (ro && w); [inversion E; subst; auto|].
        destruct w.
        -- destruct (refl_focus S D true rest _ false op ([], [])) as [sub' o'] eqn:Es.
           inversion E; subst m' out. cbn [fst].
           apply IH in Es; [|apply wfm_nil].
           subst f. apply (wfm_store S md fd fs [refl_val_of sub']); auto. apply wfv_one. apply val_wfarg; auto.
        -- destruct (refl_focus S D false rest _ true op ([], [])) as [sub' o'] eqn:Es.
           inversion E; subst; auto.
      * destruct (refl_focus S D w rest _ false op (msg_macc_of sub)) as [sub' o'] eqn:Es.
        inversion E; subst m' out. cbn [fst].
        assert (Hsub : refl_wf_val (refl_wf S) (refl_kind_tid (f_kind fd)) sub = true).
        { eapply wf_vals_elem; eauto. left; auto. }
        destruct (msg_macc_of sub) as [sf su] eqn:Em.
        apply IH in Es.
        2:{ pose proof (macc_wf S (refl_kind_tid (f_kind fd)) sub (wf_val_sub _ _ _ Hsub)) as Hm.
            rewrite Em in Hm. auto. }
        eapply wfm_fset_plain; eauto.
        -- apply has_of_fget. rewrite Eg. discriminate.
        -- discriminate.
        -- apply wfv_one. apply val_wfarg; auto.
    + destruct (ro && w); [inversion E; subst; auto|].
      destruct (refl_is_list fd) eqn:Kl; cbn [negb] in E; [|inversion E; subst; auto].
      destruct (refl_kind_is_msg (f_kind fd)) eqn:K; cbn [negb] in E; [|inversion E; subst; auto].
      pose proof (wf_fget S md fs f fd H Hf) as Hold.
      destruct (nth_error (msg_fget fs f) (N.to_nat i)) as [sub|] eqn:En; [|inversion E; subst; auto].
      destruct (refl_focus S D w rest _ false op (msg_macc_of sub)) as [sub' o'] eqn:Es.
      inversion E; subst m' out. cbn [fst].
      assert (Hin : In sub (msg_fget fs f)) by (eapply nth_error_In; eauto).
      assert (Hsub : refl_wf_val (refl_wf S) (refl_kind_tid (f_kind fd)) sub = true).
      { eapply wf_vals_elem; eauto. }
      destruct (msg_macc_of sub) as [sf su] eqn:Em.
      apply IH in Es.
      2:{ pose proof (macc_wf S (refl_kind_tid (f_kind fd)) sub (wf_val_sub _ _ _ Hsub)) as Hm.
          rewrite Em in Hm. auto. }
      assert (Hne : msg_fget fs f <> []) by (intros Z; rewrite Z in Hin; destruct Hin).
      eapply wfm_fset_plain; eauto.
      * apply has_of_fget; auto.
      * apply replace_nth_nonnil; auto.
      * apply wfv_replace; auto. apply val_wfarg; auto.
    + destruct (ro && w); [inversion E; subst; auto|].
      destruct (refl_is_map fd) eqn:Kl; cbn [negb] in E; [|inversion E; subst; auto].
      destruct (refl_kind_is_msg (f_kind fd)) eqn:K; cbn [negb] in E; [|inversion E; subst; auto].
      pose proof (wf_fget S md fs f fd H Hf) as Hold.
      destruct (refl_map_get (msg_fget fs f) k) as [sub|] eqn:En; [|inversion E; subst; auto].
      destruct (refl_focus S D w rest _ false op (msg_macc_of sub)) as [sub' o'] eqn:Es.
      inversion E; subst m' out. cbn [fst].
      destruct (map_get_in _ _ _ En) as [k0 Hin].
      assert (Hsub : refl_wf_val (refl_wf S) (refl_kind_tid (f_kind fd)) (VEntry k0 sub) = true).
      { eapply wf_vals_elem; eauto. }
      cbn [refl_wf_val] in Hsub.
      destruct (msg_macc_of sub) as [sf su] eqn:Em.
      apply IH in Es.
      2:{ assert (Hs2 : match sub with VMsg _ _ => refl_wf S (refl_kind_tid (f_kind fd)) sub = true | _ => True end)
            by (destruct sub; auto).
          pose proof (macc_wf S (refl_kind_tid (f_kind fd)) sub Hs2) as Hm.
          rewrite Em in Hm. auto. }
      assert (Hne : msg_fget fs f <> []) by (intros Z; rewrite Z in Hin; destruct Hin).
      eapply wfm_fset_plain; eauto.
      * apply has_of_fget; auto.
      * apply map_replace_nonnil; auto.
      * apply wfv_map_replace; auto. apply val_wfarg; auto.
Qed.

Theorem apply_wf : forall S D w path op m,
  refl_wf S O m = true -> refl_wf S O (fst (refl_apply S D w path op m)) = true.
Proof.
  intros S D w path op m H. unfold refl_apply.
  destruct m as [s|fs u|k v]; try discriminate.
  cbn [msg_macc_of]. destruct (refl_focus S D w path O false op (fs, u)) as [m' out] eqn:E.
  cbn [fst]. destruct m' as [fs' u']. unfold refl_val_of. cbn [fst snd].
  apply wf_unfold. apply wf_unfold in H. apply focus_wf in E; auto.
Qed.

Theorem run_wf : forall S D steps m,
  refl_wf S O m = true ->
  refl_wf S O (fst (refl_run S D m steps)) = true /\
  Forall (fun om => refl_wf S O (snd om) = true) (snd (refl_run S D m steps)).
Proof.
  intros S D. induction steps as [|st r IH]; intros m H; cbn [refl_run].
  - cbn. auto.
  - pose proof (apply_wf S D (rs_w st) (rs_path st) (rs_op st) m H) as H1.
    destruct (refl_apply S D (rs_w st) (rs_path st) (rs_op st) m) as [m1 out]. cbn [fst] in H1.
    destruct (IH m1 H1) as [H2 H3].
    destruct (refl_run S D m1 r) as [m2 outs]. cbn [fst snd] in *. split; auto.
Qed.

(* ---------------------------------------------------------------- what a path focuses on *)
(* Navigation does not depend on the operation: either it fails (panic) for every operation, or
   every operation is computed by [refl_step] on one well-formed message level. *)
Lemma focus_read : forall S D w path tid ro fs u,
  WFm S (nth tid S []) fs ->
  (forall op, snd (refl_focus S D w path tid ro op (fs, u)) = OPanic) \/
  exists tid' ro' fs' u', WFm S (nth tid' S []) fs' /\
    forall op, snd (refl_focus S D w path tid ro op (fs, u)) = snd (refl_step S D tid' ro' op (fs', u')).
Proof.
  intros S D w. induction path as [|st rest IH]; intros tid ro fs u H.
  - right. exists tid, ro, fs, u. split; auto.
  - cbn [refl_focus]. cbv zeta. set (md := nth tid S []) in *.
    destruct (msg_find_field md match st with PF f => f | PL f _ => f | PM f _ => f end) as [fd|] eqn:Hf;
      [|left; intros; reflexivity].
    pose proof (find_field_num _ _ _ Hf) as Hn.
    destruct st as [f|f i|f k].
    + destruct (refl_is_msg fd) eqn:Km; cbn [negb]; [|left; intros; reflexivity].
      assert (K : refl_kind_is_msg (f_kind fd) = true).
      { unfold refl_is_msg in Km. apply andb_true_iff in Km. destruct Km as [Km _].
        apply andb_true_iff in Km. tauto. }
      pose proof (wf_fget S md fs f fd H Hf) as Hold.
      destruct (msg_fget fs f) as [|sub l] eqn:Eg.
      * destruct (ro && w); [left; intros; reflexivity|].
        destruct w.
        -- destruct (IH (refl_kind_tid (f_kind fd)) false [] [] (wfm_nil _ _)) as [A|[t' [r' [f' [u' [A B]]]]]].
           ++ left. intros op. specialize (A op).
              destruct (refl_focus S D true rest _ false op ([], [])) as [m0 r0] eqn:Ef; cbn [snd] in *;
              first [exact A | pose proof (f_equal snd Ef) as Er; cbn [snd] in Er; rewrite <- Er; exact A].
           ++ right. exists t', r', f', u'. split; auto. intros op. specialize (B op).
              destruct (refl_focus S D true rest _ false op ([], [])) as [m0 r0] eqn:Ef; cbn [snd] in *;
              first [exact B | pose proof (f_equal snd Ef) as Er; cbn [snd] in Er; rewrite <- Er; exact B].
        -- destruct (IH (refl_kind_tid (f_kind fd)) true [] [] (wfm_nil _ _)) as [A|[t' [r' [f' [u' [A B]]]]]].
           ++ left. intros op. specialize (A op).
              destruct (refl_focus S D false rest _ true op ([], [])) as [m0 r0] eqn:Ef; cbn [snd] in *;
              first [exact A | pose proof (f_equal snd Ef) as Er; cbn [snd] in Er; rewrite <- Er; exact A].
           ++ right. exists t', r', f', u'. split; auto. intros op. specialize (B op).
              destruct (refl_focus S D false rest _ true op ([], [])) as [m0 r0] eqn:Ef; cbn [snd] in *;
              first [exact B | pose proof (f_equal snd Ef) as Er; cbn [snd] in Er; rewrite <- Er; exact B].
      * assert (Hsub : refl_wf_val (refl_wf S) (refl_kind_tid (f_kind fd)) sub = true).
        { eapply wf_vals_elem; eauto. left; auto. }
        pose proof (macc_wf S (refl_kind_tid (f_kind fd)) sub (wf_val_sub _ _ _ Hsub)) as Hm.
        destruct (msg_macc_of sub) as [sf su]. cbn [fst] in Hm.
        destruct (IH (refl_kind_tid (f_kind fd)) false sf su Hm) as [A|[t' [r' [f' [u' [A B]]]]]].
        -- left. intros op. specialize (A op).
           destruct (refl_focus S D w rest _ false op (sf, su)) as [m0 r0] eqn:Ef; cbn [snd] in *;
              first [exact A | pose proof (f_equal snd Ef) as Er; cbn [snd] in Er; rewrite <- Er; exact A].
        -- right. exists t', r', f', u'. split; auto. intros op. specialize (B op).
           destruct (refl_focus S D w rest _ false op (sf, su)) as [m0 r0] eqn:Ef; cbn [snd] in *;
              first [exact B | pose proof (f_equal snd Ef) as Er; cbn [snd] in Er; rewrite <- Er; exact B].
    + destruct (ro && w); [left; intros; reflexivity|].
      destruct (refl_is_list fd) eqn:Kl; cbn [negb]; [|left; intros; reflexivity].
      destruct (refl_kind_is_msg (f_kind fd)) eqn:K; cbn [negb]; [|left; intros; reflexivity].
      pose proof (wf_fget S md fs f fd H Hf) as Hold.
      destruct (nth_error (msg_fget fs f) (N.to_nat i)) as [sub|] eqn:En; [|left; intros; reflexivity].
      assert (Hin : In sub (msg_fget fs f)) by (eapply nth_error_In; eauto).
      assert (Hsub : refl_wf_val (refl_wf S) (refl_kind_tid (f_kind fd)) sub = true).
      { eapply wf_vals_elem; eauto. }
      pose proof (macc_wf S (refl_kind_tid (f_kind fd)) sub (wf_val_sub _ _ _ Hsub)) as Hm.
      destruct (msg_macc_of sub) as [sf su]. cbn [fst] in Hm.
      destruct (IH (refl_kind_tid (f_kind fd)) false sf su Hm) as [A|[t' [r' [f' [u' [A B]]]]]].
      * left. intros op. specialize (A op).
        destruct (refl_focus S D w rest _ false op (sf, su)) as [m0 r0] eqn:Ef; cbn [snd] in *;
              first [exact A | pose proof (f_equal snd Ef) as Er; cbn [snd] in Er; rewrite <- Er; exact A].
      * right. exists t', r', f', u'. split; auto. intros op. specialize (B op).
        destruct (refl_focus S D w rest _ false op (sf, su)) as [m0 r0] eqn:Ef; cbn [snd] in *;
              first [exact B | pose proof (f_equal snd Ef) as Er; cbn [snd] in Er; rewrite <- Er; exact B].
    + destruct (ro && w); [left; intros; reflexivity|].
      destruct (refl_is_map fd) eqn:Kl; cbn [negb]; [|left; intros; reflexivity].
      destruct (refl_kind_is_msg (f_kind fd)) eqn:K; cbn [negb]; [|left; intros; reflexivity].
      pose proof (wf_fget S md fs f fd H Hf) as Hold.
      destruct (refl_map_get (msg_fget fs f) k) as [sub|] eqn:En; [|left; intros; reflexivity].
      destruct (map_get_in _ _ _ En) as [k0 Hin].
      assert (Hsub : refl_wf_val (refl_wf S) (refl_kind_tid (f_kind fd)) (VEntry k0 sub) = true).
      { eapply wf_vals_elem; eauto. }
      cbn [refl_wf_val] in Hsub.
      assert (Hs2 : match sub with VMsg _ _ => refl_wf S (refl_kind_tid (f_kind fd)) sub = true | _ => True end)
        by (destruct sub; auto).
      pose proof (macc_wf S (refl_kind_tid (f_kind fd)) sub Hs2) as Hm.
      destruct (msg_macc_of sub) as [sf su]. cbn [fst] in Hm.
      destruct (IH (refl_kind_tid (f_kind fd)) false sf su Hm) as [A|[t' [r' [f' [u' [A B]]]]]].
      * left. intros op. specialize (A op).
        destruct (refl_focus S D w rest _ false op (sf, su)) as [m0 r0] eqn:Ef; cbn [snd] in *;
              first [exact A | pose proof (f_equal snd Ef) as Er; cbn [snd] in Er; rewrite <- Er; exact A].
      * right. exists t', r', f', u'. split; auto. intros op. specialize (B op).
        destruct (refl_focus S D w rest _ false op (sf, su)) as [m0 r0] eqn:Ef; cbn [snd] in *;
              first [exact B | pose proof (f_equal snd Ef) as Er; cbn [snd] in Er; rewrite <- Er; exact B].
Qed.

Lemma apply_snd : forall S D w path op fs u,
  snd (refl_apply S D w path op (VMsg fs u)) = snd (refl_focus S D w path O false op (fs, u)).
Proof.
  intros. unfold refl_apply. cbn [msg_macc_of].
  destruct (refl_focus S D w path O false op (fs, u)). reflexivity.
Qed.

(* ---------------------------------------------------------------- consequences *)
Lemma step_range : forall S D tid ro fs u, snd (refl_step S D tid ro RRange (fs, u)) = OState fs u.
Proof. intros. reflexivity. Qed.

Lemma step_has : forall S D tid ro fs u k,
  snd (refl_step S D tid ro (RHas k) (fs, u)) =
  match msg_find_field (nth tid S []) k with Some _ => OBool (refl_has fs k) | None => OPanic end.
Proof. intros. unfold refl_step. cbn. destruct (msg_find_field _ k); reflexivity. Qed.

Lemma wfm_declared : forall S md fs k, WFm S md fs -> In k (map fst fs) -> exists fd, msg_find_field md k = Some fd.
Proof.
  intros S md fs k [[_ Ho] _] Hin. apply in_map_iff in Hin. destruct Hin as [p [E Hp]].
  destruct (Ho p Hp) as [fd [Hf _]]. subst k. eauto.
Qed.

(* Range visits exactly the populated fields, each once -- at every path, in every reachable state *)
Theorem range_visits_populated_once : forall S D w path m fs u,
  refl_wf S O m = true ->
  snd (refl_apply S D w path RRange m) = OState fs u ->
  NoDup (map fst fs) /\
  forall k, In k (map fst fs) <-> snd (refl_apply S D w path (RHas k) m) = OBool true.
Proof.
  intros S D w path m fs u H E. destruct m as [s|fs0 u0|k v]; try discriminate.
  apply wf_unfold in H. rewrite apply_snd in E.
  destruct (focus_read S D w path O false fs0 u0 H) as [A|[t' [r' [f' [u' [A B]]]]]].
  - rewrite A in E. discriminate.
  - rewrite B, step_range in E. inversion E; subst f' u'. destruct A as [[Hs Ho] Hc]. split.
    + eapply ks_nodup; eauto.
    + intros k. rewrite apply_snd, B, step_has. split.
      * intros Hin. destruct (wfm_declared S _ fs k (conj (conj Hs Ho) Hc) Hin) as [fd Hf]. rewrite Hf.
        f_equal. eapply ks_has_iff; eauto.
      * destruct (msg_find_field _ k); [|discriminate]. intros Hb. inversion Hb.
        eapply ks_has_iff; eauto.
Qed.

(* oneofs: at most one populated member, and WhichOneof names it *)
Theorem oneof_exclusive : forall S md fs k1 k2 fd1 fd2 i,
  WFm S md fs ->
  msg_find_field md k1 = Some fd1 -> msg_find_field md k2 = Some fd2 ->
  f_oneof fd1 = Some i -> f_oneof fd2 = Some i ->
  refl_has fs k1 = true -> refl_has fs k2 = true -> k1 = k2.
Proof.
  intros S md fs k1 k2 fd1 fd2 i [[Hs Ho] _] H1 H2 O1 O2 P1 P2.
  assert (I1 : In (k1, msg_fget fs k1) fs).
  { apply fget_in. unfold refl_has in P1. destruct (msg_fget fs k1); [discriminate|discriminate]. }
  assert (I2 : In (k2, msg_fget fs k2) fs).
  { apply fget_in. unfold refl_has in P2. destruct (msg_fget fs k2); [discriminate|discriminate]. }
  destruct (Ho _ I1) as [fd [Hf Hq]]. cbn [fst] in *. rewrite H1 in Hf. inversion Hf; subst fd.
  symmetry. apply (Hq i O1 _ I2). cbn [fst]. unfold refl_in_oneof. rewrite H2, O2. apply N.eqb_refl.
Qed.

Lemma find_some_in : forall md k fd, msg_find_field md k = Some fd -> In fd md.
Proof.
  induction md as [|fd0 r IH]; intros k fd H; cbn [msg_find_field] in H; [discriminate|].
  destruct (f_num fd0 =? k); [inversion H; left; auto | right; eauto].
Qed.

Lemma find_in : forall md fd, NoDup (map f_num md) -> In fd md -> msg_find_field md (f_num fd) = Some fd.
Proof.
  induction md as [|fd0 r IH]; intros fd Hnd Hin; [destruct Hin|].
  cbn [msg_find_field]. cbn in Hnd. inversion Hnd; subst. destruct Hin as [->|Hin].
  - rewrite N.eqb_refl. auto.
  - destruct (N.eqb_spec (f_num fd0) (f_num fd)) as [E|E]; auto.
    exfalso. apply H1. rewrite E. apply in_map. auto.
Qed.

Lemma which_first : forall md o fs,
  (exists fd, In fd md /\ f_oneof fd = Some o /\ refl_has fs (f_num fd) = true) ->
  exists fd', In fd' md /\ f_oneof fd' = Some o /\ refl_has fs (f_num fd') = true /\
              refl_which md o fs = f_num fd'.
Proof.
  induction md as [|fd0 r IH]; intros o fs [fd [Hin [Ho Hh]]]; [destruct Hin|].
  cbn [refl_which].
  destruct (match f_oneof fd0 with Some j => j =? o | None => false end && refl_has fs (f_num fd0)) eqn:C.
  - apply andb_true_iff in C. destruct C as [C1 C2]. exists fd0. repeat split; auto; [left; auto|].
    destruct (f_oneof fd0); [|discriminate]. apply N.eqb_eq in C1. subst; auto.
  - destruct Hin as [->|Hin].
    + rewrite Ho, N.eqb_refl, Hh in C. discriminate.
    + destruct (IH o fs) as [fd' [A [B [C' E]]]]; [exists fd; auto|].
      exists fd'. repeat split; auto. right; auto.
Qed.

Theorem which_correct : forall S md fs k fd o,
  NoDup (map f_num md) -> WFm S md fs ->
  msg_find_field md k = Some fd -> f_oneof fd = Some o -> refl_has fs k = true ->
  refl_which md o fs = k.
Proof.
  intros S md fs k fd o Hnd H Hf Ho Hh.
  pose proof (find_field_num _ _ _ Hf) as Hn. pose proof (find_some_in _ _ _ Hf) as Hin.
  destruct (which_first md o fs) as [fd' [A [B [C E]]]].
  { exists fd. subst k. auto. }
  rewrite E. eapply oneof_exclusive; eauto. apply find_in; auto.
Qed.

(* Get of an unpopulated field: the default, or an empty read-only (invalid) composite *)
Theorem get_unpopulated_is_default : forall D tid fd fs,
  refl_has fs (f_num fd) = false ->
  refl_get D tid fd fs =
    if refl_is_map fd || refl_is_list fd then OVal false []
    else match f_kind fd with
         | KS sk => OVal true [VS (refl_default D tid (f_num fd) sk)]
         | _ => OVal false [msg_empty]
         end.
Proof.
  intros D tid fd fs H. unfold refl_get, refl_has in *.
  destruct (msg_fget fs (f_num fd)); [reflexivity|discriminate].
Qed.

(* writes through the read-only empty list / map panic and leave the message as it is *)
Theorem readonly_empty_list : forall S D tid ro fs u f o,
  refl_has fs f = false ->
  match o with LSet _ _ | LAppend _ | LTruncate _ | LAppendMutable => True | _ => False end ->
  refl_step S D tid ro (RList f true o) (fs, u) = ((fs, u), OPanic).
Proof.
  intros S D tid ro fs u f o Hh Ho. unfold refl_step.
  destruct (refl_op_wf _ _ _); cbn [negb]; auto.
  destruct (msg_find_field (nth tid S []) f) as [fd|] eqn:Hf; auto.
  pose proof (find_field_num _ _ _ Hf) as Hn. subst f.
  destruct (negb (refl_is_list fd)); auto.
  rewrite andb_false_r. rewrite Hh. cbn [negb andb].
  unfold refl_list_op, refl_list_edit. unfold refl_has in Hh.
  destruct (msg_fget fs (f_num fd)); [|discriminate].
  destruct o; try contradiction; cbn; auto.
  destruct i; reflexivity.
Qed.

Theorem readonly_empty_map : forall S D tid ro fs u f o,
  refl_has fs f = false ->
  match o with MSet _ _ | MMutable _ => True | _ => False end ->
  refl_step S D tid ro (RMap f true o) (fs, u) = ((fs, u), OPanic).
Proof.
  intros S D tid ro fs u f o Hh Ho. unfold refl_step.
  destruct (refl_op_wf _ _ _); cbn [negb]; auto.
  destruct (msg_find_field (nth tid S []) f) as [fd|] eqn:Hf; auto.
  pose proof (find_field_num _ _ _ Hf) as Hn. subst f.
  destruct (negb (refl_is_map fd)); auto.
  rewrite andb_false_r. rewrite Hh. cbn [negb andb].
  unfold refl_map_op, refl_map_edit. destruct o; try contradiction; cbn; auto.
Qed.

(* the read-only empty message: every write panics, nothing changes *)
Theorem readonly_empty_message_step : forall S D tid op fs u,
  match op with RSet _ _ | RClear _ | RMutable _ | RSetUnknown _ => True | _ => False end ->
  refl_step S D tid true op (fs, u) = ((fs, u), OPanic).
Proof.
  intros S D tid op fs u Ho. unfold refl_step.
  destruct (refl_op_wf _ _ _); cbn [negb]; auto.
  destruct op; try contradiction; cbn; auto; destruct (msg_find_field _ _); auto.
Qed.

(* reading through an unpopulated message field (navigation with Get) never changes the parent *)
Theorem readonly_empty_message : forall S D rest tid ro op fs u f,
  refl_has fs f = false ->
  fst (refl_focus S D false (PF f :: rest) tid ro op (fs, u)) = (fs, u).
Proof.
  intros S D rest tid ro op fs u f Hh. cbn [refl_focus].
  destruct (msg_find_field (nth tid S []) f) as [fd|]; auto.
  destruct (negb (refl_is_msg fd)); auto.
  unfold refl_has in Hh. destruct (msg_fget fs f); [|discriminate].
  rewrite andb_false_r.
  destruct (refl_focus S D false rest _ true op ([], [])). reflexivity.
Qed.

Theorem truncate_out_of_bounds : forall D tid fd lro vs n,
  N.of_nat (length vs) < n -> refl_list_edit D tid fd lro (LTruncate n) vs = (None, OPanic).
Proof.
  intros D tid fd lro vs n H. unfold refl_list_edit. destruct lro; auto.
  destruct (N.leb_spec n (N.of_nat (length vs))); auto. lia.
Qed.
