(* UnkP — proofs about unknown-field handling (C09). *)
From Coq Require Import List NArith ZArith Bool Lia.
From PB Require Import Base.PBytes Wire.WireModel Msg.MsgSchema Msg.MsgValue Msg.MsgEnc Msg.MsgDec Msg.MsgValid
  Msg.MsgSizeP Msg.UnkModel.
Import ListNotations.
Open Scope N_scope.

(* DiscardUnknown: no message of the decoded tree keeps unknown bytes *)
Lemma msg_strip_no_unknown : forall v, msg_has_unknown (msg_strip_unknown v) = false.
Proof.
  induction v as [s|fs unk IH|k v IH] using msg_value_ind.
  - reflexivity.
  - cbn [msg_strip_unknown msg_has_unknown negb orb].
    induction fs as [|p r IHr]; [reflexivity|].
    inversion IH as [|? ? Hp Hr]; subst.
    cbn [map existsb snd]. rewrite (IHr Hr), orb_false_r.
    clear - Hp. induction (snd p) as [|x l IHl]; [reflexivity|].
    inversion Hp as [|? ? Hx Hl]; subst. cbn [map existsb]. rewrite Hx, (IHl Hl). reflexivity.
  - exact IH.
Qed.

Theorem msg_discard_unknown slow S limit tid bs v :
  msg_decode_discard slow S limit tid bs = DOk v -> msg_has_unknown v = false.
Proof.
  unfold msg_decode_discard. destruct (msg_decode slow S limit tid bs) as [v0|e]; [|discriminate].
  intros H. inversion H; subst. apply msg_strip_no_unknown.
Qed.
