(* UnkP — proofs about unknown-field handling (C09).

   msg_unknown_preserved_step   a rejected occurrence is appended verbatim to the unknown section
   msg_unknown_untouched_step   any other occurrence leaves the unknown section alone
   (MergeP.msg_unknown_loop_k)  a run of rejected fields inside any input is appended in input order
   msg_unknown_reemitted        Marshal writes the unknown bytes after the known fields
   msg_discard_unknown          DiscardUnknown: no message of the tree keeps unknown bytes
   msg_schema_evolution_arbitrary_bytes_refuted, msg_schema_evolution_example
   msg_schema_evolution_kept_scalar   schema evolution: any deleted fields, kept populated fields of scalar kind
   msg_schema_evolution_top           schema evolution: any fields of the (non-recursive) root type deleted,
                                      kept and deleted fields of every kind (msg_*_agree: encoder, sizes and
                                      typing of the nested types do not change) *)
From Coq Require Import List Arith NArith ZArith Lia Bool Permutation.
From Coq Require Import ZifyBool ZifyNat ZifyN.
From PB Require Import Base.PBytes Wire.WireModel Wire.VarintP Wire.ScanP Msg.MsgSchema Msg.MsgValue Msg.MsgUtf8 Msg.MsgEnc Msg.MsgDec Msg.MsgValid
  Msg.MsgWireP Msg.MsgScalarP Msg.MsgAssocP Msg.MsgSizeP Msg.MsgRoundP Msg.MsgExample Msg.UnkModel Msg.MergeModel Msg.MergeP.
Ltac Zify.zify_post_hook ::= Z.div_mod_to_equations.
Import ListNotations.
Open Scope N_scope.

(* DiscardUnknown: no message of the decoded tree keeps unknown bytes *)
Lemma msg_strip_no_unknown : forall v, msg_has_unknown (msg_strip_unknown v) = false.
Proof.
  induction v as [s|fs unk IH|k v IH] using msg_value_ind.
  - reflexivity.
  - cbn [msg_strip_unknown msg_has_unknown negb orb].
    induction fs as [|p r IHr]; [reflexivity|].
    inversion IH as [|? ? Hp Hr]; subst.
    cbn [map existsb snd]. rewrite (IHr Hr), orb_false_r.
    clear - Hp. induction (snd p) as [|x l IHl]; [reflexivity|].
    inversion Hp as [|? ? Hx Hl]; subst. cbn [map existsb]. rewrite Hx, (IHl Hl). reflexivity.
  - exact IH.
Qed.

Theorem msg_discard_unknown slow S limit tid bs v :
  msg_decode_discard slow S limit tid bs = DOk v -> msg_has_unknown v = false.
Proof.
  unfold msg_decode_discard. destruct (msg_decode slow S limit tid bs) as [v0|e]; [|discriminate].
  intros H. inversion H; subst. apply msg_strip_no_unknown.
Qed.

(* a value parsed with the wire type of a scalar kind decodes as that kind *)
Lemma msg_dec_scalar_some sk utf8 num r w r' :
  parse_val 0 num (sk_wt sk) r = Ok (w, r') -> msg_dec_scalar sk utf8 w <> None.
Proof.
  rewrite parse_val_eq. unfold msg_dec_scalar.
  destruct sk; cbn [sk_wt];
    try (destruct (dec_varint r) as [[v rr]|e]; [|discriminate]; intros H; inversion H; subst; cbn [sk_dec]; discriminate);
    try (destruct (take 4 r) as [[b rr]|]; [|discriminate]; intros H; inversion H; subst; cbn [sk_dec]; discriminate);
    try (destruct (take 8 r) as [[b rr]|]; [|discriminate]; intros H; inversion H; subst; cbn [sk_dec]; discriminate);
    try (destruct (dec_bytes r) as [[b rr]|e]; [|discriminate]; intros H; inversion H; subst; cbn [sk_dec];
         destruct utf8; cbn [andb]; try discriminate; destruct (negb (MsgUtf8.msg_utf8_valid b)); discriminate).
Qed.

Section UnkStep.
  Variable slow : bool.
  Variable S : schema.
  Variable d : nat.
  Variable md : mdesc.
  Notation has2 := (match d with O => false | _ => true end).
  Notation step := (msg_step slow md (msg_decode_msg slow S d) (msg_dsub2 slow S d)).

  (* a field the schema has no entry for, or whose wire type the field's kind rejects, is appended
     to the unknown section: the tag bytes given by the caller (minimal re-encoding on the
     table-driven path, the raw bytes on the reflection path) and the value bytes exactly as read *)
  Lemma msg_unknown_preserved_step tagraw num typ r acc acc' r' :
    msg_rejects md has2 num typ = true ->
    step tagraw num typ r acc = DOk (acc', r') ->
    acc' = (fst acc, snd acc ++ tagraw ++ firstn (length r - length r') r) /\
    exists w, parse_val default_dep num typ r = Ok (w, r').
  Proof.
    intros Hrej H. rewrite (msg_rejects_step slow S d md tagraw num typ r acc Hrej) in H.
    unfold msg_unknown in H. destruct (parse_val default_dep num typ r) as [[w rr]|e]; [|discriminate].
    inversion H; subst. split; [reflexivity|]. exists w. reflexivity.
  Qed.

  (* every other field leaves the unknown section as it is *)
  Lemma msg_unknown_untouched_step tagraw num typ r acc acc' r' :
    msg_rejects md has2 num typ = false ->
    step tagraw num typ r acc = DOk (acc', r') ->
    snd acc' = snd acc.
  Proof.
    unfold msg_rejects, msg_step. destruct (msg_find_field md num) as [fd|]; [|discriminate].
    assert (Hnm : forall (c : card),
      (match f_kind fd with
       | KMsg _ => negb (typ =? 2)
       | KGrp _ => negb (typ =? 3)
       | KS sk => negb (typ =? sk_wt sk) && negb ((typ =? 2) && msg_packable sk && card_repeated c)
       end) = false ->
      (match f_kind fd with
       | KMsg tid =>
         if typ =? 2 then
           match dec_bytes r with
           | Err _ => DErr DParse
           | Ok (payload, r') =>
             match msg_whole (msg_decode_msg slow S d) tid payload (msg_old_sub fd (fst acc)) with
             | DErr e => DErr e
             | DOk m => DOk ((msg_store_sub md fd m (fst acc), snd acc), r')
             end
           end
         else msg_unknown tagraw num typ r acc
       | KGrp tid =>
         if typ =? 3 then
           if slow then
             match consume_group num r with
             | Err _ => DErr DParse
             | Ok (None, _) => DErr DFuel
             | Ok (Some content, n) =>
               match msg_whole (msg_decode_msg slow S d) tid content (msg_old_sub fd (fst acc)) with
               | DErr e => DErr e
               | DOk m => DOk ((msg_store_sub md fd m (fst acc), snd acc), skipn (N.to_nat n) r)
               end
             end
           else
             match msg_decode_msg slow S d tid num (x00 :: r) r (msg_old_sub fd (fst acc)) with
             | DErr e => DErr e
             | DOk (m, r') => DOk ((msg_store_sub md fd m (fst acc), snd acc), r')
             end
         else msg_unknown tagraw num typ r acc
       | KS sk =>
         if typ =? sk_wt sk then
           match parse_val 0 num typ r with
           | Err _ => DErr DParse
           | Ok (w, r') =>
             match msg_dec_scalar sk (msg_field_utf8 slow fd) w with
             | None => msg_unknown tagraw num typ r acc
             | Some (DErr e) => DErr e
             | Some (DOk s) =>
               DOk ((if card_repeated c then msg_append_field fd [VS s] (fst acc)
                     else msg_set_field md fd (VS s) (fst acc), snd acc), r')
             end
           end
         else if (typ =? 2) && msg_packable sk && card_repeated c then
           match dec_bytes r with
           | Err _ => DErr DParse
           | Ok (payload, r') =>
             match msg_dec_packed (x00 :: payload) sk payload [] with
             | DErr e => DErr e
             | DOk vs => DOk ((msg_append_field fd vs (fst acc), snd acc), r')
             end
           end
         else msg_unknown tagraw num typ r acc
       end) = DOk (acc', r') -> snd acc' = snd acc).
    { intros c Hrej H. destruct (f_kind fd) as [sk|t|t].
      - destruct (N.eqb_spec typ (sk_wt sk)) as [->|Hne].
        + destruct (parse_val 0 num (sk_wt sk) r) as [[w rr]|e] eqn:Hp; [|discriminate].
          pose proof (msg_dec_scalar_some sk (msg_field_utf8 slow fd) num r w rr Hp) as Hs.
          destruct (msg_dec_scalar sk (msg_field_utf8 slow fd) w) as [[s|e]|]; [|discriminate|congruence].
          inversion H; subst. reflexivity.
        + cbn [negb andb] in Hrej. apply negb_false_iff in Hrej. rewrite Hrej in H.
          destruct (dec_bytes r) as [[payload rr]|e]; [|discriminate].
          destruct (msg_dec_packed (x00 :: payload) sk payload []) as [vs|e]; [|discriminate].
          inversion H; subst. reflexivity.
      - apply negb_false_iff in Hrej. rewrite Hrej in H.
        destruct (dec_bytes r) as [[payload rr]|e]; [|discriminate].
        destruct (msg_whole (msg_decode_msg slow S d) t payload (msg_old_sub fd (fst acc))) as [m|e]; [|discriminate].
        inversion H; subst. reflexivity.
      - apply negb_false_iff in Hrej. rewrite Hrej in H. destruct slow.
        + destruct (consume_group num r) as [[[content|] n]|e]; try discriminate.
          destruct (msg_whole (msg_decode_msg true S d) t content (msg_old_sub fd (fst acc))) as [m|e]; [|discriminate].
          inversion H; subst. reflexivity.
        + destruct (msg_decode_msg false S d t num (x00 :: r) r (msg_old_sub fd (fst acc))) as [[m rr]|e]; [|discriminate].
          inversion H; subst. reflexivity. }
    destruct (f_card fd) as [| | | | |kk ku vd]; try (apply Hnm).
    intros Hrej H. destruct d as [|d1]; cbn [msg_dsub2] in H; [discriminate|].
    cbn [andb] in Hrej. apply negb_false_iff in Hrej. rewrite Hrej in H.
    destruct (dec_bytes r) as [[payload rr]|e]; [|discriminate].
    match type of H with context [msg_dec_entry ?a ?b ?c ?dd ?e ?f ?g ?h ?i] =>
      destruct (msg_dec_entry a b c dd e f g h i) as [[key v]|e0]; [|discriminate] end.
    inversion H; subst. reflexivity.
  Qed.
End UnkStep.

(* Marshal re-emits the unknown bytes, after all known fields *)
Lemma msg_unknown_reemitted S tid fs u : msg_encode S tid (VMsg fs u) = msg_encode S tid (VMsg fs []) ++ u.
Proof. unfold msg_encode. cbn [msg_enc_body]. rewrite app_nil_r. reflexivity. Qed.

(* schema evolution is false for arbitrary byte strings: a oneof split between a known and a
   deleted member.  S: oneof { int32 a = 1; int32 b = 2 }, S' = S without b, input: b = 2, a = 1 *)
Definition ex_evo : schema :=
  [[mkF 1 (KS SkInt32) COpt (Some 0) false false false; mkF 2 (KS SkInt32) COpt (Some 0) false false false]].
Lemma msg_schema_evolution_arbitrary_bytes_refuted :
  exists S keep bs v v',
    msg_decode false S 100 0 bs = DOk v /\
    msg_evolve false S (msg_restrict keep S) 100 bs = DOk v' /\ v <> v'.
Proof.
  exists ex_evo, (fun _ n => negb (n =? 2)), (map n2b [16; 2; 8; 1]). do 2 eexists.
  split; [vm_compute; reflexivity|]. split; [vm_compute; reflexivity|]. discriminate.
Qed.

(* ... and holds (by computation) on the example message of C03 with fields, an extension and a
   field of the nested message type deleted *)
Definition ex_keep (tid : nat) (n : N) : bool := negb (existsb (N.eqb n) [1; 3; 4; 7; 100]).
Example msg_schema_evolution_example :
  msg_evolve false ex_schema (msg_restrict ex_keep ex_schema) 3 (msg_encode ex_schema 0 ex_msg) = DOk ex_msg /\
  (exists v', msg_decode true (msg_restrict ex_keep ex_schema) 3 0 (msg_encode ex_schema 0 ex_msg) = DOk v' /\
              msg_has_unknown v' = true /\ v' <> ex_msg).
Proof. split; [vm_compute; reflexivity|]. eexists. split; [vm_compute; reflexivity|]. split; [vm_compute; reflexivity|discriminate]. Qed.

(* ================= schema evolution: arbitrary deleted fields, kept fields of scalar kind ================= *)
(* ---------- the restricted schema ---------- *)
Lemma msg_restrict_from_nth keep : forall S k tid,
  nth_error (msg_restrict_from keep k S) tid =
  match nth_error S tid with
  | Some md => Some (filter (fun fd => keep (k + tid)%nat (f_num fd)) md)
  | None => None
  end.
Proof.
  induction S as [|md S IH]; intros k tid; cbn [msg_restrict_from]; [destruct tid; reflexivity|].
  destruct tid as [|tid]; cbn [nth_error].
  - rewrite Nat.add_0_r. reflexivity.
  - rewrite IH. replace (Datatypes.S k + tid)%nat with (k + Datatypes.S tid)%nat by lia. reflexivity.
Qed.

Lemma msg_find_filter (f : N -> bool) : forall md num,
  msg_find_field (filter (fun fd => f (f_num fd)) md) num =
  if f num then msg_find_field md num else None.
Proof.
  induction md as [|fd md IH]; intros num; cbn [filter msg_find_field]; [destruct (f num); reflexivity|].
  destruct (N.eqb_spec (f_num fd) num) as [E|E].
  - rewrite E. destruct (f num) eqn:Hf.
    + cbn [msg_find_field]. rewrite <- E at 1. rewrite N.eqb_refl. reflexivity.
    + rewrite IH, Hf. reflexivity.
  - destruct (f (f_num fd)); [cbn [msg_find_field]; destruct (N.eqb_spec (f_num fd) num); [congruence|]|]; apply IH.
Qed.

(* ---------- scalar-kinded fields do not look at sub-message encoders / typing ---------- *)
Lemma msg_typed_field_scalar slow eb tv tv2 eb' tv' tv2' has2 fd vs sk :
  f_kind fd = KS sk ->
  msg_typed_field slow eb tv tv2 has2 fd vs = msg_typed_field slow eb' tv' tv2' has2 fd vs.
Proof. intros Hk. unfold msg_typed_field, msg_typed_elem, msg_typed_entry. rewrite Hk. reflexivity. Qed.
Lemma msg_szok_field_scalar sb ok sb' ok' fd vs sk :
  f_kind fd = KS sk -> msg_szok_field sb ok fd vs = msg_szok_field sb' ok' fd vs.
Proof. intros Hk. unfold msg_szok_field, msg_szok_elem, msg_szok_entry, msg_size_elem. rewrite Hk. reflexivity. Qed.
Lemma msg_enc_field_scalar eb eb' fd vs sk :
  f_kind fd = KS sk -> msg_enc_field eb fd vs = msg_enc_field eb' fd vs.
Proof. intros Hk. unfold msg_enc_field, msg_enc_entry, msg_enc_elem. rewrite Hk. reflexivity. Qed.

Lemma msg_perm_filter_split {A} (f : A -> bool) (l : list A) :
  Permutation (filter f l ++ filter (fun x => negb (f x)) l) l.
Proof.
  induction l as [|a l IH]; [reflexivity|]. cbn [filter]. destruct (f a); cbn [negb app].
  - constructor. exact IH.
  - etransitivity; [apply Permutation_sym, Permutation_middle|]. constructor. exact IH.
Qed.

Lemma msg_firstn_len' {A} (a b : list A) n : n = length a -> firstn n (a ++ b) = a.
Proof. intros ->. induction a as [|x a IH]; [reflexivity|]. cbn [length app firstn]. now rewrite IH. Qed.

Section EvoDec.
  Variable S' : schema.
  Notation dm := (msg_decode_msg true S').
  Variables (d tid : nat) (md' : mdesc) (grp : N).
  Hypothesis Hmd' : nth_error S' tid = Some md'.
  Notation has2 := (match d with O => false | _ => true end).

  (* one well-formed field that md' rejects, on the reflection path: kept verbatim *)
  Lemma msg_dm_unknown_field num typ val tail accf U g w :
    1 <= num -> num <= msg_max_num -> typ < 8 -> typ <> 4 ->
    msg_rejects md' has2 num typ = true ->
    parse_val default_dep num typ (val ++ tail) = Ok (w, tail) ->
    (length (enc_tag num typ ++ val ++ tail) < length g)%nat ->
    exists g2, (length tail < length g2)%nat /\
      dm (Datatypes.S d) tid grp g (enc_tag num typ ++ val ++ tail) (accf, U) =
      dm (Datatypes.S d) tid grp g2 tail (accf, U ++ enc_tag num typ ++ val).
  Proof.
    intros Hlo Hhi Ht Ht4 Hrej Hpv Hg. destruct g as [|x g]; [cbn in Hg; lia|].
    exists g. split.
    - destruct (msgw_enc_tag_nonempty num typ) as (b & r & E). rewrite E in Hg.
      cbn [length app] in Hg. rewrite !app_length in Hg. lia.
    - rewrite (msg_dm_unfold true S' d tid grp md' x g _ (accf, U) Hmd').
      destruct (msgw_enc_tag_nonempty num typ) as (b & r & E).
      assert (Hne : exists b0 r0, enc_tag num typ ++ val ++ tail = b0 :: r0)
        by (rewrite E; eexists; eexists; reflexivity).
      destruct Hne as (b0 & r0 & E0). rewrite E0. cbv iota. rewrite <- E0.
      rewrite msg_max_num_eq in Hhi.
      rewrite msgw_dec_tag_enc by lia.
      replace (msg_max_num <? num) with false by (rewrite msg_max_num_eq; lia).
      rewrite andb_false_r. cbv zeta.
      rewrite msg_rejects_step; [|exact Hrej].
      unfold msg_unknown. rewrite Hpv. cbn [fst snd]. f_equal. f_equal. f_equal. f_equal.
      + apply msg_firstn_len'. rewrite !app_length. lia.
      + apply msg_firstn_len'. rewrite !app_length. lia.
  Qed.

  Variable S : schema.   (* the schema of the encoder *)
  Notation eb := (msg_enc_body S).

  (* one element (scalar, length-delimited message, group) of a field md' does not have *)
  Lemma msg_dm_deleted_elem tv fd v accf U tail g :
    1 <= f_num fd -> f_num fd <= msg_max_num -> msg_find_field md' (f_num fd) = None ->
    msg_typed_elem true eb tv fd v = true ->
    msg_szok_elem (msg_size_body S) (msg_sizes_ok S) (f_kind fd) v = true ->
    (length (msg_enc_elem eb (f_num fd) (f_kind fd) v ++ tail) < length g)%nat ->
    exists g2, (length tail < length g2)%nat /\
      dm (Datatypes.S d) tid grp g (msg_enc_elem eb (f_num fd) (f_kind fd) v ++ tail) (accf, U) =
      dm (Datatypes.S d) tid grp g2 tail (accf, U ++ msg_enc_elem eb (f_num fd) (f_kind fd) v).
  Proof.
    intros Hlo Hhi Hnone Hty Hsz Hg.
    assert (Hrej : forall typ, msg_rejects md' has2 (f_num fd) typ = true)
      by (intros typ; unfold msg_rejects; rewrite Hnone; reflexivity).
    unfold msg_typed_elem in Hty. unfold msg_enc_elem, msg_szok_elem in *.
    destruct (f_kind fd) as [sk|t|t]; destruct v as [s|fs' u'|k0 v0]; try discriminate.
    - apply andb_true_iff in Hty. destruct Hty as [Hok _]. rewrite <- app_assoc in *.
      apply (msg_dm_unknown_field (f_num fd) (sk_wt sk) (msg_enc_scalar sk s) tail accf U g (sk_enc sk s));
        try assumption; [destruct sk; cbn; lia|destruct sk; cbn; lia|apply Hrej|].
      apply msg_parse_scalar; assumption.
    - apply andb_true_iff in Hsz. destruct Hsz as [Hsok Hslt].
      pose proof (msg_body_len S t _ Hsok Hslt) as Hlen. rewrite <- app_assoc in *.
      apply (msg_dm_unknown_field (f_num fd) 2 (enc_bytes (eb t (VMsg fs' u'))) tail accf U g (WLen (eb t (VMsg fs' u'))));
        try assumption; try lia; [apply Hrej|].
      rewrite msg_parse_val_len, (msgw_dec_bytes_enc _ _ Hlen). reflexivity.
    - apply andb_true_iff in Hty. destruct Hty as [_ Hscan]. cbn [negb orb] in Hscan.
      unfold msg_group_scans in Hscan.
      destruct (parse_val default_dep (f_num fd) 3 (eb t (VMsg fs' u') ++ enc_tag (f_num fd) 4)) as [[w [|? ?]]|e] eqn:Hpv;
        try discriminate.
      destruct (msg_parse_val_ext _ _ _ _ _ _ tail Hpv) as (w' & Hpv'). cbn [app] in Hpv'.
      replace ((enc_tag (f_num fd) 3 ++ eb t (VMsg fs' u') ++ enc_tag (f_num fd) 4) ++ tail)
        with (enc_tag (f_num fd) 3 ++ (eb t (VMsg fs' u') ++ enc_tag (f_num fd) 4) ++ tail) in *
        by (rewrite <- !app_assoc; reflexivity).
      destruct (msg_dm_unknown_field (f_num fd) 3 (eb t (VMsg fs' u') ++ enc_tag (f_num fd) 4) tail accf U g w')
        as (g2 & Hg2 & E); try assumption; try lia; [apply Hrej|].
      exists g2. split; [exact Hg2|]. etransitivity; [exact E|]. try rewrite <- !app_assoc; reflexivity.
  Qed.

  Lemma msg_dm_deleted_elems tv fd : forall vs accf U tail g,
    1 <= f_num fd -> f_num fd <= msg_max_num -> msg_find_field md' (f_num fd) = None ->
    forallb (msg_typed_elem true eb tv fd) vs = true ->
    forallb (msg_szok_elem (msg_size_body S) (msg_sizes_ok S) (f_kind fd)) vs = true ->
    (length (flat_map (fun e => msg_enc_elem eb (f_num fd) (f_kind fd) e) vs ++ tail) < length g)%nat ->
    exists g2, (length tail < length g2)%nat /\
      dm (Datatypes.S d) tid grp g (flat_map (fun e => msg_enc_elem eb (f_num fd) (f_kind fd) e) vs ++ tail) (accf, U) =
      dm (Datatypes.S d) tid grp g2 tail (accf, U ++ flat_map (fun e => msg_enc_elem eb (f_num fd) (f_kind fd) e) vs).
  Proof.
    induction vs as [|v vs IH]; intros accf U tail g Hlo Hhi Hnone Hty Hsz Hg.
    - exists g. cbn [flat_map app] in *. rewrite app_nil_r. split; [exact Hg|reflexivity].
    - cbn [forallb] in Hty, Hsz. apply andb_true_iff in Hty. destruct Hty as [Htv Hty].
      apply andb_true_iff in Hsz. destruct Hsz as [Hsv Hsz].
      cbn [flat_map] in *. rewrite <- !app_assoc in *.
      destruct (msg_dm_deleted_elem tv fd v accf U _ g Hlo Hhi Hnone Htv Hsv Hg) as (g1 & Hg1 & E1).
      destruct (IH accf (U ++ msg_enc_elem eb (f_num fd) (f_kind fd) v) tail g1 Hlo Hhi Hnone Hty Hsz Hg1) as (g2 & Hg2 & E2).
      exists g2. split; [exact Hg2|]. etransitivity; [exact E1|]. etransitivity; [exact E2|]. rewrite <- !app_assoc. reflexivity.
  Qed.

  Lemma msg_dm_deleted_len num payload accf U tail g :
    1 <= num -> num <= msg_max_num -> msg_find_field md' num = None ->
    N.of_nat (length payload) < 2^64 ->
    (length (enc_tag num 2 ++ enc_bytes payload ++ tail) < length g)%nat ->
    exists g2, (length tail < length g2)%nat /\
      dm (Datatypes.S d) tid grp g (enc_tag num 2 ++ enc_bytes payload ++ tail) (accf, U) =
      dm (Datatypes.S d) tid grp g2 tail (accf, U ++ enc_tag num 2 ++ enc_bytes payload).
  Proof.
    intros Hlo Hhi Hnone Hlen Hg.
    apply (msg_dm_unknown_field num 2 (enc_bytes payload) tail accf U g (WLen payload)); try assumption; try lia.
    - unfold msg_rejects. rewrite Hnone. reflexivity.
    - rewrite msg_parse_val_len, (msgw_dec_bytes_enc _ _ Hlen). reflexivity.
  Qed.

  Lemma msg_dm_deleted_entries num kk vk : forall es accf U tail g,
    1 <= num -> num <= msg_max_num -> msg_find_field md' num = None ->
    Forall (fun e => msg_szok_entry (msg_size_body S) (msg_sizes_ok S) kk vk e = true /\
                     match e with VEntry _ _ => True | _ => False end) es ->
    (length (flat_map (fun e => msg_enc_entry eb num kk vk e) es ++ tail) < length g)%nat ->
    exists g2, (length tail < length g2)%nat /\
      dm (Datatypes.S d) tid grp g (flat_map (fun e => msg_enc_entry eb num kk vk e) es ++ tail) (accf, U) =
      dm (Datatypes.S d) tid grp g2 tail (accf, U ++ flat_map (fun e => msg_enc_entry eb num kk vk e) es).
  Proof.
    induction es as [|e es IH]; intros accf U tail g Hlo Hhi Hnone Hall Hg.
    - exists g. cbn [flat_map app] in *. rewrite app_nil_r. split; [exact Hg|reflexivity].
    - inversion Hall as [|? ? [Hsz Hshape] Hes]; subst.
      destruct e as [|?|key v]; try contradiction.
      cbn [flat_map msg_enc_entry] in *. rewrite <- !app_assoc in *.
      cbn [msg_szok_entry] in Hsz.
      apply andb_true_iff in Hsz. destruct Hsz as [Hsz Hblen].
      apply andb_true_iff in Hsz. destruct Hsz as [Hkw Hvsz].
      assert (Hbody : N.of_nat (length (msg_enc_key kk key ++ msg_enc_elem eb 2 vk v)) < 2^64).
      { rewrite app_length, Nnat.Nat2N.inj_add.
        rewrite <- (msg_size_key_eq kk key Hkw).
        rewrite <- (msg_size_elem_eq (msg_size_body S) eb (msg_sizes_ok S) 2 vk v);
          [rewrite <- msg_two64_eq; lia|cbn; lia|apply (proj1 (msg_size_eq_deep S v))|exact Hvsz]. }
      destruct (msg_dm_deleted_len num (msg_enc_key kk key ++ msg_enc_elem eb 2 vk v) accf U
                  (flat_map (fun e => msg_enc_entry eb num kk vk e) es ++ tail) g
                  Hlo Hhi Hnone Hbody Hg) as (g1 & Hg1 & E1).
      destruct (IH accf (U ++ enc_tag num 2 ++ enc_bytes (msg_enc_key kk key ++ msg_enc_elem eb 2 vk v)) tail g1
                  Hlo Hhi Hnone Hes Hg1) as (g2 & Hg2 & E2).
      exists g2. split; [exact Hg2|]. etransitivity; [exact E1|]. etransitivity; [exact E2|]. rewrite <- !app_assoc. reflexivity.
  Qed.

  (* a field of the full schema that md' does not have: all its occurrences are kept verbatim *)
  Lemma msg_dm_deleted_field tv tv2 h2 fd vs accf U tail g :
    msg_find_field md' (f_num fd) = None ->
    msg_typed_field true eb tv tv2 h2 fd vs = true ->
    msg_szok_field (msg_size_body S) (msg_sizes_ok S) fd vs = true ->
    (length (msg_enc_field eb fd vs ++ tail) < length g)%nat ->
    exists g2, (length tail < length g2)%nat /\
      dm (Datatypes.S d) tid grp g (msg_enc_field eb fd vs ++ tail) (accf, U) =
      dm (Datatypes.S d) tid grp g2 tail (accf, U ++ msg_enc_field eb fd vs).
  Proof.
    intros Hnone Hty Hsz Hg.
    unfold msg_typed_field in Hty. unfold msg_szok_field in Hsz. unfold msg_enc_field in *.
    apply andb_true_iff in Hty. destruct Hty as [Hnum Hty].
    apply andb_true_iff in Hnum. destruct Hnum as [Hlo Hhi].
    apply andb_true_iff in Hsz. destruct Hsz as [_ Hsz].
    assert (Hlo' : 1 <= f_num fd) by lia. assert (Hhi' : f_num fd <= msg_max_num) by lia.
    destruct (f_card fd) as [| | | | |kk kutf8 vdef] eqn:Hc.
    - destruct vs as [|v [|]]; try discriminate. apply (msg_dm_deleted_elems tv fd); try assumption.
      cbn [forallb]. rewrite Hty. reflexivity.
    - destruct vs as [|v [|]]; try discriminate. apply andb_true_iff in Hty. destruct Hty as [Hty _].
      apply (msg_dm_deleted_elems tv fd); try assumption. cbn [forallb]. rewrite Hty. reflexivity.
    - destruct vs as [|v [|]]; try discriminate. apply (msg_dm_deleted_elems tv fd); try assumption.
      cbn [forallb]. rewrite Hty. reflexivity.
    - apply (msg_dm_deleted_elems tv fd); try assumption. destruct vs; [discriminate|exact Hty].
    - assert (Htyv : forallb (msg_typed_elem true eb tv fd) vs = true) by (destruct vs; [discriminate|exact Hty]).
      destruct (f_kind fd) as [sk|t|t] eqn:Hk.
      + destruct vs as [|v0 vs']; [discriminate|].
        destruct (msg_packable sk) eqn:Hp.
        * apply andb_true_iff in Hsz. destruct Hsz as [Hszv Hplen].
          pose proof (msg_packed_eq (msg_size_body S) (msg_sizes_ok S) sk (v0 :: vs') Hszv) as Hpe.
          assert (Hlen : N.of_nat (length (msg_enc_packed_payload sk (v0 :: vs'))) < 2^64)
            by (rewrite <- Hpe, <- msg_two64_eq; lia).
          rewrite <- !app_assoc in *.
          destruct (msg_dm_deleted_len (f_num fd) (msg_enc_packed_payload sk (v0 :: vs')) accf U tail g Hlo' Hhi' Hnone Hlen Hg) as (g2 & Hg2 & E).
          exists g2. split; [exact Hg2|]. etransitivity; [exact E|]. try rewrite <- !app_assoc; reflexivity.
        * rewrite <- Hk in *. apply (msg_dm_deleted_elems tv fd); assumption.
      + rewrite <- Hk in *. apply (msg_dm_deleted_elems tv fd); assumption.
      + rewrite <- Hk in *. apply (msg_dm_deleted_elems tv fd); assumption.
    - apply andb_true_iff in Hty. destruct Hty as [Hty _].
      apply andb_true_iff in Hty. destruct Hty as [_ Hty].
      assert (Htye : forallb (msg_typed_entry tv2 fd kk kutf8) vs = true) by (destruct vs; [discriminate|exact Hty]).
      apply msg_dm_deleted_entries; try assumption.
      rewrite forallb_forall in Htye, Hsz. apply Forall_forall. intros e He. split; [apply Hsz, He|].
      specialize (Htye e He). unfold msg_typed_entry in Htye. destruct e; try discriminate. exact I.
  Qed.
End EvoDec.

Lemma msg_flat_map_ext_in {A B} (f g : A -> list B) l : (forall x, In x l -> f x = g x) -> flat_map f l = flat_map g l.
Proof.
  induction l as [|a l IH]; intros H; [reflexivity|]. cbn [flat_map].
  rewrite (H a (or_introl eq_refl)), IH; [reflexivity|]. intros x Hx. apply H. right. exact Hx.
Qed.

(* deleting fields only makes the message type reject more *)
Lemma msg_rejects_filter (f : N -> bool) md h num typ :
  msg_rejects md h num typ = true -> msg_rejects (filter (fun fd => f (f_num fd)) md) h num typ = true.
Proof. unfold msg_rejects. rewrite msg_find_filter. destruct (f num); [exact (fun H => H)|reflexivity]. Qed.

Lemma msg_unknown_ok_filter (f : N -> bool) md h : forall g u,
  msg_unknown_ok true md h g u = true -> msg_unknown_ok true (filter (fun fd => f (f_num fd)) md) h g u = true.
Proof.
  induction g as [|x g IH]; intros u H; [discriminate|]. cbn [msg_unknown_ok] in *.
  destruct u as [|b0 u0]; [reflexivity|].
  destruct (dec_tag (b0 :: u0)) as [[[num typ] r]|e]; [|discriminate].
  destruct (parse_val default_dep num typ r) as [[w r']|e]; [|discriminate].
  repeat (apply andb_true_iff in H; destruct H as [H ?]).
  repeat (apply andb_true_iff; split); try assumption.
  - apply msg_rejects_filter; assumption.
  - apply IH; assumption.
Qed.

Section EvoFlat.
  Variable S : schema.
  Variable keep : nat -> N -> bool.
  Notation S' := (msg_restrict keep S).
  Notation dm' := (msg_decode_msg true S').
  Notation eb := (msg_enc_body S).
  Notation eb' := (msg_enc_body S').
  Variables (d : nat) (md : mdesc) (fs : fields).
  Hypothesis Hmd : nth_error S O = Some md.
  Notation md' := (filter (fun fd => keep O (f_num fd)) md).
  Notation has2 := (match d with O => false | _ => true end).
  Notation tv2 := (fun t x => match d with O => false | Datatypes.S d1 => msg_typed true S d1 t x end).
  Notation kp := (fun p : N * list value => keep O (fst p)).
  Notation chunk := (fun p => snd (msg_enc_chunk eb md p)).

  Hypothesis Hchunks : forall p, In p fs -> msg_typed_chunk true eb (msg_typed true S d) tv2 has2 md p = true.
  Hypothesis Hszc : forall p, In p fs -> msg_szok_chunk (msg_size_body S) (msg_sizes_ok S) md p = true.
  Hypothesis Hone : msg_oneofs_ok md fs = true.
  Hypothesis Hflat : msg_kept_scalar (keep O) md fs = true.

  Lemma msg_restrict_md' : nth_error S' O = Some md'.
  Proof. unfold msg_restrict. rewrite msg_restrict_from_nth, Hmd. reflexivity. Qed.

  Lemma msg_evo_field_of p : In p fs ->
    exists fd, msg_find_field md (fst p) = Some fd /\ f_num fd = fst p /\
               (keep O (fst p) = true -> exists sk, f_kind fd = KS sk).
  Proof.
    intros Hp. pose proof (Hchunks p Hp) as Hty. unfold msg_typed_chunk in Hty.
    destruct (msg_find_field md (fst p)) as [fd|] eqn:Hf; [|discriminate].
    exists fd. split; [reflexivity|]. split; [exact (msg_find_field_num _ _ _ Hf)|].
    intros Hk. unfold msg_kept_scalar in Hflat. rewrite forallb_forall in Hflat. specialize (Hflat p Hp).
    rewrite Hk, Hf in Hflat. cbn [negb orb] in Hflat.
    unfold msg_scalar_kind in Hflat. destruct (f_kind fd) as [sk| |]; try discriminate. exists sk. reflexivity.
  Qed.

  (* decoding the encoding (full schema) of the fields P with the reduced schema: kept fields are
     decoded, the others are retained, in the order of the input *)
  Lemma msg_evo_chunks grp : forall P accf U tail g,
    (forall p, In p P -> In p fs) ->
    NoDup (msg_keys P ++ msg_keys accf) ->
    (forall k, In k (msg_keys accf) -> In k (msg_keys fs)) ->
    (length (flat_map chunk P ++ tail) < length g)%nat ->
    exists g2, (length tail < length g2)%nat /\
      dm' (Datatypes.S d) O grp g (flat_map chunk P ++ tail) (accf, U) =
      dm' (Datatypes.S d) O grp g2 tail
          (msg_ins_all (filter kp P) accf, U ++ flat_map chunk (filter (fun p => negb (kp p)) P)).
  Proof.
    induction P as [|p P IH]; intros accf U tail g Hin Hnd Hsub Hg.
    - exists g. cbn [flat_map app filter msg_ins_all fold_left] in *. rewrite app_nil_r. split; [exact Hg|reflexivity].
    - assert (Hp : In p fs) by (apply Hin; left; reflexivity).
      destruct (msg_evo_field_of p Hp) as (fd & Hf & Hnum & Hks).
      pose proof (Hchunks p Hp) as Hty. pose proof (Hszc p Hp) as Hsz.
      unfold msg_typed_chunk in Hty. unfold msg_szok_chunk in Hsz. rewrite Hf in Hty, Hsz.
      assert (Hc : chunk p = msg_enc_field eb fd (snd p)) by (unfold msg_enc_chunk; rewrite Hf; reflexivity).
      cbn [flat_map filter] in *. cbv beta in Hc. rewrite Hc in *. rewrite <- app_assoc in *.
      cbn [msg_keys map app] in Hnd. fold (msg_keys P) in Hnd.
      assert (HinP : forall q, In q P -> In q fs) by (intros q Hq; apply Hin; right; exact Hq).
      destruct (keep O (fst p)) eqn:Hkeep; cbn [negb].
      + (* kept *)
        destruct (Hks eq_refl) as (sk & Hk).
        assert (Hf' : msg_find_field md' (f_num fd) = Some fd).
        { rewrite (msg_find_filter (keep O)), Hnum, Hkeep, Hf. reflexivity. }
        assert (Hnot : ~ In (f_num fd) (msg_keys accf)).
        { rewrite Hnum. inversion Hnd as [|? ? Hn _]; subst. intros Hk'. apply Hn, in_or_app. right. exact Hk'. }
        assert (Hfree : msg_oneof_free md' fd (f_num fd :: msg_keys accf)).
        { pose proof (msg_oneofs_ok_free md fs p fd Hone Hp Hf) as Hfr.
          intros oi Hoi fd' Hin' Hoi' Hne Hk'. apply filter_In in Hin'. destruct Hin' as [Hin' _].
          apply (Hfr oi Hoi fd' Hin' Hoi' Hne).
          destruct Hk' as [Hk'|Hk']; [congruence|apply Hsub; exact Hk']. }
        rewrite (msg_enc_field_scalar eb eb' fd (snd p) sk Hk) in *.
        destruct (msg_field_step true S' d O md' grp msg_restrict_md' fd (snd p) accf U
                    (flat_map chunk P ++ tail) g Hf') as (g1 & Hg1 & E1); try assumption.
        * rewrite <- (msg_typed_field_scalar true eb (msg_typed true S d) tv2 eb' (msg_typed true S' d)
                        (fun t x => match d with O => false | Datatypes.S d1 => msg_typed true S' d1 t x end)
                        has2 fd (snd p) sk Hk). exact Hty.
        * rewrite <- (msg_szok_field_scalar (msg_size_body S) (msg_sizes_ok S) (msg_size_body S') (msg_sizes_ok S') fd (snd p) sk Hk).
          exact Hsz.
        * apply Forall_forall. intros v _. apply msg_dec_stmt_all.
        * destruct (IH (msg_fset accf (f_num fd) (snd p)) U tail g1 HinP) as (g2 & Hg2 & E2).
          -- rewrite Hnum. apply msg_nodup_step. exact Hnd.
          -- intros k Hk'. apply msg_keys_fset in Hk'. destruct Hk' as [->|Hk']; [|apply Hsub; exact Hk'].
             rewrite Hnum. apply (in_map fst fs p). exact Hp.
          -- exact Hg1.
          -- exists g2. split; [exact Hg2|]. etransitivity; [exact E1|]. etransitivity; [exact E2|].
             cbn [msg_ins_all fold_left]. rewrite Hnum. reflexivity.
      + (* deleted *)
        assert (Hnone : msg_find_field md' (f_num fd) = None).
        { rewrite (msg_find_filter (keep O)), Hnum, Hkeep. reflexivity. }
        destruct (msg_dm_deleted_field S' d O md' grp msg_restrict_md' S (msg_typed true S d) tv2 has2 fd (snd p)
                    accf U (flat_map chunk P ++ tail) g Hnone Hty Hsz Hg) as (g1 & Hg1 & E1).
        destruct (IH accf (U ++ msg_enc_field eb fd (snd p)) tail g1 HinP) as (g2 & Hg2 & E2).
        * inversion Hnd; assumption.
        * exact Hsub.
        * exact Hg1.
        * exists g2. split; [exact Hg2|]. etransitivity; [exact E1|]. etransitivity; [exact E2|].
          cbn [flat_map]. rewrite Hc. rewrite <- !app_assoc. reflexivity.
  Qed.
End EvoFlat.

Lemma msg_nodup_app_l {A} (a b : list A) : NoDup (a ++ b) -> NoDup a.
Proof.
  induction a as [|x a IH]; [constructor|]. cbn [app]. intros H. inversion H as [|? ? Hn Hd]; subst.
  constructor; [intros Hx; apply Hn, in_or_app; left; exact Hx|exact (IH Hd)].
Qed.

Ltac msg_rew_dm E :=
  match type of E with _ = ?R =>
    match goal with |- match ?X with DOk _ => _ | DErr _ => _ end = _ => replace X with R by (symmetry; exact E) end end.

(* schema evolution for messages whose populated fields are all of scalar kind: decode with the
   reduced schema, re-encode with it, decode with the full schema *)
Theorem msg_schema_evolution_kept_scalar slow S keep limit fs unk :
  msg_valid slow S limit O (VMsg fs unk) = true ->
  msg_valid true S limit O (VMsg fs unk) = true ->
  msg_kept_scalar (keep O) (nth O S []) fs = true ->
  msg_evolve slow S (msg_restrict keep S) limit (msg_encode S O (VMsg fs unk)) = DOk (VMsg fs unk).
Proof.
  intros Hv Hvt Hflat.
  unfold msg_valid in Hv, Hvt. apply andb_true_iff in Hv. destruct Hv as [Hsz Hty].
  apply andb_true_iff in Hvt. destruct Hvt as [_ Htyt].
  destruct (msg_typed_unfold true S limit O fs unk Htyt) as (d & md & -> & Hmd & Hsorted & Hchunks & Hone & Hunk).
  destruct (msg_typed_unfold slow S _ O fs unk Hty) as (d0 & md0 & Hd0 & Hmd0 & _ & Hchunks0 & _ & Hunk0).
  inversion Hd0; subst d0. rewrite Hmd in Hmd0. inversion Hmd0; subst md0. clear Hd0 Hmd0.
  pose proof (msg_sizes_ok_unfold S O fs unk Hsz) as Hszc.
  rewrite (msg_nth_error_nth S O md Hmd) in Hszc, Hflat.
  rewrite forallb_forall in Hchunks, Hchunks0, Hszc.
  apply msg_keys_sorted_spec in Hsorted.
  set (S' := msg_restrict keep S).
  set (md' := filter (fun fd => keep O (f_num fd)) md).
  pose proof (msg_restrict_md' S keep md Hmd) as Hmd'. fold S' md' in Hmd'.
  destruct (msg_enc_body_perm S O fs unk) as (P & Hperm & Ebody).
  rewrite (msg_nth_error_nth S O md Hmd) in Ebody.
  assert (HinP : forall p, In p P -> In p fs) by (intros p Hp; eapply Permutation_in; [exact Hperm|exact Hp]).
  assert (HndP : NoDup (msg_keys P)).
  { eapply Permutation_NoDup; [apply Permutation_sym, (Permutation_map fst), Hperm|].
    eapply msg_sorted_nodup. exact Hsorted. }
  set (kp := fun p : N * list value => keep O (fst p)).
  set (chunk := fun p => snd (msg_enc_chunk (msg_enc_body S) md p)).
  set (KP := filter kp P). set (DP := filter (fun p => negb (kp p)) P).
  (* 1. decode with the reduced schema *)
  assert (Hdec1 : msg_decode true S' (Datatypes.S d) O (msg_encode S O (VMsg fs unk)) =
                  DOk (VMsg (msg_ins_all KP []) (flat_map chunk DP ++ unk))).
  { unfold msg_decode, msg_decode_into, msg_encode, msg_empty. cbn [msg_macc_of]. rewrite Ebody.
    destruct (msg_evo_chunks S keep d md fs Hmd Hchunks Hszc Hone Hflat 0 P [] [] unk
                (x00 :: flat_map chunk P ++ unk)) as (g1 & Hg1 & E1);
      [exact HinP|cbn [msg_keys map]; rewrite app_nil_r; exact HndP|intros k []|exact (Nat.lt_succ_diag_r _)|].
    fold S' in E1. msg_rew_dm E1.
    cbn [app]. fold KP DP chunk.
    destruct (msg_unknown_loop true S' d O md' 0 Hmd' (x00 :: unk) unk g1 (msg_ins_all KP []) (flat_map chunk DP) []
                (msg_unknown_ok_filter (keep O) md _ _ _ Hunk)) as (g2 & Hg2 & E2); [rewrite app_nil_r; exact Hg1|].
    rewrite app_nil_r in E2. msg_rew_dm E2.
    rewrite (msg_dm_end0 true S' d O md' g2 _ Hmd') by lia. reflexivity. }
  unfold msg_evolve. fold S'. rewrite Hdec1.
  (* 2. the re-encoding: the kept fields in some order, then the deleted ones, then the unknown bytes *)
  destruct (msg_enc_body_perm S' O (msg_ins_all KP []) (flat_map chunk DP ++ unk)) as (P2 & Hperm2 & Ebody2).
  rewrite (msg_nth_error_nth S' O md' Hmd') in Ebody2.
  assert (HndK : NoDup (msg_keys KP ++ msg_keys [])).
  { cbn [msg_keys map]. rewrite app_nil_r.
    pose proof (Permutation_map fst (msg_perm_filter_split kp P)) as Hpm. rewrite map_app in Hpm.
    apply (Permutation_NoDup (Permutation_sym Hpm)) in HndP. exact (msg_nodup_app_l _ _ HndP). }
  destruct (msg_ins_all_props KP [] 0 HndK I) as [HsK HpK].
  { intros k Hk. apply (msg_sorted_keys_gt 0 fs Hsorted).
    apply in_map_iff in Hk. destruct Hk as (p & <- & Hp). apply filter_In in Hp. destruct Hp as [Hp _].
    apply (in_map fst). exact (HinP p Hp). }
  rewrite app_nil_r in HpK.
  assert (HinP2 : forall p, In p P2 -> In p P /\ kp p = true).
  { intros p Hp. apply (Permutation_in _ Hperm2) in Hp. apply (Permutation_in _ HpK) in Hp.
    apply filter_In in Hp. exact Hp. }
  assert (Echunks : flat_map (fun p => snd (msg_enc_chunk (msg_enc_body S') md' p)) P2 = flat_map chunk P2).
  { apply msg_flat_map_ext_in. intros p Hp. destruct (HinP2 p Hp) as [HpP Hkp].
    destruct (msg_evo_field_of S keep d md fs Hchunks Hflat p (HinP p HpP)) as (fd & Hf & Hnum & Hks).
    unfold kp in Hkp. destruct (Hks Hkp) as (sk & Hk).
    unfold chunk, msg_enc_chunk. unfold md'. rewrite (msg_find_filter (keep O)). rewrite Hkp, Hf.
    cbn [snd]. symmetry. apply (msg_enc_field_scalar _ _ fd (snd p) sk Hk). }
  unfold msg_encode. rewrite Ebody2, Echunks.
  (* 3. decode with the full schema: a permutation of the fields of the message *)
  set (P3 := P2 ++ DP).
  assert (Hperm3 : Permutation P3 fs).
  { unfold P3. rewrite Hperm2, HpK. unfold KP, DP. rewrite (msg_perm_filter_split kp P). exact Hperm. }
  assert (E3 : flat_map chunk P2 ++ flat_map chunk DP ++ unk = flat_map chunk P3 ++ unk).
  { unfold P3. rewrite flat_map_app, <- app_assoc. reflexivity. }
  rewrite E3.
  assert (HinP3 : forall p, In p P3 -> In p fs) by (intros p Hp; eapply Permutation_in; [exact Hperm3|exact Hp]).
  assert (Hgood : Forall (msg_chunk_good slow S d md) P3).
  { apply Forall_forall. intros p Hp. specialize (HinP3 p Hp). repeat split.
    - apply Hchunks0, HinP3.
    - apply Hszc, HinP3.
    - apply Forall_forall. intros v _. apply msg_dec_stmt_all. }
  assert (Hnd3 : NoDup (msg_keys P3 ++ msg_keys [])).
  { cbn [msg_keys map]. rewrite app_nil_r. eapply Permutation_NoDup.
    - apply Permutation_sym. apply (Permutation_map fst). exact Hperm3.
    - eapply msg_sorted_nodup. exact Hsorted. }
  unfold msg_decode, msg_decode_into, msg_empty. cbn [msg_macc_of].
  destruct (msg_chunks_step slow S d O md 0 Hmd fs Hone P3 [] [] unk (x00 :: flat_map chunk P3 ++ unk) Hgood HinP3 Hnd3)
    as (g3 & Hg3 & E4); [intros k []|exact (Nat.lt_succ_diag_r _)|].
  fold chunk in E4.
  msg_rew_dm E4.
  assert (Hins : msg_ins_all P3 [] = fs).
  { destruct (msg_ins_all_props P3 [] 0 Hnd3 I) as [Hs Hp].
    - intros k Hk. apply (msg_sorted_keys_gt 0 fs Hsorted).
      eapply Permutation_in; [apply (Permutation_map fst); exact Hperm3|exact Hk].
    - rewrite app_nil_r in Hp.
      eapply msg_sorted_perm_eq; [exact Hs|exact Hsorted|]. rewrite Hp. exact Hperm3. }
  rewrite Hins.
  destruct (msg_unknown_loop slow S d O md 0 Hmd (x00 :: unk) unk g3 fs [] [] Hunk0) as (g4 & Hg4 & E5);
    [rewrite app_nil_r; exact Hg3|].
  rewrite app_nil_r in E5. cbn [app] in E5. msg_rew_dm E5.
  rewrite (msg_dm_end0 slow S d O md g4 _ Hmd) by lia. reflexivity.
Qed.

(* non-vacuity: the C03 example; its message-typed fields (a map with message values, a nested
   recursive message, a group list) and one scalar field are deleted *)
Definition ex_keep_scalar (tid : nat) (n : N) : bool := negb (existsb (N.eqb n) [3; 5; 6; 7]).
Example ex_kept_scalar_ok :
  msg_valid false ex_schema 3 O ex_msg = true /\ msg_valid true ex_schema 3 O ex_msg = true /\
  (match ex_msg with VMsg fs _ => msg_kept_scalar (ex_keep_scalar O) (nth O ex_schema []) fs | _ => false end) = true.
Proof. vm_compute. repeat split; reflexivity. Qed.

(* ================= schema evolution: fields of the root type deleted, all kinds ================= *)
(* two schema tables that agree on every type except the root (index 0) *)
Definition msg_agree_ne0 (S S' : schema) : Prop := forall t, t <> O -> nth_error S' t = nth_error S t.

Lemma msg_agree_nth S S' t : msg_agree_ne0 S S' -> t <> O -> nth t S' [] = nth t S [].
Proof.
  intros H Ht. specialize (H t Ht).
  destruct (nth_error S t) as [md|] eqn:E.
  - rewrite (msg_nth_error_nth S t md E), (msg_nth_error_nth S' t md H). reflexivity.
  - rewrite (nth_overflow S []) by (apply nth_error_None; exact E).
    rewrite (nth_overflow S' []) by (apply nth_error_None; exact H). reflexivity.
Qed.

Lemma msg_map_ext_in' {A B} (f g : A -> B) l : (forall x, In x l -> f x = g x) -> map f l = map g l.
Proof. intros H. apply map_ext_in. exact H. Qed.

Definition msg_uv (x : value) : value := match x with VEntry _ x' => x' | _ => x end.

(* ---------- a field only looks at the functions of the sub-values it holds ---------- *)
Lemma msg_enc_elem_ext eb eb' num k v :
  (forall t fs u, (k = KMsg t \/ k = KGrp t) -> v = VMsg fs u -> eb' t v = eb t v) ->
  msg_enc_elem eb' num k v = msg_enc_elem eb num k v.
Proof.
  intros H. destruct k as [sk|t|t]; destruct v; cbn [msg_enc_elem]; try reflexivity.
  - rewrite (H t _ _ (or_introl eq_refl) eq_refl). reflexivity.
  - rewrite (H t _ _ (or_intror eq_refl) eq_refl). reflexivity.
Qed.
Lemma msg_enc_field_ext eb eb' fd vs :
  (forall t x, (f_kind fd = KMsg t \/ f_kind fd = KGrp t) -> In x vs -> eb' t (msg_uv x) = eb t (msg_uv x)) ->
  msg_enc_field eb' fd vs = msg_enc_field eb fd vs.
Proof.
  intros H. unfold msg_enc_field.
  assert (Hel : flat_map (fun e => msg_enc_elem eb' (f_num fd) (f_kind fd) e) vs =
                flat_map (fun e => msg_enc_elem eb (f_num fd) (f_kind fd) e) vs).
  { apply msg_flat_map_ext_in. intros x Hx. apply msg_enc_elem_ext. intros t fs u Hk ->.
    exact (H t (VMsg fs u) Hk Hx). }
  destruct (f_card fd) as [| | | | |kk ku vd]; try exact Hel.
  - destruct (f_kind fd) as [sk|t|t] eqn:Hk; [|exact Hel|exact Hel].
    destruct vs; [reflexivity|]. destruct (msg_packable sk); [reflexivity|exact Hel].
  - apply msg_flat_map_ext_in. intros x Hx. destruct x as [| |key v]; cbn [msg_enc_entry]; try reflexivity.
    f_equal. f_equal. f_equal. apply msg_enc_elem_ext. intros t fs u Hk _. exact (H t (VEntry key v) Hk Hx).
Qed.

Lemma msg_forallb_ext_in {A} (f g : A -> bool) l : (forall x, In x l -> f x = g x) -> forallb f l = forallb g l.
Proof.
  induction l as [|a l IH]; intros H; [reflexivity|]. cbn [forallb].
  rewrite (H a (or_introl eq_refl)), IH; [reflexivity|]. intros x Hx. apply H. right. exact Hx.
Qed.

Lemma msg_size_elem_ext sb sb' num k v :
  (forall t fs u, (k = KMsg t \/ k = KGrp t) -> v = VMsg fs u -> sb' t v = sb t v) ->
  msg_size_elem sb' num k v = msg_size_elem sb num k v.
Proof.
  intros H. destruct k as [sk|t|t]; destruct v; cbn [msg_size_elem]; try reflexivity.
  - rewrite (H t _ _ (or_introl eq_refl) eq_refl). reflexivity.
  - rewrite (H t _ _ (or_intror eq_refl) eq_refl). reflexivity.
Qed.
Lemma msg_size_field_ext sb sb' fd vs :
  (forall t x, (f_kind fd = KMsg t \/ f_kind fd = KGrp t) -> In x vs -> sb' t (msg_uv x) = sb t (msg_uv x)) ->
  msg_size_field sb' fd vs = msg_size_field sb fd vs.
Proof.
  intros H. unfold msg_size_field.
  assert (Hel : map (msg_size_elem sb' (f_num fd) (f_kind fd)) vs = map (msg_size_elem sb (f_num fd) (f_kind fd)) vs).
  { apply map_ext_in. intros x Hx. apply msg_size_elem_ext. intros t fs u Hk ->. exact (H t (VMsg fs u) Hk Hx). }
  destruct (f_card fd) as [| | | | |kk ku vd]; try (f_equal; exact Hel).
  - destruct (f_kind fd) as [sk|t|t] eqn:Hk; rewrite ?Hk in Hel; try (f_equal; exact Hel).
    destruct vs; [reflexivity|]. destruct (msg_packable sk); [reflexivity|f_equal; exact Hel].
  - f_equal. apply map_ext_in. intros x Hx. destruct x as [| |key v]; cbn [msg_size_entry]; try reflexivity.
    f_equal. f_equal. f_equal. apply msg_size_elem_ext. intros t fs u Hk _. exact (H t (VEntry key v) Hk Hx).
Qed.

Lemma msg_szok_elem_ext sb ok sb' ok' k v :
  (forall t fs u, (k = KMsg t \/ k = KGrp t) -> v = VMsg fs u -> sb' t v = sb t v /\ ok' t v = ok t v) ->
  msg_szok_elem sb' ok' k v = msg_szok_elem sb ok k v.
Proof.
  intros H. destruct k as [sk|t|t]; destruct v; cbn [msg_szok_elem]; try reflexivity.
  - destruct (H t _ _ (or_introl eq_refl) eq_refl) as [-> ->]. reflexivity.
  - destruct (H t _ _ (or_intror eq_refl) eq_refl) as [_ ->]. reflexivity.
Qed.
Lemma msg_szok_field_ext sb ok sb' ok' fd vs :
  (forall t x, (f_kind fd = KMsg t \/ f_kind fd = KGrp t) -> In x vs ->
               sb' t (msg_uv x) = sb t (msg_uv x) /\ ok' t (msg_uv x) = ok t (msg_uv x)) ->
  msg_szok_field sb' ok' fd vs = msg_szok_field sb ok fd vs.
Proof.
  intros H. unfold msg_szok_field. f_equal.
  assert (Hel : forallb (msg_szok_elem sb' ok' (f_kind fd)) vs = forallb (msg_szok_elem sb ok (f_kind fd)) vs).
  { apply msg_forallb_ext_in. intros x Hx. apply msg_szok_elem_ext. intros t fs u Hk ->. exact (H t (VMsg fs u) Hk Hx). }
  destruct (f_card fd) as [| | | | |kk ku vd]; try exact Hel.
  - destruct (f_kind fd) as [sk|t|t] eqn:Hk; rewrite ?Hk in Hel; try exact Hel.
    destruct vs; [reflexivity|]. destruct (msg_packable sk); [rewrite Hel; reflexivity|exact Hel].
  - apply msg_forallb_ext_in. intros x Hx. destruct x as [| |key v]; cbn [msg_szok_entry]; try reflexivity.
    assert (E1 : msg_szok_elem sb' ok' (f_kind fd) v = msg_szok_elem sb ok (f_kind fd) v).
    { apply msg_szok_elem_ext. intros t fs u Hk _. exact (H t (VEntry key v) Hk Hx). }
    assert (E2 : msg_size_elem sb' 2 (f_kind fd) v = msg_size_elem sb 2 (f_kind fd) v).
    { apply msg_size_elem_ext. intros t fs u Hk _. exact (proj1 (H t (VEntry key v) Hk Hx)). }
    rewrite E1, E2. reflexivity.
Qed.

Lemma msg_typed_elem_ext slow eb tv eb' tv' fd v :
  (forall t fs u, (f_kind fd = KMsg t \/ f_kind fd = KGrp t) -> v = VMsg fs u -> tv' t v = tv t v /\ eb' t v = eb t v) ->
  msg_typed_elem slow eb' tv' fd v = msg_typed_elem slow eb tv fd v.
Proof.
  intros H. unfold msg_typed_elem. destruct (f_kind fd) as [sk|t|t] eqn:Hk; destruct v; try reflexivity.
  - destruct (H t _ _ (or_introl eq_refl) eq_refl) as [-> _]. reflexivity.
  - destruct (H t _ _ (or_intror eq_refl) eq_refl) as [-> ->]. reflexivity.
Qed.
Lemma msg_typed_field_ext slow eb tv tv2 eb' tv' tv2' has2 fd vs :
  (forall t x, (f_kind fd = KMsg t \/ f_kind fd = KGrp t) -> In x vs ->
               tv' t (msg_uv x) = tv t (msg_uv x) /\ tv2' t (msg_uv x) = tv2 t (msg_uv x) /\
               eb' t (msg_uv x) = eb t (msg_uv x)) ->
  msg_typed_field slow eb' tv' tv2' has2 fd vs = msg_typed_field slow eb tv tv2 has2 fd vs.
Proof.
  intros H. unfold msg_typed_field. f_equal.
  assert (Hone : forall v, In v vs -> msg_typed_elem slow eb' tv' fd v = msg_typed_elem slow eb tv fd v).
  { intros v Hv. apply msg_typed_elem_ext. intros t fs u Hk ->.
    destruct (H t (VMsg fs u) Hk Hv) as (H1 & _ & H3). split; assumption. }
  assert (Hel : forallb (msg_typed_elem slow eb' tv' fd) vs = forallb (msg_typed_elem slow eb tv fd) vs)
    by (apply msg_forallb_ext_in; exact Hone).
  destruct (f_card fd) as [| | | | |kk ku vd].
  - destruct vs as [|v [|]]; try reflexivity. apply Hone. left. reflexivity.
  - destruct vs as [|v [|]]; try reflexivity. rewrite (Hone v (or_introl eq_refl)). reflexivity.
  - destruct vs as [|v [|]]; try reflexivity. apply Hone. left. reflexivity.
  - destruct vs; [reflexivity|exact Hel].
  - destruct vs; [reflexivity|exact Hel].
  - f_equal. f_equal. destruct vs as [|v0 vs0]; [reflexivity|].
    apply msg_forallb_ext_in. intros x Hx. unfold msg_typed_entry. destruct x as [| |key v]; try reflexivity.
    f_equal. destruct (f_kind fd) as [sk|t|t] eqn:Hk; destruct v as [s1|fs1 u1|k1 v1]; try reflexivity.
    exact (proj1 (proj2 (H t (VEntry key (VMsg fs1 u1)) (or_introl eq_refl) Hx))).
Qed.

Section Agree.
  Variables S S' : schema.
  Hypothesis Hag : msg_agree_ne0 S S'.
  Hypothesis Hun : msg_root_unref S.

  Lemma msg_kind_ne0 t fd t' :
    In fd (nth t S []) -> (f_kind fd = KMsg t' \/ f_kind fd = KGrp t') -> t' <> O.
  Proof.
    intros Hin Hk. destruct (nth_error S t) as [md|] eqn:E.
    - rewrite (msg_nth_error_nth S t md E) in Hin. exact (Hun t md fd t' E Hin Hk).
    - rewrite (nth_overflow S []) in Hin by (apply nth_error_None; exact E). destruct Hin.
  Qed.

  Definition msg_P_enc (v : value) : Prop := forall t, t <> O -> msg_enc_body S' t v = msg_enc_body S t v.

  Lemma msg_uv_P (P : value -> Prop) x :
    (P x /\ match x with VEntry _ v' => P v' | _ => True end) -> P (msg_uv x).
  Proof. intros [H1 H2]. destruct x; cbn [msg_uv]; assumption. Qed.

  Lemma msg_enc_body_agree : forall v, msg_P_enc v /\ match v with VEntry _ v' => msg_P_enc v' | _ => True end.
  Proof.
    induction v as [s|fs unk IH|k v IH] using msg_value_ind.
    - split; [|exact I]. intros t _. reflexivity.
    - split; [|exact I]. intros t Ht. cbn [msg_enc_body]. rewrite (msg_agree_nth S S' t Hag Ht).
      f_equal. f_equal. f_equal. f_equal. apply map_ext_in. intros p Hp.
      unfold msg_enc_chunk. destruct (msg_find_field (nth t S []) (fst p)) as [fd|] eqn:Hf; [|reflexivity].
      f_equal. apply msg_enc_field_ext. intros t' x Hk Hx.
      rewrite Forall_forall in IH. specialize (IH p Hp). rewrite Forall_forall in IH.
      apply (msg_uv_P msg_P_enc x (IH x Hx)).
      exact (msg_kind_ne0 t fd t' (msg_find_field_in _ _ _ Hf) Hk).
    - split; [intros t _; reflexivity|]. exact (proj1 IH).
  Qed.

  Definition msg_P_sz (v : value) : Prop :=
    forall t, t <> O -> msg_size_body S' t v = msg_size_body S t v /\ msg_sizes_ok S' t v = msg_sizes_ok S t v.

  Lemma msg_sizes_agree : forall v, msg_P_sz v /\ match v with VEntry _ v' => msg_P_sz v' | _ => True end.
  Proof.
    induction v as [s|fs unk IH|k v IH] using msg_value_ind.
    - split; [|exact I]. intros t _. split; reflexivity.
    - split; [|exact I]. intros t Ht. cbn [msg_size_body msg_sizes_ok]. rewrite (msg_agree_nth S S' t Hag Ht).
      rewrite Forall_forall in IH.
      assert (Hsub : forall p fd t' x, In p fs -> msg_find_field (nth t S []) (fst p) = Some fd ->
                 (f_kind fd = KMsg t' \/ f_kind fd = KGrp t') -> In x (snd p) ->
                 msg_size_body S' t' (msg_uv x) = msg_size_body S t' (msg_uv x) /\
                 msg_sizes_ok S' t' (msg_uv x) = msg_sizes_ok S t' (msg_uv x)).
      { intros p fd t' x Hp Hf Hk Hx. specialize (IH p Hp). rewrite Forall_forall in IH.
        apply (msg_uv_P msg_P_sz x (IH x Hx)). exact (msg_kind_ne0 t fd t' (msg_find_field_in _ _ _ Hf) Hk). }
      split.
      + f_equal. f_equal. apply map_ext_in. intros p Hp. unfold msg_size_chunk.
        destruct (msg_find_field (nth t S []) (fst p)) as [fd|] eqn:Hf; [|reflexivity].
        apply msg_size_field_ext. intros t' x Hk Hx. exact (proj1 (Hsub p fd t' x Hp Hf Hk Hx)).
      + apply msg_forallb_ext_in. intros p Hp. unfold msg_szok_chunk.
        destruct (msg_find_field (nth t S []) (fst p)) as [fd|] eqn:Hf; [|reflexivity].
        apply msg_szok_field_ext. intros t' x Hk Hx. exact (Hsub p fd t' x Hp Hf Hk Hx).
    - split; [intros t _; split; reflexivity|]. exact (proj1 IH).
  Qed.

  Definition msg_P_ty (slow : bool) (v : value) : Prop :=
    forall dep t, t <> O -> msg_typed slow S' dep t v = msg_typed slow S dep t v.

  Lemma msg_typed_agree slow : forall v, msg_P_ty slow v /\ match v with VEntry _ v' => msg_P_ty slow v' | _ => True end.
  Proof.
    induction v as [s|fs unk IH|k v IH] using msg_value_ind.
    - split; [|exact I]. intros dep t _. reflexivity.
    - split; [|exact I]. intros dep t Ht. cbn [msg_typed]. destruct dep as [|d]; [reflexivity|].
      rewrite (Hag t Ht). destruct (nth_error S t) as [md|] eqn:Hmd; [|reflexivity].
      f_equal. f_equal. f_equal.
      rewrite Forall_forall in IH.
      apply msg_forallb_ext_in. intros p Hp. unfold msg_typed_chunk.
      destruct (msg_find_field md (fst p)) as [fd|] eqn:Hf; [|reflexivity].
      apply msg_typed_field_ext. intros t' x Hk Hx.
      specialize (IH p Hp). rewrite Forall_forall in IH.
      assert (Ht' : t' <> O) by (exact (Hun t md fd t' Hmd (msg_find_field_in _ _ _ Hf) Hk)).
      pose proof (msg_uv_P (msg_P_ty slow) x (IH x Hx)) as Hty.
      pose proof (msg_uv_P msg_P_enc x (msg_enc_body_agree x)) as Hen.
      split; [exact (Hty d t' Ht')|]. split; [|exact (Hen t' Ht')].
      destruct d as [|d1]; [reflexivity|exact (Hty d1 t' Ht')].
    - split; [intros dep t _; reflexivity|]. exact (proj1 IH).
  Qed.
End Agree.

Section EvoTop.
  Variable S : schema.
  Variable keep : nat -> N -> bool.
  Notation S' := (msg_restrict keep S).
  Notation dm' := (msg_decode_msg true S').
  Notation eb := (msg_enc_body S).
  Notation eb' := (msg_enc_body S').
  Variables (d : nat) (md : mdesc) (fs : fields).
  Hypothesis Hmd : nth_error S O = Some md.
  Notation md' := (filter (fun fd => keep O (f_num fd)) md).
  Notation has2 := (match d with O => false | _ => true end).
  Notation tv2 := (fun t x => match d with O => false | Datatypes.S d1 => msg_typed true S d1 t x end).
  Notation kp := (fun p : N * list value => keep O (fst p)).
  Notation chunk := (fun p => snd (msg_enc_chunk eb md p)).

  Hypothesis Hchunks : forall p, In p fs -> msg_typed_chunk true eb (msg_typed true S d) tv2 has2 md p = true.
  Hypothesis Hszc : forall p, In p fs -> msg_szok_chunk (msg_size_body S) (msg_sizes_ok S) md p = true.
  Hypothesis Hone : msg_oneofs_ok md fs = true.
  Hypothesis Hkeep : forall t n, t <> O -> keep t n = true.
  Hypothesis Hun : msg_root_unref S.

  Lemma msg_restrict_md_top : nth_error S' O = Some md'.
  Proof. unfold msg_restrict. rewrite msg_restrict_from_nth, Hmd. reflexivity. Qed.

  Lemma msg_restrict_agree : msg_agree_ne0 S S'.
  Proof.
    intros t Ht. unfold msg_restrict. rewrite msg_restrict_from_nth. destruct (nth_error S t) as [mdt|]; [|reflexivity].
    f_equal. induction mdt as [|fd0 r IH]; [reflexivity|]. cbn [filter]. rewrite (Hkeep (0 + t)%nat (f_num fd0) Ht), IH. reflexivity.
  Qed.

  Lemma msg_evo_top_field_of p : In p fs ->
    exists fd, msg_find_field md (fst p) = Some fd /\ f_num fd = fst p.
  Proof.
    intros Hp. pose proof (Hchunks p Hp) as Hty. unfold msg_typed_chunk in Hty.
    destruct (msg_find_field md (fst p)) as [fd|] eqn:Hf; [|discriminate].
    exists fd. split; [reflexivity|exact (msg_find_field_num _ _ _ Hf)].
  Qed.

  (* sub-values of a field of the root type: every function of the reduced table agrees *)
  Lemma msg_evo_top_sub fd t x :
    In fd md -> (f_kind fd = KMsg t \/ f_kind fd = KGrp t) ->
    (forall dep, msg_typed true S' dep t (msg_uv x) = msg_typed true S dep t (msg_uv x)) /\
    msg_enc_body S' t (msg_uv x) = msg_enc_body S t (msg_uv x) /\
    msg_size_body S' t (msg_uv x) = msg_size_body S t (msg_uv x) /\
    msg_sizes_ok S' t (msg_uv x) = msg_sizes_ok S t (msg_uv x).
  Proof.
    intros Hin Hk. assert (Ht : t <> O) by exact (Hun O md fd t Hmd Hin Hk).
    pose proof msg_restrict_agree as Hag.
    split; [intros dep; exact (msg_uv_P (msg_P_ty S S' true) x (msg_typed_agree S S' Hag Hun true x) dep t Ht)|].
    split; [exact (msg_uv_P (msg_P_enc S S') x (msg_enc_body_agree S S' Hag Hun x) t Ht)|].
    exact (msg_uv_P (msg_P_sz S S') x (msg_sizes_agree S S' Hag Hun x) t Ht).
  Qed.

  (* decoding the encoding (full schema) of the fields P with the reduced schema: kept fields are
     decoded, the others are retained, in the order of the input *)
  Lemma msg_evo_top_chunks grp : forall P accf U tail g,
    (forall p, In p P -> In p fs) ->
    NoDup (msg_keys P ++ msg_keys accf) ->
    (forall k, In k (msg_keys accf) -> In k (msg_keys fs)) ->
    (length (flat_map chunk P ++ tail) < length g)%nat ->
    exists g2, (length tail < length g2)%nat /\
      dm' (Datatypes.S d) O grp g (flat_map chunk P ++ tail) (accf, U) =
      dm' (Datatypes.S d) O grp g2 tail
          (msg_ins_all (filter kp P) accf, U ++ flat_map chunk (filter (fun p => negb (kp p)) P)).
  Proof.
    induction P as [|p P IH]; intros accf U tail g Hin Hnd Hsub Hg.
    - exists g. cbn [flat_map app filter msg_ins_all fold_left] in *. rewrite app_nil_r. split; [exact Hg|reflexivity].
    - assert (Hp : In p fs) by (apply Hin; left; reflexivity).
      destruct (msg_evo_top_field_of p Hp) as (fd & Hf & Hnum).
      pose proof (msg_find_field_in _ _ _ Hf) as Hinfd.
      pose proof (Hchunks p Hp) as Hty. pose proof (Hszc p Hp) as Hsz.
      unfold msg_typed_chunk in Hty. unfold msg_szok_chunk in Hsz. rewrite Hf in Hty, Hsz.
      assert (Hc : chunk p = msg_enc_field eb fd (snd p)) by (unfold msg_enc_chunk; rewrite Hf; reflexivity).
      cbn [flat_map filter] in *. cbv beta in Hc. rewrite Hc in *. rewrite <- app_assoc in *.
      cbn [msg_keys map app] in Hnd. fold (msg_keys P) in Hnd.
      assert (HinP : forall q, In q P -> In q fs) by (intros q Hq; apply Hin; right; exact Hq).
      destruct (keep O (fst p)) eqn:Hkp; cbn [negb].
      + (* kept *)
        assert (Hf' : msg_find_field md' (f_num fd) = Some fd).
        { rewrite (msg_find_filter (keep O)), Hnum, Hkp, Hf. reflexivity. }
        assert (Hnot : ~ In (f_num fd) (msg_keys accf)).
        { rewrite Hnum. inversion Hnd as [|? ? Hn _]; subst. intros Hk'. apply Hn, in_or_app. right. exact Hk'. }
        assert (Hfree : msg_oneof_free md' fd (f_num fd :: msg_keys accf)).
        { pose proof (msg_oneofs_ok_free md fs p fd Hone Hp Hf) as Hfr.
          intros oi Hoi fd' Hin' Hoi' Hne Hk'. apply filter_In in Hin'. destruct Hin' as [Hin' _].
          apply (Hfr oi Hoi fd' Hin' Hoi' Hne).
          destruct Hk' as [Hk'|Hk']; [congruence|apply Hsub; exact Hk']. }
        assert (Eenc : msg_enc_field eb' fd (snd p) = msg_enc_field eb fd (snd p)).
        { apply msg_enc_field_ext. intros t x Hk Hx. exact (proj1 (proj2 (msg_evo_top_sub fd t x Hinfd Hk))). }
        rewrite <- Eenc in *.
        destruct (msg_field_step true S' d O md' grp msg_restrict_md_top fd (snd p) accf U
                    (flat_map chunk P ++ tail) g Hf') as (g1 & Hg1 & E1); try assumption.
        * rewrite (msg_typed_field_ext true eb (msg_typed true S d) tv2 eb' (msg_typed true S' d)
                     (fun t x => match d with O => false | Datatypes.S d1 => msg_typed true S' d1 t x end) has2 fd (snd p)); [exact Hty|].
          intros t x Hk Hx. destruct (msg_evo_top_sub fd t x Hinfd Hk) as (Ht1 & Ht2 & _).
          split; [exact (Ht1 d)|]. split; [destruct d as [|d1]; [reflexivity|exact (Ht1 d1)]|exact Ht2].
        * rewrite (msg_szok_field_ext (msg_size_body S) (msg_sizes_ok S) (msg_size_body S') (msg_sizes_ok S') fd (snd p)); [exact Hsz|].
          intros t x Hk Hx. destruct (msg_evo_top_sub fd t x Hinfd Hk) as (_ & _ & Ht3 & Ht4). split; assumption.
        * apply Forall_forall. intros v _. apply msg_dec_stmt_all.
        * destruct (IH (msg_fset accf (f_num fd) (snd p)) U tail g1 HinP) as (g2 & Hg2 & E2).
          -- rewrite Hnum. apply msg_nodup_step. exact Hnd.
          -- intros k Hk'. apply msg_keys_fset in Hk'. destruct Hk' as [->|Hk']; [|apply Hsub; exact Hk'].
             rewrite Hnum. apply (in_map fst fs p). exact Hp.
          -- exact Hg1.
          -- exists g2. split; [exact Hg2|]. etransitivity; [exact E1|]. etransitivity; [exact E2|].
             cbn [msg_ins_all fold_left]. rewrite Hnum. reflexivity.
      + (* deleted *)
        assert (Hnone : msg_find_field md' (f_num fd) = None).
        { rewrite (msg_find_filter (keep O)), Hnum, Hkp. reflexivity. }
        destruct (msg_dm_deleted_field S' d O md' grp msg_restrict_md_top S (msg_typed true S d) tv2 has2 fd (snd p)
                    accf U (flat_map chunk P ++ tail) g Hnone Hty Hsz Hg) as (g1 & Hg1 & E1).
        destruct (IH accf (U ++ msg_enc_field eb fd (snd p)) tail g1 HinP) as (g2 & Hg2 & E2).
        * inversion Hnd; assumption.
        * exact Hsub.
        * exact Hg1.
        * exists g2. split; [exact Hg2|]. etransitivity; [exact E1|]. etransitivity; [exact E2|].
          cbn [flat_map]. rewrite Hc. rewrite <- !app_assoc. reflexivity.
  Qed.
End EvoTop.

(* schema evolution for messages whose populated fields are all of scalar kind: decode with the
   reduced schema, re-encode with it, decode with the full schema *)
Theorem msg_schema_evolution_top slow S keep limit fs unk :
  (forall t n, t <> O -> keep t n = true) -> msg_root_unref S ->
  msg_valid slow S limit O (VMsg fs unk) = true ->
  msg_valid true S limit O (VMsg fs unk) = true ->
  msg_evolve slow S (msg_restrict keep S) limit (msg_encode S O (VMsg fs unk)) = DOk (VMsg fs unk).
Proof.
  intros Hkeep Hun Hv Hvt.
  unfold msg_valid in Hv, Hvt. apply andb_true_iff in Hv. destruct Hv as [Hsz Hty].
  apply andb_true_iff in Hvt. destruct Hvt as [_ Htyt].
  destruct (msg_typed_unfold true S limit O fs unk Htyt) as (d & md & -> & Hmd & Hsorted & Hchunks & Hone & Hunk).
  destruct (msg_typed_unfold slow S _ O fs unk Hty) as (d0 & md0 & Hd0 & Hmd0 & _ & Hchunks0 & _ & Hunk0).
  inversion Hd0; subst d0. rewrite Hmd in Hmd0. inversion Hmd0; subst md0. clear Hd0 Hmd0.
  pose proof (msg_sizes_ok_unfold S O fs unk Hsz) as Hszc.
  rewrite (msg_nth_error_nth S O md Hmd) in Hszc.
  rewrite forallb_forall in Hchunks, Hchunks0, Hszc.
  apply msg_keys_sorted_spec in Hsorted.
  set (S' := msg_restrict keep S).
  set (md' := filter (fun fd => keep O (f_num fd)) md).
  pose proof (msg_restrict_md_top S keep md Hmd) as Hmd'. fold S' md' in Hmd'.
  destruct (msg_enc_body_perm S O fs unk) as (P & Hperm & Ebody).
  rewrite (msg_nth_error_nth S O md Hmd) in Ebody.
  assert (HinP : forall p, In p P -> In p fs) by (intros p Hp; eapply Permutation_in; [exact Hperm|exact Hp]).
  assert (HndP : NoDup (msg_keys P)).
  { eapply Permutation_NoDup; [apply Permutation_sym, (Permutation_map fst), Hperm|].
    eapply msg_sorted_nodup. exact Hsorted. }
  set (kp := fun p : N * list value => keep O (fst p)).
  set (chunk := fun p => snd (msg_enc_chunk (msg_enc_body S) md p)).
  set (KP := filter kp P). set (DP := filter (fun p => negb (kp p)) P).
  (* 1. decode with the reduced schema *)
  assert (Hdec1 : msg_decode true S' (Datatypes.S d) O (msg_encode S O (VMsg fs unk)) =
                  DOk (VMsg (msg_ins_all KP []) (flat_map chunk DP ++ unk))).
  { unfold msg_decode, msg_decode_into, msg_encode, msg_empty. cbn [msg_macc_of]. rewrite Ebody.
    destruct (msg_evo_top_chunks S keep d md fs Hmd Hchunks Hszc Hone Hkeep Hun 0 P [] [] unk
                (x00 :: flat_map chunk P ++ unk)) as (g1 & Hg1 & E1);
      [exact HinP|cbn [msg_keys map]; rewrite app_nil_r; exact HndP|intros k []|exact (Nat.lt_succ_diag_r _)|].
    fold S' in E1. msg_rew_dm E1.
    cbn [app]. fold KP DP chunk.
    destruct (msg_unknown_loop true S' d O md' 0 Hmd' (x00 :: unk) unk g1 (msg_ins_all KP []) (flat_map chunk DP) []
                (msg_unknown_ok_filter (keep O) md _ _ _ Hunk)) as (g2 & Hg2 & E2); [rewrite app_nil_r; exact Hg1|].
    rewrite app_nil_r in E2. msg_rew_dm E2.
    rewrite (msg_dm_end0 true S' d O md' g2 _ Hmd') by lia. reflexivity. }
  unfold msg_evolve. fold S'. rewrite Hdec1.
  (* 2. the re-encoding: the kept fields in some order, then the deleted ones, then the unknown bytes *)
  destruct (msg_enc_body_perm S' O (msg_ins_all KP []) (flat_map chunk DP ++ unk)) as (P2 & Hperm2 & Ebody2).
  rewrite (msg_nth_error_nth S' O md' Hmd') in Ebody2.
  assert (HndK : NoDup (msg_keys KP ++ msg_keys [])).
  { cbn [msg_keys map]. rewrite app_nil_r.
    pose proof (Permutation_map fst (msg_perm_filter_split kp P)) as Hpm. rewrite map_app in Hpm.
    apply (Permutation_NoDup (Permutation_sym Hpm)) in HndP. exact (msg_nodup_app_l _ _ HndP). }
  destruct (msg_ins_all_props KP [] 0 HndK I) as [HsK HpK].
  { intros k Hk. apply (msg_sorted_keys_gt 0 fs Hsorted).
    apply in_map_iff in Hk. destruct Hk as (p & <- & Hp). apply filter_In in Hp. destruct Hp as [Hp _].
    apply (in_map fst). exact (HinP p Hp). }
  rewrite app_nil_r in HpK.
  assert (HinP2 : forall p, In p P2 -> In p P /\ kp p = true).
  { intros p Hp. apply (Permutation_in _ Hperm2) in Hp. apply (Permutation_in _ HpK) in Hp.
    apply filter_In in Hp. exact Hp. }
  assert (Echunks : flat_map (fun p => snd (msg_enc_chunk (msg_enc_body S') md' p)) P2 = flat_map chunk P2).
  { apply msg_flat_map_ext_in. intros p Hp. destruct (HinP2 p Hp) as [HpP Hkp].
    destruct (msg_evo_top_field_of S d md fs Hchunks p (HinP p HpP)) as (fd & Hf & Hnum).
    unfold kp in Hkp.
    unfold chunk, msg_enc_chunk. unfold md'. rewrite (msg_find_filter (keep O)). rewrite Hkp, Hf.
    cbn [snd]. apply msg_enc_field_ext. intros t x Hk Hx.
    exact (proj1 (proj2 (msg_evo_top_sub S keep md Hmd Hkeep Hun fd t x (msg_find_field_in _ _ _ Hf) Hk))). }
  unfold msg_encode. rewrite Ebody2, Echunks.
  (* 3. decode with the full schema: a permutation of the fields of the message *)
  set (P3 := P2 ++ DP).
  assert (Hperm3 : Permutation P3 fs).
  { unfold P3. rewrite Hperm2, HpK. unfold KP, DP. rewrite (msg_perm_filter_split kp P). exact Hperm. }
  assert (E3 : flat_map chunk P2 ++ flat_map chunk DP ++ unk = flat_map chunk P3 ++ unk).
  { unfold P3. rewrite flat_map_app, <- app_assoc. reflexivity. }
  rewrite E3.
  assert (HinP3 : forall p, In p P3 -> In p fs) by (intros p Hp; eapply Permutation_in; [exact Hperm3|exact Hp]).
  assert (Hgood : Forall (msg_chunk_good slow S d md) P3).
  { apply Forall_forall. intros p Hp. specialize (HinP3 p Hp). repeat split.
    - apply Hchunks0, HinP3.
    - apply Hszc, HinP3.
    - apply Forall_forall. intros v _. apply msg_dec_stmt_all. }
  assert (Hnd3 : NoDup (msg_keys P3 ++ msg_keys [])).
  { cbn [msg_keys map]. rewrite app_nil_r. eapply Permutation_NoDup.
    - apply Permutation_sym. apply (Permutation_map fst). exact Hperm3.
    - eapply msg_sorted_nodup. exact Hsorted. }
  unfold msg_decode, msg_decode_into, msg_empty. cbn [msg_macc_of].
  destruct (msg_chunks_step slow S d O md 0 Hmd fs Hone P3 [] [] unk (x00 :: flat_map chunk P3 ++ unk) Hgood HinP3 Hnd3)
    as (g3 & Hg3 & E4); [intros k []|exact (Nat.lt_succ_diag_r _)|].
  fold chunk in E4.
  msg_rew_dm E4.
  assert (Hins : msg_ins_all P3 [] = fs).
  { destruct (msg_ins_all_props P3 [] 0 Hnd3 I) as [Hs Hp].
    - intros k Hk. apply (msg_sorted_keys_gt 0 fs Hsorted).
      eapply Permutation_in; [apply (Permutation_map fst); exact Hperm3|exact Hk].
    - rewrite app_nil_r in Hp.
      eapply msg_sorted_perm_eq; [exact Hs|exact Hsorted|]. rewrite Hp. exact Hperm3. }
  rewrite Hins.
  destruct (msg_unknown_loop slow S d O md 0 Hmd (x00 :: unk) unk g3 fs [] [] Hunk0) as (g4 & Hg4 & E5);
    [rewrite app_nil_r; exact Hg3|].
  rewrite app_nil_r in E5. cbn [app] in E5. msg_rew_dm E5.
  rewrite (msg_dm_end0 slow S d O md g4 _ Hmd) by lia. reflexivity.
Qed.

(* non-vacuity: a root type with a singular, a repeated and a map field of a message type *)
Definition ex_top : schema :=
  [[mkF 1 (KMsg 1) COpt None false false false; mkF 2 (KS SkInt32) COpt None false false false;
    mkF 3 (KMsg 1) CRep None false false false; mkF 4 (KMsg 1) (CMap SkInt32 false 0) None false false false];
   [mkF 1 (KS SkInt32) COpt None false false false; mkF 2 (KS SkString) COpt None true false false]].
Definition ex_top_sub (z : Z) : value := VMsg [(1, [VS (SZ z)]); (2, [VS (SBy [x68; x69])])] [x98; x06; x07].
Definition ex_top_msg : value :=
  VMsg [(1, [ex_top_sub 5]); (2, [VS (SZ (-1))]); (3, [ex_top_sub 6; msg_empty]); (4, [VEntry (SZ 7) (ex_top_sub 8)])] [x98; x06; x07].
Lemma ex_top_unref : msg_root_unref ex_top.
Proof.
  intros t md fd t' Hmd Hin Hk. destruct t as [|[|t]]; cbn in Hmd; [| |destruct t; discriminate]; inversion Hmd; subst md.
  - destruct Hin as [<-|[<-|[<-|[<-|[]]]]]; destruct Hk as [Hk|Hk]; inversion Hk; discriminate.
  - destruct Hin as [<-|[<-|[]]]; destruct Hk as [Hk|Hk]; discriminate.
Qed.
Example ex_top_ok :
  msg_valid false ex_top 4 O ex_top_msg = true /\ msg_valid true ex_top 4 O ex_top_msg = true.
Proof. vm_compute. split; reflexivity. Qed.
