(* UnkP — proofs about unknown-field handling (C09).

   msg_unknown_preserved_step   a rejected occurrence is appended verbatim to the unknown section
   msg_unknown_untouched_step   any other occurrence leaves the unknown section alone
   (MergeP.msg_unknown_loop_k)  a run of rejected fields inside any input is appended in input order
   msg_unknown_reemitted        Marshal writes the unknown bytes after the known fields
   msg_discard_unknown          DiscardUnknown: no message of the tree keeps unknown bytes
   msg_schema_evolution_arbitrary_bytes_refuted, msg_schema_evolution_example *)
From Coq Require Import List Arith NArith ZArith Lia Bool.
From PB Require Import Base.PBytes Wire.WireModel Wire.ScanP Msg.MsgSchema Msg.MsgValue Msg.MsgEnc Msg.MsgDec Msg.MsgValid
  Msg.MsgAssocP Msg.MsgSizeP Msg.MsgRoundP Msg.MsgExample Msg.UnkModel.
Import ListNotations.
Open Scope N_scope.

(* DiscardUnknown: no message of the decoded tree keeps unknown bytes *)
Lemma msg_strip_no_unknown : forall v, msg_has_unknown (msg_strip_unknown v) = false.
Proof.
  induction v as [s|fs unk IH|k v IH] using msg_value_ind.
  - reflexivity.
  - cbn [msg_strip_unknown msg_has_unknown negb orb].
    induction fs as [|p r IHr]; [reflexivity|].
    inversion IH as [|? ? Hp Hr]; subst.
    cbn [map existsb snd]. rewrite (IHr Hr), orb_false_r.
    clear - Hp. induction (snd p) as [|x l IHl]; [reflexivity|].
    inversion Hp as [|? ? Hx Hl]; subst. cbn [map existsb]. rewrite Hx, (IHl Hl). reflexivity.
  - exact IH.
Qed.

Theorem msg_discard_unknown slow S limit tid bs v :
  msg_decode_discard slow S limit tid bs = DOk v -> msg_has_unknown v = false.
Proof.
  unfold msg_decode_discard. destruct (msg_decode slow S limit tid bs) as [v0|e]; [|discriminate].
  intros H. inversion H; subst. apply msg_strip_no_unknown.
Qed.

(* a value parsed with the wire type of a scalar kind decodes as that kind *)
Lemma msg_dec_scalar_some sk utf8 num r w r' :
  parse_val 0 num (sk_wt sk) r = Ok (w, r') -> msg_dec_scalar sk utf8 w <> None.
Proof.
  rewrite parse_val_eq. unfold msg_dec_scalar.
  destruct sk; cbn [sk_wt];
    try (destruct (dec_varint r) as [[v rr]|e]; [|discriminate]; intros H; inversion H; subst; cbn [sk_dec]; discriminate);
    try (destruct (take 4 r) as [[b rr]|]; [|discriminate]; intros H; inversion H; subst; cbn [sk_dec]; discriminate);
    try (destruct (take 8 r) as [[b rr]|]; [|discriminate]; intros H; inversion H; subst; cbn [sk_dec]; discriminate);
    try (destruct (dec_bytes r) as [[b rr]|e]; [|discriminate]; intros H; inversion H; subst; cbn [sk_dec];
         destruct utf8; cbn [andb]; try discriminate; destruct (negb (MsgUtf8.msg_utf8_valid b)); discriminate).
Qed.

Section UnkStep.
  Variable slow : bool.
  Variable S : schema.
  Variable d : nat.
  Variable md : mdesc.
  Notation has2 := (match d with O => false | _ => true end).
  Notation step := (msg_step slow md (msg_decode_msg slow S d) (msg_dsub2 slow S d)).

  (* a field the schema has no entry for, or whose wire type the field's kind rejects, is appended
     to the unknown section: the tag bytes given by the caller (minimal re-encoding on the
     table-driven path, the raw bytes on the reflection path) and the value bytes exactly as read *)
  Lemma msg_unknown_preserved_step tagraw num typ r acc acc' r' :
    msg_rejects md has2 num typ = true ->
    step tagraw num typ r acc = DOk (acc', r') ->
    acc' = (fst acc, snd acc ++ tagraw ++ firstn (length r - length r') r) /\
    exists w, parse_val default_dep num typ r = Ok (w, r').
  Proof.
    intros Hrej H. rewrite (msg_rejects_step slow S d md tagraw num typ r acc Hrej) in H.
    unfold msg_unknown in H. destruct (parse_val default_dep num typ r) as [[w rr]|e]; [|discriminate].
    inversion H; subst. split; [reflexivity|]. exists w. reflexivity.
  Qed.

  (* every other field leaves the unknown section as it is *)
  Lemma msg_unknown_untouched_step tagraw num typ r acc acc' r' :
    msg_rejects md has2 num typ = false ->
    step tagraw num typ r acc = DOk (acc', r') ->
    snd acc' = snd acc.
  Proof.
    unfold msg_rejects, msg_step. destruct (msg_find_field md num) as [fd|]; [|discriminate].
    assert (Hnm : forall (c : card),
      (match f_kind fd with
       | KMsg _ => negb (typ =? 2)
       | KGrp _ => negb (typ =? 3)
       | KS sk => negb (typ =? sk_wt sk) && negb ((typ =? 2) && msg_packable sk && card_repeated c)
       end) = false ->
      (match f_kind fd with
       | KMsg tid =>
         if typ =? 2 then
           match dec_bytes r with
           | Err _ => DErr DParse
           | Ok (payload, r') =>
             match msg_whole (msg_decode_msg slow S d) tid payload (msg_old_sub fd (fst acc)) with
             | DErr e => DErr e
             | DOk m => DOk ((msg_store_sub md fd m (fst acc), snd acc), r')
             end
           end
         else msg_unknown tagraw num typ r acc
       | KGrp tid =>
         if typ =? 3 then
           if slow then
             match consume_group num r with
             | Err _ => DErr DParse
             | Ok (None, _) => DErr DFuel
             | Ok (Some content, n) =>
               match msg_whole (msg_decode_msg slow S d) tid content (msg_old_sub fd (fst acc)) with
               | DErr e => DErr e
               | DOk m => DOk ((msg_store_sub md fd m (fst acc), snd acc), skipn (N.to_nat n) r)
               end
             end
           else
             match msg_decode_msg slow S d tid num (x00 :: r) r (msg_old_sub fd (fst acc)) with
             | DErr e => DErr e
             | DOk (m, r') => DOk ((msg_store_sub md fd m (fst acc), snd acc), r')
             end
         else msg_unknown tagraw num typ r acc
       | KS sk =>
         if typ =? sk_wt sk then
           match parse_val 0 num typ r with
           | Err _ => DErr DParse
           | Ok (w, r') =>
             match msg_dec_scalar sk (msg_field_utf8 slow fd) w with
             | None => msg_unknown tagraw num typ r acc
             | Some (DErr e) => DErr e
             | Some (DOk s) =>
               DOk ((if card_repeated c then msg_append_field fd [VS s] (fst acc)
                     else msg_set_field md fd (VS s) (fst acc), snd acc), r')
             end
           end
         else if (typ =? 2) && msg_packable sk && card_repeated c then
           match dec_bytes r with
           | Err _ => DErr DParse
           | Ok (payload, r') =>
             match msg_dec_packed (x00 :: payload) sk payload [] with
             | DErr e => DErr e
             | DOk vs => DOk ((msg_append_field fd vs (fst acc), snd acc), r')
             end
           end
         else msg_unknown tagraw num typ r acc
       end) = DOk (acc', r') -> snd acc' = snd acc).
    { intros c Hrej H. destruct (f_kind fd) as [sk|t|t].
      - destruct (N.eqb_spec typ (sk_wt sk)) as [->|Hne].
        + destruct (parse_val 0 num (sk_wt sk) r) as [[w rr]|e] eqn:Hp; [|discriminate].
          pose proof (msg_dec_scalar_some sk (msg_field_utf8 slow fd) num r w rr Hp) as Hs.
          destruct (msg_dec_scalar sk (msg_field_utf8 slow fd) w) as [[s|e]|]; [|discriminate|congruence].
          inversion H; subst. reflexivity.
        + cbn [negb andb] in Hrej. apply negb_false_iff in Hrej. rewrite Hrej in H.
          destruct (dec_bytes r) as [[payload rr]|e]; [|discriminate].
          destruct (msg_dec_packed (x00 :: payload) sk payload []) as [vs|e]; [|discriminate].
          inversion H; subst. reflexivity.
      - apply negb_false_iff in Hrej. rewrite Hrej in H.
        destruct (dec_bytes r) as [[payload rr]|e]; [|discriminate].
        destruct (msg_whole (msg_decode_msg slow S d) t payload (msg_old_sub fd (fst acc))) as [m|e]; [|discriminate].
        inversion H; subst. reflexivity.
      - apply negb_false_iff in Hrej. rewrite Hrej in H. destruct slow.
        + destruct (consume_group num r) as [[[content|] n]|e]; try discriminate.
          destruct (msg_whole (msg_decode_msg true S d) t content (msg_old_sub fd (fst acc))) as [m|e]; [|discriminate].
          inversion H; subst. reflexivity.
        + destruct (msg_decode_msg false S d t num (x00 :: r) r (msg_old_sub fd (fst acc))) as [[m rr]|e]; [|discriminate].
          inversion H; subst. reflexivity. }
    destruct (f_card fd) as [| | | | |kk ku vd]; try (apply Hnm).
    intros Hrej H. destruct d as [|d1]; cbn [msg_dsub2] in H; [discriminate|].
    cbn [andb] in Hrej. apply negb_false_iff in Hrej. rewrite Hrej in H.
    destruct (dec_bytes r) as [[payload rr]|e]; [|discriminate].
    match type of H with context [msg_dec_entry ?a ?b ?c ?dd ?e ?f ?g ?h ?i] =>
      destruct (msg_dec_entry a b c dd e f g h i) as [[key v]|e0]; [|discriminate] end.
    inversion H; subst. reflexivity.
  Qed.
End UnkStep.

(* Marshal re-emits the unknown bytes, after all known fields *)
Lemma msg_unknown_reemitted S tid fs u : msg_encode S tid (VMsg fs u) = msg_encode S tid (VMsg fs []) ++ u.
Proof. unfold msg_encode. cbn [msg_enc_body]. rewrite app_nil_r. reflexivity. Qed.

(* schema evolution is false for arbitrary byte strings: a oneof split between a known and a
   deleted member.  S: oneof { int32 a = 1; int32 b = 2 }, S' = S without b, input: b = 2, a = 1 *)
Definition ex_evo : schema :=
  [[mkF 1 (KS SkInt32) COpt (Some 0) false false false; mkF 2 (KS SkInt32) COpt (Some 0) false false false]].
Lemma msg_schema_evolution_arbitrary_bytes_refuted :
  exists S keep bs v v',
    msg_decode false S 100 0 bs = DOk v /\
    msg_evolve false S (msg_restrict keep S) 100 bs = DOk v' /\ v <> v'.
Proof.
  exists ex_evo, (fun _ n => negb (n =? 2)), (map n2b [16; 2; 8; 1]). do 2 eexists.
  split; [vm_compute; reflexivity|]. split; [vm_compute; reflexivity|]. discriminate.
Qed.

(* ... and holds (by computation) on the example message of C03 with fields, an extension and a
   field of the nested message type deleted *)
Definition ex_keep (tid : nat) (n : N) : bool := negb (existsb (N.eqb n) [1; 3; 4; 7; 100]).
Example msg_schema_evolution_example :
  msg_evolve false ex_schema (msg_restrict ex_keep ex_schema) 3 (msg_encode ex_schema 0 ex_msg) = DOk ex_msg /\
  (exists v', msg_decode true (msg_restrict ex_keep ex_schema) 3 0 (msg_encode ex_schema 0 ex_msg) = DOk v' /\
              msg_has_unknown v' = true /\ v' <> ex_msg).
Proof. split; [vm_compute; reflexivity|]. eexists. split; [vm_compute; reflexivity|]. split; [vm_compute; reflexivity|discriminate]. Qed.
