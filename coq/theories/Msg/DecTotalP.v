(* DecTotalP — the binary decoder of Msg/MsgDec.v (both paths) is total and never reads beyond
   its input:
     - it never runs out of fuel ([DFuel], which also stands for the slice-bounds panic of the
       reflection path's ConsumeGroup post-processing),
     - on a well-formed schema table it never reports [DSchema] (a dangling type index, a wire
       value that does not fit the kind it was parsed for),
     - what it leaves unread is a suffix of what it was given. *)
From Coq Require Import List Arith NArith ZArith Lia Bool.
From Coq Require Import ZifyBool ZifyNat ZifyN.
From PB Require Import Base.PBytes Wire.WireModel Wire.VarintP Wire.ScanP.
From PB Require Import Msg.MsgSchema Msg.MsgValue Msg.MsgUtf8 Msg.MsgDec Msg.ValidateMsgModel Msg.ValidateMsgP.
Ltac Zify.zify_post_hook ::= Z.div_mod_to_equations.
Import ListNotations.
Open Scope N_scope.

Definition dt_schema_wf (S : schema) : Prop :=
  forall md fd, In md S -> In fd md ->
    match f_kind fd with KMsg t | KGrp t => nth_error S t <> None | KS _ => True end.

Definition dt_suffix (r bs : list byte) : Prop := exists p, bs = p ++ r.
Lemma dt_suffix_refl bs : dt_suffix bs bs. Proof. exists []. reflexivity. Qed.
Lemma dt_suffix_trans a b c : dt_suffix a b -> dt_suffix b c -> dt_suffix a c.
Proof. intros (p & ->) (q & ->). exists (q ++ p). now rewrite app_assoc. Qed.
Lemma dt_suffix_len r bs : dt_suffix r bs -> (length r <= length bs)%nat.
Proof. intros (p & ->). rewrite app_length. lia. Qed.

Lemma dt_dec_tag_suffix bs num typ r : dec_tag bs = Ok (num, typ, r) -> dt_suffix r bs.
Proof. intros H. apply dec_tag_sound in H. destruct H as (p & -> & _). exists p. reflexivity. Qed.
Lemma dt_dec_bytes_suffix bs v r : dec_bytes bs = Ok (v, r) -> dt_suffix r bs.
Proof. intros H. apply dec_bytes_sound in H. destruct H as (p & -> & _). exists (p ++ v). now rewrite app_assoc. Qed.

(* outcome of a step / a loop: W = the schema is well formed (and the type index is valid) *)
Definition dt_ok (W : Prop) (A : Type) (d : dres A) (rest : A -> list byte) (bs : list byte) : Prop :=
  match d with
  | DOk m => dt_suffix (rest m) bs
  | DErr e => e <> DFuel /\ (W -> e <> DSchema)
  end.

Lemma dt_packed sk : msg_packable sk = true -> forall payload,
  match msg_dec_packed (x00 :: payload) sk payload [] with DOk _ => True | DErr e => e = DParse end.
Proof.
  intros Hp payload. pose proof (vp_packed sk payload Hp) as H.
  destruct (vr_packed_ok sk payload).
  - destruct H as (vs & ->). exact I.
  - rewrite H. reflexivity.
Qed.

Lemma dt_dec_scalar_err sk u w e : msg_dec_scalar sk u w = Some (DErr e) -> e = DUtf8.
Proof.
  rewrite vp_dec_scalar_cases. destruct (sk_dec sk w); [|discriminate].
  destruct (_ && _); intros H; inversion H; reflexivity.
Qed.

Section Entry.
  Variable W : Prop.
  Variables (kk : skind) (kutf8 : bool) (vk : kind) (vutf8 : bool).
  Variable dm : list byte -> value -> dres value.
  Hypothesis Hdm : forall tid p v, vk = KMsg tid ->
    match dm p v with DOk _ => True | DErr e => e <> DFuel /\ (W -> e <> DSchema) end.

  Lemma dt_entry : forall g bs key val, (length bs < length g)%nat ->
    match msg_dec_entry g kk kutf8 vk vutf8 dm bs key val with
    | DOk _ => True
    | DErr e => e <> DFuel /\ (W -> e <> DSchema)
    end.
  Proof.
    induction g as [|x g IH]; intros bs key val Hl; [cbn in Hl; lia|].
    cbn [msg_dec_entry]. destruct bs as [|b0 t0] eqn:Ebs; [exact I|].
    rewrite <- Ebs in *. clear Ebs b0 t0.
    destruct (dec_tag bs) as [[[num typ] r]|e] eqn:Et; [|split; [discriminate|intros _; discriminate]].
    pose proof (vp_dec_tag_len _ _ _ _ Et) as Hr.
    destruct (msg_max_num <? num); [split; [discriminate|intros _; discriminate]|].
    destruct (parse_val default_dep num typ r) as [[w r']|e] eqn:Ep; [|split; [discriminate|intros _; discriminate]].
    pose proof (parse_val_len _ _ _ _ _ _ Ep) as Hp.
    assert (Hrec : forall key' val', match msg_dec_entry g kk kutf8 vk vutf8 dm r' key' val' with
                                     | DOk _ => True | DErr e => e <> DFuel /\ (W -> e <> DSchema) end).
    { intros. apply IH. cbn [length] in Hl. lia. }
    destruct (num =? 1).
    - destruct (msg_dec_scalar kk kutf8 w) as [[s|e]|] eqn:Es; try apply Hrec.
      apply dt_dec_scalar_err in Es. subst e. split; [discriminate|intros _; discriminate].
    - destruct (num =? 2); [|apply Hrec].
      destruct vk as [sk|tid|tid] eqn:Evk.
      + destruct (msg_dec_scalar sk vutf8 w) as [[s|e]|] eqn:Es; try apply Hrec.
        apply dt_dec_scalar_err in Es. subst e. split; [discriminate|intros _; discriminate].
      + destruct w; try apply Hrec.
        pose proof (Hdm tid b val eq_refl) as H. destruct (dm b val); [apply Hrec|exact H].
      + apply Hrec.
  Qed.
End Entry.

Section Step.
  Variable slow : bool.
  Variable S : schema.
  Variable W : Prop.
  Hypothesis HW : W -> dt_schema_wf S.
  Variable md : mdesc.
  Hypothesis Hmd : In md S.
  Variable dsub : msg_dec_t.
  Variable dsub2 : option msg_dec_t.

  Definition dt_sub_ok (dm : msg_dec_t) : Prop :=
    forall tid grp g bs acc, (length bs < length g)%nat ->
      match dm tid grp g bs acc with
      | DOk (_, r) => dt_suffix r bs
      | DErr e => e <> DFuel /\ (W -> nth_error S tid <> None -> e <> DSchema)
      end.
  Hypothesis Hsub : dt_sub_ok dsub.
  Hypothesis Hsub2 : match dsub2 with Some dm2 => dt_sub_ok dm2 | None => True end.

  Ltac dt_err := split; [discriminate|intros _; discriminate].

  Lemma dt_unknown tagraw num typ r acc :
    dt_ok W _ (msg_unknown tagraw num typ r acc) snd r.
  Proof.
    unfold msg_unknown. destruct (parse_val default_dep num typ r) as [[w r']|e] eqn:E; cbn [dt_ok snd].
    - eapply parse_val_suffix; eauto.
    - dt_err.
  Qed.

  Lemma dt_whole (dm : msg_dec_t) tid payload old : dt_sub_ok dm ->
    match msg_whole dm tid payload old with
    | DOk _ => True
    | DErr e => e <> DFuel /\ (W -> nth_error S tid <> None -> e <> DSchema)
    end.
  Proof.
    intros H. unfold msg_whole. pose proof (H tid 0 (x00 :: payload) payload old ltac:(cbn [length]; lia)) as H1.
    destruct (dm tid 0 (x00 :: payload) payload old) as [[m r]|e]; [exact I|exact H1].
  Qed.

  Lemma dt_step tagraw num typ r acc :
    dt_ok W _ (msg_step slow md dsub dsub2 tagraw num typ r acc) snd r.
  Proof.
    unfold msg_step.
    destruct (msg_find_field md num) as [fd|] eqn:Ef; [|apply dt_unknown].
    pose proof (vp_find_field_in _ _ _ Ef) as Hin.
    assert (Hk : W -> match f_kind fd with KMsg t | KGrp t => nth_error S t <> None | KS _ => True end).
    { intros w. apply (HW w md fd Hmd Hin). }
    destruct (f_card fd) as [| | | | |kk kutf8 vdef] eqn:Ec.
    6: {
      destruct dsub2 as [dm2|]; [|cbn [dt_ok]; dt_err].
      destruct (typ =? 2); [|apply dt_unknown].
      destruct (dec_bytes r) as [[payload r']|e] eqn:Eb; [|cbn [dt_ok]; dt_err].
      match goal with |- context [msg_dec_entry ?g ?a ?b ?c ?d ?dm ?p ?k ?v] =>
        pose proof (dt_entry W a b c d dm) as He end.
      match type of He with (?A -> _) => assert (Hdm : A) end.
      { intros tid p v Ek. rewrite Ek.
        pose proof (dt_whole dm2 tid p (msg_macc_of v) Hsub2) as H1.
        destruct (msg_whole dm2 tid p (msg_macc_of v)) as [m|e]; [exact I|].
        destruct H1 as [H1 H2]. split; [exact H1|]. intros w. apply H2; [exact w|].
        specialize (Hk w). rewrite Ek in Hk. exact Hk. }
      specialize (He Hdm (x00 :: payload) payload (sk_zero kk) (msg_entry_default (f_kind fd) vdef) ltac:(cbn [length]; lia)).
      destruct (msg_dec_entry _ _ _ _ _ _ _ _ _) as [[key v]|e]; cbn [dt_ok snd].
      - eapply dt_dec_bytes_suffix; eauto.
      - exact He.
    }
    all: destruct (f_kind fd) as [sk|tid|tid] eqn:Ek.
    (* scalar kinds *)
    1,4,7,10,13:
      (destruct (typ =? sk_wt sk);
       [ destruct (parse_val 0 num typ r) as [[w r']|e] eqn:Ep; [|cbn [dt_ok]; dt_err];
         destruct (msg_dec_scalar sk (msg_field_utf8 slow fd) w) as [[s|e]|] eqn:Es;
         [ cbn [dt_ok snd]; eapply parse_val_suffix; eauto
         | apply dt_dec_scalar_err in Es; subst e; cbn [dt_ok]; dt_err
         | apply dt_unknown ]
       | destruct ((typ =? 2) && msg_packable sk && _) eqn:Ecnd; [|apply dt_unknown];
         destruct (dec_bytes r) as [[payload r']|e] eqn:Eb; [|cbn [dt_ok]; dt_err];
         assert (Hp : msg_packable sk = true)
           by (apply andb_prop in Ecnd; destruct Ecnd as [Ecnd _]; apply andb_prop in Ecnd; tauto);
         pose proof (dt_packed sk Hp payload) as Hpk;
         destruct (msg_dec_packed (x00 :: payload) sk payload []) as [vs|e];
         [ cbn [dt_ok snd]; eapply dt_dec_bytes_suffix; eauto | subst e; cbn [dt_ok]; dt_err ] ]).
    (* message kinds *)
    1,3,5,7,9:
      (destruct (typ =? 2); [|apply dt_unknown];
       destruct (dec_bytes r) as [[payload r']|e] eqn:Eb; [|cbn [dt_ok]; dt_err];
       pose proof (dt_whole dsub tid payload (msg_old_sub fd (fst acc)) Hsub) as H1;
       destruct (msg_whole dsub tid payload (msg_old_sub fd (fst acc))) as [m|e];
       [ cbn [dt_ok snd]; eapply dt_dec_bytes_suffix; eauto
       | cbn [dt_ok]; destruct H1 as [H1 H2]; split; [exact H1|]; intros w; apply H2; [exact w|]; apply (Hk w) ]).
    (* group kinds *)
    all: destruct (typ =? 3); [|apply dt_unknown].
    all: destruct slow.
    all: try (destruct (consume_group num r) as [[[content|] n]|e] eqn:Eg;
              [ | exfalso; eapply consume_group_no_panic; eauto | cbn [dt_ok]; dt_err ];
              pose proof (dt_whole dsub tid content (msg_old_sub fd (fst acc)) Hsub) as H1;
              destruct (msg_whole dsub tid content (msg_old_sub fd (fst acc))) as [m|e];
              [ cbn [dt_ok snd]; exists (firstn (N.to_nat n) r); symmetry; apply firstn_skipn
              | cbn [dt_ok]; destruct H1 as [H1 H2]; split; [exact H1|]; intros w; apply H2; [exact w|]; apply (Hk w) ]).
    all: pose proof (Hsub tid num (x00 :: r) r (msg_old_sub fd (fst acc)) ltac:(cbn [length]; lia)) as H1;
         destruct (dsub tid num (x00 :: r) r (msg_old_sub fd (fst acc))) as [[m r']|e];
         [ cbn [dt_ok snd]; exact H1
         | cbn [dt_ok]; destruct H1 as [H1 H2]; split; [exact H1|]; intros w; apply H2; [exact w|]; apply (Hk w) ].
  Qed.
End Step.

Section Main.
  Variable slow : bool.
  Variable S : schema.
  Variable W : Prop.
  Hypothesis HW : W -> dt_schema_wf S.
  Notation dm := (msg_decode_msg slow S).

  Definition dt_dsub2 (d : nat) : option msg_dec_t :=
    match d with O => None | Datatypes.S d1 => Some (dm d1) end.

  Lemma dt_dm_unfold d tid grp md x g bs acc :
    nth_error S tid = Some md ->
    dm (Datatypes.S d) tid grp (x :: g) bs acc =
    match bs with
    | [] => if grp =? 0 then DOk (acc, []) else DErr DParse
    | _ =>
      match dec_tag bs with
      | Err _ => DErr DParse
      | Ok (num, typ, r) =>
        if msg_max_num <? num then DErr DParse
        else if typ =? 4 then (if num =? grp then DOk (acc, r) else DErr DParse)
        else
          let tagraw := if slow then firstn (length bs - length r) bs else enc_tag num typ in
          match msg_step slow md (dm d) (dt_dsub2 d) tagraw num typ r acc with
          | DErr e => DErr e
          | DOk (acc', r') => dm (Datatypes.S d) tid grp g r' acc'
          end
      end
    end.
  Proof. intros H. cbn [msg_decode_msg]. rewrite H. reflexivity. Qed.

  Theorem dt_main : forall d, dt_sub_ok S W (dm d).
  Proof.
    induction d as [d IHd] using (well_founded_induction lt_wf).
    intros tid grp g bs acc Hl. destruct d as [|d].
    { cbn [msg_decode_msg]. split; [discriminate|intros _ _; discriminate]. }
    destruct (nth_error S tid) as [md|] eqn:Hmd.
    2: { cbn [msg_decode_msg]. rewrite Hmd. split; [discriminate|]. intros _ H. congruence. }
    assert (Hin : In md S) by (eapply nth_error_In; eauto).
    assert (Hsub : dt_sub_ok S W (dm d)) by (apply IHd; lia).
    assert (Hsub2 : match dt_dsub2 d with Some dm2 => dt_sub_ok S W dm2 | None => True end).
    { destruct d as [|d1]; cbn [dt_dsub2]; [exact I|]. apply IHd. lia. }
    revert bs acc Hl. induction g as [|x g IH]; intros bs acc Hl; [cbn in Hl; lia|].
    rewrite (dt_dm_unfold _ _ _ _ _ _ _ _ Hmd).
    destruct bs as [|b0 t0] eqn:Ebs.
    { destruct (grp =? 0); [apply dt_suffix_refl|split; [discriminate|intros _ _; discriminate]]. }
    rewrite <- Ebs in *. clear Ebs b0 t0.
    destruct (dec_tag bs) as [[[num typ] r]|e] eqn:Et; [|split; [discriminate|intros _ _; discriminate]].
    pose proof (vp_dec_tag_len _ _ _ _ Et) as Hr. pose proof (dt_dec_tag_suffix _ _ _ _ Et) as Hsf.
    destruct (msg_max_num <? num); [split; [discriminate|intros _ _; discriminate]|].
    destruct (typ =? 4).
    { destruct (num =? grp); [exact Hsf|split; [discriminate|intros _ _; discriminate]]. }
    cbv zeta.
    pose proof (dt_step slow S W HW md Hin (dm d) (dt_dsub2 d) Hsub Hsub2
                  (if slow then firstn (length bs - length r) bs else enc_tag num typ) num typ r acc) as Hs.
    unfold dt_ok in Hs.
    destruct (msg_step slow md (dm d) (dt_dsub2 d) _ num typ r acc) as [[acc' r']|e].
    - cbn [snd] in Hs. pose proof (dt_suffix_len _ _ Hs) as Hl'.
      specialize (IH r' acc' ltac:(cbn [length] in Hl; lia)).
      destruct (dm (Datatypes.S d) tid grp g r' acc') as [[m r0]|e].
      + eapply dt_suffix_trans; [exact IH|]. eapply dt_suffix_trans; eauto.
      + exact IH.
    - destruct Hs as [H1 H2]. split; [exact H1|]. intros w _. apply H2. exact w.
  Qed.
End Main.

(* ---------- the statements used by Props/C06.v ---------- *)
Theorem dt_decode_total slow S limit tid bs old :
  dt_schema_wf S -> nth_error S tid <> None ->
  msg_decode_into slow S limit tid bs old <> DErr DFuel /\
  msg_decode_into slow S limit tid bs old <> DErr DSchema.
Proof.
  intros Hwf Htid. unfold msg_decode_into.
  pose proof (dt_main slow S (dt_schema_wf S) (fun w => w) limit tid 0 (x00 :: bs) bs (msg_macc_of old)
                ltac:(cbn [length]; lia)) as H.
  destruct (msg_decode_msg slow S limit tid 0 (x00 :: bs) bs (msg_macc_of old)) as [[m r]|e].
  - split; discriminate.
  - destruct H as [H1 H2]. split; intros E; inversion E; subst; [apply H1; reflexivity|apply (H2 Hwf Htid); reflexivity].
Qed.

Theorem dt_decode_never_fuel slow S limit tid bs old :
  msg_decode_into slow S limit tid bs old <> DErr DFuel.
Proof.
  unfold msg_decode_into.
  pose proof (dt_main slow S False (fun w => match w with end) limit tid 0 (x00 :: bs) bs (msg_macc_of old)
                ltac:(cbn [length]; lia)) as H.
  destruct (msg_decode_msg slow S limit tid 0 (x00 :: bs) bs (msg_macc_of old)) as [[m r]|e]; [discriminate|].
  destruct H as [H1 _]. intros E. inversion E. subst. apply H1. reflexivity.
Qed.

(* no over-read: whatever the tag loop of a message or group leaves unread is a suffix of its
   input -- consumed = length input - length rest <= length input *)
Theorem dt_no_overread slow S dep tid grp bs acc m r :
  msg_decode_msg slow S dep tid grp (x00 :: bs) bs acc = DOk (m, r) ->
  exists consumed, bs = consumed ++ r.
Proof.
  intros E.
  pose proof (dt_main slow S False (fun w => match w with end) dep tid grp (x00 :: bs) bs acc
                ltac:(cbn [length]; lia)) as H.
  rewrite E in H. exact H.
Qed.

(* decidable well-formedness of a schema table *)
Definition dt_schema_wfb (S : schema) : bool :=
  forallb (fun md => forallb (fun fd => match f_kind fd with
                                        | KMsg t | KGrp t => Nat.ltb t (length S)
                                        | KS _ => true end) md) S.
Lemma dt_schema_wfb_spec S : dt_schema_wfb S = true -> dt_schema_wf S.
Proof.
  unfold dt_schema_wfb. intros H md fd Hmd Hfd. rewrite forallb_forall in H. specialize (H md Hmd).
  rewrite forallb_forall in H. specialize (H fd Hfd).
  destruct (f_kind fd); [exact I| |]; apply Nat.ltb_lt in H; apply nth_error_Some; exact H.
Qed.
