(* MsgValid — decidable side conditions of the message codec theorems.  Definitions only.

   msg_sizes_ok S tid v   every varint the encoder emits for v (scalars, lengths, tags) is a uint64:
                          integers in uint64 range, byte strings / sub-message bodies / packed
                          payloads / map entries shorter than 2^64, field numbers below 2^61.
                          This is the whole hypothesis of C04 (Size = len(Marshal)).  *)
From Coq Require Import List NArith ZArith Bool.
From PB Require Import Base.PBytes Wire.WireModel Msg.MsgSchema Msg.MsgValue Msg.MsgUtf8 Msg.MsgEnc.
Import ListNotations.
Open Scope N_scope.

Definition msg_two64 : N := 18446744073709551616.

Definition msg_wval_ok (w : wval) : bool :=
  match w with
  | WVarint x => x <? msg_two64
  | WLen b => N.of_nat (length b) <? msg_two64
  | _ => true
  end.

Section FieldOk.
  Variable sb : nat -> value -> N.
  Variable ok : nat -> value -> bool.

  Definition msg_szok_elem (k : kind) (v : value) : bool :=
    match k, v with
    | KS sk, VS s => msg_wval_ok (sk_enc sk s)
    | KMsg tid, VMsg _ _ => ok tid v && (sb tid v <? msg_two64)
    | KGrp tid, VMsg _ _ => ok tid v
    | _, _ => true
    end.

  Definition msg_szok_entry (kk : skind) (vk : kind) (e : value) : bool :=
    match e with
    | VEntry key v =>
      msg_wval_ok (sk_enc kk key) && msg_szok_elem vk v
      && (msg_size_key kk key + msg_size_elem sb 2 vk v <? msg_two64)
    | _ => true
    end.

  Definition msg_szok_field (fd : fdesc) (vs : list value) : bool :=
    (f_num fd <? 2305843009213693952) &&
    match f_card fd with
    | CMap kk _ _ => forallb (msg_szok_entry kk (f_kind fd)) vs
    | CPacked =>
      match f_kind fd, vs with
      | KS sk, _ :: _ =>
        if msg_packable sk then
          forallb (msg_szok_elem (f_kind fd)) vs && (msg_size_packed_payload sk vs <? msg_two64)
        else forallb (msg_szok_elem (f_kind fd)) vs
      | _, _ => forallb (msg_szok_elem (f_kind fd)) vs
      end
    | _ => forallb (msg_szok_elem (f_kind fd)) vs
    end.

  Definition msg_szok_chunk (md : mdesc) (p : N * list value) : bool :=
    match msg_find_field md (fst p) with
    | Some fd => msg_szok_field fd (snd p)
    | None => true
    end.
End FieldOk.

Fixpoint msg_sizes_ok (S : schema) (tid : nat) (v : value) {struct v} : bool :=
  match v with
  | VMsg fs _ => forallb (fun p => msg_szok_chunk (msg_size_body S) (msg_sizes_ok S) (nth tid S []) p) fs
  | _ => true
  end.

(* ------------------------------------------------------------------------------------------
   msg_typed slow S dep tid v   the canonical-value conditions of the round-trip theorem (C03)

   For a message value [VMsg fs unk] of type tid at remaining depth dep (= RecursionLimit counted
   as in the decoder: dep >= 1, map entries need one more level):
     - tid names a message type of S; the keys of fs are strictly increasing valid field numbers,
       each declared in that type; no field holds an empty list;
     - singular fields hold exactly one value, implicit-presence fields hold a non-zero scalar;
     - scalars are in the range of their kind ([sk_ok]); strings of UTF-8-enforced fields are valid;
     - map entries are [VEntry]s, strictly increasing by key in the order of deterministic
       marshalling (stated pairwise: every later key compares Gt with every earlier one);
     - at most one member of each oneof is present;
     - sub-messages are typed at depth dep-1 (map values: dep-2);
     - the unknown bytes are a sequence of well-formed fields that the decoder of this message
       type does not accept as known (number not declared, or declared with a wire type the field
       rejects), with minimal tags on the table-driven path ([slow] = false) -- checked by
       running the wire scanner, see [msg_unknown_ok].
   On the reflection path ([slow] = true) a group-typed value must in addition pass the wire
   scanner ([msg_group_scans]: protowire.ConsumeGroup reads the whole group, with a nesting
   budget of 10000 that it shares with unknown groups nested inside, before the content is
   decoded); on the table-driven path groups are decoded directly and need no such condition. *)

Definition msg_bytes_eqb (a b : list byte) : bool :=
  match msg_bytes_cmp a b with Eq => true | _ => false end.

(* does the decoder of md send an occurrence (num, typ) to the unknown set? *)
Definition msg_rejects (md : mdesc) (has2 : bool) (num typ : N) : bool :=
  match msg_find_field md num with
  | None => true
  | Some fd =>
    match f_card fd with
    | CMap _ _ _ => has2 && negb (typ =? 2)
    | c =>
      match f_kind fd with
      | KMsg _ => negb (typ =? 2)
      | KGrp _ => negb (typ =? 3)
      | KS sk => negb (typ =? sk_wt sk) && negb ((typ =? 2) && msg_packable sk && card_repeated c)
      end
    end
  end.

(* the unknown section: every field is scanned by the decoder exactly as here *)
Fixpoint msg_unknown_ok (slow : bool) (md : mdesc) (has2 : bool) (g : list byte) (u : list byte) : bool :=
  match g with
  | [] => false
  | _ :: g' =>
    match u with
    | [] => true
    | _ =>
      match dec_tag u with
      | Err _ => false
      | Ok (num, typ, r) =>
        match parse_val default_dep num typ r with
        | Err _ => false
        | Ok (_, r') =>
          (num <=? msg_max_num) && negb (typ =? 4) && msg_rejects md has2 num typ
          && (if slow then msg_bytes_eqb (firstn (length u - length r) u ++ r) u
              else msg_bytes_eqb (enc_tag num typ ++ r) u)
          && msg_bytes_eqb (firstn (length r - length r') r ++ r') r
          && Nat.ltb (length r) (length u)
          && msg_unknown_ok slow md has2 g' r'
        end
      end
    end
  end.

Definition msg_str_valid (sk : skind) (utf8 : bool) (s : scalar) : bool :=
  match sk, s with
  | SkString, SBy b => negb utf8 || msg_utf8_valid b
  | _, _ => true
  end.

(* pairwise: every element of [later] has a key that compares Gt with [key] *)
Definition msg_keys_after (key : scalar) (later : list value) : bool :=
  forallb (fun e => match e with
                    | VEntry k _ => match msg_scmp k key with Gt => true | _ => false end
                    | _ => false end) later.
Fixpoint msg_entries_sorted (es : list value) : bool :=
  match es with
  | [] => true
  | VEntry key _ :: r => msg_keys_after key r && msg_entries_sorted r
  | _ :: _ => false
  end.

Fixpoint msg_keys_sorted (lo : N) (fs : fields) : bool :=
  match fs with
  | [] => true
  | (k, _) :: r => (lo <? k) && msg_keys_sorted k r
  end.

(* no two present fields are members of the same oneof: for a present member of oneof i,
   no other field of the message type that belongs to oneof i is present *)
Definition msg_oneof_of (md : mdesc) (num : N) : option N :=
  match msg_find_field md num with Some fd => f_oneof fd | None => None end.
Definition msg_oneofs_ok (md : mdesc) (fs : fields) : bool :=
  forallb (fun p =>
    match msg_oneof_of md (fst p) with
    | None => true
    | Some i =>
      forallb (fun fd' =>
        match f_oneof fd' with
        | Some j => negb (j =? i) || (f_num fd' =? fst p) || negb (existsb (N.eqb (f_num fd')) (map fst fs))
        | None => true
        end) md
    end) fs.

(* the wire scanner accepts a group body followed by its end tag (what protowire.ConsumeGroup
   must do before the reflection path decodes the content) *)
Definition msg_group_scans (num : N) (body : list byte) : bool :=
  match parse_val default_dep num 3 (body ++ enc_tag num 4) with
  | Ok (_, []) => true
  | _ => false
  end.

Section FieldTyped.
  Variable slow : bool.
  Variable eb : nat -> value -> list byte. (* the encoder of sub-message bodies *)
  Variable tv : nat -> value -> bool.      (* sub-messages, one level down *)
  Variable tv2 : nat -> value -> bool.     (* values of map entries, two levels down *)
  Variable has2 : bool.                    (* is there depth left for a map entry? *)

  Definition msg_typed_elem (fd : fdesc) (v : value) : bool :=
    match f_kind fd, v with
    | KS sk, VS s => sk_ok sk s && msg_str_valid sk (msg_field_utf8 slow fd) s
    | KMsg tid, VMsg _ _ => tv tid v
    | KGrp tid, VMsg _ _ => tv tid v && (negb slow || msg_group_scans (f_num fd) (eb tid v))
    | _, _ => false
    end.

  Definition msg_typed_entry (fd : fdesc) (kk : skind) (kutf8 : bool) (e : value) : bool :=
    match e with
    | VEntry key v =>
      sk_ok kk key && msg_str_valid kk kutf8 key &&
      match f_kind fd, v with
      | KS sk, VS s => sk_ok sk s && msg_str_valid sk (f_utf8 fd) s
      | KMsg tid, VMsg _ _ => tv2 tid v
      | _, _ => false
      end
    | _ => false
    end.

  Definition msg_typed_field (fd : fdesc) (vs : list value) : bool :=
    (1 <=? f_num fd) && (f_num fd <=? msg_max_num) &&
    match f_card fd with
    | COpt | CReq => match vs with [v] => msg_typed_elem fd v | _ => false end
    | CImp => match vs with
              | [v] => msg_typed_elem fd v &&
                       match f_kind fd, v with
                       | KS _, VS s => negb (msg_scalar_is_zero s)
                       | _, _ => false
                       end
              | _ => false end
    | CRep | CPacked => match vs with [] => false | _ => forallb (msg_typed_elem fd) vs end
    | CMap kk kutf8 _ =>
      has2 && match vs with [] => false | _ => forallb (msg_typed_entry fd kk kutf8) vs end
      && msg_entries_sorted vs
    end.

  Definition msg_typed_chunk (md : mdesc) (p : N * list value) : bool :=
    match msg_find_field md (fst p) with
    | Some fd => msg_typed_field fd (snd p)
    | None => false
    end.
End FieldTyped.

Fixpoint msg_typed (slow : bool) (S : schema) (dep : nat) (tid : nat) (v : value) {struct v} : bool :=
  match v with
  | VMsg fs unk =>
    match dep with
    | O => false
    | Datatypes.S d =>
      match nth_error S tid with
      | None => false
      | Some md =>
        let has2 := match d with O => false | _ => true end in
        let tv2 := fun t x => match d with O => false | Datatypes.S d1 => msg_typed slow S d1 t x end in
        msg_keys_sorted 0 fs
        && forallb (fun p => msg_typed_chunk slow (msg_enc_body S) (msg_typed slow S d) tv2 has2 md p) fs
        && msg_oneofs_ok md fs
        && msg_unknown_ok slow md has2 (x00 :: unk) unk
      end
    end
  | _ => false
  end.

Definition msg_valid (slow : bool) (S : schema) (dep : nat) (tid : nat) (v : value) : bool :=
  msg_sizes_ok S tid v && msg_typed slow S dep tid v.
