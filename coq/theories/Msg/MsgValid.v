(* MsgValid — decidable side conditions of the message codec theorems.  Definitions only.

   msg_sizes_ok S tid v   every varint the encoder emits for v (scalars, lengths, tags) is a uint64:
                          integers in uint64 range, byte strings / sub-message bodies / packed
                          payloads / map entries shorter than 2^64, field numbers below 2^61.
                          This is the whole hypothesis of C04 (Size = len(Marshal)).  *)
From Coq Require Import List NArith ZArith Bool.
From PB Require Import Base.PBytes Wire.WireModel Msg.MsgSchema Msg.MsgValue Msg.MsgEnc.
Import ListNotations.
Open Scope N_scope.

Definition msg_two64 : N := 18446744073709551616.

Definition msg_wval_ok (w : wval) : bool :=
  match w with
  | WVarint x => x <? msg_two64
  | WLen b => N.of_nat (length b) <? msg_two64
  | _ => true
  end.

Section FieldOk.
  Variable sb : nat -> value -> N.
  Variable ok : nat -> value -> bool.

  Definition msg_szok_elem (k : kind) (v : value) : bool :=
    match k, v with
    | KS sk, VS s => msg_wval_ok (sk_enc sk s)
    | KMsg tid, VMsg _ _ => ok tid v && (sb tid v <? msg_two64)
    | KGrp tid, VMsg _ _ => ok tid v
    | _, _ => true
    end.

  Definition msg_szok_entry (kk : skind) (vk : kind) (e : value) : bool :=
    match e with
    | VEntry key v =>
      msg_wval_ok (sk_enc kk key) && msg_szok_elem vk v
      && (msg_size_key kk key + msg_size_elem sb 2 vk v <? msg_two64)
    | _ => true
    end.

  Definition msg_szok_field (fd : fdesc) (vs : list value) : bool :=
    (f_num fd <? 2305843009213693952) &&
    match f_card fd with
    | CMap kk _ _ => forallb (msg_szok_entry kk (f_kind fd)) vs
    | CPacked =>
      match f_kind fd, vs with
      | KS sk, _ :: _ =>
        if msg_packable sk then
          forallb (msg_szok_elem (f_kind fd)) vs && (msg_size_packed_payload sk vs <? msg_two64)
        else forallb (msg_szok_elem (f_kind fd)) vs
      | _, _ => forallb (msg_szok_elem (f_kind fd)) vs
      end
    | _ => forallb (msg_szok_elem (f_kind fd)) vs
    end.

  Definition msg_szok_chunk (md : mdesc) (p : N * list value) : bool :=
    match msg_find_field md (fst p) with
    | Some fd => msg_szok_field fd (snd p)
    | None => true
    end.
End FieldOk.

Fixpoint msg_sizes_ok (S : schema) (tid : nat) (v : value) {struct v} : bool :=
  match v with
  | VMsg fs _ => forallb (fun p => msg_szok_chunk (msg_size_body S) (msg_sizes_ok S) (nth tid S []) p) fs
  | _ => true
  end.
