(* LazyModel — model of lazy decoding of messages with [lazy = true] fields
   (internal/impl/lazy.go unmarshalPointerLazy / skipField / lazyUnmarshal / unmarshalField,
   internal/protolazy/lazy.go lookupField / AppendField / SizeField, and the consumers
   encode.go, checkinit.go).  Definitions only.

   One level of laziness is modelled: the message that is unmarshalled keeps its lazy fields as
   ranges of the retained buffer; forcing a field decodes its ranges with the eager decoder of
   Msg/MsgDec.v (in the implementation the decoded sub-message is lazy again, which is not
   observable through the projections used here: the retained bytes are re-emitted verbatim
   only by a Marshal that happens before any access).

   [lmsg]      the state after Unmarshal: eagerly decoded fields, unknown bytes, retained buffer,
               lazy index (sorted by number, then start, when fields came out of order), and the
               lazy fields whose presence bit is set while their pointer is still nil
   lz_unmarshal S limit tid bs         proto.Unmarshal with lazy decoding on (fresh message)
   lz_lookup idx num                   protolazy.lookupField: the ranges of a field
   lz_force S md m num                 lazyUnmarshal of one field (first access)
   lz_value S tid m                    the canonical value once every lazy field has been read
   lz_marshal_raw S tid m              Marshal (not deterministic) of the untouched message:
                                       AppendField re-emits the ranges of still-lazy fields
   lz_check_init S tid m               proto.CheckInitialized on the untouched message when
                                       Unmarshal ran without AllowPartial: still-lazy fields are
                                       skipped ("checked on unmarshal")
   Not modelled: ValidationUnknown (lazyUnmarshalNow / lazyUnmarshalLater), group-encoded parents,
   the partial field left behind when forcing fails (only reachable with RecursionLimit above
   the default, finding FWB6). *)
From Coq Require Import List NArith ZArith Bool.
From PB Require Import Base.PBytes Wire.WireModel Msg.MsgSchema Msg.MsgValue Msg.MsgUtf8 Msg.MsgEnc Msg.MsgDec.
From PB Require Import Msg.ValidateMsgModel.
Import ListNotations.
Open Scope N_scope.

Record ientry := mkIE { ie_num : N; ie_start : nat; ie_end : nat }.

Record lmsg := mkL {
  l_fields : fields;
  l_unk : list byte;
  l_buf : list byte;
  l_index : list ientry;
  l_lazy : list N
}.

(* coderFieldInfo.isLazy: [lazy = true] on a message- or group-typed field outside oneofs and maps *)
Definition lz_is_lazy (fd : fdesc) : bool :=
  f_lazy fd &&
  match f_kind fd with KS _ => false | _ => true end &&
  match f_card fd with CMap _ _ _ => false | _ => true end &&
  match f_oneof fd with None => true | Some _ => false end.

(* ---------- the index ---------- *)
(* append or extend: a new entry unless the previous field had the same number *)
Fixpoint lz_extend_last (idx : list ientry) (e : nat) : list ientry :=
  match idx with
  | [] => []
  | [x] => [mkIE (ie_num x) (ie_start x) e]
  | x :: r => x :: lz_extend_last r e
  end.
Definition lz_index_add (idx : list ientry) (num last : N) (pos e : nat) : list ientry :=
  if num =? last then lz_extend_last idx e else idx ++ [mkIE num pos e].

(* sort.Slice by (FieldNum, Start) -- keys are distinct, so any sort gives this result *)
Definition lz_ie_le (a b : ientry) : bool :=
  (ie_num a <? ie_num b) || ((ie_num a =? ie_num b) && Nat.leb (ie_start a) (ie_start b)).
Fixpoint lz_ie_insert (x : ientry) (l : list ientry) : list ientry :=
  match l with
  | [] => [x]
  | y :: r => if lz_ie_le x y then x :: l else y :: lz_ie_insert x r
  end.
Fixpoint lz_ie_sort (l : list ientry) : list ientry :=
  match l with [] => [] | x :: r => lz_ie_insert x (lz_ie_sort r) end.

(* lookupField: all consecutive entries of the first run with this number; the scan stops at the
   first larger number (the index is assumed sorted) *)
Fixpoint lz_take_run (idx : list ientry) (num : N) : list ientry :=
  match idx with
  | x :: r => if ie_num x =? num then x :: lz_take_run r num else []
  | [] => []
  end.
Fixpoint lz_lookup (idx : list ientry) (num : N) : list ientry :=
  match idx with
  | [] => []
  | x :: r =>
    if ie_num x =? num then lz_take_run idx num
    else if num <? ie_num x then []
    else lz_lookup r num
  end.

Definition lz_slice (buf : list byte) (e : ientry) : list byte :=
  firstn (ie_end e - ie_start e) (skipn (ie_start e) buf).

(* ---------- Unmarshal ---------- *)
Record lstate := mkLS {
  s_acc : msg_macc;
  s_present : list N;
  s_idx : list ientry;
  s_last : N;
  s_ooo : bool
}.

Section LzLoop.
  Variable S : schema.
  Variable d : nat.            (* levels still available below this message *)
  Variable md : mdesc.
  Variable total : nat.        (* length of the retained buffer *)

  Definition lz_dsub2 : option msg_dec_t :=
    match d with O => None | Datatypes.S d1 => Some (msg_decode_msg false S d1) end.

  Definition lz_note (st : lstate) (lazy : bool) (num : N) (pos : nat) (r' : list byte)
             (acc : msg_macc) (present : list N) : lstate :=
    mkLS acc present
         (if lazy then lz_index_add (s_idx st) num (s_last st) pos (total - length r') else s_idx st)
         num (s_ooo st || (num <? s_last st)).

  (* one field; returns the new state and the rest *)
  Definition lz_step (st : lstate) (bs : list byte) (num typ : N) (r : list byte) : dres (lstate * list byte) :=
    let pos := (total - length bs)%nat in
    let eager :=
      match msg_step false md (msg_decode_msg false S d) lz_dsub2 (enc_tag num typ) num typ r (s_acc st) with
      | DErr e => DErr e
      | DOk (acc', r') => DOk (lz_note st false num pos r' acc' (s_present st), r')
      end in
    match msg_find_field md num with
    | None => eager
    | Some fd =>
      if lz_is_lazy fd then
        let unknown :=
          (* ValidationWrongWireType: the occurrence goes to the unknown fields -- and, being an
             occurrence of a lazy field, into the index as well (finding F1) *)
          match msg_unknown (enc_tag num typ) num typ r (s_acc st) with
          | DErr e => DErr e
          | DOk (acc', r') => DOk (lz_note st true num pos r' acc' (s_present st), r')
          end in
        match f_kind fd with
        | KMsg tid =>
          if typ =? 2 then
            match dec_bytes r with
            | Err _ => DErr DParse
            | Ok (payload, r') =>
              match vr_msg S d tid 0 (x00 :: payload) payload with
              | VOk _ _ _ => DOk (lz_note st true num pos r' (s_acc st) (num :: s_present st), r')
              | VBad => DErr DParse
              | VFuel => DErr DFuel
              end
            end
          else unknown
        | KGrp tid =>
          if typ =? 3 then
            match vr_msg S d tid num (x00 :: r) r with
            | VOk _ _ r' => DOk (lz_note st true num pos r' (s_acc st) (num :: s_present st), r')
            | VBad => DErr DParse
            | VFuel => DErr DFuel
            end
          else unknown
        | KS _ => eager
        end
      else eager
    end.

  Fixpoint lz_loop (g bs : list byte) (st : lstate) {struct g} : dres lstate :=
    match g with
    | [] => DErr DFuel
    | _ :: g' =>
      match bs with
      | [] => DOk st
      | _ =>
        match dec_tag bs with
        | Err _ => DErr DParse
        | Ok (num, typ, r) =>
          if msg_max_num <? num then DErr DParse
          else if typ =? 4 then DErr DParse
          else
            match lz_step st bs num typ r with
            | DErr e => DErr e
            | DOk (st', r') => lz_loop g' r' st'
            end
        end
      end
    end.
End LzLoop.

Fixpoint lz_dedup (l : list N) : list N :=
  match l with
  | [] => []
  | x :: r => if existsb (N.eqb x) r then lz_dedup r else x :: lz_dedup r
  end.

Definition lz_unmarshal (S : schema) (limit tid : nat) (bs : list byte) : dres lmsg :=
  match limit with
  | O => DErr DDepth
  | Datatypes.S d =>
    match nth_error S tid with
    | None => DErr DSchema
    | Some md =>
      match lz_loop S d md (length bs) (x00 :: bs) bs (mkLS ([], []) [] [] 0 false) with
      | DErr e => DErr e
      | DOk st =>
        DOk (mkL (fst (s_acc st)) (snd (s_acc st)) bs
                 (if s_ooo st then lz_ie_sort (s_idx st) else s_idx st)
                 (lz_dedup (s_present st)))
      end
    end
  end.

(* ---------- first access: lazyUnmarshal / unmarshalField ---------- *)
(* lazyUnmarshalOptions.depth = DefaultRecursionLimit: the sub-message is decoded as if its
   parent had 10000 levels left *)
Definition lz_force_dep : nat := N.to_nat 10000.

Section LzForce.
  Variable S : schema.
  Variable md : mdesc.
  Variable fd : fdesc.

  (* one range; a failure stops the range (the Go code ignores the error) *)
  Fixpoint lz_range (g bs : list byte) (acc : msg_macc) {struct g} : msg_macc :=
    match g with
    | [] => acc
    | _ :: g' =>
      match bs with
      | [] => acc
      | _ =>
        match dec_tag bs with
        | Err _ => acc
        | Ok (num, typ, r) =>
          if msg_max_num <? num then acc
          else if (num =? f_num fd) && (typ =? kind_wt (f_kind fd)) then
            match msg_step false md (msg_decode_msg false S lz_force_dep)
                           (Some (msg_decode_msg false S (pred lz_force_dep)))
                           (enc_tag num typ) num typ r acc with
            | DErr _ => acc
            | DOk (acc', r') => lz_range g' r' acc'
            end
          else
            match vr_skip num typ r with
            | Some r' => lz_range g' r' acc
            | None => acc
            end
        end
      end
    end.
End LzForce.

Definition lz_force (S : schema) (md : mdesc) (m : lmsg) (num : N) : lmsg :=
  match msg_find_field md num with
  | None => m
  | Some fd =>
    let ranges := lz_lookup (l_index m) num in
    let acc := fold_left (fun a e => let b := lz_slice (l_buf m) e in lz_range S md fd (x00 :: b) b a)
                         ranges ([], []) in
    let vs := match msg_fget (fst acc) num with [] => [msg_empty] | vs => vs end in
    mkL (msg_fset (l_fields m) num vs) (l_unk m) (l_buf m) (l_index m)
        (filter (fun n => negb (n =? num)) (l_lazy m))
  end.

Definition lz_force_all (S : schema) (md : mdesc) (m : lmsg) : lmsg :=
  fold_left (lz_force S md) (l_lazy m) m.

Definition lz_value (S : schema) (tid : nat) (m : lmsg) : value :=
  let m' := lz_force_all S (nth tid S []) m in VMsg (l_fields m') (l_unk m').

(* ---------- Marshal / Size of the untouched message ---------- *)
Definition lz_raw_chunk (md : mdesc) (m : lmsg) (num : N) : N * list byte :=
  match msg_find_field md num with
  | Some fd => (msg_legacy_key fd, flat_map (lz_slice (l_buf m)) (lz_lookup (l_index m) num))
  | None => (0, [])
  end.

Definition lz_marshal_raw (S : schema) (tid : nat) (m : lmsg) : list byte :=
  let md := nth tid S [] in
  concat (map snd (msg_chunk_sort
    (map (fun p => msg_enc_chunk (msg_enc_body S) md p) (l_fields m) ++ map (lz_raw_chunk md m) (l_lazy m))))
  ++ l_unk m.

(* ---------- CheckInitialized on the untouched message (Unmarshal without AllowPartial) ---------- *)
Definition lz_check_init (S : schema) (tid : nat) (m : lmsg) : bool :=
  let md := nth tid S [] in
  forallb (fun fd => negb (vr_is_req fd) || existsb (N.eqb (f_num fd)) (l_lazy m) ||
                     match msg_fget (l_fields m) (f_num fd) with [] => false | _ => true end) md &&
  forallb (fun p => vm_ci_chunk (msg_check_init S) md p) (l_fields m).

(* ---------- projected observations ---------- *)
(* verdict code: 0 ok, else derr_code *)
Definition lz_verdict (S : schema) (limit tid : nat) (bs : list byte) : N :=
  match lz_unmarshal S limit tid bs with DOk _ => 0 | DErr e => derr_code e end.
(* strict verdict: 0 ok, 6 required field missing *)
Definition lz_strict (S : schema) (limit tid : nat) (bs : list byte) : N :=
  match lz_unmarshal S limit tid bs with
  | DOk m => if lz_check_init S tid m then 0 else 6
  | DErr e => derr_code e
  end.
Definition lz_raw_of (S : schema) (limit tid : nat) (bs : list byte) : list byte :=
  match lz_unmarshal S limit tid bs with DOk m => lz_marshal_raw S tid m | DErr _ => [] end.
Definition lz_value_of (S : schema) (limit tid : nat) (bs : list byte) : option value :=
  match lz_unmarshal S limit tid bs with DOk m => Some (lz_value S tid m) | DErr _ => None end.
