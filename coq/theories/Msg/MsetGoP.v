(* Tier T for the MessageSet item codec: the functions of
   internal/encoding/messageset/messageset.go as translated by srcmodel_mset
   (Gen/MsetGo.v, regenerated on every run) equal the hand-written model
   Msg/MsetModel.v on their whole domain and never return Panic / Fuel there.
   The calls of protowire.* in messageset.go are calls of the translated
   wire.go functions (Gen/WireGo.v), whose "= model" theorems (Wire/WireGo*P.v)
   are used as their meaning. *)
From Coq Require Import List NArith ZArith Bool Lia ZifyBool ZifyNat ZifyN.
From Coq Require String.
From PB Require Import Base.PBytes Base.GoInt Wire.WireModel Wire.VarintP Wire.WireGoBaseP Wire.WireGoConsumeP
  Wire.WireGoAppendP Wire.WireGoP Wire.WireGoLoopP Gen.WireGo Msg.MsetGoRt Gen.MsetGo
  Msg.MsetModel Msg.MsetWireP Msg.MsetP.
Ltac Zify.zify_post_hook ::= Z.div_mod_to_equations.
Import ListNotations.
Import String.StringSyntax.
Open Scope Z_scope.

Lemma zbytes_nil : zbytes [] = [].
Proof. reflexivity. Qed.

(* ------------------------------------------------------------------ *)
(* SizeField, AppendFieldStart, AppendFieldEnd                          *)
Theorem go_SizeField_spec num :
  (num <= 2147483647)%N -> go_SizeField (Z.of_N num) = Z.of_N (size_field num).
Proof.
  intros Hn. unfold go_SizeField, size_field, field_item, field_type_id.
  change (go_SizeTag 1) with (Z.of_N (size_tag 1)). change (go_SizeTag 2) with (Z.of_N (size_tag 2)).
  rewrite (wrap_u64_small (Z.of_N num)) by lia.
  assert (Hv : (num < 2^64)%N) by (change (2^64)%N with 18446744073709551616%N; lia).
  rewrite go_SizeVarint_spec by exact Hv.
  pose proof (size_varint_range num Hv) as Hr.
  change (size_tag 1) with 1%N. change (size_tag 2) with 1%N.
  change (wrap_i64 (2 * Z.of_N 1)) with 2. change (wrap_i64 (2 + Z.of_N 1)) with 3.
  rewrite wrap_i64_small by lia. lia.
Qed.

Theorem go_AppendFieldStart_spec b num :
  (num <= 2147483647)%N ->
  go_AppendFieldStart (zbytes b) (Z.of_N num) = zbytes (b ++ append_field_start num).
Proof.
  intros Hn. unfold go_AppendFieldStart, append_field_start, field_item, field_type_id. cbv zeta.
  change 1 with (Z.of_N 1). change 3 with (Z.of_N 3) at 1. change 2 with (Z.of_N 2). change 0 with (Z.of_N 0).
  rewrite (go_AppendTag_spec b 1 3) by lia.
  rewrite (go_AppendTag_spec _ 2 0) by lia.
  rewrite (wrap_u64_small (Z.of_N num)) by lia.
  rewrite go_AppendVarint_spec by (change (2^64)%N with 18446744073709551616%N; lia).
  now rewrite <- !app_assoc.
Qed.

Theorem go_AppendFieldEnd_spec b :
  go_AppendFieldEnd (zbytes b) = zbytes (b ++ append_field_end).
Proof.
  unfold go_AppendFieldEnd, append_field_end, field_item.
  change 1 with (Z.of_N 1). change 4 with (Z.of_N 4).
  apply go_AppendTag_spec; lia.
Qed.
