(* Tier T for the MessageSet item codec: the functions of
   internal/encoding/messageset/messageset.go as translated by srcmodel_mset
   (Gen/MsetGo.v, regenerated on every run) equal the hand-written model
   Msg/MsetModel.v on their whole domain and never return Panic / Fuel there.
   The calls of protowire.* in messageset.go are calls of the translated
   wire.go functions (Gen/WireGo.v), whose "= model" theorems (Wire/WireGo*P.v)
   are used as their meaning. *)
From Coq Require Import List NArith ZArith Bool Lia ZifyBool ZifyNat ZifyN.
From Coq Require String.
From PB Require Import Base.PBytes Base.GoInt Wire.WireModel Wire.VarintP Wire.ScanP Wire.WireGoBaseP Wire.WireGoConsumeP
  Wire.WireGoAppendP Wire.WireGoP Wire.WireGoLoopP Gen.WireGo Msg.MsetGoRt Gen.MsetGo
  Msg.MsetModel Msg.MsetWireP Msg.MsetP Msg.MsetSetP.
Ltac Zify.zify_post_hook ::= Z.div_mod_to_equations.
Import ListNotations.
Import String.StringSyntax.
Local Open Scope string_scope.
Open Scope Z_scope.

Lemma zbytes_nil : zbytes [] = [].
Proof. reflexivity. Qed.

(* ------------------------------------------------------------------ *)
(* SizeField, AppendFieldStart, AppendFieldEnd                          *)
Theorem go_SizeField_spec num :
  (num <= 2147483647)%N -> go_SizeField (Z.of_N num) = Z.of_N (size_field num).
Proof.
  intros Hn. unfold go_SizeField, size_field, field_item, field_type_id.
  change (go_SizeTag 1) with (Z.of_N (size_tag 1)). change (go_SizeTag 2) with (Z.of_N (size_tag 2)).
  rewrite (wrap_u64_small (Z.of_N num)) by lia.
  assert (Hv : (num < 2^64)%N) by (change (2^64)%N with 18446744073709551616%N; lia).
  rewrite go_SizeVarint_spec by exact Hv.
  pose proof (size_varint_range num Hv) as Hr.
  change (size_tag 1) with 1%N. change (size_tag 2) with 1%N.
  change (wrap_i64 (2 * Z.of_N 1)) with 2. change (wrap_i64 (2 + Z.of_N 1)) with 3.
  rewrite wrap_i64_small by lia. lia.
Qed.

Theorem go_AppendFieldStart_spec b num :
  (num <= 2147483647)%N ->
  go_AppendFieldStart (zbytes b) (Z.of_N num) = zbytes (b ++ append_field_start num).
Proof.
  intros Hn. unfold go_AppendFieldStart, append_field_start, field_item, field_type_id. cbv zeta.
  change 1 with (Z.of_N 1). change 3 with (Z.of_N 3) at 1. change 2 with (Z.of_N 2). change 0 with (Z.of_N 0).
  rewrite (go_AppendTag_spec b 1 3) by lia.
  rewrite (go_AppendTag_spec _ 2 0) by lia.
  rewrite (wrap_u64_small (Z.of_N num)) by lia.
  rewrite go_AppendVarint_spec by (change (2^64)%N with 18446744073709551616%N; lia).
  now rewrite <- !app_assoc.
Qed.

Theorem go_AppendFieldEnd_spec b :
  go_AppendFieldEnd (zbytes b) = zbytes (b ++ append_field_end).
Proof.
  unfold go_AppendFieldEnd, append_field_end, field_item.
  change 1 with (Z.of_N 1). change 4 with (Z.of_N 4).
  apply go_AppendTag_spec; lia.
Qed.

(* ------------------------------------------------------------------ *)
(* ConsumeFieldValue: the item loop                                     *)
Definition cfvm_loop (v_wantLen : bool) (v_ilen : Z) :=
  fix loop1 (lfuel : nat) (v_b : list Z) (v_b_nil : bool) (v_message : list Z) (v_message_nil : bool) (v_typeid : Z)
      {struct lfuel} : outcome (Z * list Z * Z * go_error) :=
    match lfuel with
    | O => Fuel
    | S lfuel' =>
      bind (WireGo.go_ConsumeTag v_b) (fun '(v_num, v_wtyp, v_n1) =>
      if (v_n1 <? 0) then Val (0, (@nil Z), 0, (WireGo.go_ParseError v_n1))
      else
        bind (slice_lo v_b v_n1) (fun t1 =>
        if ((v_num =? 1) && (v_wtyp =? 4)) then
          if (v_wantLen && ((len v_message) =? 0)) then
            Val (v_typeid, WireGo.go_AppendVarint v_message 0, (wrap_i64 (v_ilen - (len t1))), GoNil)
          else
            Val (v_typeid, v_message, (wrap_i64 (v_ilen - (len t1))), GoNil)
        else
          if ((v_num =? 2) && (v_wtyp =? 0)) then
            bind (WireGo.go_ConsumeVarint t1) (fun '(v_v, v_n2) =>
            if (v_n2 <? 0) then Val (0, (@nil Z), 0, (WireGo.go_ParseError v_n2))
            else
              bind (slice_lo t1 v_n2) (fun t2 =>
              if ((v_v <? 1) || (2147483647 <? v_v)) then
                Val (0, (@nil Z), 0, (GoErr "errors.New:invalid type_id in message set"))
              else loop1 lfuel' t2 v_b_nil v_message v_message_nil (wrap_i32 v_v)))
          else
            if ((v_num =? 3) && (v_wtyp =? 2)) then
              bind (WireGo.go_ConsumeBytes t1) (fun '(v_m, v_n3) =>
              if (v_n3 <? 0) then Val (0, (@nil Z), 0, (WireGo.go_ParseError v_n3))
              else
                if v_message_nil then
                  if v_wantLen then
                    bind (slice3 t1 0 v_n3 v_n3) (fun t4 =>
                    bind (slice_lo t1 v_n3) (fun t5 =>
                    loop1 lfuel' t5 v_b_nil t4 v_b_nil v_typeid))
                  else
                    bind (slice3 v_m 0 (len v_m) (len v_m)) (fun t6 =>
                    bind (slice_lo t1 v_n3) (fun t7 =>
                    loop1 lfuel' t7 v_b_nil t6 (if (v_n3 <? 0) then true else v_b_nil) v_typeid))
                else
                  if v_wantLen then
                    bind (WireGo.go_ConsumeVarint v_message) (fun '(_, v_nn) =>
                    bind (slice_lo v_message v_nn) (fun v_m0 =>
                    let a := WireGo.go_AppendVarint (@nil Z) (wrap_u64 (wrap_i64 ((len v_m0) + (len v_m)))) in
                    bind (slice_lo t1 v_n3) (fun t9 =>
                    loop1 lfuel' t9 v_b_nil ((a ++ v_m0) ++ v_m)
                      (((true && ((len a) =? 0)) && ((len v_m0) =? 0)) && ((len v_m) =? 0)) v_typeid)))
                  else
                    bind (slice_lo t1 v_n3) (fun t10 =>
                    loop1 lfuel' t10 v_b_nil (v_message ++ v_m) (v_message_nil && ((len v_m) =? 0)) v_typeid))
            else
              bind (WireGo.go_ConsumeFieldValue v_num v_wtyp t1) (fun t11 =>
              if (t11 <? 0) then Val (0, (@nil Z), 0, (WireGo.go_ParseError t11))
              else
                bind (slice_lo t1 t11) (fun t12 =>
                loop1 lfuel' t12 v_b_nil v_message v_message_nil v_typeid))))
    end.

(* the tie to the generated text: fails when the loop in messageset.go changes *)
Lemma ConsumeFieldValue_shape b bn wl :
  MsetGo.go_ConsumeFieldValue b bn wl = cfvm_loop wl (len b) (S (length b + length (@nil Z))) b bn (@nil Z) true 0.
Proof. reflexivity. Qed.

(* Go's view of the model state and result *)
Definition zmsg (msg : option (list byte)) : list Z := zbytes (match msg with Some m => m | None => [] end).
Definition nilb (msg : option (list byte)) : bool := match msg with None => true | Some _ => false end.

(* (typeid, message, n, err) of ConsumeFieldValue; the model's "impossible"
   state is the state in which the Go code panics (message[nn:] with nn < 0) *)
Definition zres_item (ilen : Z) (R : mres (N * list byte * list byte)) : outcome (Z * list Z * Z * go_error) :=
  match R with
  | MOk (tid, m, r) => Val (Z.of_N tid, zbytes m, ilen - Z.of_nat (length r), GoNil)
  | MErr (MWire e) => Val (0, [], 0, WireGo.go_ParseError (werr_code e))
  | MErr MTypeId => Val (0, [], 0, GoErr "errors.New:invalid type_id in message set")
  | MErr MFuel => Fuel
  | MErr _ => Panic
  end.

Definition minv (wl : bool) (msg : option (list byte)) (cur : list byte) : Prop :=
  match msg with
  | Some old => if wl then exists p, lp old p /\ Z.of_nat (length p + length cur) < 9223372036854775808 else True
  | None => True
  end.

Lemma minv_mono wl msg cur r : minv wl msg cur -> (length r <= length cur)%nat -> minv wl msg r.
Proof.
  unfold minv. destruct msg as [old|]; [|auto]. destruct wl; [|auto].
  intros (p & H1 & H2) Hr. exists p. split; [exact H1|lia].
Qed.

Lemma slice3_zbytes r k : (k <= length r)%nat ->
  slice3 (zbytes r) 0 (Z.of_nat k) (Z.of_nat k) = Val (zbytes (firstn k r)).
Proof.
  intros Hk. unfold slice3. rewrite len_zbytes.
  replace ((0 <? 0) || (Z.of_nat k <? 0) || (Z.of_nat k <? Z.of_nat k) || (Z.of_nat (length r) <? Z.of_nat k)) with false by lia.
  rewrite Z.sub_0_r, Nat2Z.id. change (Z.to_nat 0) with 0%nat. cbn [skipn]. now rewrite zbytes_firstn.
Qed.

Lemma av0 : WireGo.go_AppendVarint [] 0 = zbytes (enc_varint 0).
Proof. reflexivity. Qed.

Lemma cfvm_loop_spec wl ilen : Z.of_nat ilen < 2^63 ->
  forall g lfuel cur tid msg bn,
  (length cur < length g)%nat -> (length cur < lfuel)%nat -> (bn = true -> cur = []) ->
  (length cur <= ilen)%nat -> (tid <= 2147483647)%N -> minv wl msg cur ->
  cfvm_loop wl (Z.of_nat ilen) lfuel (zbytes cur) bn (zmsg msg) (nilb msg) (Z.of_N tid)
  = zres_item (Z.of_nat ilen) (item_loop wl g cur tid msg).
Proof.
  change (2^63) with 9223372036854775808. intros Hil.
  induction g as [|g0 g IH]; intros lfuel cur tid msg bn Hg Hf Hbn Hle Htid Hinv; [cbn [length] in Hg; lia|].
  destruct lfuel as [|lfuel]; [lia|].
  cbn [length] in Hg.
  unfold cfvm_loop at 1. cbv beta iota fix. fold (cfvm_loop wl (Z.of_nat ilen)).
  cbn [item_loop].
  rewrite go_ConsumeTag_spec. cbn [bind].
  destruct (dec_tag cur) as [[[num typ] r]|e] eqn:Et; cbn [zres_tag].
  2:{ pose proof (werr_code_neg e). replace (werr_code e <? 0) with true by lia. reflexivity. }
  pose proof (dec_tag_len _ _ _ _ Et) as Hr.
  destruct (dec_tag_prefix _ _ _ _ Et) as (Hnum & Htyp & pre & Ecur & _ & _).
  replace (Z.of_nat (length cur - length r) <? 0) with false by lia.
  destruct bn; [specialize (Hbn eq_refl); subst cur; destruct pre; discriminate|]. clear Hbn.
  rewrite (slice_lo_consumed cur pre r Ecur). cbn [bind].
  replace ((Z.of_N num =? 1) && (Z.of_N typ =? 4)) with ((num =? field_item)%N && (typ =? 4)%N) by (unfold field_item; lia).
  destruct ((num =? field_item)%N && (typ =? 4)%N) eqn:C1.
  { (* end of the item *)
    rewrite len_zbytes. rewrite wrap_i64_small by lia.
    destruct msg as [m|]; cbn [finish_msg zmsg nilb zres_item]; unfold zmsg.
    - rewrite len_zbytes. destruct wl; cbn [andb]; [|reflexivity].
      destruct (Nat.eqb (length m) 0) eqn:E.
      + apply Nat.eqb_eq in E. replace (Z.of_nat (length m) =? 0) with true by lia.
        apply length_zero_iff_nil in E. subst m. rewrite zbytes_nil, av0. reflexivity.
      + apply Nat.eqb_neq in E. replace (Z.of_nat (length m) =? 0) with false by lia. reflexivity.
    - rewrite zbytes_nil. destruct wl; cbn [andb len length Z.of_nat Z.eqb]; [rewrite av0|]; reflexivity. }
  replace ((Z.of_N num =? 2) && (Z.of_N typ =? 0)) with ((num =? field_type_id)%N && (typ =? 0)%N) by (unfold field_type_id; lia).
  destruct ((num =? field_type_id)%N && (typ =? 0)%N) eqn:C2.
  { (* type_id *)
    rewrite go_ConsumeVarint_spec. cbn [bind].
    destruct (dec_varint r) as [[v r']|e] eqn:Ev; cbn [zres_vn].
    2:{ pose proof (werr_code_neg e). replace (werr_code e <? 0) with true by lia. reflexivity. }
    pose proof (dec_varint_len _ _ _ Ev) as Hr'.
    destruct (dec_varint_suffix _ _ _ Ev) as (p2 & Er & _).
    replace (Z.of_nat (length r - length r') <? 0) with false by lia.
    rewrite (slice_lo_consumed r p2 r' Er). cbn [bind].
    replace ((Z.of_N v <? 1) || (2147483647 <? Z.of_N v)) with ((v <? 1)%N || (max_int32 <? v)%N) by (unfold max_int32; lia).
    destruct ((v <? 1)%N || (max_int32 <? v)%N) eqn:Cv; [reflexivity|].
    unfold max_int32 in Cv. rewrite wrap_i32_small by lia.
    apply IH; try lia; try discriminate. eapply minv_mono; [exact Hinv|lia]. }
  replace ((Z.of_N num =? 3) && (Z.of_N typ =? 2)) with ((num =? field_message)%N && (typ =? 2)%N) by (unfold field_message; lia).
  destruct ((num =? field_message)%N && (typ =? 2)%N) eqn:C3.
  { (* message *)
    rewrite go_ConsumeBytes_spec by (change (2^63) with 9223372036854775808; lia). cbn [bind].
    destruct (dec_bytes r) as [[m r']|e] eqn:Eb; cbn [zres_bytes].
    2:{ pose proof (werr_code_neg e). replace (werr_code e <? 0) with true by lia. reflexivity. }
    pose proof (dec_bytes_len _ _ _ Eb) as Hr'.
    pose proof (dec_bytes_raw _ _ _ Eb) as [Hlp Hsplit].
    assert (Hm : (length m + length r' <= length r)%nat).
    { pose proof (f_equal (@length _) Hsplit) as HL. rewrite app_length in HL.
      apply lp_length in Hlp. lia. }
    replace (Z.of_nat (length r - length r') <? 0) with false by lia.
    destruct msg as [old|]; cbn [nilb add_chunk]; unfold zmsg.
    - (* a further chunk *)
      destruct wl.
      + destruct Hinv as (p & Hp & Hpl).
        pose proof (lp_dec_varint _ _ Hp) as Hdv. rewrite Hdv.
        rewrite go_ConsumeVarint_spec, Hdv. cbn [bind zres_vn].
        destruct (dec_varint_suffix _ _ _ Hdv) as (q & Eold & _).
        rewrite (slice_lo_consumed old q p Eold). cbn [bind]. cbv zeta.
        rewrite !len_zbytes. rewrite wrap_i64_small by lia. rewrite wrap_u64_small by lia.
        replace (Z.of_nat (length p) + Z.of_nat (length m)) with (Z.of_N (N.of_nat (length p + length m))) by lia.
        change (WireGo.go_AppendVarint (@nil Z)) with (WireGo.go_AppendVarint (zbytes [])).
        rewrite go_AppendVarint_spec by (change (2^64)%N with 18446744073709551616%N; lia). cbn [app].
        rewrite (slice_lo_consumed r _ r' Hsplit). cbn [bind].
        rewrite len_zbytes.
        pose proof (enc_varint_nonempty (N.of_nat (length p + length m))) as Hne.
        replace (Z.of_nat (length (enc_varint (N.of_nat (length p + length m)))) =? 0) with false
          by (destruct (enc_varint (N.of_nat (length p + length m))); [congruence|cbn [length]; lia]).
        cbn [andb]. rewrite <- !zbytes_app, <- app_assoc.
        apply (IH lfuel r' tid (Some (enc_varint (N.of_nat (length p + length m)) ++ p ++ m)) false); try lia; try discriminate.
        exists (p ++ m). split.
        * rewrite <- app_length. change (enc_varint (N.of_nat (length (p ++ m))) ++ p ++ m) with (enc_bytes (p ++ m)).
          apply lp_enc_bytes. rewrite app_length. change (2^64)%N with 18446744073709551616%N. lia.
        * rewrite app_length. lia.
      + rewrite (slice_lo_consumed r _ r' Hsplit). cbn [bind andb]. rewrite <- zbytes_app.
        apply (IH lfuel r' tid (Some (old ++ m)) false); try lia; try discriminate; exact I.
    - (* the first chunk *)
      destruct wl.
      + rewrite (slice3_zbytes r (length r - length r')) by lia. cbn [bind].
        rewrite (slice_lo_consumed r _ r' Hsplit). cbn [bind].
        apply (IH lfuel r' tid (Some (firstn (length r - length r') r)) false); try lia; try discriminate.
        exists m. split; [exact Hlp|lia].
      + rewrite len_zbytes. rewrite (slice3_zbytes m (length m)) by lia. rewrite firstn_all. cbn [bind].
        rewrite (slice_lo_consumed r _ r' Hsplit). cbn [bind].
        apply (IH lfuel r' tid (Some m) false); try lia; try discriminate; exact I. }
  (* any other subfield is skipped *)
  rewrite go_ConsumeFieldValue_spec by (change (2^63) with 9223372036854775808; lia). cbn [bind].
  unfold consume_field_value.
  destruct (parse_val default_dep num typ r) as [[v0 r']|e] eqn:Ep; cbn [zres_len].
  2:{ pose proof (werr_code_neg e). replace (werr_code e <? 0) with true by lia. reflexivity. }
  destruct (parse_val_suffix _ _ _ _ _ _ Ep) as (p3 & Er).
  assert (Hr' : (length r' <= length r)%nat) by (rewrite Er, app_length; lia).
  rewrite nat_N_Z.
  replace (Z.of_nat (length r - length r') <? 0) with false by lia.
  rewrite (slice_lo_consumed r p3 r' Er). cbn [bind].
  apply IH; try lia; try discriminate. eapply minv_mono; [exact Hinv|lia].
Qed.

(* ConsumeFieldValue as translated = consume_item of the model, on every input
   ([bn] says whether the argument slice is nil; a nil slice is empty) *)
Theorem go_ConsumeFieldValue_eq_model bs bn wl :
  Z.of_nat (length bs) < 2^63 -> (bn = true -> bs = []) ->
  MsetGo.go_ConsumeFieldValue (zbytes bs) bn wl = zres_item (Z.of_nat (length bs)) (consume_item wl bs).
Proof.
  intros Hlen Hbn. rewrite ConsumeFieldValue_shape, len_zbytes. unfold consume_item.
  apply (cfvm_loop_spec wl (length bs) Hlen (x00 :: bs) (S (length (zbytes bs) + length (@nil Z))) bs 0%N None bn);
    cbn [length]; try rewrite zbytes_length; try lia; [exact Hbn|exact I].
Qed.

(* the item loop produces only wire errors, the type_id error, and the two
   outcomes excluded by consume_item_sim *)
Lemma item_loop_errs wl : forall g bs tid msg e,
  item_loop wl g bs tid msg = MErr e -> e <> MPayload /\ e <> MUnknownData.
Proof.
  induction g as [|g0 g IH]; intros bs tid msg e H; cbn [item_loop] in H; [inversion H; split; discriminate|].
  destruct (dec_tag bs) as [[[num typ] r]|e0]; [|inversion H; split; discriminate].
  destruct ((num =? field_item)%N && (typ =? 4)%N); [discriminate|].
  destruct ((num =? field_type_id)%N && (typ =? 0)%N).
  { destruct (dec_varint r) as [[v r']|e1]; [|inversion H; split; discriminate].
    destruct ((v <? 1)%N || (max_int32 <? v)%N); [inversion H; split; discriminate|]. eapply IH; eauto. }
  destruct ((num =? field_message)%N && (typ =? 2)%N).
  { destruct (dec_bytes r) as [[m r']|e1]; [|inversion H; split; discriminate].
    destruct (add_chunk wl msg (firstn (length r - length r') r) m) as [a|e1] eqn:Ea; [eapply IH; eauto|].
    inversion H; subst e1. unfold add_chunk in Ea. destruct msg as [old|]; [|discriminate].
    destruct wl; [|discriminate]. destruct (dec_varint old) as [[? ?]|?]; inversion Ea; split; discriminate. }
  destruct (parse_val default_dep num typ r) as [[v0 r']|e1]; [eapply IH; eauto|inversion H; split; discriminate].
Qed.

(* ... and it never panics and never runs out of fuel *)
Theorem go_ConsumeFieldValue_total bs bn wl :
  Z.of_nat (length bs) < 2^63 -> (bn = true -> bs = []) ->
  exists v, MsetGo.go_ConsumeFieldValue (zbytes bs) bn wl = Val v.
Proof.
  intros Hlen Hbn. rewrite go_ConsumeFieldValue_eq_model by assumption.
  assert (H64 : (N.of_nat (length bs) < 2^64)%N).
  { change (2^63) with 9223372036854775808 in Hlen. change (2^64)%N with 18446744073709551616%N. lia. }
  pose proof (consume_item_sim bs H64) as H.
  destruct (consume_item false bs) as [[[id p] r]|e] eqn:E.
  - destruct H as (v & Ht & _). destruct wl; [rewrite Ht|rewrite E]; eexists; reflexivity.
  - destruct H as (Ht & H1 & H2). destruct (item_loop_errs _ _ _ _ _ _ E) as [H3 H4].
    destruct wl; [rewrite Ht|rewrite E]; destruct e; try congruence; eexists; reflexivity.
Qed.

(* ------------------------------------------------------------------ *)
(* the translated writers followed by the translated reader             *)
(* AppendFieldStart, the message subfield as marshal writes it, AppendFieldEnd *)
Definition go_write_item (id : N) (p : list byte) : list Z :=
  go_AppendFieldEnd (WireGo.go_AppendBytes (WireGo.go_AppendTag (go_AppendFieldStart [] (Z.of_N id)) 3 2) (zbytes p)).

Lemma go_write_item_spec id p :
  (id <= 2147483647)%N -> (N.of_nat (length p) < 2^64)%N ->
  go_write_item id p = zbytes (append_item id p).
Proof.
  intros Hid Hp. unfold go_write_item, append_item, field_message.
  change (@nil Z) with (zbytes []). rewrite go_AppendFieldStart_spec by exact Hid.
  change 3 with (Z.of_N 3). change 2 with (Z.of_N 2).
  rewrite (go_AppendTag_spec _ 3 2) by lia.
  rewrite go_AppendBytes_spec by exact Hp.
  rewrite go_AppendFieldEnd_spec. cbn [app]. now rewrite <- !app_assoc.
Qed.

Theorem go_item_roundtrip (wl : bool) (id : N) (p rest : list byte) :
  valid_id id -> Z.of_nat (length (append_item id p ++ rest)) < 2^63 ->
  let msg := zbytes (if wl then enc_bytes p else p) in
  exists body,
    (* what the translated writers produce is start tag + body *)
    go_write_item id p = zbytes (enc_tag 1 3)%N ++ zbytes body /\
    WireGo.go_ConsumeTag (go_write_item id p ++ zbytes rest) = Val (1, 3, Z.of_nat (length (enc_tag 1 3)%N)) /\
    (* the translated reader returns the type id and the message ... *)
    MsetGo.go_ConsumeFieldValue (zbytes body ++ zbytes rest) false wl
      = Val (Z.of_N id, msg, Z.of_nat (length body), GoNil) /\
    (* ... also when the message subfield precedes the type_id subfield *)
    exists n,
    MsetGo.go_ConsumeFieldValue
      (zbytes (enc_tag 3 2 ++ enc_bytes p ++ enc_tag 2 0 ++ enc_varint id ++ enc_tag 1 4)%N ++ zbytes rest) false wl
      = Val (Z.of_N id, msg, n, GoNil).
Proof.
  intros Hid Hlen msg. change (2^63) with 9223372036854775808 in Hlen.
  assert (Hid' : (id <= 2147483647)%N) by (unfold valid_id, max_int32 in Hid; lia).
  rewrite append_item_body in Hlen. rewrite !app_length in Hlen.
  assert (Hp : (N.of_nat (length p) < 2^64)%N).
  { change (2^64)%N with 18446744073709551616%N. unfold item_body, enc_bytes in Hlen. rewrite !app_length in Hlen. lia. }
  exists (item_body id p).
  rewrite go_write_item_spec by assumption. rewrite append_item_body, zbytes_app.
  split; [reflexivity|]. split.
  { rewrite <- app_assoc, <- !zbytes_app, go_ConsumeTag_spec.
    rewrite (dec_tag_enc_tag 1 3) by (unfold valid_num; lia). cbn [zres_tag].
    f_equal. f_equal. rewrite !app_length. lia. }
  split.
  { rewrite <- zbytes_app. rewrite go_ConsumeFieldValue_eq_model; [|change (2^63) with 9223372036854775808; rewrite app_length; lia|discriminate].
    rewrite item_body_roundtrip by assumption. cbn [zres_item]. subst msg. f_equal. f_equal. f_equal. rewrite !app_length. lia. }
  eexists. rewrite <- zbytes_app.
  rewrite go_ConsumeFieldValue_eq_model; [| |discriminate].
  - rewrite <- !app_assoc. rewrite item_body_swapped, item_body_roundtrip by assumption. cbn [zres_item]. reflexivity.
  - change (2^63) with 9223372036854775808. unfold item_body in Hlen. rewrite !app_length in *. lia.
Qed.

(* SizeField + SizeTag(3) + SizeBytes(len) of the translation = the length of
   what the translated writers append *)
Theorem go_size_eq_length id p :
  valid_id id -> (N.of_nat (length p) < 2^62)%N ->
  go_SizeField (Z.of_N id) + WireGo.go_SizeTag 3 + WireGo.go_SizeBytes (len (zbytes p)) = len (go_write_item id p).
Proof.
  intros Hid Hp.
  assert (Hid' : (id <= 2147483647)%N) by (unfold valid_id, max_int32 in Hid; lia).
  assert (Hp64 : (N.of_nat (length p) < 2^64)%N).
  { change (2^62)%N with 4611686018427387904%N in Hp. change (2^64)%N with 18446744073709551616%N. lia. }
  rewrite go_write_item_spec by assumption. rewrite !len_zbytes, go_SizeField_spec by exact Hid'.
  change 3 with (Z.of_N 3). rewrite go_SizeTag_spec by lia.
  rewrite <- nat_N_Z. rewrite go_SizeBytes_spec by exact Hp.
  pose proof (append_item_length id p Hid Hp64) as H. unfold size_item, field_message in H. lia.
Qed.
