(* Tier T for C13: theorems over the decision table regenerated from
   internal/impl/codec_tables.go (Gen/CoderTable.v, written by srcmodel_codertable on every run).

   [table]        the nested switches of fieldCoder / encoderFuncsForValue, in source order
   [coder_funcs]  for every coder variable: its marshal / unmarshal function and whether the body of
                  that function calls utf8.Valid / utf8.ValidString

   The first row (in source order) whose conditions hold selects the coder, exactly as the chain of
   `if ... { return ... }` statements does. *)
From Coq Require Import List String Bool.
Require Import PB.Gen.CoderTable.
Import ListNotations.
Open Scope string_scope.

Definition enf_ok (c : option bool) (enf : bool) : bool :=
  match c with None => true | Some b => Bool.eqb b enf end.
Definition gt_ok (rg g : string) : bool := (rg =? "Any") || (rg =? g).

Definition row_matches (fn cls kind g : string) (enf : bool) (r : row) : bool :=
  (r_fn r =? fn) && (r_cls r =? cls) && (r_kind r =? kind) && gt_ok (r_gotype r) g && enf_ok (r_enforce r) enf.

(* the coder the code selects for (function, cardinality class, kind, Go field type) when
   strs.EnforceUTF8(fd) = enf *)
Definition select (tbl : list row) (fn cls kind g : string) (enf : bool) : option string :=
  option_map r_coder (find (row_matches fn cls kind g enf) tbl).

Definition ends_with (suf s : string) : bool :=
  let n := String.length s in let k := String.length suf in
  Nat.leb k n && (substring (n - k) k s =? suf).
(* by its name *)
Definition validating_name (c : string) : bool := ends_with "ValidateUTF8" c.
(* by what its functions do: (marshal calls utf8.Valid*, unmarshal calls utf8.Valid* ) *)
Definition funcs_validate (c : string) : option (bool * bool) :=
  match find (fun e => fst (fst e) =? c) coder_funcs with
  | Some (_, (_, mv), (_, uv)) => Some (mv, uv)
  | None => None
  end.

(* nothing left unclassified by the extractor *)
Definition u (s : string) : bool := s =? "Unclassified".
Definition classified : bool :=
  forallb (fun r => negb (u (r_fn r) || u (r_cls r) || u (r_kind r) || u (r_gotype r) || u (r_coder r))) table &&
  forallb (fun e => match e with (c, (m, _), (um, _)) => negb (u m || u um) end) coder_funcs &&
  negb (Nat.eqb (List.length table) 0).

(* FL1: encoderFuncsForValue, repeated && !packed, StringKind -> coderStringSliceValue,
   "We don't have a UTF-8 validating coder for repeated string fields ... Extensions are never proto3" *)
Definition excl_FL1_row (r : row) : bool :=
  (r_fn r =? "encoderFuncsForValue") && (r_cls r =? "SliceValue") && (r_kind r =? "String").

(* for the cell of row r: with EnforceUTF8 = enf a coder is selected, it is a ...ValidateUTF8 coder
   iff enf, and its marshal and unmarshal functions call utf8.Valid* iff enf *)
Definition check_row (r : row) (enf : bool) : bool :=
  match select table (r_fn r) (r_cls r) "String" (r_gotype r) enf with
  | Some c => Bool.eqb (validating_name c) enf &&
              match funcs_validate c with
              | Some (mv, uv) => Bool.eqb mv enf && Bool.eqb uv enf
              | None => false
              end
  | None => false
  end.

Definition check_strings : bool :=
  forallb (fun r => negb (r_kind r =? "String") || excl_FL1_row r || (check_row r true && check_row r false)) table.
Definition check_excl_exact : bool :=
  forallb (fun r => negb ((r_kind r =? "String") && excl_FL1_row r) || negb (check_row r true)) table &&
  existsb (fun r => (r_kind r =? "String") && excl_FL1_row r) table.
Definition check_bytes : bool :=
  forallb (fun r => negb (r_kind r =? "Bytes") ||
                    (negb (validating_name (r_coder r)) &&
                     match funcs_validate (r_coder r) with Some (false, false) => true | _ => false end)) table &&
  existsb (fun r => r_kind r =? "Bytes") table.

Lemma classified_true : classified = true.
Proof. vm_compute. reflexivity. Qed.
Lemma check_strings_true : check_strings = true.
Proof. vm_compute. reflexivity. Qed.
Lemma check_excl_exact_true : check_excl_exact = true.
Proof. vm_compute. reflexivity. Qed.
Lemma check_bytes_true : check_bytes = true.
Proof. vm_compute. reflexivity. Qed.

Lemma check_row_spec r enf : check_row r enf = true ->
  exists c, select table (r_fn r) (r_cls r) "String" (r_gotype r) enf = Some c /\
            validating_name c = enf /\ funcs_validate c = Some (enf, enf).
Proof.
  unfold check_row. destruct (select table _ _ _ _ enf) as [c|]; [|discriminate].
  intros H. apply andb_true_iff in H. destruct H as [H1 H2]. exists c. split; [reflexivity|].
  apply Bool.eqb_prop in H1. split; [assumption|].
  destruct (funcs_validate c) as [[mv uv]|]; [|discriminate].
  apply andb_true_iff in H2. destruct H2 as [H2 H3]. apply Bool.eqb_prop in H2, H3. now subst.
Qed.

(* every string cell of both functions outside FL1: the selected coder validates iff EnforceUTF8 *)
Theorem validate_coder_iff_enforce_except_FL1 : forall r enf,
  In r table -> r_kind r = "String" -> excl_FL1_row r = false ->
  exists c, select table (r_fn r) (r_cls r) "String" (r_gotype r) enf = Some c /\
            validating_name c = enf /\ funcs_validate c = Some (enf, enf).
Proof.
  intros r enf I K X. pose proof check_strings_true as H. unfold check_strings in H.
  rewrite forallb_forall in H. specialize (H r I). rewrite K, X in H.
  change ("String" =? "String") with true in H. cbn [negb orb] in H.
  apply andb_true_iff in H. destruct H as [Ht Hf]. apply check_row_spec. now destruct enf.
Qed.

(* the full statement fails exactly on the FL1 rows, and there is one *)
Definition fl1_row : option row := find (fun r => (r_kind r =? "String") && excl_FL1_row r) table.
Definition fl1_check (r : row) : bool :=
  match select table (r_fn r) (r_cls r) "String" (r_gotype r) true with
  | Some c => negb (validating_name c) && match funcs_validate c with Some (false, false) => true | _ => false end
  | None => false
  end.
Lemma fl1_row_found : match fl1_row with Some r => fl1_check r | None => false end = true.
Proof. vm_compute. reflexivity. Qed.

Theorem validate_coder_refuted_FL1 :
  exists r c, In r table /\ r_kind r = "String" /\ excl_FL1_row r = true /\
    select table (r_fn r) (r_cls r) "String" (r_gotype r) true = Some c /\
    validating_name c = false /\ funcs_validate c = Some (false, false).
Proof.
  pose proof fl1_row_found as H. unfold fl1_row in H.
  destruct (find (fun r => (r_kind r =? "String") && excl_FL1_row r) table) as [r|] eqn:F; [|discriminate].
  apply find_some in F. destruct F as [I P]. apply andb_true_iff in P. destruct P as [K X].
  apply String.eqb_eq in K. unfold fl1_check in H.
  destruct (select table (r_fn r) (r_cls r) "String" (r_gotype r) true) as [c|] eqn:S; [|discriminate].
  exists r, c. apply andb_true_iff in H. destruct H as [H1 H2]. apply negb_true_iff in H1.
  repeat split; try assumption.
  destruct (funcs_validate c) as [[[|] [|]]|]; try discriminate. reflexivity.
Qed.

Theorem excl_FL1_rows_all_fail : forall r,
  In r table -> r_kind r = "String" -> excl_FL1_row r = true -> check_row r true = false.
Proof.
  intros r I K X. pose proof check_excl_exact_true as H. unfold check_excl_exact in H.
  apply andb_true_iff in H. destruct H as [H _]. rewrite forallb_forall in H. specialize (H r I).
  rewrite K, X in H. change ("String" =? "String") with true in H. cbn [andb negb orb] in H.
  now apply negb_true_iff in H.
Qed.

(* bytes fields: no cell selects a validating coder *)
Theorem bytes_rows_never_validate : forall r,
  In r table -> r_kind r = "Bytes" ->
  validating_name (r_coder r) = false /\ funcs_validate (r_coder r) = Some (false, false).
Proof.
  intros r I K. pose proof check_bytes_true as H. unfold check_bytes in H.
  apply andb_true_iff in H. destruct H as [H _]. rewrite forallb_forall in H. specialize (H r I).
  rewrite K in H. change ("Bytes" =? "Bytes") with true in H. cbn [negb orb] in H.
  apply andb_true_iff in H. destruct H as [H1 H2]. apply negb_true_iff in H1. split; [assumption|].
  destruct (funcs_validate (r_coder r)) as [[[|] [|]]|]; try discriminate. reflexivity.
Qed.
