(* ValidateStackP — towards "the explicit-stack state machine [vm_run] (the algorithm of
   MessageInfo.validate) computes what the recursive-descent validator [vr_msg] computes".
   Proved here: the machine's building blocks are the recursive validator's --
     - the one/two-byte fast paths for tags and lengths and the unrolled varint skip are
       protowire.ConsumeVarint ([vs_fast_varint], [vs_skip_varint], [vs_tag], [vs_len]);
     - the required-bit test ([vs_compat], [vs_info_msg]);
     - one field of a message/group state: the machine's action (skip / push a state / fail)
       corresponds to [vr_step] ([vs_step_action]); one field of a map-entry state corresponds
       to one iteration of [vr_entry] ([vs_entry_action]); what an action leaves is bounded by
       what it was given ([vs_action_bound]); one machine iteration in closed form
       ([vs_run_nil], [vs_run_cons]).
   The induction that stitches these steps together over the stack (push = recursive call,
   pop = return, fuel 2*len+2 suffices) is in Msg/ValidateStackRunP.v ([vs_runs], defined at the
   end of this file, is its invariant); whole-run equality is also checked by execution on every
   case of family dectot. *)
From Coq Require Import List Arith NArith ZArith Lia Bool.
From Coq Require Import ZifyBool ZifyNat ZifyN.
From PB Require Import Base.PBytes Wire.WireModel Wire.VarintP Wire.ScanP.
From PB Require Import Msg.MsgSchema Msg.MsgValue Msg.MsgUtf8 Msg.MsgDec Msg.ValidateMsgModel Msg.ValidateMsgP.
Ltac Zify.zify_post_hook ::= Z.div_mod_to_equations.
Import ListNotations.
Open Scope N_scope.

(* ---------- the fast paths are the protowire primitives ---------- *)
Definition vs_ovarint (b : list byte) : option (N * list byte) :=
  match dec_varint b with Ok (v, r) => Some (v, r) | Err _ => None end.

Lemma vs_fast_varint b : vm_fast_varint b = vs_ovarint b.
Proof.
  unfold vm_fast_varint, vs_ovarint. destruct b as [|b0 r]; [reflexivity|].
  destruct (b2n b0 <? 128) eqn:E0.
  - unfold dec_varint. cbn [dec_varint_aux]. rewrite E0. f_equal. f_equal. change (2^0) with 1. lia.
  - destruct r as [|b1 r']; [reflexivity|]. destruct (b2n b1 <? 128) eqn:E1; [|reflexivity].
    unfold dec_varint. cbn [dec_varint_aux]. rewrite E0, E1. f_equal. f_equal.
    change (2^0) with 1. change (2^(0+7)) with 128. pose proof (b2n_lt b0). lia.
Qed.

Lemma vs_skip_varint_k : forall k shift acc b,
  vm_skip_varint_k k b = match dec_varint_aux k shift acc b with Ok (_, r) => Some r | Err _ => None end.
Proof.
  induction k as [|k IH]; intros shift acc b; cbn [vm_skip_varint_k dec_varint_aux]; [reflexivity|].
  destruct b as [|x r]; [reflexivity|]. destruct k as [|k'].
  - destruct (b2n x <? 2); reflexivity.
  - destruct (b2n x <? 128); [reflexivity|]. apply IH.
Qed.
Lemma vs_skip_varint b : vm_skip_varint b = match dec_varint b with Ok (_, r) => Some r | Err _ => None end.
Proof. apply vs_skip_varint_k. Qed.

(* tag: number range and wire type *)
Lemma vs_tag b :
  match vm_fast_varint b with
  | None => None
  | Some (tag, b1) => if (tag / 8 <? 1) || (msg_max_num <? tag / 8) then None else Some (tag / 8, tag mod 8, b1)
  end =
  match dec_tag b with
  | Ok (num, typ, r) => if msg_max_num <? num then None else Some (num, typ, r)
  | Err _ => None
  end.
Proof.
  rewrite vs_fast_varint. unfold vs_ovarint, dec_tag, decode_tag.
  destruct (dec_varint b) as [[x r]|e]; [|reflexivity].
  unfold msg_max_num. destruct (2147483647 <? x / 8) eqn:E1.
  - replace ((x / 8 <? 1) || (536870911 <? x / 8)) with true by lia. reflexivity.
  - destruct (x / 8 <? 1) eqn:E2; [reflexivity|]. cbn [orb]. reflexivity.
Qed.

(* LEN payload *)
Lemma vs_len b1 :
  match vm_fast_varint b1 with
  | None => None
  | Some (size, b2) => if N.of_nat (length b2) <? size then None
                       else Some (firstn (N.to_nat size) b2, skipn (N.to_nat size) b2)
  end = match dec_bytes b1 with Ok (v, r) => Some (v, r) | Err _ => None end.
Proof.
  rewrite vs_fast_varint. unfold vs_ovarint, dec_bytes.
  destruct (dec_varint b1) as [[n r]|e]; [|reflexivity].
  destruct (N.of_nat (length r) <? n) eqn:E; [reflexivity|].
  unfold take. replace (Nat.leb (N.to_nat n) (length r)) with true; [reflexivity|].
  symmetry. apply Nat.leb_le. lia.
Qed.

(* ---------- the action of a field that is not interpreted ---------- *)
Definition vs_inert (vt : vm_vtype) (typ : N) : bool :=
  match typ with
  | 2 => match vt with
         | VtMessage _ | VtMap _ _ _ | VtRepVarint | VtRepFixed32 | VtRepFixed64 | VtUTF8 => false
         | _ => true end
  | 3 => match vt with VtGroup _ => false | _ => true end
  | _ => true
  end.

Lemma vs_plain_action vt num typ r : vs_inert vt typ = true ->
  vm_field_action vt num typ r = match vr_skip num typ r with Some r' => ACont r' | None => AInvalid end.
Proof.
  intros Hi. unfold vm_field_action, vr_skip. rewrite !parse_val_eq.
  destruct_typ typ; cbv iota; try reflexivity.
  all: try (rewrite vs_skip_varint; destruct (dec_varint r) as [[v r']|e]; reflexivity).
  all: try (destruct (take _ r) as [[a r']|]; reflexivity).
  all: try (destruct vt; try discriminate Hi; reflexivity).
  pose proof (vs_len r) as H. destruct (vm_fast_varint r) as [[size b2]|].
  - destruct (N.of_nat (length b2) <? size).
    + destruct (dec_bytes r) as [[v r']|e]; [discriminate|reflexivity].
    + destruct (dec_bytes r) as [[v r']|e]; [|discriminate]. inversion H; subst.
      cbv zeta. destruct vt; try discriminate Hi; reflexivity.
  - destruct (dec_bytes r) as [[v r']|e]; [discriminate|reflexivity].
Qed.

Lemma vs_inert_other vt typ : typ <> 2 -> typ <> 3 -> vs_inert vt typ = true.
Proof. intros H2 H3. unfold vs_inert. destruct_typ typ; try reflexivity; congruence. Qed.

Lemma vs_action_len vt num r :
  vm_field_action vt num 2 r =
  match dec_bytes r with
  | Err _ => AInvalid
  | Ok (v, b3) =>
    match vt with
    | VtMessage _ | VtMap _ _ _ => APush vt 0 b3 v
    | VtRepVarint => if vr_varints (x00 :: v) v then ACont b3 else AInvalid
    | VtRepFixed32 => if N.of_nat (length v) mod 4 =? 0 then ACont b3 else AInvalid
    | VtRepFixed64 => if N.of_nat (length v) mod 8 =? 0 then ACont b3 else AInvalid
    | VtUTF8 => if msg_utf8_valid v then ACont b3 else AInvalid
    | _ => ACont b3
    end
  end.
Proof.
  cbn [vm_field_action]. pose proof (vs_len r) as H. destruct (vm_fast_varint r) as [[size b2]|].
  - destruct (N.of_nat (length b2) <? size).
    + destruct (dec_bytes r) as [[v r']|e]; [discriminate|reflexivity].
    + destruct (dec_bytes r) as [[v r']|e]; [|discriminate]. inversion H; subst. reflexivity.
  - destruct (dec_bytes r) as [[v r']|e]; [discriminate|reflexivity].
Qed.

(* ---------- one field of a message / group state: action vs recursive step ---------- *)
Definition vs_vt_of (md : mdesc) (num : N) : vm_vtype :=
  match msg_find_field md num with Some fd => vm_field_vtype fd | None => VtOther end.

Definition vs_step_rel (reqof : nat -> bool) (md : mdesc) (vsub : vr_t) (vsub2 : option vr_t)
           (num typ : N) (r : list byte) (a : vm_action) (v : vres) : Prop :=
  match a with
  | AInvalid => v = VBad
  | ACont r' => exists q, v = VOk true q r'
  | APush nt e tail content =>
    match nt with
    | VtMessage tid =>
      e = 0 /\ v = match vsub tid 0 (x00 :: content) content with VOk i q _ => VOk i q tail | e' => e' end
    | VtGroup tid => e = num /\ tail = [] /\ content = r /\ v = vsub tid num (x00 :: r) r
    | VtMap kt vt' vmi =>
      e = 0 /\ exists fd kk kutf8 vdef,
        msg_find_field md num = Some fd /\ f_card fd = CMap kk kutf8 vdef /\
        v = match vsub2 with
            | None => VBad
            | Some vm2 =>
              match vr_entry reqof (x00 :: content) kk kutf8 (f_kind fd) (f_utf8 fd) vm2 content false true false with
              | VOk i q _ => VOk i q tail
              | e' => e'
              end
            end
    | _ => False
    end
  end.

Lemma vs_plain_rel reqof md vsub vsub2 vt num typ r q0 :
  vs_inert vt typ = true ->
  vs_step_rel reqof md vsub vsub2 num typ r (vm_field_action vt num typ r)
              (match vr_skip num typ r with Some r' => VOk true q0 r' | None => VBad end).
Proof.
  intros Hi. rewrite vs_plain_action by exact Hi. destruct (vr_skip num typ r); cbn; eauto.
Qed.

Lemma vs_step_action reqof md vsub vsub2 num typ r :
  vs_step_rel reqof md vsub vsub2 num typ r (vm_field_action (vs_vt_of md num) num typ r)
              (vr_step reqof md vsub vsub2 num typ r).
Proof.
  unfold vr_step, vs_vt_of. destruct (msg_find_field md num) as [fd|] eqn:Ef.
  2: { unfold vr_plain. apply vs_plain_rel. destruct_typ typ; reflexivity. }
  unfold vm_field_vtype.
  destruct (typ =? 2) eqn:Ht2.
  - apply N.eqb_eq in Ht2. subst typ. rewrite vs_action_len.
    destruct (f_card fd) as [| | | | |kk kutf8 vdef] eqn:Ec.
    6: { destruct (dec_bytes r) as [[v b3]|e]; [|destruct vsub2; reflexivity].
         cbn [vs_step_rel]. split; [reflexivity|]. exists fd, kk, kutf8, vdef. repeat split; auto. }
    all: destruct (f_kind fd) as [sk|tid|tid] eqn:Ek.
    all: try (destruct (dec_bytes r) as [[v b3]|e]; [|reflexivity]; cbn [vs_step_rel]; split; reflexivity).
    all: try (unfold vr_plain, vr_skip; rewrite parse_val_eq; cbv iota;
              destruct (dec_bytes r) as [[v b3]|e]; cbn; eauto).
    all: destruct (dec_bytes r) as [[v b3]|e]; [|reflexivity].
    all: destruct sk; cbn [vm_scalar_vtype vr_is_string sk_wt msg_packable card_repeated andb negb N.eqb Pos.eqb vr_packed_ok];
         try (destruct (f_utf8 fd)); cbn [andb];
         try (destruct (msg_utf8_valid v)); try (destruct (vr_varints (x00 :: v) v));
         try (destruct (N.of_nat (length v) mod 4 =? 0)); try (destruct (N.of_nat (length v) mod 8 =? 0));
         cbn; eauto.
  - destruct (typ =? 3) eqn:Ht3.
    + apply N.eqb_eq in Ht3. subst typ.
      destruct (f_card fd) as [| | | | |kk kutf8 vdef] eqn:Ec;
        [destruct (f_kind fd) as [sk|tid|tid] eqn:Ek ..|].
      all: try (cbn [vm_field_action vs_step_rel]; repeat split; reflexivity).
      all: try (unfold vr_plain; apply vs_plain_rel; destruct sk, (f_utf8 fd); reflexivity).
      all: try (unfold vr_plain; apply vs_plain_rel; reflexivity).
      all: try (cbn [N.eqb Pos.eqb]; apply vs_plain_rel; reflexivity).
    + apply N.eqb_neq in Ht2. apply N.eqb_neq in Ht3.
      destruct (f_card fd) as [| | | | |kk kutf8 vdef] eqn:Ec;
        [destruct (f_kind fd) as [sk|tid|tid] eqn:Ek ..|].
      all: try (unfold vr_plain; apply vs_plain_rel; apply vs_inert_other; assumption).
      all: try (apply vs_plain_rel; apply vs_inert_other; assumption).
Qed.

(* ---------- one field of a map-entry state ---------- *)
Definition vs_kt (kk : skind) (kutf8 : bool) : vm_vtype :=
  match kk with SkString => if kutf8 then VtUTF8 else VtOther | _ => VtOther end.
Definition vs_vt (vk : kind) (vutf8 : bool) : vm_vtype :=
  match vk with
  | KMsg t => VtMessage t
  | KS SkString => if vutf8 then VtUTF8 else VtOther
  | _ => VtOther
  end.
Definition vs_vmi (vk : kind) : option nat := match vk with KMsg t => Some t | _ => None end.

Definition vs_entry_body (reqof : nat -> bool) (g' : list byte) kk kutf8 vk vutf8 (vm : vr_t)
           (num typ : N) (r : list byte) (seenval i q : bool) : vres :=
  if (num =? 1) && (typ =? 2) && vr_is_string kk && kutf8 then
    match dec_bytes r with
    | Err _ => VBad
    | Ok (p, r') => if msg_utf8_valid p then vr_entry reqof g' kk kutf8 vk vutf8 vm r' seenval i q else VBad
    end
  else if (num =? 2) && (typ =? 2) then
    match vk with
    | KMsg tid =>
      match dec_bytes r with
      | Err _ => VBad
      | Ok (p, r') =>
        match vm tid 0 (x00 :: p) p with
        | VOk i1 q1 _ => vr_entry reqof g' kk kutf8 vk vutf8 vm r' true (i && i1) (q || q1)
        | e => e
        end
      end
    | KS sk =>
      match dec_bytes r with
      | Err _ => VBad
      | Ok (p, r') =>
        if vr_is_string sk && vutf8 && negb (msg_utf8_valid p) then VBad
        else vr_entry reqof g' kk kutf8 vk vutf8 vm r' seenval i q
      end
    | KGrp _ =>
      match vr_skip num typ r with
      | Some r' => vr_entry reqof g' kk kutf8 vk vutf8 vm r' seenval i q
      | None => VBad
      end
    end
  else
    match vr_skip num typ r with
    | Some r' => vr_entry reqof g' kk kutf8 vk vutf8 vm r' seenval i q
    | None => VBad
    end.

Lemma vs_entry_unfold reqof x g' kk kutf8 vk vutf8 vm bs sv i q :
  vr_entry reqof (x :: g') kk kutf8 vk vutf8 vm bs sv i q =
  match bs with
  | [] => VOk (i && (negb (match vk with KMsg tid => reqof tid | _ => false end) || sv)) q []
  | _ =>
    match dec_tag bs with
    | Err _ => VBad
    | Ok (num, typ, r) =>
      if msg_max_num <? num then VBad else vs_entry_body reqof g' kk kutf8 vk vutf8 vm num typ r sv i q
    end
  end.
Proof. destruct bs; reflexivity. Qed.

Definition vs_entry_vt kk kutf8 vk vutf8 (num : N) : vm_vtype :=
  if num =? 1 then vs_kt kk kutf8 else if num =? 2 then vs_vt vk vutf8 else VtOther.

Lemma vs_skip_len2 num r : vr_skip num 2 r = match dec_bytes r with Ok (_, r') => Some r' | Err _ => None end.
Proof. unfold vr_skip. rewrite parse_val_eq. cbv iota. destruct (dec_bytes r) as [[v r']|e]; reflexivity. Qed.

Lemma vs_entry_action reqof g' kk kutf8 vk vutf8 vm num typ r sv i q :
  match vm_field_action (vs_entry_vt kk kutf8 vk vutf8 num) num typ r with
  | AInvalid => vs_entry_body reqof g' kk kutf8 vk vutf8 vm num typ r sv i q = VBad
  | ACont r' => vs_entry_body reqof g' kk kutf8 vk vutf8 vm num typ r sv i q =
                vr_entry reqof g' kk kutf8 vk vutf8 vm r' sv i q
  | APush nt e tail content =>
    exists tid, nt = VtMessage tid /\ vk = KMsg tid /\ num = 2 /\ typ = 2 /\ e = 0 /\
      vs_entry_body reqof g' kk kutf8 vk vutf8 vm num typ r sv i q =
      match vm tid 0 (x00 :: content) content with
      | VOk i1 q1 _ => vr_entry reqof g' kk kutf8 vk vutf8 vm tail true (i && i1) (q || q1)
      | e' => e'
      end
  end.
Proof.
  unfold vs_entry_body, vs_entry_vt.
  destruct (typ =? 2) eqn:Ht2.
  - apply N.eqb_eq in Ht2. subst typ. rewrite vs_action_len, vs_skip_len2. rewrite !andb_true_r.
    destruct (num =? 1) eqn:Hn1.
    + assert (Hn2 : (num =? 2) = false) by lia. rewrite ?Hn2.
      cbn [andb]. destruct kk; cbn [vs_kt vr_is_string andb]; try destruct kutf8; cbn [andb];
        destruct (dec_bytes r) as [[v b3]|e]; try reflexivity;
        try (destruct (msg_utf8_valid v); reflexivity).
    + cbn [andb]. destruct (num =? 2) eqn:Hn2; cbn [andb].
      * destruct vk as [sk|tid|tid]; cbn [vs_vt].
        -- destruct sk; cbn [vr_is_string andb]; try destruct vutf8; cbn [andb];
             destruct (dec_bytes r) as [[v b3]|e]; try reflexivity;
             try (destruct (msg_utf8_valid v); reflexivity).
        -- destruct (dec_bytes r) as [[v b3]|e]; [|reflexivity].
           exists tid. apply N.eqb_eq in Hn2. repeat split; auto.
        -- destruct (dec_bytes r) as [[v b3]|e]; reflexivity.
      * destruct (dec_bytes r) as [[v b3]|e]; reflexivity.
  - rewrite !andb_false_r. cbn [andb].
    assert (Hi : vs_inert (if num =? 1 then vs_kt kk kutf8 else if num =? 2 then vs_vt vk vutf8 else VtOther) typ = true).
    { apply N.eqb_neq in Ht2. destruct (typ =? 3) eqn:Ht3.
      - apply N.eqb_eq in Ht3. subst typ. destruct (num =? 1); [destruct kk; try destruct kutf8; reflexivity|].
        destruct (num =? 2); [|reflexivity]. destruct vk as [sk|t|t]; try reflexivity. destruct sk; try destruct vutf8; reflexivity.
      - apply N.eqb_neq in Ht3. apply vs_inert_other; assumption. }
    rewrite vs_plain_action by exact Hi. destruct (vr_skip num typ r); reflexivity.
Qed.

(* ---------- one iteration of the machine ---------- *)
Definition vs_otag (b : list byte) : option (N * N * list byte) :=
  match dec_tag b with
  | Ok (num, typ, r) => if msg_max_num <? num then None else Some (num, typ, r)
  | Err _ => None
  end.

Lemma vs_run_nil S f st below d init :
  vm_run S (Datatypes.S f) (st :: below) [] d init =
  if vs_end st =? 0 then vm_run S f below (vs_tail st) (Datatypes.S d) (init && vm_pop_ok S st) else VmInvalid.
Proof. reflexivity. Qed.

Lemma vs_run_cons S f st below b d init : b <> [] ->
  vm_run S (Datatypes.S f) (st :: below) b d init =
  match vs_otag b with
  | None => VmInvalid
  | Some (num, wtyp, b1) =>
    if wtyp =? 4 then
      (if vs_end st =? num then vm_run S f below b1 (Datatypes.S d) (init && vm_pop_ok S st) else VmInvalid)
    else
      match vm_field_action (fst (vm_info S st num)) num wtyp b1 with
      | AInvalid => VmInvalid
      | ACont b' => vm_run S f (vm_mark S st num wtyp :: below) b' d init
      | APush nt e tail content =>
        match d with
        | O => VmInvalid
        | Datatypes.S d' => vm_run S f (mkVS nt e tail [] :: vm_mark S st num wtyp :: below) content d' init
        end
      end
  end.
Proof.
  intros Hb. destruct b as [|b0 t]; [congruence|]. cbn [vm_run]. unfold vs_otag. rewrite <- vs_tag.
  destruct (vm_fast_varint (b0 :: t)) as [[tag b1]|]; [|reflexivity].
  destruct ((tag / 8 <? 1) || (msg_max_num <? tag / 8)); reflexivity.
Qed.

(* required bit: the machine's compatibility test is the recursive validator's *)
Lemma vs_compat fd typ :
  vr_is_req fd && vm_compat (vm_field_vtype fd) typ = vr_is_req fd && (typ =? kind_wt (f_kind fd)).
Proof.
  unfold vr_is_req, vm_field_vtype. destruct (f_card fd); try reflexivity.
  destruct (negb (f_ext fd)); [|reflexivity]. cbn [andb card_repeated].
  destruct (f_kind fd) as [sk|t|t]; try reflexivity.
  destruct sk; cbn [vm_scalar_vtype sk_wt kind_wt vm_compat]; try destruct (f_utf8 fd); reflexivity.
Qed.

Lemma vs_info_msg S st tid md num :
  (vs_typ st = VtMessage tid \/ vs_typ st = VtGroup tid) -> nth tid S [] = md ->
  fst (vm_info S st num) = vs_vt_of md num /\
  forall typ, vm_mark S st num typ =
    mkVS (vs_typ st) (vs_end st) (vs_tail st) (if vr_marks md num typ then num :: vs_mask st else vs_mask st).
Proof.
  intros Ht Hmd.
  assert (E : vm_md S (vs_typ st) = md) by (destruct Ht as [Ht|Ht]; rewrite Ht; exact Hmd).
  unfold vm_mark, vm_info, vs_vt_of, vr_marks.
  destruct Ht as [Ht|Ht]; rewrite Ht in E |- *; cbv iota beta; rewrite E.
  all: destruct (msg_find_field md num) as [fd|]; cbn [fst]; (split; [reflexivity|]); intros typ.
  all: try (rewrite vs_compat; destruct (vr_is_req fd && (typ =? kind_wt (f_kind fd))); [reflexivity|destruct st; cbn in Ht |- *; rewrite Ht; reflexivity]).
  all: cbn [andb]; destruct st; cbn in Ht |- *; rewrite Ht; reflexivity.
Qed.

(* ---------- what an action leaves ---------- *)
Lemma vs_action_bound vt num typ r :
  match vm_field_action vt num typ r with
  | AInvalid => True
  | ACont r' => (length r' <= length r)%nat
  | APush nt e tail c => (length c + length tail <= length r)%nat /\ nt = vt
  end.
Proof.
  destruct (typ =? 2) eqn:Ht2.
  { apply N.eqb_eq in Ht2. subst typ. rewrite vs_action_len.
    destruct (dec_bytes r) as [[v b3]|e] eqn:Eb; [|exact I].
    pose proof (vp_dec_bytes_len _ _ _ Eb).
    destruct vt; try (cbn; lia); try (split; [lia|reflexivity]).
    all: match goal with |- context [if ?c then _ else _] => destruct c end; cbn; try lia; exact I. }
  unfold vm_field_action. destruct_typ typ; try exact I; try discriminate Ht2.
  all: try (rewrite vs_skip_varint; destruct (dec_varint r) as [[v r']|e] eqn:E; [|exact I];
            pose proof (vp_dec_varint_len _ _ _ E); lia).
  all: try (destruct (take _ r) as [[a r']|] eqn:E; [|exact I]; apply take_some in E; destruct E as [-> _];
            rewrite app_length; lia).
  destruct vt; try (destruct (vr_skip num 3 r) eqn:E; [apply vp_skip_len in E; exact E|exact I]).
  split; [cbn; lia|reflexivity].
Qed.

(* ---------- running a state to its end ---------- *)
Definition vs_runs (S : schema) (st : vm_state) (below : list vm_state) (bs : list byte) (d : nat)
           (A i : bool) (res : vres) (next : list byte -> list byte) : Prop :=
  match res with
  | VFuel => True
  | VBad => exists n, (n <= 2 * length bs + 1)%nat /\
              forall fuel, vm_run S (n + fuel) (st :: below) bs d (A && i) = VmInvalid
  | VOk i' q' rest =>
    exists n, (n + 2 * length rest <= 2 * length bs + 1)%nat /\ (length rest <= length bs)%nat /\
      forall fuel, vm_run S (n + fuel) (st :: below) bs d (A && i) =
                   vm_run S fuel below (next rest) (Datatypes.S d) (A && i')
  end.

Lemma vs_otag_some b num typ r : dec_tag b = Ok (num, typ, r) -> (msg_max_num <? num) = false ->
  vs_otag b = Some (num, typ, r).
Proof. intros E H. unfold vs_otag. rewrite E, H. reflexivity. Qed.

