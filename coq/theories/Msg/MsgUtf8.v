(* MsgUtf8 — utf8.Valid on byte lists (used by the message codec for fields with
   enforced UTF-8).  Definitions only; C13 owns the theorems about UTF-8. *)
From Coq Require Import List NArith Bool.
From PB Require Import Base.PBytes.
Import ListNotations.
Open Scope N_scope.

Definition msg_inr (lo hi : N) (b : byte) : bool := (lo <=? b2n b) && (b2n b <=? hi).
Definition msg_cont (b : byte) : bool := msg_inr 128 191 b.

(* fuel: the list itself (every step consumes at least one byte) *)
Fixpoint msg_utf8_valid_f (g : list byte) (bs : list byte) : bool :=
  match g with
  | [] => match bs with [] => true | _ => false end
  | _ :: g' =>
    match bs with
    | [] => true
    | b0 :: r =>
      let x := b2n b0 in
      if x <? 128 then msg_utf8_valid_f g' r
      else if x <? 194 then false
      else if x <? 224 then
        match r with b1 :: r' => msg_cont b1 && msg_utf8_valid_f g' r' | _ => false end
      else if x <? 240 then
        match r with
        | b1 :: b2 :: r' =>
          (if x =? 224 then msg_inr 160 191 b1 else if x =? 237 then msg_inr 128 159 b1 else msg_cont b1)
          && msg_cont b2 && msg_utf8_valid_f g' r'
        | _ => false
        end
      else if x <? 245 then
        match r with
        | b1 :: b2 :: b3 :: r' =>
          (if x =? 240 then msg_inr 144 191 b1 else if x =? 244 then msg_inr 128 143 b1 else msg_cont b1)
          && msg_cont b2 && msg_cont b3 && msg_utf8_valid_f g' r'
        | _ => false
        end
      else false
    end
  end.
Definition msg_utf8_valid (bs : list byte) : bool := msg_utf8_valid_f bs bs.
