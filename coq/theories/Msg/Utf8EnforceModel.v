(* Utf8EnforceModel: where the codecs of protobuf-go test string values for UTF-8
   validity (property C13).  Definitions only; proofs in Utf8EnforceP.v.

   Part 1: strs.EnforceUTF8 (internal/strs/strings.go) as a decision table.
   Part 2: for every string/bytes *position* and every codec, the verdict on a byte
           string placed in that position: rejected, or accepted with the bytes that
           the codec delivers. *)
From Coq Require Import List NArith Bool.
Require Import PB.Base.PBytes PB.Base.Utf8Valid.
Import ListNotations.

(* ---------------------------------------------------------------- part 1 *)

Inductive syntax := Proto2 | Proto3 | Editions.

(* what strs.EnforceUTF8 reads of a field descriptor *)
Record fdesc := {
  fd_syntax : syntax;            (* fd.Syntax() *)
  fd_has_method : bool;          (* fd implements interface{ EnforceUTF8() bool } (filedesc.Field does) *)
  fd_validated : bool            (* the value of that method: L1.EditionFeatures.IsUTF8Validated *)
}.

Definition is_editions (s : syntax) : bool := match s with Editions => true | _ => false end.
Definition is_proto3 (s : syntax) : bool := match s with Proto3 => true | _ => false end.

(*  func EnforceUTF8(fd) bool {
      if flags.ProtoLegacy || fd.Syntax() == protoreflect.Editions {
        if fd, ok := fd.(interface{ EnforceUTF8() bool }); ok { return fd.EnforceUTF8() }
      }
      return fd.Syntax() == protoreflect.Proto3
    }                                                                            *)
Definition enforce_utf8 (legacy : bool) (fd : fdesc) : bool :=
  if (legacy || is_editions (fd_syntax fd)) && fd_has_method fd
  then fd_validated fd
  else is_proto3 (fd_syntax fd).

(* filedesc: IsUTF8Validated = edition default (proto2: NONE, proto3 and 2023: VERIFY),
   overridden by features.utf8_validation on file, message(s), field (innermost wins),
   overridden by the legacy field option enforce_utf8 when present. *)
Definition edition_default_validated (s : syntax) : bool :=
  match s with Proto2 => false | _ => true end.
Fixpoint resolve_feature (dflt : bool) (overrides : list (option bool)) : bool :=
  match overrides with
  | [] => dflt
  | None :: r => resolve_feature dflt r
  | Some v :: r => resolve_feature v r
  end.
(* overrides are listed outermost first: file, messages, field features, then the enforce_utf8 option *)
Definition is_validated (s : syntax) (overrides : list (option bool)) : bool :=
  resolve_feature (edition_default_validated s) overrides.

(* ---------------------------------------------------------------- part 2 *)

Inductive fkind := KString | KBytes.

Inductive position :=
| PSingular        (* implicit-presence or required scalar *)
| POptional        (* explicit presence (pointer / presence bit) *)
| PRepeated        (* list element *)
| POneof           (* member of a real oneof *)
| PMapKey
| PMapValue
| PExtension       (* singular extension *)
| PExtensionList   (* element of a repeated extension *)
| PAnyTypeUrl.     (* the singular proto3 string field google.protobuf.Any.type_url *)

Inductive codec :=
| BinMarshalFast     (* internal/impl table-driven coders (generated types): append*ValidateUTF8 *)
| BinMarshalSlow     (* proto/encode_gen.go marshalSingular (dynamicpb, reflection) *)
| BinUnmarshalFast   (* internal/impl consume*ValidateUTF8 *)
| BinUnmarshalSlow   (* proto/decode_gen.go unmarshalScalar / unmarshalList *)
| Validator          (* internal/impl/validate.go (lazy decoding, wire fuzzing) *)
| JsonMarshal        (* protojson: json.Encoder.WriteString / WriteName *)
| JsonUnmarshal      (* protojson: json.Decoder.parseString on raw bytes between quotes; bytes: base64 *)
| TextMarshal        (* prototext encoder.marshalSingular *)
| TextUnmarshalEsc   (* prototext: bytes >= 0x80 delivered as \xNN escapes *)
| TextUnmarshalRaw.  (* prototext: raw bytes between quotes *)

(* the two enforcement bits a position can be judged by:
   e_self : strs.EnforceUTF8 of the descriptor of the position itself
            (the field; for map key/value the synthetic entry's key/value field)
   e_map  : strs.EnforceUTF8 of the enclosing map field (= e_self for other positions) *)
Record ebits := { e_self : bool; e_map : bool }.

Definition is_map_pos (p : position) : bool :=
  match p with PMapKey | PMapValue => true | _ => false end.

(* which bit governs the position for a codec: every codec asks the descriptor of the
   position itself, except the validator, which for map entries asks the map field
   (validate.go newValidationInfo: case fd.IsMap(): strs.EnforceUTF8(fd)). *)
Definition declared (c : codec) (p : position) (e : ebits) : bool :=
  match c with
  | Validator => if is_map_pos p then e_map e else e_self e
  | _ => e_self e
  end.

(* Two places where the code does not consult the bit at all (findings FL1, FL2):
   FL1  internal/impl/codec_tables.go encoderFuncsForValue, repeated && !packed, StringKind:
        "We don't have a UTF-8 validating coder for repeated string fields ... Extensions are
        never proto3" -> coderStringSliceValue, no validation.  Repeated string extensions
        declared in proto3 or editions files (custom options!) are therefore not validated by
        the table-driven marshal/unmarshal, while the reflection path and the validator do.
   FL2  encoding/prototext/decode.go unmarshalAny: the non-expanded form reads
        `type_url: "..."` with tok.String() and stores it without the EnforceUTF8 test that
        unmarshalScalar applies to every other string field. *)
Definition excl_FL1 (c : codec) (p : position) : bool :=
  match c, p with
  | BinMarshalFast, PExtensionList | BinUnmarshalFast, PExtensionList => true
  | _, _ => false
  end.
Definition excl_FL2 (c : codec) (p : position) : bool :=
  match c, p with
  | TextUnmarshalEsc, PAnyTypeUrl => true
  | _, _ => false
  end.

(* the bit the code actually acts on *)
Definition consulted (c : codec) (p : position) (e : ebits) : bool :=
  declared c p e && negb (excl_FL1 c p) && negb (excl_FL2 c p).

Inductive verdict :=
| Reject
| Accept (delivered : list byte).

Definition reject_if (b : bool) (bs : list byte) : verdict := if b then Reject else Accept bs.

Definition verdict_of (c : codec) (k : fkind) (p : position) (e : ebits) (bs : list byte) : verdict :=
  match k with
  | KBytes =>
    match c with
    | TextUnmarshalRaw => reject_if (negb (utf8_valid_dec bs)) bs   (* the lexer decodes every literal as UTF-8 *)
    | _ => Accept bs
    end
  | KString =>
    match c with
    | BinMarshalFast | BinMarshalSlow | BinUnmarshalFast | BinUnmarshalSlow | Validator
    | TextMarshal | TextUnmarshalEsc =>
        reject_if (consulted c p e && negb (utf8_valid bs)) bs
    | JsonMarshal | JsonUnmarshal | TextUnmarshalRaw =>
        (* iterate utf8.DecodeRune, fail on (RuneError, 1): every string, enforced or not *)
        reject_if (negb (utf8_valid_dec bs)) bs
    end
  end.

(* codecs for which the property promises pass-through of arbitrary bytes in
   non-validated string fields and bytes fields ("binary and text codecs") *)
Definition passthrough_codec (c : codec) : bool :=
  match c with
  | BinMarshalFast | BinMarshalSlow | BinUnmarshalFast | BinUnmarshalSlow | Validator
  | TextMarshal | TextUnmarshalEsc => true
  | _ => false
  end.

(* ---- decoding of the harness tokens (small enums as numbers) *)
Definition syntax_of_N (n : N) : syntax := match n with 2%N => Proto2 | 3%N => Proto3 | _ => Editions end.
Definition fkind_of_N (n : N) : fkind := match n with 0%N => KString | _ => KBytes end.
Definition position_of_N (n : N) : position :=
  match n with
  | 0 => PSingular | 1 => POptional | 2 => PRepeated | 3 => POneof
  | 4 => PMapKey | 5 => PMapValue | 6 => PExtension | 7 => PExtensionList | _ => PAnyTypeUrl
  end%N.
Definition codec_of_N (n : N) : codec :=
  match n with
  | 0 => BinMarshalFast | 1 => BinMarshalSlow | 2 => BinUnmarshalFast | 3 => BinUnmarshalSlow
  | 4 => Validator | 5 => JsonMarshal | 6 => JsonUnmarshal | 7 => TextMarshal
  | 8 => TextUnmarshalEsc | _ => TextUnmarshalRaw
  end%N.
