(* UniqModel (property C26): internal/set.Ints and event-level models of the two
   unmarshalMessage loops (encoding/protojson/decode.go, encoding/prototext/decode.go):
   field uniqueness (seenNums), oneof uniqueness (seenOneofs) and RecursionLimit
   accounting including the skip paths (skipJSONValue; skipValue/skipMessageValue).
   Definitions only; proofs in UniqP.v. *)
From Coq Require Import List NArith Bool Arith.
Import ListNotations.

(* ================================================================ internal/set/ints.go *)

Definition two64 : N := 18446744073709551616%N.

(* uint64(x) << n in Go: shift counts >= 64 give 0; the result wraps at 64 bits *)
Definition shl64 (x n : N) : N := if (n <? 64)%N then N.modulo (N.shiftl x n) two64 else 0%N.

(* bits.OnesCount64: the number of set bits among bits 0..63 *)
Definition idx64 : list N := map N.of_nat (seq 0 64).
Definition popcount64 (x : N) : nat := length (filter (N.testbit x) idx64).

(* type int64s uint64 *)
Definition lo_len (bs : N) : nat := popcount64 bs.
Definition lo_has (bs n : N) : bool := (0 <? N.land bs (shl64 1 n))%N.       (* uint64(bs)&(uint64(1)<<n) > 0 *)
Definition lo_set (bs n : N) : N := N.lor bs (shl64 1 n).                     (* |= uint64(1) << n *)
Definition lo_clear (bs n : N) : N := N.ldiff bs (shl64 1 n).                 (* &^= uint64(1) << n *)

(* type Ints struct { lo int64s; hi map[uint64]struct{} };  hi = None is the nil map.
   A map is modelled by the list of its keys (no duplicates, most recent insertion first). *)
Record ints := { lo : N; hi : option (list N) }.
Definition ints_empty : ints := {| lo := 0%N; hi := None |}.

Definition mem (n : N) (l : list N) : bool := existsb (N.eqb n) l.
Definition map_len (m : option (list N)) : nat := match m with None => 0 | Some l => length l end.
Definition map_has (m : option (list N)) (n : N) : bool := match m with None => false | Some l => mem n l end.

Definition ints_len (s : ints) : nat := lo_len (lo s) + map_len (hi s).
Definition ints_has (s : ints) (n : N) : bool :=
  if (n <? 64)%N then lo_has (lo s) n else map_has (hi s) n.

(* writing to a nil map panics in Go: [map_store] returns None for that; Ints.Set makes the map first *)
Definition map_store (m : option (list N)) (n : N) : option (list N) :=
  match m with None => None | Some l => Some (if mem n l then l else n :: l) end.
Definition ints_set (s : ints) (n : N) : option ints :=
  if (n <? 64)%N then Some {| lo := lo_set (lo s) n; hi := hi s |}
  else
    let m := match hi s with None => Some [] | Some l => Some l end in      (* if bs.hi == nil { bs.hi = make(...) } *)
    match map_store m n with
    | None => None                                                          (* panic: assignment to entry in nil map *)
    | Some l => Some {| lo := lo s; hi := Some l |}
    end.
Definition ints_clear (s : ints) (n : N) : ints :=
  if (n <? 64)%N then {| lo := lo_clear (lo s) n; hi := hi s |}
  else {| lo := lo s; hi := match hi s with None => None | Some l => Some (filter (fun x => negb (N.eqb n x)) l) end |}.

(* op histories (for the refinement theorem and the harness) *)
Inductive iop := ISet (n : N) | IClear (n : N).
Fixpoint ints_run (ops : list iop) (s : ints) : option ints :=
  match ops with
  | [] => Some s
  | ISet n :: r => match ints_set s n with None => None | Some s' => ints_run r s' end
  | IClear n :: r => ints_run r (ints_clear s n)
  end.
(* the specification: a finite set of numbers as a duplicate-free list *)
Definition spec_set (a : list N) (n : N) : list N := if mem n a then a else n :: a.
Definition spec_clear (a : list N) (n : N) : list N := filter (fun x => negb (N.eqb n x)) a.
Fixpoint spec_run (ops : list iop) (a : list N) : list N :=
  match ops with
  | [] => a
  | ISet n :: r => spec_run r (spec_set a n)
  | IClear n :: r => spec_run r (spec_clear a n)
  end.

(* ================================================================ documents as field-event trees *)

Inductive fcls := CSingular | CList | CMap.

(* one field occurrence inside a message body; a message body is a [list fld] *)
Inductive fld :=
| Known (num : N)                 (* field (or extension) number the name resolves to *)
        (cls : fcls)
        (oneof : option N)        (* index of the containing oneof, if any (synthetic oneofs included) *)
        (isnull : bool)           (* JSON: the value is null and the field is not Value/NullValue *)
        (children : list (list fld))   (* bodies of the message values directly under this occurrence *)
| Unknown (reserved : bool)       (* name does not resolve; text: the name is a reserved name of the message *)
          (d : nat)               (* bracket nesting of the value: JSON { and [ ; text { < only *)
| Scan (d : nat)                  (* JSON Any: findTypeURL skips every member value before decoding *)
| ByNum.                          (* text: a known field addressed by its number *)

Inductive rej := RDup | ROneof | RDepth | RUnknown | RByNum.
Inductive outcome := Accept | Reject (r : rej) | Panic.

Definition oset (s : ints) (n : N) (k : ints -> outcome) : outcome :=
  match ints_set s n with None => Panic | Some s' => k s' end.

(* the message values under one field occurrence are decoded left to right by the
   (recursive) message decoder [rec]; the first failure aborts *)
Fixpoint kids (rec : list fld -> outcome) (cs : list (list fld)) : outcome :=
  match cs with
  | [] => Accept
  | c :: cs' => match rec c with Accept => kids rec cs' | o => o end
  end.

(* ---------------------------------------------------------------- protojson
   unmarshalMessage: d.opts.RecursionLimit--; if < 0 error.  The decoder is passed by value, so
   the decrement is scoped to the call.  [rem'] = RecursionLimit after the decrement,
   [rec] = unmarshalMessage for nested messages (running with rem').
   discard = UnmarshalOptions.DiscardUnknown. *)
Fixpoint jloop (discard : bool) (rec : list fld -> outcome) (rem' : nat)
               (fs : list fld) (seen seenO : ints) {struct fs} : outcome :=
  match fs with
  | [] => Accept
  | f :: fs' =>
    match f with
    | Known num cls oneof isnull children =>
      if ints_has seen num then Reject RDup                                   (* "duplicate field" *)
      else oset seen num (fun seen1 =>
        if isnull then jloop discard rec rem' fs' seen1 seenO                 (* null: skipped, oneof not marked *)
        else
          match cls, oneof with
          | CSingular, Some idx =>
              if ints_has seenO idx then Reject ROneof                        (* "oneof ... is already set" *)
              else oset seenO idx (fun seenO1 =>
                match kids rec children with Accept => jloop discard rec rem' fs' seen1 seenO1 | o => o end)
          | _, _ =>
              match kids rec children with Accept => jloop discard rec rem' fs' seen1 seenO | o => o end
          end)
    | Unknown _ d =>
        if discard
        then (if Nat.ltb rem' d then Reject RDepth                            (* skipJSONValue: open > RecursionLimit *)
              else jloop discard rec rem' fs' seen seenO)
        else Reject RUnknown
    | Scan d => if Nat.ltb rem' d then Reject RDepth else jloop discard rec rem' fs' seen seenO
    | ByNum => jloop discard rec rem' fs' seen seenO                          (* not a JSON notion; ignored *)
    end
  end.

Fixpoint jmsg (discard : bool) (rem : nat) (fs : list fld) {struct rem} : outcome :=
  match rem with
  | O => Reject RDepth
  | S rem' => jloop discard (jmsg discard rem') rem' fs ints_empty ints_empty
  end.

(* ---------------------------------------------------------------- prototext
   unmarshalMessage decrements on entry; unmarshalMap decrements once more for the entry level;
   skipMessageValue decrements per nested message.  Lists and maps may be named repeatedly.
   [rec] decodes a nested message with rem', [rec2] a map value message with rem' - 1. *)
Fixpoint tloop (discard : bool) (rec rec2 : list fld -> outcome) (rem' : nat)
               (fs : list fld) (seen seenO : ints) {struct fs} : outcome :=
  match fs with
  | [] => Accept
  | f :: fs' =>
    match f with
    | Known num cls oneof _ children =>
      match cls with
      | CSingular =>
        let body := fun seenO1 =>
          if ints_has seen num then Reject RDup                               (* "non-repeated field ... is repeated" *)
          else match kids rec children with
               | Accept => oset seen num (fun seen1 => tloop discard rec rec2 rem' fs' seen1 seenO1)
               | o => o
               end in
        match oneof with
        | Some idx => if ints_has seenO idx then Reject ROneof else oset seenO idx body
        | None => body seenO
        end
      | CList =>
        match kids rec children with Accept => tloop discard rec rec2 rem' fs' seen seenO | o => o end
      | CMap =>
        match rem' with
        | O => Reject RDepth                                                  (* unmarshalMap: RecursionLimit-- < 0 *)
        | S _ => match kids rec2 children with Accept => tloop discard rec rec2 rem' fs' seen seenO | o => o end
        end
      end
    | Unknown reserved d =>
        if discard || reserved
        then (if Nat.ltb rem' d then Reject RDepth else tloop discard rec rec2 rem' fs' seen seenO)
        else Reject RUnknown
    | Scan _ => tloop discard rec rec2 rem' fs' seen seenO
    | ByNum => Reject RByNum                                                  (* "cannot specify field by number" *)
    end
  end.

Fixpoint tmsg (discard : bool) (rem : nat) (fs : list fld) {struct rem} : outcome :=
  match rem with
  | O => Reject RDepth
  | S rem' =>
    tloop discard (tmsg discard rem')
          (match rem' with O => fun _ => Reject RDepth | S rem'' => tmsg discard rem'' end)
          rem' fs ints_empty ints_empty
  end.

(* ---------------------------------------------------------------- nesting
   The number of RecursionLimit units a message body needs.  protojson: one per message, and the
   bracket nesting of skipped values.  prototext: one per message, one per map entry, and the message
   nesting of skipped values. *)
Fixpoint fdepth_j (f : fld) : nat :=
  match f with
  | Known _ _ _ isnull children =>
      if isnull then 0 else list_max (map (fun body => S (list_max (map fdepth_j body))) children)
  | Unknown _ d => d
  | Scan d => d
  | ByNum => 0
  end.
Definition depth_j (fs : list fld) : nat := S (list_max (map fdepth_j fs)).

Fixpoint fdepth_t (f : fld) : nat :=
  match f with
  | Known _ cls _ _ children =>
      let below := list_max (map (fun body => S (list_max (map fdepth_t body))) children) in
      match cls with CMap => S below | _ => below end
  | Unknown _ d => d
  | Scan _ => 0
  | ByNum => 0
  end.
Definition depth_t (fs : list fld) : nat := S (list_max (map fdepth_t fs)).

(* ---------------------------------------------------------------- prototext unmarshalAny
   google.protobuf.Any has a loop of its own (no seenNums): three kinds of field events. *)
Inductive aev :=
| AT                      (* type_url: "..." *)
| AV                      (* value: "..." *)
| AE (child : outcome).   (* [type.url] { ... } expanded form; [child] = outcome of decoding the embedded message *)

Fixpoint tany (evs : list aev) (seenT seenV expanded : bool) : outcome :=
  match evs with
  | [] => Accept
  | AT :: r => if seenT then Reject RDup                    (* "duplicate ... type_url field" *)
               else if expanded then Reject RDup            (* "conflict with [%s] field" *)
               else tany r true seenV expanded
  | AV :: r => if seenV then Reject RDup
               else if expanded then Reject RDup
               else tany r seenT true expanded
  | AE child :: r =>
               if expanded then Reject RDup                 (* "cannot have more than one type" *)
               else if seenT then Reject RDup               (* "conflict with type_url field" *)
               else match child with                        (* seenValue is NOT consulted: finding FL3 *)
                    | Accept => tany r seenT seenV true
                    | o => o
                    end
  end.

(* how many events give the bytes field Any.value a value *)
Fixpoint value_sets (evs : list aev) : nat :=
  match evs with
  | [] => 0
  | AT :: r => value_sets r
  | _ :: r => S (value_sets r)
  end.
Definition excl_FL3 (evs : list aev) : bool :=
  match evs with
  | [AV; AE Accept] => true
  | _ => false
  end.

(* ---- tokens of the harness *)
Definition rej_code (r : rej) : N :=
  match r with RDup => 1 | ROneof => 2 | RDepth => 3 | RUnknown => 4 | RByNum => 5 end%N.
