(* The executable recogniser [is_json] is sound for the inductive grammar [json_text]. *)
From Coq Require Import List NArith ZArith Lia Bool.
From PB Require Import Base.PBytes Json.JsonUtf8 Json.JsonGrammar Json.JsonNumModel Json.JsonNumP
  Json.JsonLexModel Json.JsonStrP Json.JsonLexP.
Import ListNotations.
Open Scope N_scope.

Lemma strip_chars_sound fuel : forall s r, strip_chars fuel s = Some r ->
  exists body, s = body ++ c_quote :: r /\ jchars body.
Proof.
  induction fuel as [|f IH]; intros s r; cbn [strip_chars]; [discriminate|].
  destruct s as [|b s1]; [discriminate|].
  destruct (is b c_quote) eqn:Eq.
  { intros [= <-]. apply is_true in Eq. subst. exists []. split; auto. constructor. }
  destruct (is b c_bslash) eqn:Eb.
  { apply is_true in Eb. subst b. destruct s1 as [|e r1]; [discriminate|].
    destruct (is_simple_esc e) eqn:Ee.
    { intros H. apply IH in H as (body & -> & Hb). exists (c_bslash :: e :: body). split; auto. now apply JCesc. }
    destruct (is e c_u) eqn:Eu; [|discriminate]. apply is_true in Eu. subst e.
    destruct r1 as [|h1 [|h2 [|h3 [|h4 r2]]]]; try discriminate.
    destruct (is_hex h1 && is_hex h2 && is_hex h3 && is_hex h4) eqn:Eh; [|discriminate].
    apply andb_true_iff in Eh as [Eh H4]. apply andb_true_iff in Eh as [Eh H3]. apply andb_true_iff in Eh as [H1 H2].
    intros H. apply IH in H as (body & -> & Hb).
    exists (c_bslash :: c_u :: h1 :: h2 :: h3 :: h4 :: body). split; auto. now apply JCuni. }
  destruct (take (utf8_len b) (b :: s1)) as [[c r1]|] eqn:Et; [|discriminate].
  destruct (rfc3629_char c && unescaped c) eqn:Ec; [|discriminate]. apply andb_true_iff in Ec as [Ec1 Ec2].
  intros H. apply IH in H as (body & -> & Hb). apply take_some in Et as [Et _].
  exists (c ++ body). split; [rewrite Et; app_eq|]. now apply JCplain.
Qed.

Lemma strip_string_sound s r : strip_string s = Some r -> exists k, s = k ++ r /\ rfc_string k.
Proof.
  unfold strip_string. destruct s as [|b s1]; [discriminate|].
  destruct (is b c_quote) eqn:Eq; [|discriminate]. apply is_true in Eq. subst b.
  intros H. apply strip_chars_sound in H as (body & -> & Hb).
  exists (c_quote :: body ++ [c_quote]). split; [app_eq|]. exists body. auto.
Qed.

(* the prefix that precedes the current element: whitespace, or complete elements and a comma *)
Definition elems_prefix (pre : list byte) : Prop :=
  ws pre \/ exists p w, jelems p /\ ws w /\ pre = p ++ c_comma :: w.
Definition members_prefix (pre : list byte) : Prop :=
  ws pre \/ exists p w, jmembers p /\ ws w /\ pre = p ++ c_comma :: w.

Lemma elems_prefix_value pre v w : elems_prefix pre -> jvalue v -> ws w -> jelems (pre ++ v ++ w).
Proof.
  intros [Hp | (p & w0 & Hp & Hw0 & ->)] Hv Hw; [now constructor|].
  rewrite <- app_assoc. cbn [app]. now constructor.
Qed.
Lemma members_prefix_member pre k w2 w3 v w : members_prefix pre -> rfc_string k -> ws w2 -> ws w3 ->
  jvalue v -> ws w -> jmembers (pre ++ k ++ w2 ++ c_colon :: w3 ++ v ++ w).
Proof.
  intros [Hp | (p & w0 & Hp & Hw0 & ->)] Hk H2 H3 Hv Hw; [now constructor|].
  rewrite <- app_assoc. cbn [app]. now constructor.
Qed.

Lemma strip_prefix_lit lit s r : strip_prefix lit s = Some r -> s = lit ++ r.
Proof. apply strip_prefix_spec. Qed.

Theorem strip_value_sound fuel :
  (forall s r, strip_value fuel s = Some r -> exists v, s = v ++ r /\ jvalue v) /\
  (forall s r, strip_elems fuel s = Some r ->
     forall pre, elems_prefix pre -> exists q, jelems q /\ pre ++ s = q ++ c_rbrack :: r) /\
  (forall s r, strip_members fuel s = Some r ->
     forall pre, members_prefix pre -> exists q, jmembers q /\ pre ++ s = q ++ c_rbrace :: r).
Proof.
  induction fuel as [|f (IHv & IHe & IHm)]; [repeat split; intros; discriminate|].
  split; [|split].
  - (* value *)
    intros s r. cbn [strip_value]. destruct s as [|b s1]; [discriminate|].
    destruct (is b c_lbrack) eqn:E1.
    { apply is_true in E1. subst b. destruct (skip_ws_spec s1) as (w & Hs1 & Hw).
      destruct (skip_ws s1) as [|b1 r1] eqn:Esk; [discriminate|].
      destruct (is b1 c_rbrack) eqn:E2.
      - intros [= <-]. apply is_true in E2. subst b1. exists (c_lbrack :: w ++ [c_rbrack]).
        split; [rewrite Hs1; app_eq|]. now apply JArrE.
      - intros H. destruct (IHe _ _ H w (or_introl Hw)) as (q & Hq & Heq).
        exists (c_lbrack :: q ++ [c_rbrack]). split; [|now apply JArr].
        rewrite Hs1, Heq. app_eq. }
    destruct (is b c_lbrace) eqn:E2.
    { apply is_true in E2. subst b. destruct (skip_ws_spec s1) as (w & Hs1 & Hw).
      destruct (skip_ws s1) as [|b1 r1] eqn:Esk; [discriminate|].
      destruct (is b1 c_rbrace) eqn:E3.
      - intros [= <-]. apply is_true in E3. subst b1. exists (c_lbrace :: w ++ [c_rbrace]).
        split; [rewrite Hs1; app_eq|]. now apply JObjE.
      - intros H. destruct (IHm _ _ H w (or_introl Hw)) as (q & Hq & Heq).
        exists (c_lbrace :: q ++ [c_rbrace]). split; [|now apply JObj].
        rewrite Hs1, Heq. app_eq. }
    destruct (is b c_quote).
    { intros H. apply strip_string_sound in H as (k & -> & Hk). exists k. split; auto. now apply JStr. }
    destruct (is b "n"%byte).
    { intros H. apply strip_prefix_lit in H. exists lit_null. split; auto. constructor. }
    destruct (is b "t"%byte).
    { intros H. apply strip_prefix_lit in H. exists lit_true. split; auto. constructor. }
    destruct (is b "f"%byte).
    { intros H. apply strip_prefix_lit in H. exists lit_false. split; auto. constructor. }
    intros H. apply strip_number_sound in H as (num & -> & Hn). exists num. split; auto. now apply JNum.
  - (* elements *)
    intros s r. cbn [strip_elems]. destruct (strip_value f s) as [r0|] eqn:Ev; [|discriminate].
    destruct (IHv _ _ Ev) as (v & -> & Hv). destruct (skip_ws_spec r0) as (w & Hr0 & Hw).
    destruct (skip_ws r0) as [|b r1] eqn:Esk; [discriminate|].
    destruct (is b c_comma) eqn:E1.
    { apply is_true in E1. subst b. intros H pre Hpre.
      destruct (skip_ws_spec r1) as (w' & Hr1 & Hw'). set (s2 := skip_ws r1) in *.
      assert (Hpre' : elems_prefix ((pre ++ v ++ w) ++ c_comma :: w')).
      { right. exists (pre ++ v ++ w), w'. repeat split; auto. now apply elems_prefix_value. }
      destruct (IHe _ _ H _ Hpre') as (q & Hq & Heq). exists q. split; auto.
      rewrite <- Heq, Hr0, Hr1. app_eq. }
    destruct (is b c_rbrack) eqn:E2; [|discriminate]. apply is_true in E2. subst b.
    intros [= <-] pre Hpre. exists (pre ++ v ++ w). split; [now apply elems_prefix_value|].
    rewrite Hr0. app_eq.
  - (* members *)
    intros s r. cbn [strip_members]. destruct (strip_string s) as [r0|] eqn:Ek; [|discriminate].
    apply strip_string_sound in Ek as (k & -> & Hk). destruct (skip_ws_spec r0) as (w2 & Hr0 & Hw2).
    destruct (skip_ws r0) as [|b r1] eqn:Esk; [discriminate|].
    destruct (is b c_colon) eqn:E0; [|discriminate]. apply is_true in E0. subst b.
    destruct (skip_ws_spec r1) as (w3 & Hr1 & Hw3). set (s2 := skip_ws r1) in *.
    destruct (strip_value f s2) as [r2|] eqn:Ev; [|discriminate].
    destruct (IHv _ _ Ev) as (v & Hv1 & Hv). destruct (skip_ws_spec r2) as (w4 & Hr2 & Hw4).
    destruct (skip_ws r2) as [|b2 r3] eqn:Esk2; [discriminate|].
    assert (Hs : forall pre, pre ++ k ++ r0 = (pre ++ k ++ w2 ++ c_colon :: w3 ++ v ++ w4) ++ b2 :: r3).
    { intros pre. rewrite Hr0, Hr1, Hv1, Hr2. app_eq. }
    destruct (is b2 c_comma) eqn:E1.
    { apply is_true in E1. subst b2. intros H pre Hpre.
      destruct (skip_ws_spec r3) as (w' & Hr3 & Hw'). set (s4 := skip_ws r3) in *.
      assert (Hpre' : members_prefix ((pre ++ k ++ w2 ++ c_colon :: w3 ++ v ++ w4) ++ c_comma :: w')).
      { right. eexists _, w'. repeat split; auto. now apply members_prefix_member. }
      destruct (IHm _ _ H _ Hpre') as (q & Hq & Heq). exists q. split; auto.
      rewrite <- Heq, Hs, Hr3. app_eq. }
    destruct (is b2 c_rbrace) eqn:E2; [|discriminate]. apply is_true in E2. subst b2.
    intros [= <-] pre Hpre. exists (pre ++ k ++ w2 ++ c_colon :: w3 ++ v ++ w4).
    split; [now apply members_prefix_member|]. apply Hs.
Qed.

Theorem is_json_sound s : is_json s = true -> json_text s.
Proof.
  unfold is_json. destruct (skip_ws_spec s) as (w1 & Hs & Hw1).
  destruct (strip_value _ (skip_ws s)) as [r|] eqn:E; [|discriminate].
  destruct (proj1 (strip_value_sound _) _ _ E) as (v & Hv1 & Hv).
  destruct (skip_ws_spec r) as (w2 & Hr & Hw2). destruct (skip_ws r); [|discriminate]. intros _.
  exists w1, v, w2. repeat split; auto. rewrite Hs, Hv1, Hr. now rewrite app_nil_r.
Qed.
