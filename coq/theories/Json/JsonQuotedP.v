(* Quoted numbers: unmarshalInt / unmarshalUint accept a string token exactly when its content
   is one JSON number literal (no surrounding whitespace) whose value is an integer of the
   type; together with the bare-number case this is int_decode_exact at the protojson layer. *)
From Coq Require Import List NArith ZArith Lia Bool.
From Coq Require Import ZifyBool ZifyNat ZifyN.
From PB Require Import Base.PBytes Json.JsonUtf8 Json.JsonGrammar Json.JsonNumModel Json.JsonNumP Json.JsonIntP
  Json.JsonLexModel Json.JsonStrP Json.JsonLexP Json.JsonEncModel Json.JsonEncP Json.JsonStrict Json.JsonLexCompleteP
  Json.JsonScalarModel Json.JsonScalarP.
Import ListNotations.
Open Scope N_scope.

(* printable ASCII other than space *)
Definition asc (b : byte) : Prop := 33 <= b2n b < 127.
Lemma asc_facts b : asc b -> b2n b < 128 /\ is_unicode_space (b2n b) = false.
Proof. unfold asc, is_unicode_space. intros H. split; lia. Qed.

Lemma digits_asc d : forallb is_digit d = true -> Forall asc d.
Proof.
  rewrite forallb_forall. intros H. apply Forall_forall. intros b Hb. specialize (H b Hb).
  apply is_digit_b2n in H. unfold asc. lia.
Qed.
Lemma rfc_number_asc s : rfc_number s -> Forall asc s.
Proof.
  assert (Hc : forall c, (c = c_minus \/ c = c_plus \/ c = c_dot \/ c = c_e \/ c = c_E \/ c = c_0) -> asc c).
  { intros c [->|[->|[->|[->|[->| ->]]]]]; unfold asc; cbn; lia. }
  intros [m i f e Hm Hi Hf He]. repeat (apply Forall_app; split).
  - destruct Hm as [-> | ->]; auto.
  - destruct Hi as [|b d Hb Hd]; [auto 10|]. constructor; [|now apply digits_asc].
    apply is_digit19_digit, is_digit_b2n in Hb. unfold asc. lia.
  - destruct Hf as [|d [_ Hd]]; auto. constructor; auto using digits_asc.
  - destruct He as [|e0 sg d He0 Hsg [_ Hd]]; auto. constructor; [destruct He0; subst; auto 10|].
    apply Forall_app. split; [|now apply digits_asc].
    destruct Hsg as [-> | [-> | ->]]; auto 10.
Qed.

Lemma last_rune_asc s : Forall asc s -> forall fuel cur, is_unicode_space cur = false ->
  is_unicode_space (last_rune_fuel fuel cur s) = false.
Proof.
  induction 1 as [|b r Hb Hr IH]; intros fuel cur Hc; destruct fuel; cbn [last_rune_fuel]; auto.
  destruct (asc_facts b Hb) as [H128 Hsp]. rewrite (decode_rune_ascii b r H128). cbn [fst snd skipn]. auto.
Qed.
Lemma trim_space_asc s : Forall asc s -> trim_space_changes s = false.
Proof.
  intros H. unfold trim_space_changes. destruct s as [|b r]; auto.
  destruct (asc_facts b (Forall_inv H)) as [H128 Hsp].
  rewrite (decode_rune_ascii b r H128). cbn [fst]. rewrite Hsp. cbn [orb]. apply last_rune_asc; auto.
Qed.

Definition number_token (s : list byte) : token :=
  {| t_kind := KNumber; t_pos := 0; t_raw := s; t_boo := false; t_str := [] |}.

Lemma read_top_number s : rfc_number s ->
  exists st', read (d_init s) = Ok (number_token s, st') /\
              exists tk st'', read st' = Ok (tk, st'') /\ t_kind tk = KEOF.
Proof.
  intros Hn. destruct (rfc_number_head s Hn) as (b & r & Es & Hb).
  destruct (numhead_facts b Hb) as (Hws & Hn1 & Hn2 & Hn3 & Hnum).
  pose proof (parse_number_complete s [] Hn eq_refl) as Hpn. rewrite app_nil_r in Hpn.
  set (st1 := {| d_last := KInvalid; d_stack := []; d_pos := length s; d_in := [] |}).
  assert (Hpnx : parse_next (d_init s) = Ok (number_token s, st1)).
  { subst st1. subst s. unfold parse_next, consume, d_init. cbn [d_in d_last d_stack d_pos skipn skip_ws].
    rewrite Hws. cbn [d_in d_pos]. rewrite Hn1, Hn2, Hn3, Hnum, Hpn.
    unfold mk_token, consume. cbn [d_in d_last d_stack d_pos]. rewrite firstn_all, skipn_all. cbn [skip_ws].
    unfold number_token. f_equal. f_equal; f_equal; cbn [length]; lia. }
  exists (set_last KNumber st1). split.
  - unfold read, read_step. rewrite Hpnx. reflexivity.
  - eexists _, _. split; [unfold read, read_step, parse_next, consume; cbn; reflexivity|reflexivity].
Qed.

Theorem quoted_number_accepts s : rfc_number s -> quoted_number_token s = Some (number_token s).
Proof.
  intros Hn. unfold quoted_number_token. rewrite (trim_space_asc _ (rfc_number_asc s Hn)).
  destruct (read_top_number s Hn) as (st' & -> & tk & st'' & -> & Hk). rewrite Hk. reflexivity.
Qed.

(* a quoted number has no whitespace around it (strings.TrimSpace must not change the length) *)
Lemma last_rune_ascii s : Forall (fun b => b2n b < 128) s -> s <> [] ->
  forall fuel cur, (length s <= fuel)%nat -> last_rune_fuel fuel cur s = b2n (last s x00).
Proof.
  induction 1 as [|b r Hb Hr IH]; intros Hne fuel cur Hf; [contradiction|].
  destruct fuel as [|f]; [cbn [length] in Hf; lia|]. cbn [last_rune_fuel].
  rewrite (decode_rune_ascii b r Hb). cbn [fst snd skipn].
  destruct r as [|c r']. { destruct f; reflexivity. }
  rewrite IH; [reflexivity|discriminate|cbn [length] in *; lia].
Qed.

Lemma ws_byte_space b : is_ws b = true -> b2n b < 128 /\ is_unicode_space (b2n b) = true.
Proof.
  unfold is_ws. rewrite !orb_true_iff. intros [[[H|H]|H]|H]; apply is_true in H; subst; split; reflexivity || (cbn; lia).
Qed.

Theorem quoted_number_exact s t : quoted_number_token s = Some t -> t_kind t = KNumber ->
  t_raw t = s /\ rfc_number s.
Proof.
  intros Hq Hk. destruct (quoted_number_token_spec s t Hq Hk) as (w1 & w2 & Hw1 & Hw2 & Hs & Hn).
  unfold quoted_number_token in Hq. destruct (trim_space_changes s) eqn:Et; [discriminate|].
  assert (H1 : w1 = []).
  { destruct w1 as [|b w1']; auto. exfalso. unfold ws in Hw1. cbn [forallb] in Hw1.
    apply andb_true_iff in Hw1 as [Hb _]. destruct (ws_byte_space b Hb) as [H128 Hsp].
    rewrite Hs in Et. cbn [app] in Et. unfold trim_space_changes in Et.
    rewrite (decode_rune_ascii b _ H128) in Et. cbn [fst] in Et. rewrite Hsp in Et. cbn [orb] in Et. discriminate. }
  subst w1. cbn [app] in Hs.
  assert (H2 : w2 = []).
  { destruct (rev w2) as [|b w2'] eqn:Er. { apply (f_equal (@rev byte)) in Er. now rewrite rev_involutive in Er. }
    exfalso. assert (Ew : w2 = rev w2' ++ [b]) by (rewrite <- (rev_involutive w2), Er; reflexivity).
    assert (Hb : is_ws b = true).
    { unfold ws in Hw2. rewrite Ew, forallb_app in Hw2. apply andb_true_iff in Hw2 as [_ Hb]. cbn [forallb] in Hb.
      now rewrite andb_true_r in Hb. }
    destruct (ws_byte_space b Hb) as [H128 Hsp].
    assert (Hall : Forall (fun c => b2n c < 128) s).
    { rewrite Hs. apply Forall_app. split.
      - eapply Forall_impl; [|apply (rfc_number_asc _ Hn)]. intros c Hc. unfold asc in Hc. lia.
      - unfold ws in Hw2. rewrite forallb_forall in Hw2. apply Forall_forall. intros c Hc.
        apply (ws_byte_space c (Hw2 c Hc)). }
    assert (Hlast : last s x00 = b) by (rewrite Hs, Ew, app_assoc; apply last_last).
    destruct s as [|c0 s'] eqn:Es;
      [apply (f_equal (@length byte)) in Hs; rewrite Ew, !app_length in Hs; cbn [length] in Hs; lia|].
    unfold trim_space_changes in Et. rewrite <- Es in *.
    rewrite (last_rune_ascii s Hall ltac:(rewrite Es; discriminate) (length s) 0 (le_n _)) in Et.
    rewrite Hlast, Hsp, orb_true_r in Et. discriminate. }
  subst w2. rewrite app_nil_r in Hs. subst s. auto.
Qed.

(* ---------- int_decode_exact at the protojson layer ---------- *)
Definition int_literal_of (tok : token) : option (list byte) :=
  match t_kind tok with KNumber => Some (t_raw tok) | KString => Some (t_str tok) | _ => None end.

Theorem unmarshal_int_exact_except_F6 bits tok v : 1 <= bits <= 64 -> lexeme (t_kind tok) (t_raw tok) ->
  (forall lit, int_literal_of tok = Some lit -> f6_class lit = false) ->
  (unmarshal_int bits tok = Some v <->
   exists lit, int_literal_of tok = Some lit /\ rfc_number lit /\ lit_is_int lit v /\ int_in_range bits true v).
Proof.
  intros Hb Hlex Hf6. unfold unmarshal_int, int_literal_of in *. destruct (t_kind tok) eqn:Ek;
    try (split; [discriminate|intros (lit & H & _); discriminate]).
  - cbn [lexeme] in Hlex. unfold tok_int. rewrite Ek. split.
    + intros H. exists (t_raw tok). destruct (token_int_sound bits _ v ltac:(lia) Hlex H). auto.
    + intros (lit & [= <-] & Hn & Hl & Hr). apply token_int_complete; auto.
  - split.
    + destruct (quoted_number_token (t_str tok)) as [t|] eqn:Eq; [|discriminate].
      unfold tok_int. destruct (t_kind t) eqn:Ekt; try discriminate. intros H.
      destruct (quoted_number_exact _ _ Eq Ekt) as [Hraw Hn]. rewrite Hraw in H.
      exists (t_str tok). destruct (token_int_sound bits _ v ltac:(lia) Hn H). auto.
    + intros (lit & [= <-] & Hn & Hl & Hr). rewrite (quoted_number_accepts _ Hn).
      unfold tok_int, number_token. cbn [t_kind t_raw]. apply token_int_complete; auto.
Qed.

Theorem unmarshal_uint_exact_except_F6 bits tok v : bits <= 64 -> lexeme (t_kind tok) (t_raw tok) ->
  (forall lit, int_literal_of tok = Some lit -> f6_class lit = false) ->
  (unmarshal_uint bits tok = Some v <->
   exists lit, int_literal_of tok = Some lit /\ rfc_number lit /\ lit_is_int lit (Z.of_N v) /\
               int_in_range bits false (Z.of_N v)).
Proof.
  intros Hb Hlex Hf6. unfold unmarshal_uint, int_literal_of in *. destruct (t_kind tok) eqn:Ek;
    try (split; [discriminate|intros (lit & H & _); discriminate]).
  - cbn [lexeme] in Hlex. unfold tok_uint. rewrite Ek. split.
    + intros H. exists (t_raw tok). destruct (token_uint_sound bits _ v Hlex H). auto.
    + intros (lit & [= <-] & Hn & Hl & Hr). rewrite (token_uint_complete bits _ (Z.of_N v)); auto. f_equal. lia.
  - split.
    + destruct (quoted_number_token (t_str tok)) as [t|] eqn:Eq; [|discriminate].
      unfold tok_uint. destruct (t_kind t) eqn:Ekt; try discriminate. intros H.
      destruct (quoted_number_exact _ _ Eq Ekt) as [Hraw Hn]. rewrite Hraw in H.
      exists (t_str tok). destruct (token_uint_sound bits _ v Hn H). auto.
    + intros (lit & [= <-] & Hn & Hl & Hr). rewrite (quoted_number_accepts _ Hn).
      unfold tok_uint, number_token. cbn [t_kind t_raw].
      rewrite (token_uint_complete bits _ (Z.of_N v)); auto. f_equal. lia.
Qed.
