(* UTF-8 as used by internal/encoding/json: a model of Go's utf8.DecodeRune /
   utf8.AppendRune (definitions only) and the RFC 3629 well-formedness table. *)
From Coq Require Import List NArith Bool.
From PB Require Import Base.PBytes.
Import ListNotations.
Open Scope N_scope.

Definition rune_error : N := 65533.

Definition cont (x : N) : bool := (128 <=? x) && (x <? 192).

(* Go's utf8.DecodeRune: (rune, size); invalid -> (RuneError, 1); empty -> (RuneError, 0) *)
Definition decode_rune (bs : list byte) : N * nat :=
  match bs with
  | [] => (rune_error, 0%nat)
  | b0 :: r =>
    let x0 := b2n b0 in
    if x0 <? 128 then (x0, 1%nat)
    else if x0 <? 194 then (rune_error, 1%nat)
    else if x0 <? 224 then
      match r with
      | b1 :: _ => let x1 := b2n b1 in
                   if cont x1 then ((x0 - 192) * 64 + (x1 - 128), 2%nat) else (rune_error, 1%nat)
      | _ => (rune_error, 1%nat)
      end
    else if x0 <? 240 then
      match r with
      | b1 :: b2 :: _ =>
        let x1 := b2n b1 in let x2 := b2n b2 in
        let lo := if x0 =? 224 then 160 else 128 in
        let hi := if x0 =? 237 then 160 else 192 in
        if (lo <=? x1) && (x1 <? hi) && cont x2
        then ((x0 - 224) * 4096 + (x1 - 128) * 64 + (x2 - 128), 3%nat) else (rune_error, 1%nat)
      | _ => (rune_error, 1%nat)
      end
    else if x0 <? 245 then
      match r with
      | b1 :: b2 :: b3 :: _ =>
        let x1 := b2n b1 in let x2 := b2n b2 in let x3 := b2n b3 in
        let lo := if x0 =? 240 then 144 else 128 in
        let hi := if x0 =? 244 then 144 else 192 in
        if (lo <=? x1) && (x1 <? hi) && cont x2 && cont x3
        then ((x0 - 240) * 262144 + (x1 - 128) * 4096 + (x2 - 128) * 64 + (x3 - 128), 4%nat)
        else (rune_error, 1%nat)
      | _ => (rune_error, 1%nat)
      end
    else (rune_error, 1%nat)
  end.

(* the (r == utf8.RuneError && n == 1) test used by parseString / appendString *)
Definition is_bad_rune (d : N * nat) : bool := (fst d =? rune_error) && Nat.eqb (snd d) 1.

(* Go's utf8.AppendRune / string(rune): surrogates and out-of-range runes become U+FFFD *)
Definition encode_rune (r : N) : list byte :=
  if r <? 128 then [n2b r]
  else if r <? 2048 then [n2b (192 + r / 64); n2b (128 + r mod 64)]
  else if ((55296 <=? r) && (r <? 57344)) || (1114111 <? r) then [n2b 239; n2b 191; n2b 189]
  else if r <? 65536 then [n2b (224 + r / 4096); n2b (128 + (r / 64) mod 64); n2b (128 + r mod 64)]
  else [n2b (240 + r / 262144); n2b (128 + (r / 4096) mod 64); n2b (128 + (r / 64) mod 64); n2b (128 + r mod 64)].

(* utf8.RuneCount: every invalid byte counts as one rune *)
Fixpoint rune_count_fuel (fuel : nat) (bs : list byte) : N :=
  match fuel with
  | O => 0
  | S f => match bs with
           | [] => 0
           | _ => 1 + rune_count_fuel f (skipn (snd (decode_rune bs)) bs)
           end
  end.
Definition rune_count (bs : list byte) : N := rune_count_fuel (length bs) bs.

(* utf8.Valid *)
Fixpoint utf8_valid_fuel (fuel : nat) (bs : list byte) : bool :=
  match fuel with
  | O => match bs with [] => true | _ => false end
  | S f => match bs with
           | [] => true
           | _ => let d := decode_rune bs in
                  if is_bad_rune d then false else utf8_valid_fuel f (skipn (snd d) bs)
           end
  end.
Definition utf8_valid (bs : list byte) : bool := utf8_valid_fuel (length bs) bs.

(* RFC 3629 section 4: the well-formed byte sequences of one character
     UTF8-1 = %x00-7F
     UTF8-2 = %xC2-DF UTF8-tail
     UTF8-3 = %xE0 %xA0-BF UTF8-tail / %xE1-EC 2( UTF8-tail ) / %xED %x80-9F UTF8-tail / %xEE-EF 2( UTF8-tail )
     UTF8-4 = %xF0 %x90-BF 2( UTF8-tail ) / %xF1-F3 3( UTF8-tail ) / %xF4 %x80-8F 2( UTF8-tail )  *)
Definition in_range (lo hi : N) (b : byte) : bool := (lo <=? b2n b) && (b2n b <=? hi).
Definition utf8_tail := in_range 128 191.
Definition rfc3629_char (c : list byte) : bool :=
  match c with
  | [a] => in_range 0 127 a
  | [a; b] => in_range 194 223 a && utf8_tail b
  | [a; b; c] =>
      (in_range 224 224 a && in_range 160 191 b && utf8_tail c) ||
      (in_range 225 236 a && utf8_tail b && utf8_tail c) ||
      (in_range 237 237 a && in_range 128 159 b && utf8_tail c) ||
      (in_range 238 239 a && utf8_tail b && utf8_tail c)
  | [a; b; c; d] =>
      (in_range 240 240 a && in_range 144 191 b && utf8_tail c && utf8_tail d) ||
      (in_range 241 243 a && utf8_tail b && utf8_tail c && utf8_tail d) ||
      (in_range 244 244 a && in_range 128 143 b && utf8_tail c && utf8_tail d)
  | _ => false
  end.
