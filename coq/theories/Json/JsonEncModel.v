(* Model of internal/encoding/json/encode.go: Encoder.prepareNext (comma / indent
   logic), appendString (escapes), the Write*/Start*/End* calls.  detrand.Bool() is an
   arbitrary boolean stream [rnd : nat -> bool] indexed by the number of draws so far.
   WriteFloat is modelled as emitting caller-supplied bytes (strconv.AppendFloat is not
   modelled).  Definitions only. *)
From Coq Require Import List NArith ZArith Bool.
From PB Require Import Base.PBytes Json.JsonUtf8 Json.JsonGrammar.
Import ListNotations.
Open Scope N_scope.

Inductive ekind := EK0 | EKName | EKScalar | EKObjOpen | EKObjClose | EKArrOpen | EKArrClose.

Record estate := { e_indent : list byte; e_last : ekind; e_indents : list byte;
                   e_out : list byte; e_draws : nat }.

Definition e_init (indent : list byte) : estate :=
  {| e_indent := indent; e_last := EK0; e_indents := []; e_out := []; e_draws := 0 |}.

(* NewEncoder: indent may only be composed of space or tab characters *)
Definition indent_ok (indent : list byte) : bool :=
  forallb (fun b => is b c_sp || is b c_tab) indent.

Definition ends_value (k : ekind) : bool :=
  match k with EKScalar | EKObjClose | EKArrClose => true | _ => false end.
Definition starts_item (k : ekind) : bool :=
  match k with EKName | EKScalar | EKObjOpen | EKArrOpen => true | _ => false end.
Definition is_open (k : ekind) : bool :=
  match k with EKObjOpen | EKArrOpen => true | _ => false end.
Definition is_close (k : ekind) : bool :=
  match k with EKObjClose | EKArrClose => true | _ => false end.

(* prepareNext *)
Definition prepare_next (rnd : nat -> bool) (next : ekind) (e : estate) : estate :=
  match e_indent e with
  | [] =>
    if ends_value (e_last e) && starts_item next then
      {| e_indent := e_indent e; e_last := next; e_indents := e_indents e;
         e_out := e_out e ++ c_comma :: (if rnd (e_draws e) then [c_sp] else []);
         e_draws := S (e_draws e) |}
    else {| e_indent := e_indent e; e_last := next; e_indents := e_indents e;
            e_out := e_out e; e_draws := e_draws e |}
  | _ =>
    if is_open (e_last e) then
      if negb (is_close next) then
        let ind := e_indents e ++ e_indent e in
        {| e_indent := e_indent e; e_last := next; e_indents := ind;
           e_out := e_out e ++ c_lf :: ind; e_draws := e_draws e |}
      else {| e_indent := e_indent e; e_last := next; e_indents := e_indents e;
              e_out := e_out e; e_draws := e_draws e |}
    else if ends_value (e_last e) then
      if starts_item next then
        {| e_indent := e_indent e; e_last := next; e_indents := e_indents e;
           e_out := e_out e ++ c_comma :: c_lf :: e_indents e; e_draws := e_draws e |}
      else if is_close next then
        let ind := firstn (length (e_indents e) - length (e_indent e)) (e_indents e) in
        {| e_indent := e_indent e; e_last := next; e_indents := ind;
           e_out := e_out e ++ c_lf :: ind; e_draws := e_draws e |}
      else {| e_indent := e_indent e; e_last := next; e_indents := e_indents e;
              e_out := e_out e ++ e_indents e; e_draws := e_draws e |}
    else match e_last e with
         | EKName =>
           {| e_indent := e_indent e; e_last := next; e_indents := e_indents e;
              e_out := e_out e ++ c_sp :: (if rnd (e_draws e) then [c_sp] else []);
              e_draws := S (e_draws e) |}
         | _ => {| e_indent := e_indent e; e_last := next; e_indents := e_indents e;
                   e_out := e_out e; e_draws := e_draws e |}
         end
  end.

Definition emit (bs : list byte) (e : estate) : estate :=
  {| e_indent := e_indent e; e_last := e_last e; e_indents := e_indents e;
     e_out := e_out e ++ bs; e_draws := e_draws e |}.

(* appendString, without the surrounding quotes: (escaped bytes, false on invalid UTF-8),
   one rune per step *)
Definition hex_digit (n : N) : byte := if n <? 10 then n2b (48 + n) else n2b (87 + n).
Fixpoint escape_loop (fuel : nat) (inp : list byte) : list byte * bool :=
  match fuel with
  | O => ([], false)
  | S f =>
    match inp with
    | [] => ([], true)
    | b :: _ =>
      let d := decode_rune inp in
      if is_bad_rune d then ([], false)
      else
        let rest := skipn (snd d) inp in
        let '(t, ok) := escape_loop f rest in
        let r := fst d in
        if (r <? 32) || is b c_quote || is b c_bslash then
          let esc :=
            if is b c_quote || is b c_bslash then [b]
            else if r =? 8 then ["b"%byte] else if r =? 12 then ["f"%byte]
            else if r =? 10 then ["n"%byte] else if r =? 13 then ["r"%byte]
            else if r =? 9 then ["t"%byte]
            else [c_u; c_0; c_0; hex_digit (r / 16); hex_digit (r mod 16)] in
          (c_bslash :: esc ++ t, ok)
        else (firstn (snd d) inp ++ t, ok)
    end
  end.
Definition escape_string (s : list byte) : list byte * bool := escape_loop (S (length s)) s.
(* appendString: on invalid UTF-8 the output so far is kept, without the closing quote *)
Definition append_string (s : list byte) : list byte * bool :=
  let '(t, ok) := escape_string s in
  if ok then (c_quote :: t ++ [c_quote], true) else (c_quote :: t, false).

(* strconv.AppendUint / AppendInt, base 10 *)
Fixpoint dec_digits_fuel (fuel : nat) (n : N) (acc : list byte) : list byte :=
  match fuel with
  | O => acc
  | S f => let acc' := n2b (48 + n mod 10) :: acc in
           if n <? 10 then acc' else dec_digits_fuel f (n / 10) acc'
  end.
Definition dec_digits (n : N) : list byte := dec_digits_fuel (S (N.to_nat (N.log2 n))) n [].
Definition dec_int (z : Z) : list byte :=
  match z with
  | Zneg p => c_minus :: dec_digits (Npos p)
  | _ => dec_digits (Z.to_N z)
  end.

Inductive ecall :=
| CNull | CBool (b : bool) | CString (s : list byte) | CName (s : list byte)
| CInt (z : Z) | CUint (n : N) | CRaw (bs : list byte)
| CStartObj | CEndObj | CStartArr | CEndArr.

(* one Encoder method call; the boolean is false when the call returned an error *)
Definition enc_call (rnd : nat -> bool) (c : ecall) (e : estate) : estate * bool :=
  match c with
  | CNull => (emit lit_null (prepare_next rnd EKScalar e), true)
  | CBool b => (emit (if b then lit_true else lit_false) (prepare_next rnd EKScalar e), true)
  | CString s => let '(o, ok) := append_string s in (emit o (prepare_next rnd EKScalar e), ok)
  | CName s => let '(o, ok) := append_string s in (emit (o ++ [c_colon]) (prepare_next rnd EKName e), ok)
  | CInt z => (emit (dec_int z) (prepare_next rnd EKScalar e), true)
  | CUint n => (emit (dec_digits n) (prepare_next rnd EKScalar e), true)
  | CRaw bs => (emit bs (prepare_next rnd EKScalar e), true)
  | CStartObj => (emit [c_lbrace] (prepare_next rnd EKObjOpen e), true)
  | CEndObj => (emit [c_rbrace] (prepare_next rnd EKObjClose e), true)
  | CStartArr => (emit [c_lbrack] (prepare_next rnd EKArrOpen e), true)
  | CEndArr => (emit [c_rbrack] (prepare_next rnd EKArrClose e), true)
  end.

Fixpoint enc_calls (rnd : nat -> bool) (cs : list ecall) (e : estate) : estate * bool :=
  match cs with
  | [] => (e, true)
  | c :: r => let '(e', ok) := enc_call rnd c e in
              let '(e'', ok') := enc_calls rnd r e' in (e'', ok && ok')
  end.

(* JSON values as trees and the call sequence that writes them *)
Inductive jtree :=
| TNull | TBool (b : bool) | TStr (s : list byte) | TInt (z : Z) | TUint (n : N)
| TArr (l : list jtree) | TObj (l : list (list byte * jtree)).

Fixpoint calls_of_tree (t : jtree) : list ecall :=
  match t with
  | TNull => [CNull] | TBool b => [CBool b] | TStr s => [CString s]
  | TInt z => [CInt z] | TUint n => [CUint n]
  | TArr l => CStartArr :: flat_map calls_of_tree l ++ [CEndArr]
  | TObj l => CStartObj :: flat_map (fun kv => CName (fst kv) :: calls_of_tree (snd kv)) l ++ [CEndObj]
  end.

Definition render (rnd : nat -> bool) (indent : list byte) (t : jtree) : list byte * bool :=
  let '(e, ok) := enc_calls rnd (calls_of_tree t) (e_init indent) in (e_out e, ok).
