(* Tier T for C21 (and C22): the Gallina translation of
   internal/encoding/json/decode_number.go (Gen/JsonNumGo.v, regenerated from /repo on
   every check by srcmodel_jsonnum) computes exactly the hand-written model
   Json/JsonNumModel.v, on every input shorter than 2^63 bytes, and returns neither
   Panic (an index or slice expression out of range) nor Fuel there.

   The translator turns the continuation of every if/switch/loop into a join point
   (go_parseNumber_k<N>) and every loop into a top-level Fixpoint over fuel
   (go_parseNumber_loop<N>).  Each loop is identified, by conversion ([reflexivity]),
   with the closed form [dloop K] below (K = the continuation it leaves to), so a
   change to a loop of decode_number.go breaks these proofs; each join point has one
   lemma relating it to the corresponding tail of the model. *)
From Coq Require Import List Arith NArith ZArith Lia Bool.
From Coq Require Import ZifyBool ZifyNat ZifyN.
From PB Require Import Base.PBytes Base.GoInt Json.JsonUtf8 Json.JsonGrammar Json.JsonNumModel.
From PB Require Import Gen.JsonNumGo.
Import ListNotations.
Open Scope Z_scope.

(* ------------------------------------------------------------------ *)
(* representation                                                       *)
Definition zb (b : byte) : Z := Z.of_N (b2n b).
Definition zbytes (b : list byte) : list Z := map zb b.
Definition zres (o : option nat) : Z * bool :=
  match o with Some n => (Z.of_nat n, true) | None => (0, false) end.
Definition max_len : Z := 9223372036854775808.

Lemma zbytes_cons b r : zbytes (b :: r) = zb b :: zbytes r.
Proof. reflexivity. Qed.
Lemma zbytes_app a b : zbytes (a ++ b) = zbytes a ++ zbytes b.
Proof. apply map_app. Qed.
Lemma len_zbytes b : len (zbytes b) = Z.of_nat (length b).
Proof. unfold len, zbytes. now rewrite map_length. Qed.
Lemma len_cons {A} (x : A) l : len (x :: l) = len l + 1.
Proof. unfold len. cbn [length]. lia. Qed.
Lemma len_nonneg {A} (l : list A) : 0 <= len l.
Proof. unfold len. lia. Qed.

Lemma index_cons0 x l : index (x :: l) 0 = Val x.
Proof. unfold index. rewrite len_cons. pose proof (len_nonneg l). replace ((0 <? 0) || (len l + 1 <=? 0)) with false by lia. reflexivity. Qed.
Lemma index_cons1 x y l : index (x :: y :: l) 1 = Val y.
Proof. unfold index. rewrite !len_cons. pose proof (len_nonneg l). replace ((1 <? 0) || (len l + 1 + 1 <=? 1)) with false by lia. reflexivity. Qed.
Lemma slice_lo_cons1 x (l : list Z) : slice_lo (x :: l) 1 = Val l.
Proof. unfold slice_lo. rewrite len_cons. pose proof (len_nonneg l). replace ((1 <? 0) || (len l + 1 <? 1)) with false by lia. reflexivity. Qed.
Lemma slice_lo_cons2 x y (l : list Z) : slice_lo (x :: y :: l) 2 = Val l.
Proof. unfold slice_lo. rewrite !len_cons. pose proof (len_nonneg l). replace ((2 <? 0) || (len l + 1 + 1 <? 2)) with false by lia. reflexivity. Qed.
Lemma len_nil_eqb : (len (@nil Z) =? 0) = true.
Proof. reflexivity. Qed.
Lemma len_cons_eqb x (l : list Z) : (len (x :: l) =? 0) = false.
Proof. rewrite len_cons. pose proof (len_nonneg l). lia. Qed.
Lemma len_cons_pos x (l : list Z) : (0 <? len (x :: l)) = true.
Proof. rewrite len_cons. pose proof (len_nonneg l). lia. Qed.
Lemma len_nil_pos : (0 <? len (@nil Z)) = false.
Proof. reflexivity. Qed.
Lemma len_cons2_ge x y (l : list Z) : (2 <=? len (x :: y :: l)) = true.
Proof. rewrite !len_cons. pose proof (len_nonneg l). lia. Qed.
Lemma len_cons1_ge (x : Z) : (2 <=? len [x]) = false.
Proof. reflexivity. Qed.
Lemma len_nil_ge : (2 <=? len (@nil Z)) = false.
Proof. reflexivity. Qed.

Lemma index_zbytes_app pre b r : index (zbytes (pre ++ b :: r)) (Z.of_nat (length pre)) = Val (zb b).
Proof.
  unfold index. rewrite len_zbytes, app_length. cbn [length].
  replace ((Z.of_nat (length pre) <? 0) || (Z.of_nat (length pre + S (length r)) <=? Z.of_nat (length pre))) with false by lia.
  rewrite Nat2Z.id, zbytes_app, zbytes_cons, app_nth2; rewrite (map_length zb pre : length (zbytes pre) = length pre); [|lia].
  now rewrite Nat.sub_diag.
Qed.

(* the byte tests of the model, as the integer tests of the source *)
Lemma is_minus_zb b : is b c_minus = (zb b =? 45).  Proof. destruct b; reflexivity. Qed.
Lemma is_plus_zb b : is b c_plus = (zb b =? 43).    Proof. destruct b; reflexivity. Qed.
Lemma is_dot_zb b : is b c_dot = (zb b =? 46).      Proof. destruct b; reflexivity. Qed.
Lemma is_0_zb b : is b c_0 = (zb b =? 48).          Proof. destruct b; reflexivity. Qed.
Lemma is_e_zb b : is b c_e = (zb b =? 101).         Proof. destruct b; reflexivity. Qed.
Lemma is_E_zb b : is b c_E = (zb b =? 69).          Proof. destruct b; reflexivity. Qed.
Lemma is_digit_zb b : is_digit b = (48 <=? zb b) && (zb b <=? 57).    Proof. destruct b; reflexivity. Qed.
Lemma is_digit19_zb b : is_digit19 b = (49 <=? zb b) && (zb b <=? 57). Proof. destruct b; reflexivity. Qed.

Theorem go_isNotDelim_eq_model b : go_isNotDelim (zb b) = is_not_delim b.
Proof. destruct b; reflexivity. Qed.

Lemma wrap_succ (n : nat) : Z.of_nat n + 1 < max_len -> wrap_i64 (Z.of_nat n + 1) = Z.of_nat (S n).
Proof. unfold max_len, wrap_i64. intros H. rewrite Z.mod_small by lia. lia. Qed.
Lemma wrap_succ2 (n : nat) : Z.of_nat n + 2 < max_len -> wrap_i64 (Z.of_nat n + 2) = Z.of_nat (S (S n)).
Proof. unfold max_len, wrap_i64. intros H. rewrite Z.mod_small by lia. lia. Qed.

Lemma snoc_app {A} (pre : list A) b r : pre ++ b :: r = (pre ++ [b]) ++ r.
Proof. now rewrite <- app_assoc. Qed.
Lemma snoc_length {A} (pre : list A) b : length (pre ++ [b]) = S (length pre).
Proof. rewrite app_length. cbn. lia. Qed.

(* ------------------------------------------------------------------ *)
(* the tails of the model that the join points compute                  *)
Definition tail_fin (n : nat) (s : list byte) : option nat :=
  match s with b :: _ => if is_not_delim b then None else Some n | [] => Some n end.
Definition tail_exp (n : nat) (s : list byte) : option nat :=
  match pn_exp s with None => None | Some (ne, t) => tail_fin (n + ne) t end.
Definition tail_frac (n : nat) (s : list byte) : option nat :=
  let '(nf, t) := pn_frac s in tail_exp (n + nf) t.
Definition tail_int (n : nat) (s : list byte) : option nat :=
  match pn_int s with None => None | Some (ni, t) => tail_frac (n + ni) t end.

Lemma parse_number_tails input :
  parse_number input =
  match input with
  | [] => None
  | b :: r => if is b c_minus then match r with [] => None | _ => tail_int 1 r end else tail_int 0 input
  end.
Proof.
  destruct input as [|b r]; [reflexivity|]. unfold parse_number.
  assert (forall neg s, match pn_int s with
            | Some (ni, s0) => let '(nf, s1) := pn_frac s0 in
                match pn_exp s1 with
                | Some (ne, s2) => let n := (neg + ni + nf + ne)%nat in
                    match s2 with [] => Some n | b0 :: _ => if is_not_delim b0 then None else Some n end
                | None => None end
            | None => None end = tail_int neg s) as H.
  { intros neg s. unfold tail_int, tail_frac, tail_exp, tail_fin.
    destruct (pn_int s) as [[ni s0]|]; [|reflexivity]. destruct (pn_frac s0) as [nf s1].
    destruct (pn_exp s1) as [[ne s2]|]; reflexivity. }
  destruct (is b c_minus).
  - rewrite H. destruct r; reflexivity.
  - apply H.
Qed.

(* ------------------------------------------------------------------ *)
(* the digit loop: closed form and specification                        *)
Section DLoop.
  Variable K : list Z -> Z -> list Z -> outcome (Z * bool).
  Fixpoint dloop (lfuel : nat) (v_input : list Z) (v_n : Z) (v_s : list Z) {struct lfuel} : outcome (Z * bool) :=
    match lfuel with
    | O => Fuel
    | S lfuel' =>
      bind (if (0 <? (len v_s)) then bind (index v_s 0) (fun t => Val (48 <=? t)) else Val false) (fun t9 =>
      bind (if t9 then bind (index v_s 0) (fun t => Val (t <=? 57)) else Val false) (fun t11 =>
      if t11 then
        bind (slice_lo v_s 1) (fun t12 =>
        let v_s := t12 in
        let v_n := (wrap_i64 (v_n + 1)) in
        dloop lfuel' v_input v_n v_s)
      else
        K v_input v_n v_s))
    end.

  Lemma dloop_spec s : forall fuel pre d t,
    span_digits s = (d, t) -> (length s < fuel)%nat -> Z.of_nat (length (pre ++ s)) < max_len ->
    dloop fuel (zbytes (pre ++ s)) (Z.of_nat (length pre)) (zbytes s)
    = K (zbytes (pre ++ s)) (Z.of_nat (length pre + length d)) (zbytes t).
  Proof.
    induction s as [|b r IH]; intros fuel pre d t Hsp Hf Hlen.
    - cbn in Hsp. inversion Hsp; subst. destruct fuel; [cbn in Hf; lia|].
      cbn [dloop zbytes map]. rewrite len_nil_pos. cbn [bind length]. now rewrite Nat.add_0_r.
    - destruct fuel; [cbn in Hf; lia|]. cbn [span_digits] in Hsp. rewrite is_digit_zb in Hsp.
      cbn [dloop]. rewrite zbytes_cons, len_cons_pos, index_cons0. cbn [bind].
      destruct (48 <=? zb b) eqn:E1; cbn [bind andb] in *.
      + rewrite ?index_cons0. cbn [bind]. destruct (zb b <=? 57) eqn:E2; cbn [bind].
        * destruct (span_digits r) as [d' t'] eqn:Er. inversion Hsp; subst.
          rewrite slice_lo_cons1. cbn [bind].
          rewrite app_length in Hlen. cbn [length] in Hlen, Hf.
          rewrite wrap_succ by lia. rewrite <- snoc_length with (b := b).
          rewrite snoc_app. rewrite (IH fuel (pre ++ [b]) _ _ eq_refl) by (rewrite ?app_length, ?snoc_length; cbn [length]; lia).
          f_equal. rewrite snoc_length. cbn [length]. lia.
        * inversion Hsp; subst. cbn [length]. now rewrite Nat.add_0_r.
      + inversion Hsp; subst. cbn [length]. now rewrite Nat.add_0_r.
  Qed.
End DLoop.

(* shape lemmas: the three loops of parseNumber are this loop *)
Lemma loop1_shape : go_parseNumber_loop1 = dloop (fun i n _ => go_parseNumber_k1 i n).
Proof. reflexivity. Qed.
Lemma loop2_shape : go_parseNumber_loop2 = dloop go_parseNumber_k4.
Proof. reflexivity. Qed.
Lemma loop3_shape : go_parseNumber_loop3 = dloop go_parseNumber_k5.
Proof. reflexivity. Qed.

Lemma span_digits_split s d t : span_digits s = (d, t) -> s = d ++ t.
Proof.
  revert d t. induction s as [|b r IH]; intros d t H; cbn in H.
  - now inversion H.
  - destruct (is_digit b); [|now inversion H]. destruct (span_digits r) as [d' t'].
    inversion H; subst. cbn. f_equal. now apply IH.
Qed.

(* ------------------------------------------------------------------ *)
(* join points, innermost first                                         *)

(* k1: the delimiter check *)
Lemma k1_spec pre s :
  go_parseNumber_k1 (zbytes (pre ++ s)) (Z.of_nat (length pre)) = Val (zres (tail_fin (length pre) s)).
Proof.
  unfold go_parseNumber_k1, tail_fin. rewrite len_zbytes, app_length. destruct s as [|b r]; cbn [length].
  - replace (Z.of_nat (length pre) <? Z.of_nat (length pre + 0)) with false by lia. reflexivity.
  - replace (Z.of_nat (length pre) <? Z.of_nat (length pre + S (length r))) with true by lia.
    rewrite index_zbytes_app. cbn [bind]. rewrite go_isNotDelim_eq_model.
    destruct (is_not_delim b); reflexivity.
Qed.

Lemma k1_spec' pre d t :
  go_parseNumber_k1 (zbytes (pre ++ d ++ t)) (Z.of_nat (length pre + length d)) = Val (zres (tail_fin (length pre + length d) t)).
Proof. rewrite app_assoc, <- app_length. apply k1_spec. Qed.

(* k2/k3: the digits of the exponent (at least one), then k1 *)
Definition tail_expdigits (n : nat) (s : list byte) : option nat :=
  match s with
  | [] => None
  | b3 :: _ => if is_digit b3 then let '(d, t) := span_digits s in tail_fin (n + length d) t else None
  end.

Lemma k3_spec pre b r :
  Z.of_nat (length (pre ++ b :: r)) < max_len ->
  go_parseNumber_k3 (zbytes (pre ++ b :: r)) (Z.of_nat (length pre)) (zbytes (b :: r))
  = Val (zres (tail_expdigits (length pre) (b :: r))).
Proof.
  intros Hlen. unfold go_parseNumber_k3, go_parseNumber_k2, tail_expdigits.
  rewrite zbytes_cons, index_cons0. cbn [bind]. rewrite is_digit_zb.
  destruct (48 <=? zb b) eqn:E1; cbn [bind andb negb]; [|reflexivity].
  rewrite ?index_cons0. cbn [bind]. destruct (zb b <=? 57) eqn:E2; cbn [negb]; [|reflexivity].
  rewrite loop1_shape, <- zbytes_cons.
  destruct (span_digits (b :: r)) as [d t] eqn:Esp.
  rewrite (dloop_spec _ (b :: r) _ pre d t Esp) by (rewrite ?zbytes_cons; cbn [length]; rewrite ?(map_length zb); lia || exact Hlen).
  rewrite (span_digits_split _ _ _ Esp). apply k1_spec'.
Qed.

(* k4: the exponent, then k1 *)
Lemma tail_exp_unfold n s :
  tail_exp n s =
  match s with
  | b1 :: b2 :: r =>
    if is b1 c_e || is b1 c_E then
      if is b2 c_plus || is b2 c_minus then tail_expdigits (S (S n)) r
      else tail_expdigits (S n) (b2 :: r)
    else tail_fin n s
  | _ => tail_fin n s
  end.
Proof.
  unfold tail_exp, pn_exp.
  destruct s as [|b1 [|b2 r]]; try (rewrite Nat.add_0_r; reflexivity).
  destruct (is b1 c_e || is b1 c_E); [|rewrite Nat.add_0_r; reflexivity].
  destruct (is b2 c_plus || is b2 c_minus).
  - unfold tail_expdigits. destruct r as [|b3 r']; [reflexivity|].
    destruct (is_digit b3); [|reflexivity]. destruct (span_digits (b3 :: r')) as [d t].
    replace (n + S (1 + length d))%nat with (S (S n) + length d)%nat by lia. reflexivity.
  - unfold tail_expdigits. destruct (is_digit b2); [|reflexivity]. destruct (span_digits (b2 :: r)) as [d t].
    replace (n + S (0 + length d))%nat with (S n + length d)%nat by lia. reflexivity.
Qed.

Lemma k4_spec pre s :
  Z.of_nat (length (pre ++ s)) < max_len ->
  go_parseNumber_k4 (zbytes (pre ++ s)) (Z.of_nat (length pre)) (zbytes s) = Val (zres (tail_exp (length pre) s)).
Proof.
  intros Hlen. rewrite tail_exp_unfold. unfold go_parseNumber_k4.
  destruct s as [|b1 [|b2 r]].
  - cbn [zbytes map]. rewrite len_nil_ge. cbn [bind]. apply k1_spec.
  - rewrite !zbytes_cons. cbn [zbytes map]. rewrite len_cons1_ge. cbn [bind]. apply k1_spec.
  - rewrite !zbytes_cons, len_cons2_ge, index_cons0. cbn [bind].
    rewrite is_e_zb, is_E_zb, is_plus_zb, is_minus_zb.
    assert (Hl : Z.of_nat (length pre) + 2 + Z.of_nat (length r) < max_len)
      by (rewrite app_length in Hlen; cbn [length] in Hlen; lia).
    assert (Htail :
      bind (slice_lo (zb b1 :: zb b2 :: zbytes r) 1) (fun t7 =>
        let v_s := t7 in
        let v_n := wrap_i64 (Z.of_nat (length pre) + 1) in
        bind (index v_s 0) (fun t16 =>
        bind (if t16 =? 43 then Val true else bind (index v_s 0) (fun t17 => Val (t17 =? 45))) (fun t18 =>
        if t18 then
          bind (slice_lo v_s 1) (fun t19 =>
          let v_s0 := t19 in
          let v_n0 := wrap_i64 (v_n + 1) in
          if len v_s0 =? 0 then Val (0, false)
          else go_parseNumber_k3 (zbytes (pre ++ b1 :: b2 :: r)) v_n0 v_s0)
        else go_parseNumber_k3 (zbytes (pre ++ b1 :: b2 :: r)) v_n v_s)))
      = Val (zres (if (zb b2 =? 43) || (zb b2 =? 45) then tail_expdigits (S (S (length pre))) r
                   else tail_expdigits (S (length pre)) (b2 :: r)))).
    { rewrite slice_lo_cons1. cbn [bind]. cbv zeta. rewrite ?index_cons0. cbn [bind].
      rewrite wrap_succ by lia.
      assert (Hp : go_parseNumber_k3 (zbytes (pre ++ b1 :: b2 :: r)) (Z.of_nat (S (length pre))) (zb b2 :: zbytes r)
                   = Val (zres (tail_expdigits (S (length pre)) (b2 :: r)))).
      { rewrite <- snoc_length with (b := b1), snoc_app, <- zbytes_cons. apply k3_spec.
        rewrite <- snoc_app. exact Hlen. }
      assert (Hm : bind (slice_lo (zb b2 :: zbytes r) 1) (fun t19 =>
                     if len t19 =? 0 then Val (0, false)
                     else go_parseNumber_k3 (zbytes (pre ++ b1 :: b2 :: r)) (wrap_i64 (Z.of_nat (S (length pre)) + 1)) t19)
                   = Val (zres (tail_expdigits (S (S (length pre))) r))).
      { rewrite slice_lo_cons1. cbn [bind]. destruct r as [|b3 r'].
        - reflexivity.
        - rewrite zbytes_cons, len_cons_eqb, <- zbytes_cons. rewrite wrap_succ by lia.
          replace (pre ++ b1 :: b2 :: b3 :: r') with ((pre ++ [b1; b2]) ++ b3 :: r') by (now rewrite <- app_assoc).
          replace (S (S (length pre))) with (length (pre ++ [b1; b2])) by (rewrite app_length; cbn; lia).
          apply k3_spec. rewrite <- app_assoc. exact Hlen. }
      destruct (zb b2 =? 43) eqn:Ep; cbn [bind orb].
      - exact Hm.
      - rewrite ?index_cons0. cbn [bind]. destruct (zb b2 =? 45); [exact Hm | exact Hp]. }
    destruct (zb b1 =? 101) eqn:Ee; cbn [bind orb].
    + exact Htail.
    + rewrite ?index_cons0. cbn [bind]. destruct (zb b1 =? 69) eqn:EE.
      * exact Htail.
      * rewrite <- ?zbytes_cons. apply k1_spec.
Qed.

(* k5: the fraction, then k4 *)
Lemma k5_spec pre s :
  Z.of_nat (length (pre ++ s)) < max_len ->
  go_parseNumber_k5 (zbytes (pre ++ s)) (Z.of_nat (length pre)) (zbytes s) = Val (zres (tail_frac (length pre) s)).
Proof.
  intros Hlen. unfold go_parseNumber_k5, tail_frac, pn_frac.
  destruct s as [|b1 [|b2 r]].
  - cbn [zbytes map]. rewrite len_nil_ge. cbn [bind]. rewrite Nat.add_0_r. now apply k4_spec.
  - rewrite !zbytes_cons. cbn [zbytes map]. rewrite len_cons1_ge. cbn [bind]. rewrite Nat.add_0_r. now apply (k4_spec pre [b1]).
  - rewrite !zbytes_cons, len_cons2_ge, index_cons0. cbn [bind].
    rewrite is_dot_zb, is_digit_zb.
    destruct (zb b1 =? 46); cbn [bind andb].
    2:{ rewrite Nat.add_0_r, <- !zbytes_cons. now apply k4_spec. }
    rewrite ?index_cons1. cbn [bind]. destruct (48 <=? zb b2); cbn [bind andb].
    2:{ rewrite Nat.add_0_r, <- !zbytes_cons. now apply k4_spec. }
    rewrite ?index_cons1. cbn [bind]. destruct (zb b2 <=? 57); cbn [bind].
    2:{ rewrite Nat.add_0_r, <- !zbytes_cons. now apply k4_spec. }
    rewrite slice_lo_cons2. cbn [bind]. cbv zeta.
    assert (Hl : Z.of_nat (length pre) + 2 + Z.of_nat (length r) < max_len)
      by (rewrite app_length in Hlen; cbn [length] in Hlen; lia).
    rewrite wrap_succ2 by lia. rewrite loop2_shape.
    destruct (span_digits r) as [d t] eqn:Esp.
    replace (pre ++ b1 :: b2 :: r) with ((pre ++ [b1; b2]) ++ r) by (now rewrite <- app_assoc).
    replace (S (S (length pre))) with (length (pre ++ [b1; b2])) by (rewrite app_length; cbn; lia).
    rewrite (dloop_spec _ r _ (pre ++ [b1; b2]) d t Esp)
      by (rewrite ?(map_length zb); try lia; rewrite <- app_assoc; exact Hlen).
    pose proof (span_digits_split _ _ _ Esp) as ->.
    rewrite app_assoc, <- app_length.
    replace (length pre + S (S (length d)))%nat with (length ((pre ++ [b1; b2]) ++ d))
      by (rewrite !app_length; cbn; lia).
    apply k4_spec. rewrite <- !app_assoc. exact Hlen.
Qed.

(* k6: the integer part, then k5 *)
Lemma k6_spec pre b r :
  Z.of_nat (length (pre ++ b :: r)) < max_len ->
  go_parseNumber_k6 (zbytes (pre ++ b :: r)) (Z.of_nat (length pre)) (zbytes (b :: r))
  = Val (zres (tail_int (length pre) (b :: r))).
Proof.
  intros Hlen. unfold go_parseNumber_k6, tail_int, pn_int.
  assert (Hl : Z.of_nat (length pre) + 1 + Z.of_nat (length r) < max_len)
    by (rewrite app_length in Hlen; cbn [length] in Hlen; lia).
  rewrite zbytes_cons, index_cons0. cbn [bind]. rewrite is_0_zb, is_digit19_zb.
  destruct (zb b =? 48).
  - rewrite slice_lo_cons1. cbn [bind]. cbv zeta. rewrite wrap_succ by lia.
    rewrite snoc_app, <- snoc_length with (b := b).
    replace (length pre + 1)%nat with (length (pre ++ [b])) by (rewrite snoc_length; lia).
    apply k5_spec. rewrite <- snoc_app. exact Hlen.
  - rewrite ?index_cons0. cbn [bind]. destruct (49 <=? zb b); cbn [bind andb]; [|reflexivity].
    rewrite ?index_cons0. cbn [bind]. destruct (zb b <=? 57); [|reflexivity].
    rewrite slice_lo_cons1. cbn [bind]. cbv zeta. rewrite wrap_succ by lia.
    rewrite loop3_shape. destruct (span_digits r) as [d t] eqn:Esp.
    rewrite snoc_app, <- snoc_length with (b := b).
    rewrite (dloop_spec _ r _ (pre ++ [b]) d t Esp)
      by (rewrite ?(map_length zb); try lia; rewrite <- snoc_app; exact Hlen).
    pose proof (span_digits_split _ _ _ Esp) as ->.
    rewrite app_assoc, <- app_length.
    replace (length pre + S (length d))%nat with (length ((pre ++ [b]) ++ d))
      by (rewrite !app_length; cbn; lia).
    apply k5_spec. rewrite <- !app_assoc. exact Hlen.
Qed.

(* k7: the sign, then k6; and the whole function *)
Theorem go_parseNumber_eq_model input :
  Z.of_nat (length input) < max_len ->
  go_parseNumber (zbytes input) = Val (zres (parse_number input)).
Proof.
  intros Hlen. rewrite parse_number_tails. unfold go_parseNumber. cbv zeta.
  destruct input as [|b r]; [reflexivity|].
  rewrite zbytes_cons, len_cons_eqb. unfold go_parseNumber_k7.
  rewrite ?index_cons0. cbn [bind]. rewrite is_minus_zb.
  destruct (zb b =? 45).
  - rewrite slice_lo_cons1. cbn [bind]. cbv zeta. destruct r as [|b' r']; [reflexivity|].
    rewrite zbytes_cons, len_cons_eqb, <- !zbytes_cons.
    change (wrap_i64 (0 + 1)) with (Z.of_nat (length [b])).
    change (b :: b' :: r') with ([b] ++ b' :: r'). now apply k6_spec.
  - rewrite <- zbytes_cons. change 0 with (Z.of_nat (length (@nil byte))).
    change (b :: r) with ([] ++ b :: r) at 1. now apply k6_spec.
Qed.

(* the translated source never panics and never runs out of fuel *)
Corollary go_parseNumber_total input :
  Z.of_nat (length input) < max_len -> exists r, go_parseNumber (zbytes input) = Val r.
Proof. intros H. eexists. now apply go_parseNumber_eq_model. Qed.

(* ------------------------------------------------------------------ *)
(* property-level statements about the translated source (C21)          *)
From PB Require Import Json.JsonNumP.
Open Scope Z_scope.

(* the source accepts exactly an RFC 8259 number followed by a delimiter or the end
   of input, and returns the length of that number *)
Theorem go_parseNumber_is_rfc_number input :
  Z.of_nat (length input) < max_len ->
  go_parseNumber (zbytes input) =
  Val (match strip_number input with
       | Some r => if delim_or_end r then (Z.of_nat (length input - length r), true) else (0, false)
       | None => (0, false)
       end).
Proof.
  intros H. rewrite (go_parseNumber_eq_model _ H), parse_number_strip.
  destruct (strip_number input) as [r|]; [|reflexivity]. destruct (delim_or_end r); reflexivity.
Qed.

Theorem go_parseNumber_sound input n :
  Z.of_nat (length input) < max_len ->
  go_parseNumber (zbytes input) = Val (n, true) ->
  rfc_number (firstn (Z.to_nat n) input) /\ delim_or_end (skipn (Z.to_nat n) input) = true /\
  0 < n <= Z.of_nat (length input).
Proof.
  intros H E. rewrite (go_parseNumber_eq_model _ H) in E.
  destruct (parse_number input) as [k|] eqn:Ek; cbn in E; [|discriminate].
  inversion E; subst. rewrite Nat2Z.id. destruct (parse_number_sound _ _ Ek) as (A & B & C).
  repeat split; try assumption; lia.
Qed.

Theorem go_parseNumber_complete num r :
  Z.of_nat (length (num ++ r)) < max_len ->
  rfc_number num -> delim_or_end r = true ->
  go_parseNumber (zbytes (num ++ r)) = Val (Z.of_nat (length num), true).
Proof.
  intros H Hn Hr. rewrite (go_parseNumber_eq_model _ H), (parse_number_complete _ _ Hn Hr). reflexivity.
Qed.

(* rejected inputs are reported as (0, false) *)
Theorem go_parseNumber_reject input n :
  Z.of_nat (length input) < max_len ->
  go_parseNumber (zbytes input) = Val (n, false) -> n = 0 /\ parse_number input = None.
Proof.
  intros H E. rewrite (go_parseNumber_eq_model _ H) in E.
  destruct (parse_number input); cbn in E; inversion E; auto.
Qed.
