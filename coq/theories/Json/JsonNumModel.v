(* Model of internal/encoding/json/decode_number.go (parseNumber, parseNumberParts,
   normalizeToIntString), of Token.Int / Token.Uint (decode_token.go) and of the
   strconv.ParseInt / ParseUint behaviour they rely on (base 10, given bit size).
   Definitions only. *)
From Coq Require Import List NArith ZArith Bool.
From PB Require Import Base.PBytes Json.JsonUtf8 Json.JsonGrammar.
Import ListNotations.
Open Scope N_scope.

(* isNotDelim *)
Definition is_not_delim (b : byte) : bool :=
  is b c_minus || is b c_plus || is b c_dot || is b c_us ||
  in_range 97 122 b || in_range 65 90 b || is_digit b.

(* parseNumber: number of bytes of the number at the head of [input], or None.
   (With the F2 repair: a digit is required after the exponent marker and sign.)
   The three stages return (bytes consumed, rest). *)
Definition pn_int (s : list byte) : option (nat * list byte) :=
  match s with
  | [] => None
  | b0 :: r0 =>
    if is b0 c_0 then Some (1%nat, r0)
    else if is_digit19 b0 then let '(d, t) := span_digits r0 in Some (S (length d), t)
    else None
  end.
Definition pn_frac (s : list byte) : nat * list byte :=
  match s with
  | b1 :: b2 :: r => if is b1 c_dot && is_digit b2
                     then let '(d, t) := span_digits r in (S (S (length d)), t)
                     else (0%nat, s)
  | _ => (0%nat, s)
  end.
Definition pn_exp (s : list byte) : option (nat * list byte) :=
  match s with
  | b1 :: b2 :: r =>
    if is b1 c_e || is b1 c_E then
      let '(nsign, s2) := if is b2 c_plus || is b2 c_minus then (1%nat, r) else (0%nat, b2 :: r) in
      match s2 with
      | [] => None
      | b3 :: _ =>
        if is_digit b3 then let '(d, t) := span_digits s2 in Some (S (nsign + length d), t)
        else None
      end
    else Some (0%nat, s)
  | _ => Some (0%nat, s)
  end.
Definition parse_number (input : list byte) : option nat :=
  match input with
  | [] => None
  | b :: r =>
    let '(neg, s) := if is b c_minus then (1%nat, r) else (0%nat, input) in
    match pn_int s with
    | None => None
    | Some (ni, s) =>
      let '(nf, s) := pn_frac s in
      match pn_exp s with
      | None => None
      | Some (ne, s) =>
        let n := (neg + ni + nf + ne)%nat in
        match s with
        | b :: _ => if is_not_delim b then None else Some n
        | [] => Some n
        end
      end
    end
  end.

(* numberParts *)
Record parts := { p_neg : bool; p_intp : list byte; p_frac : list byte; p_exp : list byte }.

Fixpoint trim_right_zeros (s : list byte) : list byte :=
  match s with
  | [] => []
  | b :: r => match trim_right_zeros r with
              | [] => if is b c_0 then [] else [b]
              | t => b :: t
              end
  end.

(* parseNumberParts (no digit check after the exponent sign: it is only applied to
   the raw bytes of a Number token).  Stages return (part, rest). *)
Definition pp_int (s : list byte) : option (list byte * list byte) :=
  match s with
  | [] => None
  | b0 :: r0 =>
    if is b0 c_0 then Some ([], r0)
    else if is_digit19 b0 then let '(d, t) := span_digits r0 in Some (b0 :: d, t)
    else None
  end.
Definition pp_frac (s : list byte) : list byte * list byte :=
  match s with
  | b1 :: b2 :: r => if is b1 c_dot && is_digit b2
                     then let '(d, t) := span_digits r in (b2 :: d, t)
                     else ([], s)
  | _ => ([], s)
  end.
Definition pp_exp (s : list byte) : option (list byte) :=
  match s with
  | b1 :: b2 :: r =>
    if is b1 c_e || is b1 c_E then
      if is b2 c_plus || is b2 c_minus then
        match r with
        | [] => None
        | _ => Some (b2 :: fst (span_digits r))
        end
      else Some (fst (span_digits (b2 :: r)))
    else Some []
  | _ => Some []
  end.
Definition parse_number_parts (input : list byte) : option parts :=
  match input with
  | [] => None
  | b :: r =>
    let '(neg, s) := if is b c_minus then (true, r) else (false, input) in
    match pp_int s with
    | None => None
    | Some (intp, s) =>
      let '(frac, s) := pp_frac s in
      match pp_exp s with
      | None => None
      | Some exp => Some {| p_neg := neg; p_intp := intp; p_frac := trim_right_zeros frac; p_exp := exp |}
      end
    end
  end.

(* strconv.ParseUint(s, 10, bits): Some v iff s is a non-empty digit string with v < 2^bits *)
Definition parse_uint_dec (bits : N) (s : list byte) : option N :=
  match s with
  | [] => None
  | _ => if forallb is_digit s then
           let v := dec_val s in if v <? 2 ^ bits then Some v else None
         else None
  end.

(* strconv.ParseInt(s, 10, bits) *)
Definition parse_int_dec (bits : N) (s : list byte) : option Z :=
  match s with
  | [] => None
  | b :: r =>
    let '(neg, d) := if is b c_plus then (false, r) else if is b c_minus then (true, r) else (false, s) in
    match d with
    | [] => None
    | _ => if forallb is_digit d then
             let v := dec_val d in
             if neg then (if v <=? 2 ^ (bits - 1) then Some (- Z.of_N v)%Z else None)
             else (if v <? 2 ^ (bits - 1) then Some (Z.of_N v) else None)
           else None
    end
  end.

(* normalizeToIntString *)
Definition max_digits : Z := 20.
(* the part of normalizeToIntString after the "0" shortcut *)
Definition norm_body (n : parts) : option (list byte) :=
  let intp_size := Z.of_nat (length (p_intp n)) in
  let frac_size := Z.of_nat (length (p_frac n)) in
  let oexp := match p_exp n with [] => Some 0%Z | _ => parse_int_dec 32 (p_exp n) end in
  match oexp with
  | None => None
  | Some exp =>
    let sign := if p_neg n then [c_minus] else [] in
    if (0 <=? exp)%Z then
      if (exp <? frac_size)%Z then None
      else if (max_digits <? intp_size + exp)%Z then None
      else Some (sign ++ p_intp n ++ p_frac n ++ repeat c_0 (Z.to_nat (exp - frac_size)))
    else
      if (0 <? frac_size)%Z then None
      else
        let index := (intp_size + exp)%Z in
        if (index <? 0)%Z then None
        else if forallb (fun b => is b c_0) (skipn (Z.to_nat index) (p_intp n))
             then Some (sign ++ firstn (Z.to_nat index) (p_intp n))
             else None
  end.
Definition normalize_to_int_string (n : parts) : option (list byte) :=
  match p_intp n, p_frac n with
  | [], [] => Some [c_0]
  | _, _ => norm_body n
  end.

(* Token.getIntStr / Token.Int / Token.Uint on the raw bytes of a Number token *)
Definition get_int_str (raw : list byte) : option (list byte) :=
  match parse_number_parts raw with
  | None => None
  | Some p => normalize_to_int_string p
  end.
Definition token_int (bits : N) (raw : list byte) : option Z :=
  match get_int_str raw with None => None | Some s => parse_int_dec bits s end.
Definition token_uint (bits : N) (raw : list byte) : option N :=
  match get_int_str raw with None => None | Some s => parse_uint_dec bits s end.

(* F6 recogniser: the literals for which normalizeToIntString's guards give up although
   the value may be an integer of the kind: no integer digits (a leading 0) together with
   an exponent above maxDigits, or an exponent outside int32. *)
Definition f6_class (raw : list byte) : bool :=
  match parse_number_parts raw with
  | None => false
  | Some p =>
    match p_intp p, p_frac p with
    | [], [] => false
    | _, _ =>
      let x := match p_exp p with
               | b :: r => if is b c_plus then Z.of_N (dec_val r)
                           else if is b c_minus then (- Z.of_N (dec_val r))%Z
                           else Z.of_N (dec_val (b :: r))
               | [] => 0%Z end in
      ((max_digits <? x)%Z && match p_intp p with [] => true | _ => false end)
      || (2147483647 <? x)%Z || (x <? -2147483648)%Z
    end
  end.
