(* Proofs about strings: Go's DecodeRune accepts only RFC 3629 sequences; parseString
   accepts only RFC 8259 strings; the recogniser's strip_chars is sound. *)
From Coq Require Import List NArith ZArith Lia Bool.
From Coq Require Import ZifyBool ZifyNat ZifyN.
From PB Require Import Base.PBytes Json.JsonUtf8 Json.JsonGrammar Json.JsonNumModel Json.JsonNumP Json.JsonLexModel.
Import ListNotations.
Open Scope N_scope.
Ltac Zify.zify_post_hook ::= Z.div_mod_to_equations.

(* ---------- UTF-8 ---------- *)
Lemma decode_rune_wf inp r n : decode_rune inp = (r, n) -> is_bad_rune (r, n) = false -> inp <> [] ->
  rfc3629_char (firstn n inp) = true /\ (1 <= n <= length inp)%nat /\
  (n = 1%nat -> exists b rest, inp = b :: rest /\ r = b2n b /\ r < 128) /\
  ((1 < n)%nat -> 128 <= r).
Proof.
  unfold is_bad_rune, rune_error. cbn [fst snd].
  destruct inp as [|b0 rest]; [congruence|]. intros H Hbad _. revert H.
  unfold decode_rune, rune_error, cont. pose proof (b2n_lt b0) as H0.
  destruct (b2n b0 <? 128) eqn:E1.
  { intros [= <- <-]. cbn [firstn rfc3629_char length]. unfold in_range. repeat split; try lia.
    intros _. exists b0, rest. repeat split; auto. lia. }
  destruct (b2n b0 <? 194) eqn:E2; [intros [= <- <-]; cbn in Hbad; discriminate|].
  destruct (b2n b0 <? 224) eqn:E3.
  { destruct rest as [|b1 rest]; [intros [= <- <-]; cbn in Hbad; discriminate|].
    pose proof (b2n_lt b1) as H1.
    destruct ((128 <=? b2n b1) && (b2n b1 <? 192)) eqn:C1; [|intros [= <- <-]; cbn in Hbad; discriminate].
    intros [= <- <-]. cbn [firstn rfc3629_char length]. unfold utf8_tail, in_range. repeat split; try lia. }
  destruct (b2n b0 <? 240) eqn:E4.
  { destruct rest as [|b1 [|b2 rest]]; try (intros [= <- <-]; cbn in Hbad; discriminate).
    pose proof (b2n_lt b1) as H1. pose proof (b2n_lt b2) as H2.
    match goal with |- context [if ?c then _ else _] => destruct c eqn:C end;
      [|intros [= <- <-]; cbn in Hbad; discriminate].
    intros [= <- <-]. cbn [firstn rfc3629_char length]. unfold utf8_tail, in_range.
    destruct (b2n b0 =? 224) eqn:Ea; destruct (b2n b0 =? 237) eqn:Eb; repeat split; try lia. }
  destruct (b2n b0 <? 245) eqn:E5; [|intros [= <- <-]; cbn in Hbad; discriminate].
  destruct rest as [|b1 [|b2 [|b3 rest]]]; try (intros [= <- <-]; cbn in Hbad; discriminate).
  pose proof (b2n_lt b1) as H1. pose proof (b2n_lt b2) as H2. pose proof (b2n_lt b3) as H3.
  match goal with |- context [if ?c then _ else _] => destruct c eqn:C end;
    [|intros [= <- <-]; cbn in Hbad; discriminate].
  intros [= <- <-]. cbn [firstn rfc3629_char length]. unfold utf8_tail, in_range.
  destruct (b2n b0 =? 240) eqn:Ea; destruct (b2n b0 =? 244) eqn:Eb; repeat split; try lia.
Qed.

(* ---------- parseString accepts only RFC 8259 strings ---------- *)
Lemma s_app_ok pre r d rest : s_app pre r = SOk d rest -> exists d', r = SOk d' rest /\ d = pre ++ d'.
Proof. destruct r; cbn [s_app]; try discriminate. intros [= <- <-]. eauto. Qed.

Lemma hex_val_is_hex b v : hex_val b = Some v -> is_hex b = true.
Proof.
  unfold hex_val, is_hex. destruct (is_digit b); [reflexivity|].
  destruct (in_range 97 102 b); [reflexivity|]. destruct (in_range 65 70 b); [reflexivity|discriminate].
Qed.

Lemma hex4_is_hex a b c d v : hex4 a b c d = Some v ->
  is_hex a = true /\ is_hex b = true /\ is_hex c = true /\ is_hex d = true.
Proof.
  unfold hex4. destruct (hex_val a) eqn:Ea; [|discriminate]. destruct (hex_val b) eqn:Eb; [|discriminate].
  destruct (hex_val c) eqn:Ec; [|discriminate]. destruct (hex_val d) eqn:Ed; [|discriminate].
  intros _. repeat split; eapply hex_val_is_hex; eauto.
Qed.

Lemma simple_esc_intro e : (is e c_quote || is e c_bslash || is e c_slash || is e "b"%byte || is e "f"%byte
                            || is e "n"%byte || is e "r"%byte || is e "t"%byte) = true -> is_simple_esc e = true.
Proof. auto. Qed.

Theorem parse_string_loop_sound fuel inp d rest :
  parse_string_loop fuel inp = SOk d rest ->
  exists body, inp = body ++ c_quote :: rest /\ jchars body.
Proof.
  revert inp d rest. induction fuel as [|f IH]; intros inp d rest; cbn [parse_string_loop]; [discriminate|].
  destruct inp as [|b r]; [discriminate|].
  destruct (decode_rune (b :: r)) as [rn n] eqn:Ed.
  destruct (is_bad_rune (rn, n)) eqn:Ebad; [discriminate|]. cbn [fst snd].
  destruct (rn <? 32) eqn:E32; [discriminate|].
  destruct (decode_rune_wf _ _ _ Ed Ebad ltac:(discriminate)) as (Hwf & Hn & Hn1 & Hn2).
  destruct (is b c_quote) eqn:Eq.
  { intros [= <- <-]. apply is_true in Eq. subst. exists []. split; auto. constructor. }
  destruct (is b c_bslash) eqn:Eb.
  { apply is_true in Eb. subst b. destruct r as [|e r1]; [discriminate|].
    assert (Hsimple : forall pre, is_simple_esc e = true -> s_app pre (parse_string_loop f r1) = SOk d rest ->
              exists body, c_bslash :: e :: r1 = body ++ c_quote :: rest /\ jchars body).
    { intros pre He H. apply s_app_ok in H as (d' & H & _). apply IH in H as (body & -> & Hb).
      exists (c_bslash :: e :: body). split; auto. now apply JCesc. }
    destruct (is e c_quote || is e c_bslash || is e c_slash) eqn:E1.
    { apply Hsimple. unfold is_simple_esc. rewrite E1. reflexivity. }
    destruct (is e "b"%byte) eqn:E2. { apply Hsimple. unfold is_simple_esc. rewrite E2. now rewrite !orb_true_r. }
    destruct (is e "f"%byte) eqn:E3. { apply Hsimple. unfold is_simple_esc. rewrite E3. now rewrite !orb_true_r. }
    destruct (is e "n"%byte) eqn:E4. { apply Hsimple. unfold is_simple_esc. rewrite E4. now rewrite !orb_true_r. }
    destruct (is e "r"%byte) eqn:E5. { apply Hsimple. unfold is_simple_esc. rewrite E5. now rewrite !orb_true_r. }
    destruct (is e "t"%byte) eqn:E6. { apply Hsimple. unfold is_simple_esc. rewrite E6. now rewrite !orb_true_r. }
    destruct (is e c_u) eqn:E7; [|discriminate]. apply is_true in E7. subst e.
    destruct r1 as [|h1 [|h2 [|h3 [|h4 r2]]]]; try discriminate.
    destruct (hex4 h1 h2 h3 h4) as [v|] eqn:Eh; [|discriminate].
    apply hex4_is_hex in Eh as (Hh1 & Hh2 & Hh3 & Hh4).
    destruct (is_surrogate v).
    - destruct r2 as [|b0 [|b1 [|g1 [|g2 [|g3 [|g4 r3]]]]]]; try discriminate.
      destruct (hex4 g1 g2 g3 g4) as [v2|] eqn:Eg.
      2:{ rewrite !orb_true_r. discriminate. }
      apply hex4_is_hex in Eg as (Hg1 & Hg2 & Hg3 & Hg4).
      destruct (is b0 c_bslash) eqn:Eb0; [|discriminate]. destruct (is b1 c_u) eqn:Eb1; [|discriminate].
      apply is_true in Eb0, Eb1. subst b0 b1. cbn [negb orb].
      destruct (_ =? rune_error); [discriminate|]. cbn [orb].
      intros H. apply s_app_ok in H as (d' & H & _). apply IH in H as (body & -> & Hb).
      exists (c_bslash :: c_u :: h1 :: h2 :: h3 :: h4 :: c_bslash :: c_u :: g1 :: g2 :: g3 :: g4 :: body).
      split; auto. apply JCuni; auto. apply JCuni; auto.
    - intros H. apply s_app_ok in H as (d' & H & _). apply IH in H as (body & -> & Hb).
      exists (c_bslash :: c_u :: h1 :: h2 :: h3 :: h4 :: body). split; auto. apply JCuni; auto. }
  intros H. apply s_app_ok in H as (d' & H & _). apply IH in H as (body & Hsk & Hb).
  exists (firstn n (b :: r) ++ body). split.
  - rewrite <- app_assoc, <- Hsk. symmetry. apply firstn_skipn.
  - apply JCplain; auto.
    destruct (Nat.eq_dec n 1) as [->|Hne].
    + destruct (Hn1 eq_refl) as (b' & rest' & [= <- <-] & -> & _). cbn [firstn unescaped].
      rewrite Eq, Eb. cbn [negb andb]. lia.
    + destruct n as [|[|n']]; try lia. cbn [firstn]. destruct r as [|b1 r']; [cbn [length] in Hn; lia|].
      destruct n'; reflexivity.
Qed.

Lemma firstn_len_app {A} (a b : list A) : firstn (length a) (a ++ b) = a.
Proof. induction a; cbn [length firstn app]; [now destruct b|]. now f_equal. Qed.

Theorem parse_string_at_sound pos inp s n : parse_string_at pos inp = Ok (s, n) ->
  rfc_string (firstn n inp) /\ (2 <= n <= length inp)%nat /\
  exists body, firstn n inp = c_quote :: body ++ [c_quote].
Proof.
  unfold parse_string_at. destruct inp as [|b r]; [discriminate|].
  destruct (is b c_quote) eqn:Eq; [|discriminate]. apply is_true in Eq. subst b.
  destruct (parse_string_loop (S (length r)) r) as [d rest| | |] eqn:E; try discriminate.
  intros H. assert (Hn : n = (length (c_quote :: r) - length rest)%nat) by congruence. subst n. clear H.
  apply parse_string_loop_sound in E as (body & -> & Hb).
  set (l := c_quote :: body ++ [c_quote]).
  assert (El : c_quote :: body ++ c_quote :: rest = l ++ rest).
  { subst l. cbn [app]. now rewrite <- app_assoc. }
  assert (En : (length (c_quote :: body ++ c_quote :: rest) - length rest)%nat = length l).
  { rewrite El, app_length. lia. }
  rewrite En, El, firstn_len_app. split; [exists body; auto|].
  split; [|exists body; auto]. rewrite app_length. subst l. cbn [length]. rewrite app_length. cbn [length]. lia.
Qed.
