(* The Decoder's language, exactly: it reads an input to EOF (with at least one token) iff the
   input is a strict JSON text, and the tokens it yields are those of the derivation. *)
From Coq Require Import List NArith ZArith Lia Bool.
From PB Require Import Base.PBytes Json.JsonUtf8 Json.JsonGrammar Json.JsonNumModel
  Json.JsonLexModel Json.JsonStrict Json.JsonLexCompleteP.
From PB Require Json.JsonLexStrictP.
Import ListNotations.

Theorem lexer_tokens_are_derivation s toks :
  read_all s = (toks, None) -> toks <> [] -> stext s (map atok_of toks).
Proof.
  intros H Hne.
  destruct (JsonLexStrictP.xtext_stext s (JsonLexStrictP.lexer_accepts_only_json s toks H Hne)) as (ks & Hs).
  destruct (lexer_accepts_all_strict_json s ks Hs) as (toks' & H' & Hm & _).
  rewrite H in H'. injection H' as <-. now rewrite Hm.
Qed.

Theorem lexer_accepts_exactly_strict_json s :
  (exists toks, read_all s = (toks, None) /\ toks <> []) <-> (exists ks, stext s ks).
Proof.
  split.
  - intros (toks & H & Hne). eauto using lexer_tokens_are_derivation.
  - intros (ks & Hs). destruct (lexer_accepts_all_strict_json s ks Hs) as (toks & H & _ & Hne). eauto.
Qed.
