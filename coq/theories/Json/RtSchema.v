(* RtSchema — name tables and small helpers shared by the JSON and text message models
   (C20: Json/JsonMsgModel.v, C24: Text/TextMsgModel.v).  Definitions only.

   The structural schema is WP-B's [MsgSchema.schema] (list of message types, each a list of
   [fdesc]: declared fields in declaration order, then the registered extensions by number).
   The name tables run parallel to it:

     fname   per field:   fn_text  (FieldDescriptor.TextName; "[full.name]" for extensions)
                          fn_json  (FieldDescriptor.JSONName)
                          fn_inoneof (ContainingOneof() != nil, synthetic oneofs included)
                          fn_enum  index into the enum table (enum kinds; for maps: of the value)
     mname   per message: mn_full (full name), mn_wkt (code of the special JSON mapping, 0 = none),
                          mn_fields (same length and order as the mdesc)
     edesc   per enum:    e_null (google.protobuf.NullValue), e_vals (name, number) in declaration order
     names = { nm_msgs ; nm_enums }

   wkt codes: 1 Any 2 Timestamp 3 Duration 4 wrapper 5 Struct 6 ListValue 7 Value 8 FieldMask 9 Empty *)
From Coq Require Import List NArith ZArith Bool.
From PB Require Import Base.PBytes Msg.MsgSchema Msg.MsgValue.
Import ListNotations.
Open Scope N_scope.

Record fname := mkFN {
  fn_text : list byte;
  fn_json : list byte;
  fn_inoneof : bool;
  fn_enum : option nat
}.

Record mname := mkMN {
  mn_full : list byte;
  mn_wkt : N;
  mn_fields : list fname
}.

Record edesc := mkED {
  e_null : bool;
  e_vals : list (list byte * Z)
}.

Record names := mkNM {
  nm_msgs : list mname;
  nm_enums : list edesc
}.

Definition fn_default : fname := mkFN [] [] false None.
Definition mn_default : mname := mkMN [] 0 [].
Definition ed_default : edesc := mkED false [].

Definition nm_msg (nm : names) (tid : nat) : mname := nth tid (nm_msgs nm) mn_default.
Definition nm_enum (nm : names) (fn : fname) : edesc :=
  match fn_enum fn with Some i => nth i (nm_enums nm) ed_default | None => ed_default end.

(* ---------- byte strings ---------- *)
Fixpoint bs_eqb (a b : list byte) : bool :=
  match a, b with
  | [], [] => true
  | x :: a', y :: b' => (b2n x =? b2n y) && bs_eqb a' b'
  | _, _ => false
  end.

(* ---------- enums ---------- *)
(* Values().ByNumber: the first declared value with that number *)
Fixpoint enum_by_number (vs : list (list byte * Z)) (n : Z) : option (list byte) :=
  match vs with
  | [] => None
  | (nm, k) :: r => if (k =? n)%Z then Some nm else enum_by_number r n
  end.
(* Values().ByName *)
Fixpoint enum_by_name (vs : list (list byte * Z)) (s : list byte) : option Z :=
  match vs with
  | [] => None
  | (nm, k) :: r => if bs_eqb nm s then Some k else enum_by_name r s
  end.

(* ---------- fields paired with their names ---------- *)
Definition fpair := (fdesc * fname)%type.
Definition rt_fields (S : schema) (nm : names) (tid : nat) : list fpair :=
  combine (nth tid S []) (mn_fields (nm_msg nm tid)).

Fixpoint rt_find (fps : list fpair) (num : N) : option fpair :=
  match fps with
  | [] => None
  | p :: r => if f_num (fst p) =? num then Some p else rt_find r num
  end.

(* full name of an extension field: its text name without the brackets *)
Definition ext_full (fn : fname) : list byte := removelast (tl (fn_text fn)).

(* order.IndexNameFieldOrder: declared fields by index, then extensions by full name *)
Fixpoint ins_by_name (p : fpair) (l : list fpair) : list fpair :=
  match l with
  | [] => [p]
  | q :: r =>
    match msg_bytes_cmp (ext_full (snd p)) (ext_full (snd q)) with
    | Lt => p :: l
    | _ => q :: ins_by_name p r
    end
  end.
Fixpoint sort_by_name (l : list fpair) : list fpair :=
  match l with [] => [] | p :: r => ins_by_name p (sort_by_name r) end.

Definition rt_field_order (fps : list fpair) : list fpair :=
  filter (fun p => negb (f_ext (fst p))) fps ++ sort_by_name (filter (fun p => f_ext (fst p)) fps).

(* FieldDescriptor.HasPresence for a field that is not in a oneof: explicit-presence scalars,
   required fields and singular messages (the schema dump gives them cardinality COpt / CReq) *)
Definition rt_has_presence (fd : fdesc) : bool :=
  match f_card fd with COpt | CReq => true | _ => false end.

(* ---------- floats as bit patterns ---------- *)
Definition f32_is_nan (b : N) : bool := ((b / 8388608) mod 256 =? 255) && negb (b mod 8388608 =? 0).
Definition f32_is_pinf (b : N) : bool := b =? 2139095040.           (* 0x7f800000 *)
Definition f32_is_ninf (b : N) : bool := b =? 4286578688.           (* 0xff800000 *)
Definition f64_is_nan (b : N) : bool :=
  ((b / 4503599627370496) mod 2048 =? 2047) && negb (b mod 4503599627370496 =? 0).
Definition f64_is_pinf (b : N) : bool := b =? 9218868437227405312.  (* 0x7ff0000000000000 *)
Definition f64_is_ninf (b : N) : bool := b =? 18442240474082181120. (* 0xfff0000000000000 *)
(* what the decoders produce for a NaN: math.NaN(), and float32(math.NaN()) *)
Definition f32_nan : N := 2143289344.                (* 0x7fc00000 *)
Definition f64_nan : N := 9221120237041090561.       (* 0x7ff8000000000001 *)
Definition f32_pinf : N := 2139095040.
Definition f32_ninf : N := 4286578688.
Definition f64_pinf : N := 9218868437227405312.
Definition f64_ninf : N := 18442240474082181120.

(* ---------- type URLs ---------- *)
(* the part after the last '/' (the whole string when there is none) *)
Fixpoint url_type_name_aux (s acc : list byte) : list byte :=
  match s with
  | [] => rev acc
  | c :: r => if b2n c =? 47 then url_type_name_aux r [] else url_type_name_aux r (c :: acc)
  end.
Definition url_type_name (url : list byte) : list byte := url_type_name_aux url [].

Fixpoint find_msg_by_name (ms : list mname) (name : list byte) (i : nat) : option nat :=
  match ms with
  | [] => None
  | m :: r => if bs_eqb (mn_full m) name then Some i else find_msg_by_name r name (S i)
  end.
(* Resolver.FindMessageByURL restricted to the types of the table *)
Definition resolve_url (nm : names) (url : list byte) : option nat :=
  find_msg_by_name (nm_msgs nm) (url_type_name url) O.

(* ---------- strip_unknown ---------- *)
Fixpoint strip_unknown (v : value) : value :=
  match v with
  | VS s => VS s
  | VEntry k x => VEntry k (strip_unknown x)
  | VMsg fs _ => VMsg (map (fun p => (fst p, map strip_unknown (snd p))) fs) []
  end.
