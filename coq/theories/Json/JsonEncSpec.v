(* Specification-side definitions for the encoder theorems of C21 (definitions only):
   removal of insignificant whitespace (whitespace outside string literals, RFC 8259
   section 2) and the canonical compact rendering of a tree. *)
From Coq Require Import List NArith ZArith Bool.
From PB Require Import Base.PBytes Json.JsonUtf8 Json.JsonGrammar Json.JsonLexModel Json.JsonEncModel Json.JsonStrict.
Import ListNotations.

Inductive sq_state := SqOut | SqIn | SqEsc.
Definition sq_next (st : sq_state) (b : byte) : sq_state :=
  match st with
  | SqOut => if is b c_quote then SqIn else SqOut
  | SqIn => if is b c_bslash then SqEsc else if is b c_quote then SqOut else SqIn
  | SqEsc => SqIn
  end.
(* [squeeze SqOut s]: s without the whitespace bytes that are outside string literals *)
Fixpoint squeeze (st : sq_state) (s : list byte) : list byte :=
  match s with
  | [] => []
  | b :: r => match st with
              | SqOut => if is_ws b then squeeze SqOut r else b :: squeeze (sq_next st b) r
              | _ => b :: squeeze (sq_next st b) r
              end
  end.
Fixpoint sq_end (st : sq_state) (s : list byte) : sq_state :=
  match s with
  | [] => st
  | b :: r => match st with
              | SqOut => if is_ws b then sq_end SqOut r else sq_end (sq_next st b) r
              | _ => sq_end (sq_next st b) r
              end
  end.

Definition tail_join (xs : list (list byte)) : list byte := flat_map (fun y => c_comma :: y) xs.
Definition join_comma (xs : list (list byte)) : list byte :=
  match xs with [] => [] | x :: r => x ++ tail_join r end.

(* the rendering without any optional whitespace *)
Fixpoint compact (t : jtree) : list byte :=
  match t with
  | TNull => lit_null
  | TBool b => if b then lit_true else lit_false
  | TStr s => fst (append_string s)
  | TInt z => dec_int z
  | TUint n => dec_digits n
  | TArr l => c_lbrack :: join_comma (map compact l) ++ [c_rbrack]
  | TObj l => c_lbrace :: join_comma (map (fun kv => fst (append_string (fst kv)) ++ c_colon :: compact (snd kv)) l)
                ++ [c_rbrace]
  end.

(* the tokens the Decoder yields for a rendering of the tree (positions excluded) *)
Fixpoint tree_toks (t : jtree) : list atok :=
  match t with
  | TNull => [(KNull, lit_null, false, [])]
  | TBool b => [(KBool, if b then lit_true else lit_false, b, [])]
  | TStr s => [(KString, fst (append_string s), false, s)]
  | TInt z => [(KNumber, dec_int z, false, [])]
  | TUint n => [(KNumber, dec_digits n, false, [])]
  | TArr l => a_punct KArrOpen c_lbrack :: flat_map tree_toks l ++ [a_punct KArrClose c_rbrack]
  | TObj l => a_punct KObjOpen c_lbrace
              :: flat_map (fun kv => (KName, fst (append_string (fst kv)), false, fst kv) :: tree_toks (snd kv)) l
              ++ [a_punct KObjClose c_rbrace]
  end.
