(* The encoder emits JSON: every tree written through the Encoder calls (any indent made of
   spaces/tabs, any detrand stream) renders a member of the RFC 8259 grammar. *)
From Coq Require Import List NArith ZArith Lia Bool.
From Coq Require Import ZifyBool ZifyNat ZifyN.
From PB Require Import Base.PBytes Json.JsonUtf8 Json.JsonGrammar Json.JsonNumModel Json.JsonNumP
  Json.JsonLexModel Json.JsonStrP Json.JsonLexP Json.JsonEncModel Json.JsonEncP Json.JsonStrict Json.JsonEncSpec
  Json.JsonLexCompleteP.
Import ListNotations.
Open Scope N_scope.
Ltac Zify.zify_post_hook ::= Z.div_mod_to_equations.

(* ---------- escaped strings are RFC 8259 strings ---------- *)
Lemma is_hex_hex_digit n : n < 16 -> is_hex (hex_digit n) = true.
Proof. intros H. apply (hex_val_is_hex _ n). now apply hex_val_hex_digit. Qed.

Lemma escape_loop_jchars fuel : forall inp t, escape_loop fuel inp = (t, true) -> jchars t.
Proof.
  induction fuel as [|f IH]; intros inp t; cbn [escape_loop]; [discriminate|].
  destruct inp as [|b r0]. { intros [= <-]. constructor. }
  destruct (decode_rune (b :: r0)) as [rn n] eqn:Ed.
  destruct (is_bad_rune (rn, n)) eqn:Ebad; [discriminate|]. cbn [fst snd].
  destruct (decode_rune_wf _ _ _ Ed Ebad ltac:(discriminate)) as (Hwf & Hn & Hn1 & Hn2).
  destruct (escape_loop f (skipn n (b :: r0))) as [t' ok] eqn:Erec.
  destruct ((rn <? 32) || is b c_quote || is b c_bslash) eqn:Esp.
  - intros [= <- ->]. specialize (IH _ _ Erec).
    destruct (is b c_quote || is b c_bslash) eqn:Eqb.
    { cbn [app]. apply JCesc; auto. unfold is_simple_esc. rewrite <- !orb_assoc, orb_assoc, Eqb. reflexivity. }
    destruct (rn =? 8). { cbn [app]. apply JCesc; auto. }
    destruct (rn =? 12). { cbn [app]. apply JCesc; auto. }
    destruct (rn =? 10). { cbn [app]. apply JCesc; auto. }
    destruct (rn =? 13). { cbn [app]. apply JCesc; auto. }
    destruct (rn =? 9). { cbn [app]. apply JCesc; auto. }
    cbn [app]. apply orb_false_iff in Eqb as [E1 E2]. rewrite E1, E2, !orb_false_r in Esp.
    apply JCuni; auto; apply is_hex_hex_digit; lia.
  - intros [= <- ->]. specialize (IH _ _ Erec). apply orb_false_iff in Esp as [Esp Eb].
    apply orb_false_iff in Esp as [E32 Eq]. apply JCplain; auto.
    destruct (Nat.eq_dec n 1) as [->|Hne].
    + destruct (Hn1 eq_refl) as (b' & rest' & [= <- <-] & -> & _). cbn [firstn unescaped].
      rewrite Eq, Eb. cbn [negb andb]. lia.
    + destruct n as [|[|n']]; try lia. cbn [firstn]. destruct r0 as [|b1 r']; [cbn [length] in Hn; lia|].
      destruct n'; reflexivity.
Qed.

Lemma append_string_rfc s out : append_string s = (out, true) -> rfc_string out.
Proof.
  unfold append_string, escape_string. destruct (escape_loop (S (length s)) s) as [t ok] eqn:E.
  destruct ok; [|discriminate]. intros [= <-]. exists t. split; auto. eapply escape_loop_jchars; eauto.
Qed.

(* the escaped form is a strict string that decodes to the input *)
Lemma escape_loop_schars fuel : forall inp t, escape_loop fuel inp = (t, true) -> schars t inp.
Proof.
  induction fuel as [|f IH]; intros inp t; cbn [escape_loop]; [discriminate|].
  destruct inp as [|b r0]. { intros [= <-]. constructor. }
  destruct (decode_rune (b :: r0)) as [rn n] eqn:Ed.
  destruct (is_bad_rune (rn, n)) eqn:Ebad; [discriminate|]. cbn [fst snd].
  destruct (decode_rune_wf _ _ _ Ed Ebad ltac:(discriminate)) as (Hwf & Hn & Hn1 & Hn2).
  destruct (escape_loop f (skipn n (b :: r0))) as [t' ok] eqn:Erec.
  destruct ((rn <? 32) || is b c_quote || is b c_bslash) eqn:Esp.
  - assert (Hone : n = 1%nat).
    { destruct (Nat.eq_dec n 1); auto. exfalso. assert (128 <= rn) by (apply Hn2; lia).
      apply orb_true_iff in Esp as [Esp|Esp]; [apply orb_true_iff in Esp as [Esp|Esp]|].
      - lia.
      - apply is_true in Esp. subst b. cbn in Ed. injection Ed as <- <-. lia.
      - apply is_true in Esp. subst b. cbn in Ed. injection Ed as <- <-. lia. }
    subst n. destruct (Hn1 eq_refl) as (b' & rest' & [= <- <-] & Hrn & Hlt). cbn [skipn] in Erec.
    intros [= <- ->]. specialize (IH _ _ Erec).
    assert (Hesc : forall e, is_simple_esc e = true -> simple_esc_val e = b -> schars (c_bslash :: [e] ++ t') (b :: r0)).
    { intros e He <-. cbn [app]. now apply SCesc. }
    destruct (is b c_quote || is b c_bslash) eqn:Eqb.
    { apply Hesc. { unfold is_simple_esc. rewrite <- !orb_assoc, orb_assoc, Eqb. reflexivity. }
      apply orb_true_iff in Eqb as [E|E]; apply is_true in E; subst; reflexivity. }
    destruct (rn =? 8) eqn:E8. { apply Hesc; [reflexivity|]. apply b2n_inj. cbn. lia. }
    destruct (rn =? 12) eqn:E12. { apply Hesc; [reflexivity|]. apply b2n_inj. cbn. lia. }
    destruct (rn =? 10) eqn:E10. { apply Hesc; [reflexivity|]. apply b2n_inj. cbn. lia. }
    destruct (rn =? 13) eqn:E13. { apply Hesc; [reflexivity|]. apply b2n_inj. cbn. lia. }
    destruct (rn =? 9) eqn:E9. { apply Hesc; [reflexivity|]. apply b2n_inj. cbn. lia. }
    apply orb_false_iff in Eqb as [E1 E2]. rewrite E1, E2, !orb_false_r in Esp. cbn [app].
    assert (Hh : hex4 c_0 c_0 (hex_digit (rn / 16)) (hex_digit (rn mod 16)) = Some rn).
    { unfold hex4. change (hex_val c_0) with (Some 0). rewrite !hex_val_hex_digit by lia. f_equal. lia. }
    assert (Hs : is_surrogate rn = false) by (unfold is_surrogate; lia).
    pose proof (SCuni _ _ _ _ rn t' r0 Hh Hs IH) as H.
    unfold encode_rune in H. replace (rn <? 128) with true in H by lia. cbn [app] in H.
    assert (Hb : n2b rn = b) by (rewrite Hrn; apply n2b_b2n). rewrite Hb in H. exact H.
  - intros [= <- ->]. specialize (IH _ _ Erec). apply orb_false_iff in Esp as [Esp Eb].
    apply orb_false_iff in Esp as [E32 Eq].
    rewrite <- (firstn_skipn n (b :: r0)) at 2. apply SCplain; auto.
    destruct (Nat.eq_dec n 1) as [->|Hne].
    + destruct (Hn1 eq_refl) as (b' & rest' & [= <- <-] & -> & _). cbn [firstn unescaped].
      rewrite Eq, Eb. cbn [negb andb]. lia.
    + destruct n as [|[|n']]; try lia. cbn [firstn]. destruct r0 as [|b1 r']; [cbn [length] in Hn; lia|].
      destruct n'; reflexivity.
Qed.

Lemma append_string_sstring s out : append_string s = (out, true) -> sstring out s.
Proof.
  unfold append_string, escape_string. destruct (escape_loop (S (length s)) s) as [t ok] eqn:E.
  destruct ok; [|discriminate]. intros [= <-]. exists t. split; auto. eapply escape_loop_schars; eauto.
Qed.

Lemma selems_ws q ks w : selems q ks -> ws w -> selems (q ++ w) ks.
Proof.
  intros H Hw. destruct H as [w1 v w2 ks H1 Hv H2 | p w1 v w2 ks1 ks2 Hp H1 Hv H2].
  - replace ((w1 ++ v ++ w2) ++ w) with (w1 ++ v ++ (w2 ++ w)) by app_eq. constructor; auto using ws_app.
  - replace ((p ++ c_comma :: w1 ++ v ++ w2) ++ w) with (p ++ c_comma :: w1 ++ v ++ (w2 ++ w)) by app_eq.
    constructor; auto using ws_app.
Qed.
Lemma smembers_ws q ks w : smembers q ks -> ws w -> smembers (q ++ w) ks.
Proof.
  intros H Hw. destruct H as [w1 k d w2 w3 v w4 ks H1 Hk H2 H3 Hv H4 | p w1 k d w2 w3 v w4 ks1 ks2 Hp H1 Hk H2 H3 Hv H4].
  - replace ((w1 ++ k ++ w2 ++ c_colon :: w3 ++ v ++ w4) ++ w)
      with (w1 ++ k ++ w2 ++ c_colon :: w3 ++ v ++ (w4 ++ w)) by app_eq. constructor; auto using ws_app.
  - replace ((p ++ c_comma :: w1 ++ k ++ w2 ++ c_colon :: w3 ++ v ++ w4) ++ w)
      with (p ++ c_comma :: w1 ++ k ++ w2 ++ c_colon :: w3 ++ v ++ (w4 ++ w)) by app_eq. constructor; auto using ws_app.
Qed.

(* ---------- decimal integers are RFC 8259 numbers ---------- *)
Lemma n2b_digit d : d < 10 -> is_digit (n2b (48 + d)) = true /\ (1 <= d -> is_digit19 (n2b (48 + d)) = true).
Proof. intros H. unfold is_digit, is_digit19, in_range. rewrite b2n_n2b by lia. split; lia. Qed.

Lemma dec_digits_fuel_spec fuel : forall n acc, n < 2 ^ N.of_nat fuel -> (0 < fuel)%nat ->
  exists d ds, dec_digits_fuel fuel n acc = d :: ds ++ acc /\ forallb is_digit (d :: ds) = true /\
               (n = 0 -> d = c_0 /\ ds = []) /\ (0 < n -> is_digit19 d = true).
Proof.
  induction fuel as [|f IH]; intros n acc Hn Hf; [lia|]. cbn [dec_digits_fuel].
  destruct (n <? 10) eqn:E.
  - exists (n2b (48 + n mod 10)), []. cbn [app forallb].
    destruct (n2b_digit (n mod 10) ltac:(lia)) as [H1 H2]. rewrite H1. split; [reflexivity|]. split; [reflexivity|]. split.
    + intros ->. split; reflexivity.
    + intros Hp. apply H2. lia.
  - assert (Hf' : (0 < f)%nat).
    { destruct f; [|lia]. cbn in Hn. lia. }
    rewrite Nat2N.inj_succ, N.pow_succ_r' in Hn.
    destruct (IH (n / 10) (n2b (48 + n mod 10) :: acc) ltac:(lia) Hf') as (d & ds & -> & Hd & _ & H19).
    exists d, (ds ++ [n2b (48 + n mod 10)]). split; [now rewrite <- app_assoc|].
    destruct (n2b_digit (n mod 10) ltac:(lia)) as [H1 _].
    cbn [forallb] in *. apply andb_true_iff in Hd as [Hd1 Hd2].
    rewrite Hd1, forallb_app, Hd2. cbn [forallb]. rewrite H1. split; [reflexivity|]. split.
    + intros ->. discriminate.
    + intros _. apply H19. lia.
Qed.

Lemma dec_digits_spec n : exists d ds, dec_digits n = d :: ds /\ forallb is_digit (d :: ds) = true /\
  (n = 0 -> d = c_0 /\ ds = []) /\ (0 < n -> is_digit19 d = true).
Proof.
  unfold dec_digits.
  destruct (dec_digits_fuel_spec (S (N.to_nat (N.log2 n))) n []) as (d & ds & E & H); [|lia|].
  - rewrite Nat2N.inj_succ, N2Nat.id. destruct n; [cbn; lia|]. apply N.log2_spec. lia.
  - exists d, ds. now rewrite app_nil_r in E.
Qed.

Lemma dec_digits_rfc_int n : rfc_int (dec_digits n).
Proof.
  destruct (dec_digits_spec n) as (d & ds & -> & Hd & H0 & H19).
  destruct (N.eq_dec n 0) as [->|Hn].
  - destruct (H0 eq_refl) as [-> ->]. constructor.
  - cbn [forallb] in Hd. apply andb_true_iff in Hd as [_ Hd]. constructor; auto. apply H19. lia.
Qed.

Lemma rfc_number_of_int m i : m = [] \/ m = [c_minus] -> rfc_int i -> rfc_number (m ++ i).
Proof.
  intros Hm Hi. replace (m ++ i) with (m ++ i ++ [] ++ []) by now rewrite !app_nil_r.
  constructor; auto; constructor.
Qed.

Lemma dec_int_rfc z : rfc_number (dec_int z).
Proof.
  unfold dec_int. destruct z.
  - apply (rfc_number_of_int [] (dec_digits (Z.to_N 0))); auto. apply dec_digits_rfc_int.
  - apply (rfc_number_of_int [] (dec_digits (Z.to_N (Z.pos p)))); auto. apply dec_digits_rfc_int.
  - apply (rfc_number_of_int [c_minus] (dec_digits (Npos p))); auto. apply dec_digits_rfc_int.
Qed.

(* ---------- prepareNext ---------- *)
Lemma ws_cons b w : is_ws b = true -> ws w -> ws (b :: w).
Proof. unfold ws. cbn [forallb]. intros -> ->. reflexivity. Qed.
Lemma ws_firstn n w : ws w -> ws (firstn n w).
Proof.
  unfold ws. revert n. induction w as [|b w IH]; intros [|n] H; cbn [firstn forallb] in *; auto.
  apply andb_true_iff in H as [H1 H2]. rewrite H1. cbn [andb]. auto.
Qed.
Lemma ws_app_inv a b : ws (a ++ b) -> ws a /\ ws b.
Proof. unfold ws. rewrite forallb_app. intros H. now apply andb_true_iff in H. Qed.

(* ---------- insignificant whitespace ---------- *)
Definition sq (a c : list byte) : Prop := squeeze SqOut a = c /\ sq_end SqOut a = SqOut.

Lemma squeeze_app st a b : squeeze st (a ++ b) = squeeze st a ++ squeeze (sq_end st a) b.
Proof.
  revert st. induction a as [|x a IH]; intros st; [reflexivity|]. cbn [app squeeze sq_end].
  destruct st; try (rewrite IH; reflexivity). destruct (is_ws x); rewrite IH; reflexivity.
Qed.
Lemma sq_end_app st a b : sq_end st (a ++ b) = sq_end (sq_end st a) b.
Proof.
  revert st. induction a as [|x a IH]; intros st; [reflexivity|]. cbn [app sq_end].
  destruct st; try apply IH. destruct (is_ws x); apply IH.
Qed.
Lemma sq_app a ca b cb : sq a ca -> sq b cb -> sq (a ++ b) (ca ++ cb).
Proof. intros [H1 H2] [H3 H4]. split; [rewrite squeeze_app, H1, H2, H3|rewrite sq_end_app, H2, H4]; reflexivity. Qed.
Lemma sq_nil : sq [] [].
Proof. split; reflexivity. Qed.
Lemma sq_ws w : ws w -> sq w [].
Proof.
  unfold ws. induction w as [|b w IH]; intros H; [apply sq_nil|]. cbn [forallb] in H.
  apply andb_true_iff in H as [Hb Hw]. destruct (IH Hw) as [H1 H2].
  split; cbn [squeeze sq_end]; rewrite Hb; auto.
Qed.
Definition plain (x : list byte) : Prop := forallb (fun b => negb (is_ws b) && negb (is b c_quote)) x = true.
Lemma sq_plain x : plain x -> sq x x.
Proof.
  unfold plain. induction x as [|b x IH]; intros H; [apply sq_nil|]. cbn [forallb] in H.
  apply andb_true_iff in H as [Hb Hx]. apply andb_true_iff in Hb as [Hb1 Hb2].
  apply negb_true_iff in Hb1, Hb2. destruct (IH Hx) as [H1 H2].
  split; cbn [squeeze sq_end sq_next]; rewrite Hb1, Hb2; [now rewrite H1|auto].
Qed.
Lemma digits_plain d : forallb is_digit d = true -> plain d.
Proof.
  unfold plain. induction d as [|b d IH]; [reflexivity|]. cbn [forallb]. intros H.
  apply andb_true_iff in H as [Hb Hd]. rewrite (IH Hd), andb_true_r.
  apply is_digit_b2n in Hb. unfold is_ws.
  rewrite !is_b2n_false by (cbn; lia). reflexivity.
Qed.
Lemma plain_dec_digits n : plain (dec_digits n).
Proof. destruct (dec_digits_spec n) as (d & ds & -> & Hd & _). now apply digits_plain. Qed.
Lemma plain_dec_int z : plain (dec_int z).
Proof.
  unfold dec_int. destruct z.
  - apply (plain_dec_digits (Z.to_N 0)).
  - apply (plain_dec_digits (Z.to_N (Z.pos p))).
  - unfold plain. cbn [forallb]. change (negb (is_ws c_minus) && negb (is c_minus c_quote)) with true.
    apply plain_dec_digits.
Qed.

(* inside a string literal *)
Definition keeps_in (t : list byte) : Prop :=
  forall X, squeeze SqIn (t ++ X) = t ++ squeeze SqIn X /\ sq_end SqIn (t ++ X) = sq_end SqIn X.
Lemma keeps_in_nil : keeps_in [].
Proof. intros X. auto. Qed.
Lemma keeps_in_app a b : keeps_in a -> keeps_in b -> keeps_in (a ++ b).
Proof.
  intros Ha Hb X. rewrite <- app_assoc. destruct (Ha (b ++ X)) as [H1 H2]. destruct (Hb X) as [H3 H4].
  rewrite H1, H2, H3, H4. now rewrite <- app_assoc.
Qed.
Lemma keeps_in_byte b : is b c_quote = false -> is b c_bslash = false -> keeps_in [b].
Proof. intros H1 H2 X. cbn [app squeeze sq_end sq_next]. rewrite H1, H2. auto. Qed.
Lemma keeps_in_esc e : keeps_in [c_bslash; e].
Proof. intros X. cbn [app squeeze sq_end sq_next]. change (is c_bslash c_bslash) with true. auto. Qed.
Lemma keeps_in_high c : Forall (fun b => 128 <= b2n b) c -> keeps_in c.
Proof.
  induction 1 as [|b c Hb Hc IH]; [apply keeps_in_nil|].
  change (b :: c) with ([b] ++ c). apply keeps_in_app; auto.
  apply keeps_in_byte; apply is_b2n_false; cbn; lia.
Qed.
Lemma rfc3629_multibyte c : rfc3629_char c = true -> (2 <= length c)%nat -> Forall (fun b => 128 <= b2n b) c.
Proof.
  destruct c as [|b0 [|b1 [|b2 [|b3 [|b4 c]]]]]; cbn [length rfc3629_char]; try discriminate;
    unfold utf8_tail, in_range; intros H Hl.
  - lia.
  - repeat apply Forall_cons; try apply Forall_nil; lia.
  - repeat apply Forall_cons; try apply Forall_nil; lia.
  - repeat apply Forall_cons; try apply Forall_nil; lia.
Qed.
Lemma hex_digit_keeps n : n < 16 -> keeps_in [hex_digit n].
Proof.
  intros H. unfold hex_digit. destruct (n <? 10) eqn:E;
    apply keeps_in_byte; apply is_b2n_false; rewrite b2n_n2b by lia;
    try change (b2n c_quote) with 34; try change (b2n c_bslash) with 92; lia.
Qed.

Lemma escape_loop_keeps fuel : forall inp t, escape_loop fuel inp = (t, true) -> keeps_in t.
Proof.
  induction fuel as [|f IH]; intros inp t; cbn [escape_loop]; [discriminate|].
  destruct inp as [|b r0]. { intros [= <-]. apply keeps_in_nil. }
  destruct (decode_rune (b :: r0)) as [rn n] eqn:Ed.
  destruct (is_bad_rune (rn, n)) eqn:Ebad; [discriminate|]. cbn [fst snd].
  destruct (decode_rune_wf _ _ _ Ed Ebad ltac:(discriminate)) as (Hwf & Hn & Hn1 & Hn2).
  destruct (escape_loop f (skipn n (b :: r0))) as [t' ok] eqn:Erec.
  destruct ((rn <? 32) || is b c_quote || is b c_bslash) eqn:Esp.
  - intros [= <- ->]. specialize (IH _ _ Erec).
    assert (Hesc : forall e, keeps_in (c_bslash :: [e] ++ t')).
    { intros e. change (c_bslash :: [e] ++ t') with ([c_bslash; e] ++ t'). apply keeps_in_app; auto using keeps_in_esc. }
    destruct (is b c_quote || is b c_bslash) eqn:Eqb; [apply Hesc|].
    destruct (rn =? 8); [apply Hesc|]. destruct (rn =? 12); [apply Hesc|]. destruct (rn =? 10); [apply Hesc|].
    destruct (rn =? 13); [apply Hesc|]. destruct (rn =? 9); [apply Hesc|].
    apply orb_false_iff in Eqb as [E1 E2]. rewrite E1, E2, !orb_false_r in Esp.
    change (c_bslash :: [c_u; c_0; c_0; hex_digit (rn / 16); hex_digit (rn mod 16)] ++ t')
      with ([c_bslash; c_u] ++ [c_0] ++ [c_0] ++ [hex_digit (rn / 16)] ++ [hex_digit (rn mod 16)] ++ t').
    repeat apply keeps_in_app; auto using keeps_in_esc; try (apply hex_digit_keeps; lia);
      apply keeps_in_byte; reflexivity.
  - intros [= <- ->]. specialize (IH _ _ Erec). apply orb_false_iff in Esp as [Esp Eb].
    apply orb_false_iff in Esp as [E32 Eq]. apply keeps_in_app; auto.
    destruct (Nat.eq_dec n 1) as [->|Hne].
    + cbn [firstn]. now apply keeps_in_byte.
    + apply keeps_in_high. apply rfc3629_multibyte; auto. rewrite firstn_length_le; lia.
Qed.

Lemma sq_append_string s out : append_string s = (out, true) -> sq out out.
Proof.
  unfold append_string, escape_string. destruct (escape_loop (S (length s)) s) as [t ok] eqn:E.
  destruct ok; [|discriminate]. intros [= <-].
  destruct (escape_loop_keeps _ _ _ E [c_quote]) as [H1 H2].
  split; cbn [squeeze sq_end sq_next]; change (is_ws c_quote) with false; change (is c_quote c_quote) with true; cbv iota.
  - rewrite H1. reflexivity.
  - rewrite H2. reflexivity.
Qed.

Section Enc.
Variable rnd : nat -> bool.

Definition indents_after_item (e : estate) : list byte :=
  match e_indent e with
  | [] => e_indents e
  | _ => if is_open (e_last e) then e_indents e ++ e_indent e else e_indents e
  end.
Definition indents_after_close (e : estate) : list byte :=
  match e_indent e with
  | [] => e_indents e
  | _ => if ends_value (e_last e)
         then firstn (length (e_indents e) - length (e_indent e)) (e_indents e) else e_indents e
  end.
Definition sep_ok (e : estate) (s : list byte) : Prop :=
  if ends_value (e_last e) then exists w, ws w /\ s = c_comma :: w else ws s.

Lemma ws_rnd_space (b : bool) : ws (if b then [c_sp] else []).
Proof. destruct b; reflexivity. Qed.

Ltac fin_prep tsep tws :=
  split; [try reflexivity; try (now rewrite app_nil_r)|]; split; [tsep|];
  split; [reflexivity|]; split; [reflexivity|]; split; [reflexivity|]; tws.

Lemma prepare_item next e : starts_item next = true -> ws (e_indent e) -> ws (e_indents e) ->
  exists s, e_out (prepare_next rnd next e) = e_out e ++ s /\ sep_ok e s /\
            e_last (prepare_next rnd next e) = next /\
            e_indent (prepare_next rnd next e) = e_indent e /\
            e_indents (prepare_next rnd next e) = indents_after_item e /\
            ws (e_indents (prepare_next rnd next e)).
Proof.
  intros Hs Hi Hii. unfold prepare_next, indents_after_item, sep_ok.
  assert (Hnc : is_close next = false) by (destruct next; try discriminate; reflexivity).
  destruct (e_indent e) as [|i0 ind] eqn:Ei.
  - rewrite Hs, andb_true_r. destruct (ends_value (e_last e)) eqn:Ev; cbn [e_out e_last e_indent e_indents].
    + eexists. fin_prep ltac:(eexists; split; [|reflexivity]; apply ws_rnd_space) ltac:(exact Hii).
    + exists []. fin_prep ltac:(exact ws_nil) ltac:(exact Hii).
  - destruct (is_open (e_last e)) eqn:Eo.
    + rewrite Hnc. cbn [negb e_out e_last e_indent e_indents].
      assert (ends_value (e_last e) = false) as -> by (destruct (e_last e); try discriminate; reflexivity).
      eexists. fin_prep ltac:(apply ws_cons; [reflexivity|apply ws_app; assumption]) ltac:(apply ws_app; assumption).
    + destruct (ends_value (e_last e)) eqn:Ev.
      * rewrite Hs. cbn [e_out e_last e_indent e_indents]. eexists.
        fin_prep ltac:(eexists; split; [|reflexivity]; apply ws_cons; [reflexivity|assumption]) ltac:(exact Hii).
      * destruct (e_last e) eqn:El; try discriminate; cbn [e_out e_last e_indent e_indents].
        -- exists []. fin_prep ltac:(exact ws_nil) ltac:(exact Hii).
        -- eexists. fin_prep ltac:(apply ws_cons; [reflexivity|apply ws_rnd_space]) ltac:(exact Hii).
Qed.

Ltac fin_close tw tws :=
  split; [tw|]; split; [try reflexivity; try (now rewrite app_nil_r)|];
  split; [reflexivity|]; split; [reflexivity|]; split; [reflexivity|]; tws.

Lemma prepare_close next e : is_close next = true -> ws (e_indent e) -> ws (e_indents e) ->
  exists w, ws w /\ e_out (prepare_next rnd next e) = e_out e ++ w /\
            e_last (prepare_next rnd next e) = next /\
            e_indent (prepare_next rnd next e) = e_indent e /\
            e_indents (prepare_next rnd next e) = indents_after_close e /\
            ws (e_indents (prepare_next rnd next e)).
Proof.
  intros Hc Hi Hii. unfold prepare_next, indents_after_close.
  assert (Hns : starts_item next = false) by (destruct next; try discriminate; reflexivity).
  destruct (e_indent e) as [|i0 ind] eqn:Ei.
  - rewrite Hns, andb_false_r. cbn [e_out e_last e_indent e_indents]. exists [].
    fin_close ltac:(exact ws_nil) ltac:(exact Hii).
  - destruct (is_open (e_last e)) eqn:Eo.
    + rewrite Hc. cbn [negb e_out e_last e_indent e_indents].
      assert (ends_value (e_last e) = false) as -> by (destruct (e_last e); try discriminate; reflexivity).
      exists []. fin_close ltac:(exact ws_nil) ltac:(exact Hii).
    + destruct (ends_value (e_last e)) eqn:Ev.
      * rewrite Hns, Hc. cbn [e_out e_last e_indent e_indents].
        exists (c_lf :: firstn (length (e_indents e) - length (i0 :: ind)) (e_indents e)).
        fin_close ltac:(apply ws_cons; [reflexivity|now apply ws_firstn]) ltac:(now apply ws_firstn).
      * destruct (e_last e) eqn:El; try discriminate; cbn [e_out e_last e_indent e_indents].
        -- exists []. fin_close ltac:(exact ws_nil) ltac:(exact Hii).
        -- exists (c_sp :: (if rnd (e_draws e) then [c_sp] else [])).
           fin_close ltac:(apply ws_cons; [reflexivity|apply ws_rnd_space]) ltac:(exact Hii).
Qed.

Lemma ends_not_open k : ends_value k = true -> is_open k = false.
Proof. destruct k; try discriminate; reflexivity. Qed.

(* ---------- running call sequences ---------- *)
Lemma enc_calls_app a b e e1 e2 :
  enc_calls rnd a e = (e1, true) -> enc_calls rnd b e1 = (e2, true) -> enc_calls rnd (a ++ b) e = (e2, true).
Proof.
  revert e. induction a as [|c a IH]; intros e; cbn [enc_calls app].
  - intros [= <-]. auto.
  - destruct (enc_call rnd c e) as [e' ok] eqn:Ec. destruct (enc_calls rnd a e') as [e'' ok'] eqn:Ea.
    intros [= <- Hok] Hb. apply andb_true_iff in Hok as [-> ->].
    rewrite (IH e' Ea Hb). reflexivity.
Qed.

Lemma enc_calls_one c e e1 : enc_call rnd c e = (e1, true) -> enc_calls rnd [c] e = (e1, true).
Proof. intros H. cbn [enc_calls]. rewrite H. reflexivity. Qed.

(* ---------- trees ---------- *)
Fixpoint tree_ok (t : jtree) : Prop :=
  match t with
  | TStr s => snd (append_string s) = true
  | TArr l => (fix go (l : list jtree) : Prop := match l with [] => True | x :: r => tree_ok x /\ go r end) l
  | TObj l => (fix go (l : list (list byte * jtree)) : Prop :=
                 match l with [] => True | kv :: r => snd (append_string (fst kv)) = true /\ tree_ok (snd kv) /\ go r end) l
  | _ => True
  end.

Lemma sep_sq e s : sep_ok e s -> sq s (if ends_value (e_last e) then [c_comma] else []).
Proof.
  unfold sep_ok. destruct (ends_value (e_last e)).
  - intros (w & Hw & ->). change (c_comma :: w) with ([c_comma] ++ w). rewrite <- (app_nil_r [c_comma]) at 2.
    apply sq_app; [apply sq_plain; reflexivity|now apply sq_ws].
  - apply sq_ws.
Qed.

(* the calls [cs] write one value whose whitespace-free form is [cv] *)
Definition emits_value (cs : list ecall) (cv : list byte) (ks : list atok) : Prop :=
  forall e, ws (e_indent e) -> ws (e_indents e) ->
  exists e' s v, enc_calls rnd cs e = (e', true) /\ e_out e' = e_out e ++ s ++ v /\ sep_ok e s /\ svalue v ks /\
                 sq v cv /\
                 ends_value (e_last e') = true /\ e_indent e' = e_indent e /\
                 e_indents e' = indents_after_item e /\ ws (e_indents e').

Lemma emits_scalar c bs ks : (forall e, enc_call rnd c e = (emit bs (prepare_next rnd EKScalar e), true)) ->
  svalue bs ks -> sq bs bs -> emits_value [c] bs ks.
Proof.
  intros Hc Hv Hsq e Hi Hii. destruct (prepare_item EKScalar e eq_refl Hi Hii) as (s & Ho & Hs & Hl & Hin & Hins & Hw).
  exists (emit bs (prepare_next rnd EKScalar e)), s, bs. split; [apply enc_calls_one, Hc|].
  unfold emit. cbn [e_out e_last e_indent e_indents]. rewrite Ho, Hl. repeat split; auto; try apply Hsq. now rewrite app_assoc.
Qed.
End Enc.

Section EncTree.
Variable rnd : nat -> bool.
Notation emits := (emits_value rnd).

(* elements of an array, written from state e1 whose output is base ++ acc *)
Lemma enc_elems l : Forall (fun t => emits (calls_of_tree t) (compact t) (tree_toks t)) l ->
  forall e1 base acc cacc kacc, ws (e_indent e1) -> ws (e_indents e1) -> e_out e1 = base ++ acc -> sq acc cacc ->
    ((is_open (e_last e1) = true /\ acc = [] /\ kacc = []) \/ (ends_value (e_last e1) = true /\ selems acc kacc)) ->
    exists e2 acc', enc_calls rnd (flat_map calls_of_tree l) e1 = (e2, true) /\ e_out e2 = base ++ acc' /\
      e_indent e2 = e_indent e1 /\ ws (e_indents e2) /\
      sq acc' (cacc ++ (if ends_value (e_last e1) then tail_join (map compact l) else join_comma (map compact l))) /\
      ((l = [] /\ e_last e2 = e_last e1 /\ acc' = acc /\ e_indents e2 = e_indents e1) \/
       (l <> [] /\ ends_value (e_last e2) = true /\ selems acc' (kacc ++ flat_map tree_toks l) /\ e_indents e2 = indents_after_item e1)).
Proof.
  induction 1 as [|x r Hx Hr IH]; intros e1 base acc cacc kacc Hi Hii Ho Hsq Hst.
  - exists e1, acc. cbn [flat_map enc_calls map tail_join join_comma flat_map].
    replace (cacc ++ (if ends_value (e_last e1) then [] else [])) with cacc by (destruct (ends_value (e_last e1)); now rewrite app_nil_r).
    repeat split; auto; apply Hsq.
  - destruct (Hx e1 Hi Hii) as (ex & s & v & Erun & Hox & Hsep & Hv & Hsqv & Hlx & Hix & Hiix & Hwx).
    set (accx := acc ++ s ++ v).
    pose proof (sep_sq _ _ Hsep) as Hsqs.
    assert (Hsqx : sq accx (cacc ++ (if ends_value (e_last e1) then [c_comma] else []) ++ compact x)).
    { subst accx. apply sq_app; auto. apply sq_app; auto. }
    assert (Haccx : selems accx (kacc ++ tree_toks x)).
    { subst accx. unfold sep_ok in Hsep. destruct Hst as [(Hop & -> & ->) | [Hev Hacc]].
      - assert (ends_value (e_last e1) = false) as E by (destruct (e_last e1); try discriminate; reflexivity).
        rewrite E in Hsep. cbn [app]. replace (s ++ v) with (s ++ v ++ []) by now rewrite app_nil_r.
        constructor; auto using ws_nil.
      - rewrite Hev in Hsep. destruct Hsep as (w & Hw & ->). cbn [app].
        replace (acc ++ c_comma :: w ++ v) with (acc ++ c_comma :: w ++ v ++ []) by now rewrite app_nil_r.
        constructor; auto using ws_nil. }
    rewrite <- Hix in Hi.
    assert (Hoeq : e_out ex = base ++ accx) by (rewrite Hox, Ho; subst accx; now rewrite <- !app_assoc).
    destruct (IH ex base accx _ _ Hi Hwx Hoeq Hsqx (or_intror (conj Hlx Haccx)))
      as (e2 & acc' & Erun2 & Ho2 & Hi2 & Hw2 & Hsq2 & Hcase).
    exists e2, acc'. split. { cbn [flat_map]. eapply enc_calls_app; eauto. }
    split; auto. split; [congruence|]. split; auto. split.
    { rewrite Hlx in Hsq2. cbn [map].
      destruct (ends_value (e_last e1)); unfold join_comma, tail_join in *; cbn [flat_map app] in *;
        repeat first [rewrite <- app_assoc in Hsq2 | progress cbn [app] in Hsq2];
        repeat first [rewrite <- app_assoc | progress cbn [app]]; exact Hsq2. }
    right. split; [discriminate|].
    destruct Hcase as [(-> & Hl2 & -> & Hii2) | (_ & Hl2 & Hj2 & Hii2)].
    + rewrite Hl2, Hii2. cbn [flat_map]. rewrite app_nil_r. auto.
    + split; auto. split. { cbn [flat_map]. now rewrite app_assoc. }
      rewrite Hii2. unfold indents_after_item at 1. rewrite (ends_not_open _ Hlx), Hix.
      destruct (e_indent e1); auto.
Qed.

Definition member_toks (kv : list byte * jtree) : list atok :=
  (KName, fst (append_string (fst kv)), false, fst kv) :: tree_toks (snd kv).
Definition member_compact (kv : list byte * jtree) : list byte :=
  fst (append_string (fst kv)) ++ c_colon :: compact (snd kv).

(* members of an object *)
Lemma enc_members l :
  Forall (fun kv => snd (append_string (fst kv)) = true /\ emits (calls_of_tree (snd kv)) (compact (snd kv)) (tree_toks (snd kv))) l ->
  forall e1 base acc cacc kacc, ws (e_indent e1) -> ws (e_indents e1) -> e_out e1 = base ++ acc -> sq acc cacc ->
    ((is_open (e_last e1) = true /\ acc = [] /\ kacc = []) \/ (ends_value (e_last e1) = true /\ smembers acc kacc)) ->
    exists e2 acc', enc_calls rnd (flat_map (fun kv => CName (fst kv) :: calls_of_tree (snd kv)) l) e1 = (e2, true) /\
      e_out e2 = base ++ acc' /\ e_indent e2 = e_indent e1 /\ ws (e_indents e2) /\
      sq acc' (cacc ++ (if ends_value (e_last e1) then tail_join (map member_compact l) else join_comma (map member_compact l))) /\
      ((l = [] /\ e_last e2 = e_last e1 /\ acc' = acc /\ e_indents e2 = e_indents e1) \/
       (l <> [] /\ ends_value (e_last e2) = true /\ smembers acc' (kacc ++ flat_map member_toks l) /\ e_indents e2 = indents_after_item e1)).
Proof.
  induction 1 as [|[k x] r [Hk Hx] Hr IH]; intros e1 base acc cacc kacc Hi Hii Ho Hsq Hst.
  - exists e1, acc. cbn [flat_map enc_calls map tail_join join_comma flat_map].
    replace (cacc ++ (if ends_value (e_last e1) then [] else [])) with cacc by (destruct (ends_value (e_last e1)); now rewrite app_nil_r).
    repeat split; auto; apply Hsq.
  - cbn [fst snd] in *.
    destruct (append_string k) as [ko okk] eqn:Ek. cbn [snd] in Hk. subst okk.
    pose proof (append_string_sstring _ _ Ek) as Hkrfc. pose proof (sq_append_string _ _ Ek) as Hksq.
    destruct (prepare_item rnd EKName e1 eq_refl Hi Hii) as (s & Hos & Hsep & Hls & Hins & Hiis & Hws).
    set (en := emit (ko ++ [c_colon]) (prepare_next rnd EKName e1)).
    assert (Ecn : enc_call rnd (CName k) e1 = (en, true)) by (cbn [enc_call]; rewrite Ek; reflexivity).
    assert (Hen : e_out en = e_out e1 ++ s ++ ko ++ [c_colon] /\ e_last en = EKName /\
                  e_indent en = e_indent e1 /\ e_indents en = indents_after_item e1 /\ ws (e_indents en)).
    { subst en. unfold emit. cbn [e_out e_last e_indent e_indents]. rewrite Hos. repeat split; auto. now rewrite <- app_assoc. }
    destruct Hen as (Hoen & Hlen & Hien & Hiien & Hwen).
    rewrite <- Hien in Hi.
    destruct (Hx en Hi Hwen) as (ex & s' & v & Erun & Hox & Hsep' & Hv & Hsqv & Hlx & Hix & Hiix & Hwx).
    pose proof (sep_sq _ _ Hsep) as Hsqs. pose proof (sep_sq _ _ Hsep') as Hsqs'.
    unfold sep_ok in Hsep'. rewrite Hlen in Hsep', Hsqs'. cbn [ends_value] in Hsep', Hsqs'.
    set (accx := acc ++ s ++ ko ++ [c_colon] ++ s' ++ v).
    assert (Hsqx : sq accx (cacc ++ (if ends_value (e_last e1) then [c_comma] else []) ++ ko ++ [c_colon] ++ [] ++ compact x)).
    { subst accx. repeat apply sq_app; auto. apply sq_plain. reflexivity. }
    assert (Haccx : smembers accx (kacc ++ (KName, ko, false, k) :: tree_toks x)).
    { subst accx. unfold sep_ok in Hsep. destruct Hst as [(Hop & -> & ->) | [Hev Hacc]].
      - assert (ends_value (e_last e1) = false) as E by (destruct (e_last e1); try discriminate; reflexivity).
        rewrite E in Hsep. cbn [app].
        replace (s ++ ko ++ c_colon :: s' ++ v) with (s ++ ko ++ [] ++ c_colon :: s' ++ v ++ []) by now rewrite app_nil_r.
        constructor; auto using ws_nil.
      - rewrite Hev in Hsep. destruct Hsep as (w & Hw & ->). cbn [app].
        replace (acc ++ c_comma :: w ++ ko ++ c_colon :: s' ++ v)
          with (acc ++ c_comma :: w ++ ko ++ [] ++ c_colon :: s' ++ v ++ []) by now rewrite app_nil_r.
        constructor; auto using ws_nil. }
    rewrite <- Hix in Hi.
    assert (Hoeq : e_out ex = base ++ accx) by (rewrite Hox, Hoen, Ho; subst accx; now rewrite <- !app_assoc).
    destruct (IH ex base accx _ _ Hi Hwx Hoeq Hsqx (or_intror (conj Hlx Haccx)))
      as (e2 & acc' & Erun2 & Ho2 & Hi2 & Hw2 & Hsq2 & Hcase).
    exists e2, acc'. split.
    { cbn [flat_map fst snd app].
      apply (enc_calls_app rnd [CName k] _ e1 en); [apply enc_calls_one, Ecn|]. eapply enc_calls_app; eauto. }
    split; auto. split; [congruence|]. split; auto. split.
    { rewrite Hlx in Hsq2. cbn [map]. change (member_compact (k, x)) with (fst (append_string k) ++ c_colon :: compact x).
      rewrite Ek. cbn [fst].
      destruct (ends_value (e_last e1)); unfold join_comma, tail_join in *; cbn [flat_map app] in *;
        repeat first [rewrite <- app_assoc in Hsq2 | progress cbn [app] in Hsq2];
        repeat first [rewrite <- app_assoc | progress cbn [app]]; exact Hsq2. }
    right. split; [discriminate|].
    assert (Hiix' : e_indents ex = indents_after_item e1).
    { rewrite Hiix. unfold indents_after_item at 1. rewrite Hlen, Hien. cbn [is_open]. rewrite Hiien.
      destruct (e_indent e1); auto. }
    assert (Hmt : member_toks (k, x) = (KName, ko, false, k) :: tree_toks x) by (unfold member_toks; cbn [fst snd]; now rewrite Ek).
    destruct Hcase as [(-> & Hl2 & -> & Hii2) | (_ & Hl2 & Hj2 & Hii2)].
    + rewrite Hl2, Hii2. cbn [flat_map]. rewrite app_nil_r, Hmt. auto.
    + split; auto. split. { cbn [flat_map]. rewrite Hmt. now rewrite app_assoc. }
      rewrite Hii2. unfold indents_after_item at 1. rewrite (ends_not_open _ Hlx), Hix, Hien.
      rewrite Hiix'. destruct (e_indent e1); auto.
Qed.

(* closing a container restores the indentation in force before it was opened *)
Lemma close_indents e0 e2 (l_empty : bool) I1 :
  e_indent e2 = e_indent e0 ->
  e_indents e0 = I1 -> is_open (e_last e0) = true ->
  (if l_empty then e_last e2 = e_last e0 /\ e_indents e2 = e_indents e0
   else ends_value (e_last e2) = true /\ e_indents e2 = indents_after_item e0) ->
  indents_after_close e2 = I1.
Proof.
  intros Hi HI Hop Hc. unfold indents_after_close. rewrite Hi.
  destruct l_empty.
  - destruct Hc as [Hl Hii]. rewrite Hl, Hii.
    assert (ends_value (e_last e0) = false) as -> by (destruct (e_last e0); try discriminate; reflexivity).
    destruct (e_indent e0); auto.
  - destruct Hc as [Hl Hii]. rewrite Hl, Hii. unfold indents_after_item. rewrite Hop.
    destruct (e_indent e0) as [|i0 ind] eqn:Ei; auto.
    rewrite app_length. replace (length (e_indents e0) + length (i0 :: ind) - length (i0 :: ind))%nat
      with (length (e_indents e0)) by lia.
    rewrite firstn_len_app. exact HI.
Qed.
End EncTree.

(* ---------- induction over trees ---------- *)
Section JtreeInd.
  Variable P : jtree -> Prop.
  Hypothesis HNull : P TNull.
  Hypothesis HBool : forall b, P (TBool b).
  Hypothesis HStr : forall s, P (TStr s).
  Hypothesis HInt : forall z, P (TInt z).
  Hypothesis HUint : forall n, P (TUint n).
  Hypothesis HArr : forall l, Forall P l -> P (TArr l).
  Hypothesis HObj : forall l, Forall (fun kv => P (snd kv)) l -> P (TObj l).
  Fixpoint jtree_rect2 (t : jtree) : P t :=
    match t with
    | TNull => HNull | TBool b => HBool b | TStr s => HStr s | TInt z => HInt z | TUint n => HUint n
    | TArr l => HArr l ((fix go (l : list jtree) : Forall P l :=
                           match l with [] => Forall_nil _ | x :: r => Forall_cons x (jtree_rect2 x) (go r) end) l)
    | TObj l => HObj l ((fix go (l : list (list byte * jtree)) : Forall (fun kv => P (snd kv)) l :=
                           match l with [] => Forall_nil _ | kv :: r => Forall_cons kv (jtree_rect2 (snd kv)) (go r) end) l)
    end.
End JtreeInd.

Section EncMain.
Variable rnd : nat -> bool.

Lemma tree_ok_arr l : tree_ok (TArr l) -> Forall tree_ok l.
Proof. induction l as [|x r IH]; cbn; intros H; constructor; tauto. Qed.
Lemma tree_ok_obj l : tree_ok (TObj l) -> Forall (fun kv => snd (append_string (fst kv)) = true /\ tree_ok (snd kv)) l.
Proof. induction l as [|x r IH]; cbn; intros H; constructor; tauto. Qed.

Lemma emits_container (open_k close_k : ekind) (oc cc : byte) (body : list ecall) (copen cclose : ecall)
      (jm : list byte -> list atok -> Prop) (nonempty : bool) (cbody : list byte) (kbody : list atok) (ao ac : atok) :
  (forall e, enc_call rnd copen e = (emit [oc] (prepare_next rnd open_k e), true)) ->
  (forall e, enc_call rnd cclose e = (emit [cc] (prepare_next rnd close_k e), true)) ->
  starts_item open_k = true -> is_open open_k = true -> is_close close_k = true -> ends_value close_k = true ->
  plain [oc] -> plain [cc] ->
  (forall w, ws w -> svalue (oc :: w ++ [cc]) [ao; ac]) ->
  (forall p ks, jm p ks -> svalue (oc :: p ++ [cc]) (ao :: ks ++ [ac])) ->
  (forall p ks w, jm p ks -> ws w -> jm (p ++ w) ks) ->
  (forall e1 base, ws (e_indent e1) -> ws (e_indents e1) -> e_out e1 = base ++ [] -> e_last e1 = open_k ->
     exists e2 acc', enc_calls rnd body e1 = (e2, true) /\ e_out e2 = base ++ acc' /\
       e_indent e2 = e_indent e1 /\ ws (e_indents e2) /\ sq acc' cbody /\
       ((nonempty = false /\ e_last e2 = e_last e1 /\ acc' = [] /\ kbody = [] /\ e_indents e2 = e_indents e1) \/
        (nonempty = true /\ ends_value (e_last e2) = true /\ jm acc' kbody /\ e_indents e2 = indents_after_item e1))) ->
  emits_value rnd (copen :: body ++ [cclose]) (oc :: cbody ++ [cc]) (ao :: kbody ++ [ac]).
Proof.
  intros Hco Hcc Hso Hoo Hcl Hev Hpo Hpc Hempty Hfull Hjmws Hbody e Hi Hii.
  destruct (prepare_item rnd open_k e Hso Hi Hii) as (s & Hos & Hsep & Hls & Hins & Hiis & Hws).
  set (e0 := emit [oc] (prepare_next rnd open_k e)).
  assert (He0 : e_out e0 = (e_out e ++ s ++ [oc]) ++ [] /\ e_last e0 = open_k /\ e_indent e0 = e_indent e /\
                e_indents e0 = indents_after_item e /\ ws (e_indents e0)).
  { subst e0. unfold emit. cbn [e_out e_last e_indent e_indents]. rewrite Hos, app_nil_r. repeat split; auto.
    now rewrite <- app_assoc. }
  destruct He0 as (Ho0 & Hl0 & Hi0 & Hii0 & Hw0).
  assert (Hi0' : ws (e_indent e0)) by now rewrite Hi0.
  assert (Hop0 : is_open (e_last e0) = true) by now rewrite Hl0.
  destruct (Hbody e0 _ Hi0' Hw0 Ho0 Hl0) as (e2 & acc' & Erun & Ho2 & Hi2 & Hw2 & Hsq2 & Hcase).
  assert (Hi2' : ws (e_indent e2)) by now rewrite Hi2.
  destruct (prepare_close rnd close_k e2 Hcl Hi2' Hw2) as (w & Hw & Hoc & Hlc & Hic & Hiic & Hwc).
  set (e3 := emit [cc] (prepare_next rnd close_k e2)).
  exists e3, s, (oc :: acc' ++ w ++ [cc]). split.
  { change (copen :: body ++ [cclose]) with ([copen] ++ body ++ [cclose]).
    eapply enc_calls_app; [apply enc_calls_one, Hco|]. eapply enc_calls_app; [exact Erun|].
    apply enc_calls_one, Hcc. }
  subst e3. unfold emit. cbn [e_out e_last e_indent e_indents]. rewrite Hoc, Ho2, Hlc, Hic, Hi2, Hi0.
  split. { rewrite <- !app_assoc. reflexivity. }
  split; auto. split.
  { destruct Hcase as [(_ & _ & -> & -> & _) | (_ & _ & Hj & _)].
    - cbn [app]. apply Hempty; auto.
    - rewrite app_assoc. apply Hfull. apply Hjmws; auto. }
  split.
  { change (oc :: acc' ++ w ++ [cc]) with ([oc] ++ acc' ++ w ++ [cc]).
    change (oc :: cbody ++ [cc]) with ([oc] ++ cbody ++ [cc]).
    apply sq_app; [now apply sq_plain|]. apply sq_app; auto.
    rewrite <- (app_nil_l [cc]) at 2. apply sq_app; [now apply sq_ws|now apply sq_plain]. }
  split; auto. split; auto. split; [|exact Hwc].
  rewrite Hiic. destruct Hcase as [(_ & Hl2 & _ & _ & Hii2) | (_ & Hl2 & _ & Hii2)].
  - apply (close_indents e0 e2 true); auto.
  - apply (close_indents e0 e2 false); auto.
Qed.

Theorem enc_tree_emits t : tree_ok t -> emits_value rnd (calls_of_tree t) (compact t) (tree_toks t).
Proof.
  induction t as [| b | s | z | n | l IH | l IH] using jtree_rect2; intros Hok; cbn [calls_of_tree compact tree_toks].
  - apply (emits_scalar rnd CNull lit_null); [reflexivity|constructor|apply sq_plain; reflexivity].
  - apply (emits_scalar rnd (CBool b) (if b then lit_true else lit_false));
      [reflexivity|destruct b; constructor|destruct b; apply sq_plain; reflexivity].
  - cbn [tree_ok] in Hok. destruct (append_string s) as [o ok] eqn:Es. cbn [snd] in Hok. subst ok. cbn [fst].
    apply (emits_scalar rnd (CString s) o).
    + intros e. cbn [enc_call]. rewrite Es. reflexivity.
    + apply SStr. eapply append_string_sstring; eauto.
    + eapply sq_append_string; eauto.
  - apply (emits_scalar rnd (CInt z) (dec_int z)); [reflexivity|apply SNum, dec_int_rfc|apply sq_plain, plain_dec_int].
  - apply (emits_scalar rnd (CUint n) (dec_digits n)); [reflexivity| |apply sq_plain, plain_dec_digits].
    apply SNum. apply (rfc_number_of_int [] (dec_digits n)); auto. apply dec_digits_rfc_int.
  - (* array *)
    apply tree_ok_arr in Hok.
    assert (HF : Forall (fun t => emits_value rnd (calls_of_tree t) (compact t) (tree_toks t)) l).
    { clear - IH Hok. induction l; constructor; inversion IH; inversion Hok; subst; auto. }
    apply (emits_container EKArrOpen EKArrClose c_lbrack c_rbrack _ CStartArr CEndArr selems
             (match l with [] => false | _ => true end)); try reflexivity.
    + intros w Hw. now apply SArrE.
    + intros p ks Hp. now apply SArr.
    + apply selems_ws.
    + intros e1 base Hi Hii Ho Hl1.
      assert (Hop : is_open (e_last e1) = true) by now rewrite Hl1.
      destruct (enc_elems rnd l HF e1 base [] [] [] Hi Hii Ho sq_nil (or_introl (conj Hop (conj eq_refl eq_refl))))
        as (e2 & acc' & Erun & Ho2 & Hi2 & Hw2 & Hsq2 & Hcase).
      rewrite Hl1 in Hsq2. cbn [ends_value app] in Hsq2.
      exists e2, acc'. repeat split; auto; try apply Hsq2.
      destruct Hcase as [(-> & H1 & H2 & H3) | (Hne & H1 & H2 & H3)].
      * left. repeat split; auto.
      * right. destruct l; [contradiction|]. repeat split; auto.
  - (* object *)
    apply tree_ok_obj in Hok.
    assert (HF : Forall (fun kv => snd (append_string (fst kv)) = true /\ emits_value rnd (calls_of_tree (snd kv)) (compact (snd kv)) (tree_toks (snd kv))) l).
    { clear - IH Hok. induction l; constructor; inversion IH; inversion Hok; subst; try tauto; auto. }
    apply (emits_container EKObjOpen EKObjClose c_lbrace c_rbrace _ CStartObj CEndObj smembers
             (match l with [] => false | _ => true end)); try reflexivity.
    + intros w Hw. now apply SObjE.
    + intros p ks Hp. now apply SObj.
    + apply smembers_ws.
    + intros e1 base Hi Hii Ho Hl1.
      assert (Hop : is_open (e_last e1) = true) by now rewrite Hl1.
      destruct (enc_members rnd l HF e1 base [] [] [] Hi Hii Ho sq_nil (or_introl (conj Hop (conj eq_refl eq_refl))))
        as (e2 & acc' & Erun & Ho2 & Hi2 & Hw2 & Hsq2 & Hcase).
      rewrite Hl1 in Hsq2. cbn [ends_value app] in Hsq2.
      exists e2, acc'. repeat split; auto; try apply Hsq2.
      destruct Hcase as [(-> & H1 & H2 & H3) | (Hne & H1 & H2 & H3)].
      * left. repeat split; auto.
      * right. destruct l; [contradiction|]. repeat split; auto.
Qed.

Lemma indent_ok_ws indent : indent_ok indent = true -> ws indent.
Proof.
  unfold ws, indent_ok. rewrite !forallb_forall. intros Hind b Hb. specialize (Hind b Hb).
  unfold is_ws. apply orb_true_iff in Hind as [->| ->]; [reflexivity|now rewrite !orb_true_r].
Qed.

(* every tree the encoder accepts renders, with any indent of spaces/tabs and any detrand
   stream, a JSON text, which is the compact rendering up to insignificant whitespace *)
Theorem render_spec indent t : indent_ok indent = true -> tree_ok t ->
  exists out, render rnd indent t = (out, true) /\ stext out (tree_toks t) /\ squeeze SqOut out = compact t.
Proof.
  intros Hind Hok. unfold render.
  destruct (enc_tree_emits t Hok (e_init indent) (indent_ok_ws _ Hind) ws_nil)
    as (e' & s & v & Erun & Ho & Hsep & Hv & Hsq & _).
  rewrite Erun. exists (e_out e'). split; auto. rewrite Ho. cbn [e_init e_out app].
  pose proof (sep_sq _ _ Hsep) as Hsqs. unfold sep_ok in Hsep. cbn [e_init e_last ends_value] in Hsep, Hsqs. split.
  - exists s, v, []. rewrite app_nil_r. auto using ws_nil.
  - destruct (sq_app _ _ _ _ Hsqs Hsq) as [H _]. exact H.
Qed.
End EncMain.

Theorem encoder_emits_json rnd indent t : indent_ok indent = true -> tree_ok t ->
  exists out, render rnd indent t = (out, true) /\ json_text out.
Proof. intros H1 H2. destruct (render_spec rnd indent t H1 H2) as (out & H & Hj & _). eauto using stext_json_text. Qed.

(* The Decoder reads every rendering back as the token sequence of the tree: rendering with any
   indent / detrand stream parses to the same tokens (kinds, raw bytes, decoded strings). *)
Theorem render_reads rnd indent t : indent_ok indent = true -> tree_ok t ->
  exists out toks, render rnd indent t = (out, true) /\ read_all out = (toks, None) /\
                   map atok_of toks = tree_toks t.
Proof.
  intros H1 H2. destruct (render_spec rnd indent t H1 H2) as (out & H & Hs & _).
  destruct (lexer_accepts_all_strict_json out _ Hs) as (toks & Hr & Hm & _). eauto.
Qed.

Theorem indent_invariant_tokens rnd1 rnd2 indent1 indent2 t :
  indent_ok indent1 = true -> indent_ok indent2 = true -> tree_ok t ->
  snd (read_all (fst (render rnd1 indent1 t))) = None /\ snd (read_all (fst (render rnd2 indent2 t))) = None /\
  map atok_of (fst (read_all (fst (render rnd1 indent1 t)))) = map atok_of (fst (read_all (fst (render rnd2 indent2 t)))) /\
  map atok_of (fst (read_all (fst (render rnd1 indent1 t)))) = tree_toks t.
Proof.
  intros H1 H2 Hok.
  destruct (render_reads rnd1 indent1 t H1 Hok) as (o1 & k1 & R1 & A1 & E1).
  destruct (render_reads rnd2 indent2 t H2 Hok) as (o2 & k2 & R2 & A2 & E2).
  rewrite R1, R2. cbn [fst]. rewrite A1, A2. cbn [fst snd]. repeat split; congruence.
Qed.

(* indent / detrand only change insignificant whitespace *)
Theorem indent_invariant rnd1 rnd2 indent1 indent2 t :
  indent_ok indent1 = true -> indent_ok indent2 = true -> tree_ok t ->
  squeeze SqOut (fst (render rnd1 indent1 t)) = squeeze SqOut (fst (render rnd2 indent2 t)) /\
  squeeze SqOut (fst (render rnd1 indent1 t)) = compact t.
Proof.
  intros H1 H2 Hok.
  destruct (render_spec rnd1 indent1 t H1 Hok) as (o1 & -> & _ & E1).
  destruct (render_spec rnd2 indent2 t H2 Hok) as (o2 & -> & _ & E2). cbn [fst]. split; congruence.
Qed.
