(* bytes fields: standard base64 with padding on output; decode (encode b) = b through the
   variant selection of unmarshalBytes. *)
From Coq Require Import List NArith ZArith Lia Bool.
From Coq Require Import ZifyBool ZifyNat ZifyN.
From PB Require Import Base.PBytes Json.JsonUtf8 Json.JsonGrammar Json.JsonNumModel Json.JsonNumP
  Json.JsonLexModel Json.JsonEncModel Json.JsonEncP Json.JsonScalarModel.
Import ListNotations.
Open Scope N_scope.
Ltac Zify.zify_post_hook ::= Z.div_mod_to_equations.

Lemma b64_val_char url v : v < 64 -> b64_val url (b64_char url v) = Some v.
Proof.
  intros H. unfold b64_char, b64_val, is_digit, in_range.
  destruct (v <? 26) eqn:E1.
  { rewrite b2n_n2b by lia. replace ((65 <=? 65 + v) && (65 + v <=? 90)) with true by lia. f_equal. lia. }
  destruct (v <? 52) eqn:E2.
  { rewrite b2n_n2b by lia. replace ((65 <=? 71 + v) && (71 + v <=? 90)) with false by lia.
    replace ((97 <=? 71 + v) && (71 + v <=? 122)) with true by lia. f_equal. lia. }
  destruct (v <? 62) eqn:E3.
  { rewrite b2n_n2b by lia. replace ((65 <=? v - 4) && (v - 4 <=? 90)) with false by lia.
    replace ((97 <=? v - 4) && (v - 4 <=? 122)) with false by lia.
    replace ((48 <=? v - 4) && (v - 4 <=? 57)) with true by lia. f_equal. lia. }
  destruct (v =? 62) eqn:E4.
  { destruct url; cbn; f_equal; lia. }
  assert (v = 63) by lia. subst. destruct url; reflexivity.
Qed.

Lemma n2b_of a x : x = b2n a -> n2b x = a.
Proof. intros ->. apply n2b_b2n. Qed.

Lemma is_n2b_false n c : n < 256 -> n <> b2n c -> is (n2b n) c = false.
Proof. intros H1 H2. apply is_b2n_false. now rewrite b2n_n2b. Qed.

Lemma b64_char_std_not_url v : v < 64 -> (is (b64_char false v) c_minus || is (b64_char false v) c_us) = false.
Proof.
  intros H. unfold b64_char. change (b2n c_minus) with 45. 
  assert (Hm : b2n c_minus = 45) by reflexivity. assert (Hu : b2n c_us = 95) by reflexivity.
  destruct (v <? 26) eqn:E1. { rewrite !is_n2b_false; auto; lia. }
  destruct (v <? 52) eqn:E2. { rewrite !is_n2b_false; auto; lia. }
  destruct (v <? 62) eqn:E3. { rewrite !is_n2b_false; auto; lia. }
  destruct (v =? 62); reflexivity.
Qed.

(* four alphabet characters make one quantum *)
Lemma quantum4 f url pad c0 c1 c2 c3 v0 v1 v2 v3 rest :
  b64_val url c0 = Some v0 -> b64_val url c1 = Some v1 -> b64_val url c2 = Some v2 -> b64_val url c3 = Some v3 ->
  b64_quantum (S (S (S (S (S f))))) url pad 0 [] (c0 :: c1 :: c2 :: c3 :: rest) = QOk [v0; v1; v2; v3] rest.
Proof. intros H0 H1 H2 H3. cbn [b64_quantum Nat.eqb]. rewrite H0, H1, H2, H3. reflexivity. Qed.

Lemma quantum_pad2 f c0 c1 v0 v1 :
  b64_val false c0 = Some v0 -> b64_val false c1 = Some v1 ->
  b64_quantum (S (S (S (S (S f))))) false true 0 [] [c0; c1; c_pad; c_pad] = QOk [v0; v1] [].
Proof. intros H0 H1. cbn [b64_quantum Nat.eqb]. rewrite H0, H1. reflexivity. Qed.
Lemma quantum_pad1 f c0 c1 c2 v0 v1 v2 :
  b64_val false c0 = Some v0 -> b64_val false c1 = Some v1 -> b64_val false c2 = Some v2 ->
  b64_quantum (S (S (S (S (S f))))) false true 0 [] [c0; c1; c2; c_pad] = QOk [v0; v1; v2] [].
Proof. intros H0 H1 H2. cbn [b64_quantum Nat.eqb]. rewrite H0, H1, H2. reflexivity. Qed.

Lemma sextets (a b c : N) : a < 256 -> b < 256 -> c < 256 ->
  let v := a * 65536 + b * 256 + c in
  v / 262144 < 64 /\ (v / 4096) mod 64 < 64 /\ (v / 64) mod 64 < 64 /\ v mod 64 < 64 /\
  (let w := v / 262144 * 262144 + (v / 4096) mod 64 * 4096 + (v / 64) mod 64 * 64 + v mod 64 in
   w / 65536 = a /\ (w / 256) mod 256 = b /\ w mod 256 = c).
Proof. intros Ha Hb Hc v. subst v. cbn zeta. repeat split; lia. Qed.

Lemma b64_encode_length_mod s : (length (b64_encode false s) mod 4 = 0)%nat /\ (length s <= length (b64_encode false s))%nat.
Proof.
  assert (H : forall n s, (length s <= n)%nat ->
            (length (b64_encode false s) mod 4 = 0)%nat /\ (length s <= length (b64_encode false s))%nat).
  { induction n as [|n IH]; intros [|a [|b [|c r]]] Hl; cbn [length] in Hl; try lia; cbn [b64_encode length];
      try (split; [reflexivity|lia]).
    destruct (IH r ltac:(lia)) as [H1 H2]. split; [|lia].
    change (S (S (S (S (length (b64_encode false r)))))) with (4 + length (b64_encode false r))%nat.
    rewrite Nat.add_mod by lia. rewrite H1. reflexivity. }
  apply (H (length s)). lia.
Qed.

Lemma b64_encode_std_alphabet s :
  existsb (fun b => is b c_minus || is b c_us) (b64_encode false s) = false.
Proof.
  assert (H : forall n s, (length s <= n)%nat -> existsb (fun b => is b c_minus || is b c_us) (b64_encode false s) = false).
  { induction n as [|n IH]; intros [|a [|b [|c r]]] Hl; cbn [length] in Hl; try lia; cbn [b64_encode existsb]; auto.
    - pose proof (b2n_lt a). rewrite !b64_char_std_not_url by lia. reflexivity.
    - pose proof (b2n_lt a). pose proof (b2n_lt b). rewrite !b64_char_std_not_url by lia. reflexivity.
    - pose proof (b2n_lt a). pose proof (b2n_lt b). pose proof (b2n_lt c).
      rewrite !b64_char_std_not_url by lia. cbn [orb]. apply IH. lia. }
  apply (H (length s)). lia.
Qed.

Theorem b64_decode_encode_loop n : forall s fuel, (length s <= n)%nat -> (length s < fuel)%nat ->
  b64_decode_loop fuel false true (b64_encode false s) = Some s.
Proof.
  induction n as [|n IH]; intros s fuel Hl Hf.
  { destruct s; [|cbn [length] in Hl; lia]. destruct fuel; [lia|]. reflexivity. }
  destruct fuel as [|fuel]; [lia|].
  destruct s as [|a [|b [|c r]]]; cbn [length] in *.
  - reflexivity.
  - (* one byte: xx== *)
    pose proof (b2n_lt a) as Ha. cbn [b64_encode b64_decode_loop length].
    destruct (sextets (b2n a) 0 0 Ha ltac:(lia) ltac:(lia)) as (H0 & H1 & _ & _ & Hw & _). cbn zeta in *.
    replace (b2n a * 65536 + 0 * 256 + 0) with (b2n a * 65536) in * by lia.
    rewrite (quantum_pad2 _ _ _ _ _ (b64_val_char false _ H0) (b64_val_char false _ H1)).
    destruct fuel; [lia|]. cbn [b64_decode_loop length b64_quantum Nat.eqb].
    unfold b64_quantum_bytes. cbn [nth length Nat.sub firstn app].
    repeat f_equal; apply n2b_of; lia.
  - (* two bytes: xxx= *)
    pose proof (b2n_lt a) as Ha. pose proof (b2n_lt b) as Hb. cbn [b64_encode b64_decode_loop length].
    destruct (sextets (b2n a) (b2n b) 0 Ha Hb ltac:(lia)) as (H0 & H1 & H2 & _ & Hw1 & Hw2 & _). cbn zeta in *.
    replace (b2n a * 65536 + b2n b * 256 + 0) with (b2n a * 65536 + b2n b * 256) in * by lia.
    rewrite (quantum_pad1 _ _ _ _ _ _ _ (b64_val_char false _ H0) (b64_val_char false _ H1) (b64_val_char false _ H2)).
    destruct fuel; [lia|]. cbn [b64_decode_loop length b64_quantum Nat.eqb].
    unfold b64_quantum_bytes. cbn [nth length Nat.sub firstn app].
    repeat f_equal; apply n2b_of; lia.
  - (* three bytes *)
    pose proof (b2n_lt a) as Ha. pose proof (b2n_lt b) as Hb. pose proof (b2n_lt c) as Hc.
    cbn [b64_encode b64_decode_loop length].
    destruct (sextets (b2n a) (b2n b) (b2n c) Ha Hb Hc) as (H0 & H1 & H2 & H3 & Hw1 & Hw2 & Hw3). cbn zeta in *.
    rewrite (quantum4 _ false true _ _ _ _ _ _ _ _ _ (b64_val_char false _ H0) (b64_val_char false _ H1)
               (b64_val_char false _ H2) (b64_val_char false _ H3)).
    rewrite (IH r fuel) by lia.
    unfold b64_quantum_bytes. cbn [nth length Nat.sub firstn app].
    repeat f_equal; apply n2b_of; lia.
Qed.

Theorem b64_decode_encode s : b64_decode false true (b64_encode false s) = Some s.
Proof.
  unfold b64_decode. apply (b64_decode_encode_loop (length s)); [lia|].
  pose proof (proj2 (b64_encode_length_mod s)). lia.
Qed.

(* marshalSingular writes padded standard base64 and unmarshalBytes reads it back *)
Theorem bytes_base64_roundtrip b tok :
  t_kind tok = KString -> t_str tok = b64_encode false b -> unmarshal_bytes tok = Some b.
Proof.
  intros Hk Hs. unfold unmarshal_bytes. rewrite Hk, Hs, b64_encode_std_alphabet.
  rewrite (proj1 (b64_encode_length_mod b)). cbn [Nat.eqb]. apply b64_decode_encode.
Qed.
