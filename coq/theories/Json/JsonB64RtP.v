(* JsonB64RtP — the base64 instance of the C20 codec parameter satisfies the hypothesis of the
   round-trip theorem: protojson's bytes decoder (std/url alphabet selection, padding selection)
   inverts base64.StdEncoding on every byte string. *)
From Coq Require Import List Arith NArith ZArith Lia Bool.
From Coq Require Import ZifyBool ZifyNat ZifyN.
From PB Require Import Base.PBytes Json.JsonMsgModel Json.JsonWktLite.
Ltac Zify.zify_post_hook ::= Z.div_mod_to_equations.
Import ListNotations.
Open Scope N_scope.

(* ---------- the arithmetic of one quantum (clean contexts keep lia fast) ---------- *)
Lemma q1_arith a : a < 256 -> let n := a * 16 in
  n / 64 < 64 /\ n mod 64 < 64 /\ (n / 64 * 64 + n mod 64) / 16 = a.
Proof. intros H n. subst n. lia. Qed.

Lemma q2_arith a b : a < 256 -> b < 256 -> let n := a * 1024 + b * 4 in
  n / 4096 < 64 /\ (n / 64) mod 64 < 64 /\ n mod 64 < 64 /\
  n / 4096 * 4096 + (n / 64) mod 64 * 64 + n mod 64 = n /\ n / 1024 = a /\ (n / 4) mod 256 = b.
Proof. intros Ha Hb n. subst n. repeat split; lia. Qed.

Lemma q3_arith a b c : a < 256 -> b < 256 -> c < 256 -> let n := a * 65536 + b * 256 + c in
  n / 262144 < 64 /\ (n / 4096) mod 64 < 64 /\ (n / 64) mod 64 < 64 /\ n mod 64 < 64 /\
  n / 262144 * 262144 + (n / 4096) mod 64 * 4096 + (n / 64) mod 64 * 64 + n mod 64 = n /\
  n / 65536 = a /\ (n / 256) mod 256 = b /\ n mod 256 = c.
Proof. intros Ha Hb Hc n. subst n. repeat split; lia. Qed.

Definition sixbits : list N := map N.of_nat (seq 0 64).

Lemma sixbits_in n : n < 64 -> In n sixbits.
Proof.
  intros H. unfold sixbits. apply in_map_iff. exists (N.to_nat n). split; [lia|]. apply in_seq. lia.
Qed.

Lemma b64_char_facts n : n < 64 ->
  b64_val false (b64_char n) = Some n /\ is_pad (b64_char n) = false /\
  ((b2n (b64_char n) =? 45) || (b2n (b64_char n) =? 95)) = false.
Proof.
  intros H.
  assert (Hall : forallb (fun n => match b64_val false (b64_char n) with Some m => m =? n | None => false end
                                   && negb (is_pad (b64_char n))
                                   && negb ((b2n (b64_char n) =? 45) || (b2n (b64_char n) =? 95))) sixbits = true)
    by (vm_compute; reflexivity).
  rewrite forallb_forall in Hall. specialize (Hall n (sixbits_in n H)).
  apply andb_prop in Hall. destruct Hall as [Hall H3]. apply andb_prop in Hall. destruct Hall as [H1 H2].
  destruct (b64_val false (b64_char n)) as [m|]; [|discriminate]. apply N.eqb_eq in H1. subst m.
  apply negb_true_iff in H2, H3. repeat split; assumption.
Qed.

Lemma list3_ind (P : list byte -> Prop) :
  P [] -> (forall a, P [a]) -> (forall a b, P [a; b]) ->
  (forall a b c r, P r -> P (a :: b :: c :: r)) -> forall l, P l.
Proof.
  intros H0 H1 H2 H3 l.
  assert (H : forall n l, (length l <= n)%nat -> P l).
  { induction n as [|n IH]; intros l' Hl.
    - destruct l'; [exact H0|cbn in Hl; lia].
    - destruct l' as [|a [|b [|c r]]]; [exact H0|apply H1|apply H2|].
      apply H3. apply IH. cbn [length] in Hl. lia. }
  apply (H (length l)). lia.
Qed.

Definition no_url (s : list byte) : Prop := existsb (fun c => (b2n c =? 45) || (b2n c =? 95)) s = false.

Lemma pad_no_url : ((b2n x3d =? 45) || (b2n x3d =? 95)) = false. Proof. reflexivity. Qed.

Lemma b64_encode_props l :
  no_url (b64_encode l) /\ (N.of_nat (length (b64_encode l)) mod 4 = 0) /\
  b64_dec_aux false true (b64_encode l) = Some l.
Proof.
  induction l as [|a|a b|a b c r IH] using list3_ind.
  - repeat split; reflexivity.
  - (* one byte *)
    destruct (q1_arith (b2n a) (b2n_lt a)) as (H1 & H2 & E1). set (n := b2n a * 16) in *.
    destruct (b64_char_facts _ H1) as (V1 & P1 & U1). destruct (b64_char_facts _ H2) as (V2 & P2 & U2).
    cbn [b64_encode]. fold n. split; [|split].
    + unfold no_url. cbn [existsb]. rewrite U1, U2, pad_no_url. reflexivity.
    + reflexivity.
    + cbn [b64_dec_aux andb]. change (is_pad x3d) with true. cbn iota. unfold b64_q2. rewrite V1, V2.
      rewrite E1, n2b_b2n. reflexivity.
  - (* two bytes *)
    destruct (q2_arith (b2n a) (b2n b) (b2n_lt a) (b2n_lt b)) as (H1 & H2 & H3 & Em & Ea & Eb).
    set (n := b2n a * 1024 + b2n b * 4) in *.
    destruct (b64_char_facts _ H1) as (V1 & P1 & U1). destruct (b64_char_facts _ H2) as (V2 & P2 & U2).
    destruct (b64_char_facts _ H3) as (V3 & P3 & U3).
    cbn [b64_encode]. fold n. split; [|split].
    + unfold no_url. cbn [existsb]. rewrite U1, U2, U3, pad_no_url. reflexivity.
    + reflexivity.
    + cbn [b64_dec_aux andb]. change (is_pad x3d) with true. rewrite P3. cbn iota. unfold b64_q3. rewrite V1, V2, V3.
      rewrite Em, Ea, Eb, !n2b_b2n. reflexivity.
  - (* three bytes and the rest *)
    destruct IH as (IHu & IHl & IHd).
    destruct (q3_arith (b2n a) (b2n b) (b2n c) (b2n_lt a) (b2n_lt b) (b2n_lt c)) as (H1 & H2 & H3 & H4 & Em & Ea & Eb & Ec).
    set (n := b2n a * 65536 + b2n b * 256 + b2n c) in *.
    destruct (b64_char_facts _ H1) as (V1 & P1 & U1). destruct (b64_char_facts _ H2) as (V2 & P2 & U2).
    destruct (b64_char_facts _ H3) as (V3 & P3 & U3). destruct (b64_char_facts _ H4) as (V4 & P4 & U4).
    cbn [b64_encode]. fold n.
    assert (Hq : b64_q4 false (b64_char (n / 262144)) (b64_char ((n / 4096) mod 64)) (b64_char ((n / 64) mod 64))
                        (b64_char (n mod 64)) = Some [a; b; c]).
    { unfold b64_q4. rewrite V1, V2, V3, V4.
      rewrite Em, Ea, Eb, Ec, !n2b_b2n. reflexivity. }
    split; [|split].
    + unfold no_url in *. cbn [existsb]. rewrite U1, U2, U3, U4. exact IHu.
    + cbn [length]. clear - IHl. lia.
    + cbn [b64_dec_aux]. destruct (b64_encode r) as [|x r'] eqn:Er.
      * (* the last quantum *)
        rewrite P4. cbn [andb]. rewrite Hq.
        destruct r as [|? [|? [|? ?]]]; cbn [b64_encode] in Er; try discriminate. reflexivity.
      * rewrite Hq, IHd. reflexivity.
Qed.

Theorem b64_roundtrip bs : b64_decode (b64_encode bs) = Some bs.
Proof.
  destruct (b64_encode_props bs) as (Hu & Hl & Hd).
  unfold b64_decode. unfold no_url in Hu. rewrite Hu.
  assert ((N.of_nat (length (b64_encode bs)) mod 4 =? 0) = true) as -> by (apply N.eqb_eq; exact Hl).
  exact Hd.
Qed.

Theorem std_codec_b64 bs : b64_dec std_codec (b64_enc std_codec bs) = Some bs.
Proof. exact (b64_roundtrip bs). Qed.
