(* Model of the token-based JSON Decoder of internal/encoding/json:
   decode_string.go (parseString), decode.go (parseNext, consume, isValueNext, Read,
   Position).  Definitions only.  Peek/Clone (a one-token cache and a copy) are not
   modelled. *)
From Coq Require Import List NArith ZArith Bool.
From PB Require Import Base.PBytes Json.JsonUtf8 Json.JsonGrammar Json.JsonNumModel.
Import ListNotations.
Open Scope N_scope.

(* ---------- Kind / Token ---------- *)
Inductive kind := KInvalid | KEOF | KNull | KBool | KNumber | KString | KName
                | KObjOpen | KObjClose | KArrOpen | KArrClose | KComma.

Definition kind_eqb (a b : kind) : bool :=
  match a, b with
  | KInvalid, KInvalid | KEOF, KEOF | KNull, KNull | KBool, KBool | KNumber, KNumber
  | KString, KString | KName, KName | KObjOpen, KObjOpen | KObjClose, KObjClose
  | KArrOpen, KArrOpen | KArrClose, KArrClose | KComma, KComma => true
  | _, _ => false
  end.

Record token := { t_kind : kind; t_pos : nat; t_raw : list byte; t_boo : bool; t_str : list byte }.

(* error classes; syntax errors carry the byte offset handed to newSyntaxError *)
Inductive jerr :=
| EUnexpectedEOF
| ESyntax (code : N) (pos : nat)
| EFuel.                                  (* model artefact, excluded by the theorems *)
Definition e_unexpected_token : N := 1.   (* "unexpected token %s" *)
Definition e_invalid_value : N := 2.      (* "invalid value %s" *)
Definition e_invalid_utf8 : N := 3.       (* "invalid UTF-8 in string" *)
Definition e_invalid_char : N := 4.       (* "invalid character %q in string" *)
Definition e_invalid_escape : N := 5.     (* "invalid escape code %q in string" *)
Definition e_missing_colon : N := 6.      (* "unexpected character %s, missing ":" after field name" *)
Definition e_string_start : N := 7.       (* "invalid character %q at start of string" (unreachable from parseNext) *)

Inductive res (A : Type) := Ok (a : A) | Err (e : jerr).
Arguments Ok {A} _.
Arguments Err {A} _.

(* ---------- parseString ---------- *)
Definition hex_val (b : byte) : option N :=
  if is_digit b then Some (b2n b - 48)
  else if in_range 97 102 b then Some (b2n b - 87)
  else if in_range 65 70 b then Some (b2n b - 55)
  else None.
(* strconv.ParseUint(string(in[2:6]), 16, 16) *)
Definition hex4 (a b c d : byte) : option N :=
  match hex_val a, hex_val b, hex_val c, hex_val d with
  | Some x, Some y, Some z, Some w => Some (x * 4096 + y * 256 + z * 16 + w)
  | _, _, _, _ => None
  end.
Definition is_surrogate (r : N) : bool := (55296 <=? r) && (r <? 57344).
(* utf16.DecodeRune *)
Definition decode_surrogates (r1 r2 : N) : N :=
  if (55296 <=? r1) && (r1 <? 56320) && (56320 <=? r2) && (r2 <? 57344)
  then (r1 - 55296) * 1024 + (r2 - 56320) + 65536 else rune_error.

Inductive sres :=
| SOk (decoded rest : list byte)
| SErrEOF
| SErr (code : N)
| SFuel.
Definition s_app (pre : list byte) (r : sres) : sres :=
  match r with SOk d rest => SOk (pre ++ d) rest | _ => r end.

(* the loop of parseString after the opening quote, one rune or escape per step
   (the indexNeedEscapeInBytes fast path skips several such steps at once) *)
Fixpoint parse_string_loop (fuel : nat) (inp : list byte) : sres :=
  match fuel with
  | O => SFuel
  | S f =>
    match inp with
    | [] => SErrEOF
    | b :: r =>
      let d := decode_rune inp in
      if is_bad_rune d then SErr e_invalid_utf8
      else if fst d <? 32 then SErr e_invalid_char
      else if is b c_quote then SOk [] r
      else if is b c_bslash then
        match r with
        | [] => SErrEOF
        | e :: r1 =>
          if is e c_quote || is e c_bslash || is e c_slash then s_app [e] (parse_string_loop f r1)
          else if is e "b"%byte then s_app [x08] (parse_string_loop f r1)
          else if is e "f"%byte then s_app [x0c] (parse_string_loop f r1)
          else if is e "n"%byte then s_app [x0a] (parse_string_loop f r1)
          else if is e "r"%byte then s_app [x0d] (parse_string_loop f r1)
          else if is e "t"%byte then s_app [x09] (parse_string_loop f r1)
          else if is e c_u then
            match r1 with
            | h1 :: h2 :: h3 :: h4 :: r2 =>
              match hex4 h1 h2 h3 h4 with
              | None => SErr e_invalid_escape
              | Some v =>
                if is_surrogate v then
                  match r2 with
                  | b0 :: b1 :: g1 :: g2 :: g3 :: g4 :: r3 =>
                    let ov2 := hex4 g1 g2 g3 g4 in
                    let rr := decode_surrogates v (match ov2 with Some v2 => v2 | None => 0 end) in
                    if negb (is b0 c_bslash) || negb (is b1 c_u) || (rr =? rune_error)
                       || match ov2 with None => true | Some _ => false end
                    then SErr e_invalid_escape
                    else s_app (encode_rune rr) (parse_string_loop f r3)
                  | _ => SErrEOF
                  end
                else s_app (encode_rune v) (parse_string_loop f r2)
              end
            | _ => SErrEOF
            end
          else SErr e_invalid_escape
        end
      else s_app (firstn (snd d) inp) (parse_string_loop f (skipn (snd d) inp))
    end
  end.

(* parseString: (decoded string, number of input bytes) *)
Definition parse_string_at (pos : nat) (inp : list byte) : res (list byte * nat) :=
  match inp with
  | [] => Err EUnexpectedEOF
  | b :: r =>
    if is b c_quote then
      match parse_string_loop (S (length r)) r with
      | SOk d rest => Ok (d, (length inp - length rest)%nat)
      | SErrEOF => Err EUnexpectedEOF
      | SErr c => Err (ESyntax c pos)
      | SFuel => Err EFuel
      end
    else Err (ESyntax e_string_start pos)
  end.

(* ---------- Decoder ---------- *)
Record dstate := { d_last : kind; d_stack : list kind; d_pos : nat; d_in : list byte }.
Definition d_init (b : list byte) : dstate := {| d_last := KInvalid; d_stack := []; d_pos := 0; d_in := b |}.

(* consume(n): drop n bytes and any following whitespace *)
Definition consume (n : nat) (st : dstate) : dstate :=
  let a := skipn n (d_in st) in
  let a' := skip_ws a in
  {| d_last := d_last st; d_stack := d_stack st;
     d_pos := (d_pos st + (length (d_in st) - length a'))%nat; d_in := a' |}.

Definition mk_token (k : kind) (size : nat) (boo : bool) (str : list byte) (st : dstate) : token * dstate :=
  ({| t_kind := k; t_pos := d_pos st; t_raw := firstn size (d_in st); t_boo := boo; t_str := str |},
   consume size st).

(* matchWithDelim *)
Definition match_with_delim (s b : list byte) : nat :=
  match strip_prefix s b with
  | None => 0%nat
  | Some [] => length s
  | Some (c :: _) => if is_not_delim c then 0%nat else length s
  end.

(* parseNext *)
Definition parse_next (st0 : dstate) : res (token * dstate) :=
  let st := consume 0 st0 in
  let inp := d_in st in
  let invalid := Err (ESyntax e_invalid_value (d_pos st)) in
  match inp with
  | [] => Ok (mk_token KEOF 0 false [] st)
  | b :: _ =>
    if is b "n"%byte then
      match match_with_delim lit_null inp with O => invalid | n => Ok (mk_token KNull n false [] st) end
    else if is b "t"%byte then
      match match_with_delim lit_true inp with O => invalid | n => Ok (mk_token KBool n true [] st) end
    else if is b "f"%byte then
      match match_with_delim lit_false inp with O => invalid | n => Ok (mk_token KBool n false [] st) end
    else if is b c_minus || is_digit b then
      match parse_number inp with None => invalid | Some n => Ok (mk_token KNumber n false [] st) end
    else if is b c_quote then
      match parse_string_at (d_pos st) inp with
      | Err e => Err e
      | Ok (s, n) => Ok (mk_token KString n false s st)
      end
    else if is b c_lbrace then Ok (mk_token KObjOpen 1 false [] st)
    else if is b c_rbrace then Ok (mk_token KObjClose 1 false [] st)
    else if is b c_lbrack then Ok (mk_token KArrOpen 1 false [] st)
    else if is b c_rbrack then Ok (mk_token KArrClose 1 false [] st)
    else if is b c_comma then Ok (mk_token KComma 1 false [] st)
    else invalid
  end.

Definition is_scalar (k : kind) : bool :=
  match k with KNull | KBool | KNumber | KString => true | _ => false end.
Definition is_value_end (k : kind) : bool :=
  match k with KNull | KBool | KNumber | KString | KObjClose | KArrClose => true | _ => false end.

(* isValueNext *)
Definition is_value_next (st : dstate) : bool :=
  match d_stack st with
  | [] => kind_eqb (d_last st) KInvalid
  | KObjOpen :: _ => kind_eqb (d_last st) KName
  | KArrOpen :: _ => kind_eqb (d_last st) KArrOpen || kind_eqb (d_last st) KComma
  | _ => false    (* the code panics here; unreachable: only ObjectOpen/ArrayOpen are pushed *)
  end.

Definition set_last (k : kind) (st : dstate) : dstate :=
  {| d_last := k; d_stack := d_stack st; d_pos := d_pos st; d_in := d_in st |}.
Definition set_stack (s : list kind) (st : dstate) : dstate :=
  {| d_last := d_last st; d_stack := s; d_pos := d_pos st; d_in := d_in st |}.
Definition set_kind (k : kind) (t : token) : token :=
  {| t_kind := k; t_pos := t_pos t; t_raw := t_raw t; t_boo := t_boo t; t_str := t_str t |}.

(* one pass through Read's switch (a comma is returned as a token here) *)
Definition read_step (st0 : dstate) : res (token * dstate) :=
  match parse_next st0 with
  | Err e => Err e
  | Ok (tok, st) =>
    let unexpected := Err (ESyntax e_unexpected_token (t_pos tok)) in
    let accept (tok : token) (st : dstate) := Ok (tok, set_last (t_kind tok) st) in
    match t_kind tok with
    | KEOF =>
      (* `len(d.openStack) != 0 || d.lastToken.kind&scalar|ObjectClose|ArrayClose == 0`:
         & binds tighter than |, so the second disjunct is constantly false *)
      match d_stack st with [] => accept tok st | _ => Err EUnexpectedEOF end
    | KNull | KBool | KNumber =>
      if is_value_next st then accept tok st else unexpected
    | KString =>
      if is_value_next st then accept tok st
      else if negb (kind_eqb (d_last st) KObjOpen || kind_eqb (d_last st) KComma) then unexpected
      else match d_in st with
           | [] => Err EUnexpectedEOF
           | c :: _ => if is c c_colon then accept (set_kind KName tok) (consume 1 st)
                       else Err (ESyntax e_missing_colon (d_pos st))
           end
    | KObjOpen | KArrOpen =>
      if is_value_next st then accept tok (set_stack (t_kind tok :: d_stack st) st) else unexpected
    | KObjClose =>
      match d_stack st with
      | KObjOpen :: rest =>
        if kind_eqb (d_last st) KName || kind_eqb (d_last st) KComma then unexpected
        else accept tok (set_stack rest st)
      | _ => unexpected
      end
    | KArrClose =>
      match d_stack st with
      | KArrOpen :: rest =>
        if kind_eqb (d_last st) KComma then unexpected else accept tok (set_stack rest st)
      | _ => unexpected
      end
    | KComma =>
      match d_stack st with
      | [] => unexpected
      | _ => if is_value_end (d_last st) then accept tok st else unexpected
      end
    | _ => unexpected    (* parseNext produces no other kind *)
    end
  end.

(* Read: a comma is consumed and Read is called again (the second call can never
   yield a comma: see JsonLexP.read_step_after_comma) *)
Definition read (st : dstate) : res (token * dstate) :=
  match read_step st with
  | Err e => Err e
  | Ok (tok, st') =>
    match t_kind tok with
    | KComma => read_step st'
    | _ => Ok (tok, st')
    end
  end.

(* drive Read until EOF or error, collecting the tokens before EOF *)
Fixpoint read_all_from (fuel : nat) (st : dstate) : list token * option jerr :=
  match fuel with
  | O => ([], Some EFuel)
  | S f =>
    match read st with
    | Err e => ([], Some e)
    | Ok (tok, st') =>
      match t_kind tok with
      | KEOF => ([], None)
      | _ => let '(l, e) := read_all_from f st' in (tok :: l, e)
      end
    end
  end.
Definition read_all (input : list byte) : list token * option jerr :=
  read_all_from (S (length input)) (d_init input).

(* Decoder.Position: line and column of a byte offset *)
Fixpoint last_line (acc : list byte) (b : list byte) : N * list byte :=
  match b with
  | [] => (0, acc)
  | c :: r => if is c c_lf then let '(n, a) := last_line r r in (n + 1, a)
              else last_line acc r
  end.
Definition position (orig : list byte) (idx : nat) : N * N :=
  let b := firstn idx orig in
  let '(nl, tail) := last_line b b in
  (nl + 1, rune_count tail + 1).
