(* Decoder completeness: every strict JSON text (JsonStrict.v) is read to EOF by the Decoder
   model, yielding exactly the tokens of its derivation. *)
From Coq Require Import List NArith ZArith Lia Bool.
From Coq Require Import ZifyBool ZifyNat ZifyN.
From PB Require Import Base.PBytes Json.JsonUtf8 Json.JsonGrammar Json.JsonNumModel Json.JsonNumP
  Json.JsonLexModel Json.JsonStrP Json.JsonLexP Json.JsonEncModel Json.JsonEncP Json.JsonStrict.
Import ListNotations.
Open Scope N_scope.

Ltac eval_is :=
  repeat match goal with
         | |- context [is ?a ?b] =>
           let v := eval vm_compute in (is a b) in
           match v with true => change (is a b) with true | false => change (is a b) with false end
         end.

(* ---------- strings ---------- *)
Lemma rfc3629_decode c : rfc3629_char c = true ->
  exists r, (forall X, decode_rune (c ++ X) = (r, length c)) /\ is_bad_rune (r, length c) = false /\
            (forall b, c = [b] -> r = b2n b) /\
            (forall b c', c = b :: c' -> (2 <= length c)%nat -> 128 <= b2n b /\ 128 <= r).
Proof.
  unfold is_bad_rune, rune_error. cbn [fst snd].
  destruct c as [|b0 [|b1 [|b2 [|b3 [|b4 c]]]]]; cbn [rfc3629_char length app]; try discriminate;
    unfold utf8_tail, in_range; intros H; unfold decode_rune, cont, rune_error.
  - exists (b2n b0). split; [intros X; replace (b2n b0 <? 128) with true by lia; reflexivity|].
    split; [lia|]. split; [intros b [= ->]; reflexivity|]. intros b c' [= -> <-]. cbn [length]. lia.
  - eexists. split; [intros X|].
    { replace (b2n b0 <? 128) with false by lia. replace (b2n b0 <? 194) with false by lia.
      replace (b2n b0 <? 224) with true by lia. replace ((128 <=? b2n b1) && (b2n b1 <? 192)) with true by lia. reflexivity. }
    split; [lia|]. split; [intros b [=]|]. intros b c' [= -> <-] _. lia.
  - eexists. split; [intros X|].
    { replace (b2n b0 <? 128) with false by lia. replace (b2n b0 <? 194) with false by lia.
      replace (b2n b0 <? 224) with false by lia. replace (b2n b0 <? 240) with true by lia.
      match goal with |- context [if ?c then _ else _] => replace c with true end; [reflexivity|].
      destruct (b2n b0 =? 224) eqn:Ea; destruct (b2n b0 =? 237) eqn:Eb; lia. }
    split; [lia|]. split; [intros b [=]|]. intros b c' [= -> <-] _. lia.
  - eexists. split; [intros X|].
    { replace (b2n b0 <? 128) with false by lia. replace (b2n b0 <? 194) with false by lia.
      replace (b2n b0 <? 224) with false by lia. replace (b2n b0 <? 240) with false by lia.
      replace (b2n b0 <? 245) with true by lia.
      match goal with |- context [if ?c then _ else _] => replace c with true end; [reflexivity|].
      destruct (b2n b0 =? 240) eqn:Ea; destruct (b2n b0 =? 244) eqn:Eb; lia. }
    split; [lia|]. split; [intros b [=]|]. intros b c' [= -> <-] _. lia.
Qed.

Lemma simple_esc_cases e : is_simple_esc e = true ->
  e = c_quote \/ e = c_bslash \/ e = c_slash \/ e = "b"%byte \/ e = "f"%byte \/ e = "n"%byte \/ e = "r"%byte \/ e = "t"%byte.
Proof.
  unfold is_simple_esc. rewrite !orb_true_iff. intros H.
  repeat match type of H with _ \/ _ => destruct H as [H|H] end; apply is_true in H; auto 10.
Qed.

Theorem parse_string_loop_complete body d : schars body d ->
  forall rest fuel, (length body < fuel)%nat -> parse_string_loop fuel (body ++ c_quote :: rest) = SOk d rest.
Proof.
  induction 1 as [|c rest0 d Hc Hu Hs IH|e rest0 d He Hs IH|h1 h2 h3 h4 v rest0 d Hh Hsur Hs IH
                  |h1 h2 h3 h4 g1 g2 g3 g4 v1 v2 rest0 d Hh Hg Hv1 Hv2 Hs IH];
    intros rest fuel Hf; (destruct fuel as [|f]; [lia|]).
  - cbn [app parse_string_loop]. rewrite (decode_rune_ascii c_quote rest) by (cbn; lia). reflexivity.
  - destruct (rfc3629_decode c Hc) as (r & Hdec & Hbad & H1 & H2).
    destruct c as [|b c']; [discriminate|].
    rewrite <- app_assoc. cbn [app parse_string_loop].
    change (b :: c' ++ rest0 ++ c_quote :: rest) with ((b :: c') ++ rest0 ++ c_quote :: rest).
    rewrite Hdec, Hbad. cbn [fst snd].
    assert (Hr : (r <? 32) = false /\ is b c_quote = false /\ is b c_bslash = false).
    { destruct c' as [|b1 c''].
      - rewrite (H1 b eq_refl). cbn [unescaped] in Hu. apply andb_true_iff in Hu as [Hu Hu3].
        apply andb_true_iff in Hu as [Hu1 Hu2]. apply negb_true_iff in Hu2, Hu3. repeat split; auto. lia.
      - destruct (H2 b (b1 :: c'') eq_refl ltac:(cbn [length]; lia)) as [Hb Hr].
        repeat split; [lia| |]; apply is_b2n_false; cbn; lia. }
    destruct Hr as (-> & -> & ->).
    rewrite firstn_len_app. rewrite skipn_app, Nat.sub_diag, skipn_all. cbn [skipn app].
    rewrite IH by (rewrite app_length in Hf; cbn [length] in *; lia). reflexivity.
  - cbn [app parse_string_loop]. rewrite (decode_rune_ascii c_bslash) by (cbn; lia).
    change (is_bad_rune (b2n c_bslash, 1%nat)) with false. cbn [fst snd].
    change (b2n c_bslash <? 32) with false. eval_is. cbv iota.
    rewrite IH by (cbn [length] in Hf; lia).
    destruct (simple_esc_cases e He) as [->|[->|[->|[->|[->|[->|[->| ->]]]]]]]; reflexivity.
  - cbn [app parse_string_loop]. rewrite (decode_rune_ascii c_bslash) by (cbn; lia).
    change (is_bad_rune (b2n c_bslash, 1%nat)) with false. cbn [fst snd].
    change (b2n c_bslash <? 32) with false. eval_is. cbv iota.
    rewrite Hh, Hsur. rewrite IH by (cbn [length] in Hf; lia). reflexivity.
  - cbn [app parse_string_loop]. rewrite (decode_rune_ascii c_bslash) by (cbn; lia).
    change (is_bad_rune (b2n c_bslash, 1%nat)) with false. cbn [fst snd].
    change (b2n c_bslash <? 32) with false. eval_is. cbv iota.
    rewrite Hh. replace (is_surrogate v1) with true by (unfold is_surrogate; lia).
    rewrite Hg. eval_is. cbn [negb orb].
    assert (Hrr : (decode_surrogates v1 v2 =? rune_error) = false).
    { unfold decode_surrogates, rune_error.
      replace ((55296 <=? v1) && (v1 <? 56320) && (56320 <=? v2) && (v2 <? 57344)) with true by lia. lia. }
    rewrite Hrr. cbn [orb]. rewrite IH by (cbn [length] in Hf; lia). reflexivity.
Qed.

Theorem parse_string_at_complete s d rest pos : sstring s d ->
  parse_string_at pos (s ++ rest) = Ok (d, length s).
Proof.
  intros (body & -> & Hb). cbn [app parse_string_at]. eval_is. cbv iota.
  rewrite <- app_assoc. cbn [app].
  rewrite (parse_string_loop_complete body d Hb rest) by (rewrite ?app_length; cbn [length]; lia).
  f_equal. f_equal. cbn [length]. rewrite ?app_length. cbn [length]. rewrite ?app_length. cbn [length]. lia.
Qed.

(* ---------- whitespace / delimiters ---------- *)
Lemma skip_ws_head b r : is_ws b = false -> skip_ws (b :: r) = b :: r.
Proof. intros H. cbn [skip_ws]. now rewrite H. Qed.
Lemma skip_ws_app w s : ws w -> skip_ws (w ++ s) = skip_ws s.
Proof.
  unfold ws. induction w as [|b w IH]; intros H; [reflexivity|]. cbn [forallb] in H.
  apply andb_true_iff in H as [Hb Hw]. cbn [app skip_ws]. rewrite Hb. auto.
Qed.
Lemma ws_not_delim b : is_ws b = true -> is_not_delim b = false.
Proof.
  unfold is_ws. rewrite !orb_true_iff. intros [[[H|H]|H]|H]; apply is_true in H; subst; reflexivity.
Qed.
Lemma delim_ws_app w rest : ws w -> delim_or_end rest = true -> delim_or_end (w ++ rest) = true.
Proof.
  destruct w as [|b w]; auto. unfold ws. cbn [forallb app delim_or_end]. intros H _.
  apply andb_true_iff in H as [Hb _]. now rewrite (ws_not_delim b Hb).
Qed.

(* first byte of a value *)
Definition head_nonws (s : list byte) : Prop := match s with b :: _ => is_ws b = false | [] => False end.
Lemma skip_ws_nonws s : head_nonws s -> skip_ws s = s.
Proof. destruct s; [contradiction|]. apply skip_ws_head. Qed.
Lemma head_nonws_app s r : head_nonws s -> head_nonws (s ++ r).
Proof. destruct s; [contradiction|auto]. Qed.

Lemma rfc_number_head s : rfc_number s -> exists b r, s = b :: r /\ (is_digit b = true \/ b = c_minus).
Proof.
  intros [m i f e Hm Hi _ _]. destruct Hm as [-> | ->]; [|exists c_minus; eexists; split; [reflexivity|auto]].
  destruct Hi as [|b d Hb _]; cbn [app]; eexists _, _; (split; [reflexivity|left]); [reflexivity|].
  now apply is_digit19_digit.
Qed.
Lemma numhead_facts b : is_digit b = true \/ b = c_minus ->
  is_ws b = false /\ is b "n"%byte = false /\ is b "t"%byte = false /\ is b "f"%byte = false /\
  (is b c_minus || is_digit b) = true.
Proof.
  intros [H | ->]; [|repeat split; reflexivity].
  pose proof H as H'. apply is_digit_b2n in H'. unfold is_ws.
  rewrite H, orb_true_r. rewrite !is_b2n_false by (cbn; lia). repeat split.
Qed.

(* ---------- parseNext on a known lexeme ---------- *)
Definition pn_result (st : dstate) (a : atok) (rest : list byte) : Prop :=
  exists tok st', parse_next st = Ok (tok, st') /\ atok_of tok = a /\ d_in st' = skip_ws rest /\
                  d_last st' = d_last st /\ d_stack st' = d_stack st.

Lemma mk_token_ok st k raw boo str rest : d_in (consume 0 st) = raw ++ rest ->
  exists tok st', mk_token k (length raw) boo str (consume 0 st) = (tok, st') /\ atok_of tok = (k, raw, boo, str) /\
                  d_in st' = skip_ws rest /\ d_last st' = d_last st /\ d_stack st' = d_stack st.
Proof.
  intros H. unfold mk_token. eexists _, _. split; [reflexivity|]. unfold atok_of. cbn [t_kind t_raw t_boo t_str].
  rewrite H, firstn_len_app. split; [reflexivity|].
  set (st1 := consume 0 st) in *.
  assert (Hl : d_last st1 = d_last st /\ d_stack st1 = d_stack st) by (subst st1; unfold consume; cbn; auto).
  unfold consume. cbn [d_in d_last d_stack]. rewrite H, skipn_app, Nat.sub_diag, skipn_all. cbn [skipn app].
  tauto.
Qed.

Lemma consume0_in st s : d_in st = s -> head_nonws s -> d_in (consume 0 st) = s.
Proof. intros H Hh. unfold consume. cbn [d_in skipn]. rewrite H. now apply skip_ws_nonws. Qed.

Lemma strip_prefix_app lit rest : strip_prefix lit (lit ++ rest) = Some rest.
Proof. induction lit as [|a l IH]; [reflexivity|]. cbn [app strip_prefix]. now rewrite is_refl. Qed.
Lemma match_with_delim_app lit rest : delim_or_end rest = true -> match_with_delim lit (lit ++ rest) = length lit.
Proof.
  intros H. unfold match_with_delim. rewrite strip_prefix_app. destruct rest as [|c r]; auto.
  cbn [delim_or_end] in H. apply negb_true_iff in H. now rewrite H.
Qed.

Lemma pn_literal st lit k boo rest :
  (lit = lit_null /\ k = KNull /\ boo = false \/ lit = lit_true /\ k = KBool /\ boo = true \/
   lit = lit_false /\ k = KBool /\ boo = false) ->
  d_in st = lit ++ rest -> delim_or_end rest = true -> pn_result st (k, lit, boo, []) rest.
Proof.
  intros Hl Hin Hd.
  assert (Hc : d_in (consume 0 st) = lit ++ rest).
  { apply consume0_in; auto. destruct Hl as [(-> & _) | [(-> & _) | (-> & _)]]; reflexivity. }
  destruct (mk_token_ok st k lit boo [] rest Hc) as (tok & st' & Hmk & Ha & H1 & H2 & H3).
  exists tok, st'. split; [|auto]. unfold parse_next. rewrite Hc.
  pose proof (match_with_delim_app lit rest Hd) as Hm.
  destruct Hl as [(-> & -> & ->) | [(-> & -> & ->) | (-> & -> & ->)]];
    unfold lit_null, lit_true, lit_false in *; cbn [app length] in *; eval_is; cbv iota;
    rewrite Hm; rewrite Hmk; reflexivity.
Qed.

Lemma pn_number st s rest : rfc_number s -> d_in st = s ++ rest -> delim_or_end rest = true ->
  pn_result st (KNumber, s, false, []) rest.
Proof.
  intros Hn Hin Hd. destruct (rfc_number_head s Hn) as (b & r & Es & Hb).
  destruct (numhead_facts b Hb) as (Hws & Hn1 & Hn2 & Hn3 & Hnum).
  assert (Hc : d_in (consume 0 st) = s ++ rest).
  { apply consume0_in; auto. rewrite Es. exact Hws. }
  destruct (mk_token_ok st KNumber s false [] rest Hc) as (tok & st' & Hmk & Ha & H1 & H2 & H3).
  exists tok, st'. split; [|auto]. unfold parse_next. rewrite Hc.
  pose proof (parse_number_complete s rest Hn Hd) as Hp.
  rewrite Es in *. cbn [app] in *. rewrite Hn1, Hn2, Hn3, Hnum, Hp, Hmk. reflexivity.
Qed.

Lemma pn_string st s d rest : sstring s d -> d_in st = s ++ rest -> pn_result st (KString, s, false, d) rest.
Proof.
  intros Hs Hin.
  assert (Hc : d_in (consume 0 st) = s ++ rest).
  { apply consume0_in; auto. destruct Hs as (body & -> & _). reflexivity. }
  destruct (mk_token_ok st KString s false d rest Hc) as (tok & st' & Hmk & Ha & H1 & H2 & H3).
  exists tok, st'. split; [|auto]. unfold parse_next. rewrite Hc.
  rewrite (parse_string_at_complete s d rest _ Hs).
  destruct Hs as (body & -> & _). cbn [app]. eval_is. change (is_digit c_quote) with false. cbv iota.
  cbn [app] in Hmk. rewrite Hmk. reflexivity.
Qed.

Lemma pn_punct st k c rest :
  (k = KObjOpen /\ c = c_lbrace \/ k = KObjClose /\ c = c_rbrace \/ k = KArrOpen /\ c = c_lbrack \/
   k = KArrClose /\ c = c_rbrack \/ k = KComma /\ c = c_comma) ->
  d_in st = c :: rest -> pn_result st (k, [c], false, []) rest.
Proof.
  intros Hk Hin.
  assert (Hc : d_in (consume 0 st) = [c] ++ rest).
  { apply consume0_in; auto. destruct Hk as [(_ & ->) | [(_ & ->) | [(_ & ->) | [(_ & ->) | (_ & ->)]]]]; reflexivity. }
  destruct (mk_token_ok st k [c] false [] rest Hc) as (tok & st' & Hmk & Ha & H1 & H2 & H3).
  exists tok, st'. split; [|auto]. unfold parse_next. rewrite Hc. cbn [length app] in *.
  destruct Hk as [(-> & ->) | [(-> & ->) | [(-> & ->) | [(-> & ->) | (-> & ->)]]]]; eval_is;
    try change (is_digit c_lbrace) with false; try change (is_digit c_rbrace) with false;
    try change (is_digit c_lbrack) with false; try change (is_digit c_rbrack) with false;
    try change (is_digit c_comma) with false; cbv iota; rewrite Hmk; reflexivity.
Qed.

(* ---------- Read's switch on a known token ---------- *)
Definition rs_result (st : dstate) (a : atok) (inp : list byte) (last : kind) (stack : list kind) : Prop :=
  exists tok st', read_step st = Ok (tok, st') /\ atok_of tok = a /\ d_in st' = inp /\
                  d_last st' = last /\ d_stack st' = stack.

Definition value_next (last : kind) (stack : list kind) : bool :=
  is_value_next {| d_last := last; d_stack := stack; d_pos := 0; d_in := [] |}.
Lemma is_value_next_ext st : is_value_next st = value_next (d_last st) (d_stack st).
Proof. reflexivity. Qed.

Ltac rs_start H :=
  destruct H as (tok & st1 & Hp & Ha & Hi & Hl & Hs);
  unfold rs_result, read_step; rewrite Hp; cbv zeta;
  assert (Hk : t_kind tok = fst (fst (fst (atok_of tok)))) by reflexivity; rewrite Ha in Hk; cbn [fst] in Hk;
  rewrite Hk.

Lemma rs_scalar st k raw boo str rest : is_scalar k = true ->
  pn_result st (k, raw, boo, str) rest -> is_value_next st = true ->
  rs_result st (k, raw, boo, str) (skip_ws rest) k (d_stack st).
Proof.
  intros Hsc Hpn Hv. rs_start Hpn.
  assert (Hv1 : is_value_next st1 = true) by (rewrite is_value_next_ext, Hl, Hs; exact Hv).
  destruct k; try discriminate; rewrite Hv1; eexists _, _; (split; [reflexivity|]);
    cbn [set_last d_in d_last d_stack]; rewrite ?Hk; auto.
Qed.

Lemma rs_open st k c rest : (k = KObjOpen /\ c = c_lbrace \/ k = KArrOpen /\ c = c_lbrack) ->
  d_in st = c :: rest -> is_value_next st = true ->
  rs_result st (a_punct k c) (skip_ws rest) k (k :: d_stack st).
Proof.
  intros Hk0 Hin Hv.
  assert (Hpn : pn_result st (k, [c], false, []) rest) by (apply pn_punct; tauto).
  rs_start Hpn.
  assert (Hv1 : is_value_next st1 = true) by (rewrite is_value_next_ext, Hl, Hs; exact Hv).
  destruct Hk0 as [[-> ->] | [-> ->]]; rewrite Hv1; eexists _, _; (split; [reflexivity|]);
    cbn [set_last set_stack d_in d_last d_stack]; rewrite ?Hk, ?Hs; auto.
Qed.

Lemma rs_close_arr st stk rest : d_in st = c_rbrack :: rest -> d_stack st = KArrOpen :: stk ->
  d_last st <> KComma -> rs_result st (a_punct KArrClose c_rbrack) (skip_ws rest) KArrClose stk.
Proof.
  intros Hin Hst Hl0.
  assert (Hpn : pn_result st (KArrClose, [c_rbrack], false, []) rest) by (apply pn_punct; tauto).
  rs_start Hpn. rewrite Hs, Hst, Hl.
  replace (kind_eqb (d_last st) KComma) with false by (destruct (d_last st); try reflexivity; contradiction).
  eexists _, _. split; [reflexivity|]. cbn [set_last set_stack d_in d_last d_stack]. rewrite ?Hk. auto.
Qed.

Lemma rs_close_obj st stk rest : d_in st = c_rbrace :: rest -> d_stack st = KObjOpen :: stk ->
  d_last st <> KComma -> d_last st <> KName -> rs_result st (a_punct KObjClose c_rbrace) (skip_ws rest) KObjClose stk.
Proof.
  intros Hin Hst Hl0 Hl1.
  assert (Hpn : pn_result st (KObjClose, [c_rbrace], false, []) rest) by (apply pn_punct; tauto).
  rs_start Hpn. rewrite Hs, Hst, Hl.
  replace (kind_eqb (d_last st) KName || kind_eqb (d_last st) KComma) with false
    by (destruct (d_last st); try reflexivity; contradiction).
  eexists _, _. split; [reflexivity|]. cbn [set_last set_stack d_in d_last d_stack]. rewrite ?Hk. auto.
Qed.

Lemma rs_comma st rest : d_in st = c_comma :: rest -> d_stack st <> [] -> is_value_end (d_last st) = true ->
  rs_result st (a_punct KComma c_comma) (skip_ws rest) KComma (d_stack st).
Proof.
  intros Hin Hst Hl0.
  assert (Hpn : pn_result st (KComma, [c_comma], false, []) rest) by (apply pn_punct; tauto).
  rs_start Hpn. rewrite Hs, Hl, Hl0. destruct (d_stack st) eqn:E; [contradiction|].
  eexists _, _. split; [reflexivity|]. cbn [set_last set_stack d_in d_last d_stack]. rewrite ?Hk. auto.
Qed.

Lemma rs_name st k d w2 rest : sstring k d -> ws w2 -> d_in st = k ++ w2 ++ c_colon :: rest ->
  is_value_next st = false -> (d_last st = KObjOpen \/ d_last st = KComma) ->
  rs_result st (KName, k, false, d) (skip_ws rest) KName (d_stack st).
Proof.
  intros Hk0 Hw2 Hin Hv Hl0.
  assert (Hpn : pn_result st (KString, k, false, d) (w2 ++ c_colon :: rest)) by (now apply pn_string).
  rs_start Hpn.
  assert (Hv1 : is_value_next st1 = false) by (rewrite is_value_next_ext, Hl, Hs; exact Hv).
  rewrite Hv1, Hl.
  replace (kind_eqb (d_last st) KObjOpen || kind_eqb (d_last st) KComma) with true
    by (destruct Hl0 as [-> | ->]; reflexivity).
  cbn [negb]. rewrite Hi, (skip_ws_app w2 _ Hw2), (skip_ws_head c_colon rest eq_refl). eval_is. cbv iota.
  eexists _, _. split; [reflexivity|]. unfold atok_of in *. cbn [set_kind set_last t_kind t_raw t_boo t_str d_in d_last d_stack].
  injection Ha as _ -> -> ->. unfold consume. cbn [d_in d_last d_stack].
  rewrite Hi, (skip_ws_app w2 _ Hw2), (skip_ws_head c_colon rest eq_refl). cbn [skipn]. auto.
Qed.

Lemma rs_eof st : d_in st = [] -> d_stack st = [] -> exists tok st', read_step st = Ok (tok, st') /\ t_kind tok = KEOF.
Proof.
  intros Hin Hst. unfold read_step, parse_next, consume. cbn [d_in skipn]. rewrite Hin. cbn [skip_ws d_in].
  unfold mk_token. cbn [t_kind]. unfold consume. cbn [d_stack]. rewrite Hst. eexists _, _. split; reflexivity.
Qed.

(* ---------- sequences of passes through Read's switch ---------- *)
Inductive steps : dstate -> list atok -> dstate -> Prop :=
| steps_nil st : steps st [] st
| steps_tok st tok st1 ks st' : read_step st = Ok (tok, st1) -> t_kind tok <> KEOF -> t_kind tok <> KComma ->
    steps st1 ks st' -> steps st (atok_of tok :: ks) st'
| steps_comma st tok st1 ks st' : read_step st = Ok (tok, st1) -> t_kind tok = KComma ->
    steps st1 ks st' -> steps st ks st'.

Lemma steps_app st ks1 st1 ks2 st2 : steps st ks1 st1 -> steps st1 ks2 st2 -> steps st (ks1 ++ ks2) st2.
Proof. induction 1; intros Hx; cbn [app]; eauto using steps. Qed.

Lemma steps_one st a inp last stack : rs_result st a inp last stack -> fst (fst (fst a)) <> KEOF -> fst (fst (fst a)) <> KComma ->
  exists st', steps st [a] st' /\ d_in st' = inp /\ d_last st' = last /\ d_stack st' = stack.
Proof.
  intros (tok & st' & Hr & Ha & H1 & H2 & H3) Hk1 Hk2. exists st'. split; auto. rewrite <- Ha in *.
  eapply steps_tok; eauto using steps.
Qed.

(* the claims proved by mutual induction over the strict grammar *)
Definition PV (v : list byte) (ks : list atok) : Prop :=
  head_nonws v /\
  forall st rest, d_in st = v ++ rest -> delim_or_end rest = true -> is_value_next st = true ->
    exists st', steps st ks st' /\ d_in st' = skip_ws rest /\ d_stack st' = d_stack st /\
                is_value_end (d_last st') = true.
Definition PE (p : list byte) (ks : list atok) : Prop :=
  forall st rest stk, d_in st = skip_ws (p ++ rest) -> d_stack st = KArrOpen :: stk ->
    (d_last st = KArrOpen) -> delim_or_end rest = true ->
    exists st', steps st ks st' /\ d_in st' = skip_ws rest /\ d_stack st' = KArrOpen :: stk /\
                is_value_end (d_last st') = true.
Definition PM (p : list byte) (ks : list atok) : Prop :=
  forall st rest stk, d_in st = skip_ws (p ++ rest) -> d_stack st = KObjOpen :: stk ->
    (d_last st = KObjOpen) -> delim_or_end rest = true ->
    exists st', steps st ks st' /\ d_in st' = skip_ws rest /\ d_stack st' = KObjOpen :: stk /\
                is_value_end (d_last st') = true.

Lemma PV_scalar k raw boo str : is_scalar k = true -> head_nonws raw ->
  (forall st rest, d_in st = raw ++ rest -> delim_or_end rest = true -> pn_result st (k, raw, boo, str) rest) ->
  PV raw [(k, raw, boo, str)].
Proof.
  intros Hsc Hh Hpn. split; auto. intros st rest Hin Hd Hv.
  destruct (steps_one st _ _ _ _ (rs_scalar st k raw boo str rest Hsc (Hpn st rest Hin Hd) Hv))
    as (st' & Hs & H1 & H2 & H3); try (destruct k; discriminate).
  exists st'. repeat split; auto. rewrite H2. destruct k; try discriminate; reflexivity.
Qed.

Lemma value_end_not k : is_value_end k = true -> k <> KComma /\ k <> KName.
Proof. destruct k; try discriminate; split; discriminate. Qed.

Lemma skip_ws_value w v r : ws w -> head_nonws v -> skip_ws (w ++ v ++ r) = v ++ r.
Proof. intros Hw Hv. rewrite skip_ws_app by auto. apply skip_ws_nonws. now apply head_nonws_app. Qed.

Theorem strict_complete :
  (forall v ks, svalue v ks -> PV v ks) /\ (forall p ks, selems p ks -> PE p ks) /\ (forall p ks, smembers p ks -> PM p ks).
Proof.
  apply strict_mutind.
  - apply PV_scalar; [reflexivity|reflexivity|]. intros. apply pn_literal; auto.
  - apply PV_scalar; [reflexivity|reflexivity|]. intros. apply pn_literal; auto.
  - apply PV_scalar; [reflexivity|reflexivity|]. intros. apply pn_literal; auto 10.
  - intros s Hn. apply PV_scalar; [reflexivity| |intros; now apply pn_number].
    destruct (rfc_number_head s Hn) as (b & r & -> & Hb). apply (numhead_facts b Hb).
  - intros s d Hs. apply PV_scalar; [reflexivity| |intros; now apply pn_string].
    destruct Hs as (body & -> & _). reflexivity.
  - (* [] *)
    intros w Hw. split; [reflexivity|]. intros st rest Hin Hd Hv.
    cbn [app] in Hin. rewrite <- app_assoc in Hin. cbn [app] in Hin.
    destruct (steps_one st _ _ _ _ (rs_open st KArrOpen c_lbrack _ (or_intror (conj eq_refl eq_refl)) Hin Hv))
      as (st1 & Hs1 & Hi1 & Hl1 & Hk1); try discriminate.
    rewrite (skip_ws_app w _ Hw), (skip_ws_head c_rbrack rest eq_refl) in Hi1.
    destruct (steps_one st1 _ _ _ _ (rs_close_arr st1 (d_stack st) rest Hi1 Hk1 ltac:(rewrite Hl1; discriminate)))
      as (st2 & Hs2 & Hi2 & Hl2 & Hk2); try discriminate.
    exists st2. split; [exact (steps_app _ _ _ _ _ Hs1 Hs2)|]. rewrite Hl2. auto.
  - (* [ elems ] *)
    intros p ks _ IH. split; [reflexivity|]. intros st rest Hin Hd Hv.
    cbn [app] in Hin. rewrite <- app_assoc in Hin. cbn [app] in Hin.
    destruct (steps_one st _ _ _ _ (rs_open st KArrOpen c_lbrack _ (or_intror (conj eq_refl eq_refl)) Hin Hv))
      as (st1 & Hs1 & Hi1 & Hl1 & Hk1); try discriminate.
    destruct (IH st1 (c_rbrack :: rest) (d_stack st) Hi1 Hk1 Hl1 eq_refl) as (st2 & Hs2 & Hi2 & Hk2 & Hl2).
    rewrite (skip_ws_head c_rbrack rest eq_refl) in Hi2.
    destruct (steps_one st2 _ _ _ _ (rs_close_arr st2 (d_stack st) rest Hi2 Hk2 (proj1 (value_end_not _ Hl2))))
      as (st3 & Hs3 & Hi3 & Hl3 & Hk3); try discriminate.
    exists st3. split; [|rewrite Hl3; auto].
    change (a_punct KArrOpen c_lbrack :: ks ++ [a_punct KArrClose c_rbrack])
      with ([a_punct KArrOpen c_lbrack] ++ ks ++ [a_punct KArrClose c_rbrack]).
    eauto using steps_app.
  - (* {} *)
    intros w Hw. split; [reflexivity|]. intros st rest Hin Hd Hv.
    cbn [app] in Hin. rewrite <- app_assoc in Hin. cbn [app] in Hin.
    destruct (steps_one st _ _ _ _ (rs_open st KObjOpen c_lbrace _ (or_introl (conj eq_refl eq_refl)) Hin Hv))
      as (st1 & Hs1 & Hi1 & Hl1 & Hk1); try discriminate.
    rewrite (skip_ws_app w _ Hw), (skip_ws_head c_rbrace rest eq_refl) in Hi1.
    destruct (steps_one st1 _ _ _ _ (rs_close_obj st1 (d_stack st) rest Hi1 Hk1 ltac:(rewrite Hl1; discriminate)
                                       ltac:(rewrite Hl1; discriminate)))
      as (st2 & Hs2 & Hi2 & Hl2 & Hk2); try discriminate.
    exists st2. split; [exact (steps_app _ _ _ _ _ Hs1 Hs2)|]. rewrite Hl2. auto.
  - (* { members } *)
    intros p ks _ IH. split; [reflexivity|]. intros st rest Hin Hd Hv.
    cbn [app] in Hin. rewrite <- app_assoc in Hin. cbn [app] in Hin.
    destruct (steps_one st _ _ _ _ (rs_open st KObjOpen c_lbrace _ (or_introl (conj eq_refl eq_refl)) Hin Hv))
      as (st1 & Hs1 & Hi1 & Hl1 & Hk1); try discriminate.
    destruct (IH st1 (c_rbrace :: rest) (d_stack st) Hi1 Hk1 Hl1 eq_refl) as (st2 & Hs2 & Hi2 & Hk2 & Hl2).
    rewrite (skip_ws_head c_rbrace rest eq_refl) in Hi2.
    destruct (steps_one st2 _ _ _ _ (rs_close_obj st2 (d_stack st) rest Hi2 Hk2 (proj1 (value_end_not _ Hl2))
                                       (proj2 (value_end_not _ Hl2))))
      as (st3 & Hs3 & Hi3 & Hl3 & Hk3); try discriminate.
    exists st3. split; [|rewrite Hl3; auto].
    change (a_punct KObjOpen c_lbrace :: ks ++ [a_punct KObjClose c_rbrace])
      with ([a_punct KObjOpen c_lbrace] ++ ks ++ [a_punct KObjClose c_rbrace]).
    eauto using steps_app.
  - (* first element *)
    intros w1 v w2 ks Hw1 _ [Hh IH] Hw2 st rest stk Hin Hst Hl Hd.
    rewrite <- !app_assoc, (skip_ws_value w1 v _ Hw1 Hh) in Hin.
    destruct (IH st (w2 ++ rest) Hin (delim_ws_app _ _ Hw2 Hd)) as (st' & Hs & Hi & Hk & Hle).
    { rewrite is_value_next_ext, Hst, Hl. reflexivity. }
    exists st'. rewrite (skip_ws_app w2 _ Hw2) in Hi. rewrite Hk, Hst. auto.
  - (* further element *)
    intros p w1 v w2 ks1 ks2 _ IHp Hw1 _ [Hh IHv] Hw2 st rest stk Hin Hst Hl Hd.
    repeat first [rewrite <- app_assoc in Hin | progress cbn [app] in Hin].
    destruct (IHp st (c_comma :: w1 ++ v ++ w2 ++ rest) stk Hin Hst Hl eq_refl) as (st1 & Hs1 & Hi1 & Hk1 & Hl1).
    rewrite (skip_ws_head c_comma _ eq_refl) in Hi1.
    destruct (rs_comma st1 _ Hi1 ltac:(rewrite Hk1; discriminate) Hl1) as (tok & st2 & Hr & Ha & Hi2 & Hl2 & Hk2).
    rewrite (skip_ws_value w1 v _ Hw1 Hh) in Hi2.
    destruct (IHv st2 (w2 ++ rest) Hi2 (delim_ws_app _ _ Hw2 Hd)) as (st3 & Hs3 & Hi3 & Hk3 & Hl3).
    { rewrite is_value_next_ext, Hk2, Hk1, Hl2. reflexivity. }
    exists st3. rewrite (skip_ws_app w2 _ Hw2) in Hi3. rewrite Hk3, Hk2, Hk1. split; auto.
    eapply steps_app; [exact Hs1|]. eapply steps_comma; eauto.
    assert (Hkk : t_kind tok = fst (fst (fst (atok_of tok)))) by reflexivity. now rewrite Ha in Hkk.
  - (* first member *)
    intros w1 k d w2 w3 v w4 ks Hw1 Hk Hw2 Hw3 _ [Hh IH] Hw4 st rest stk Hin Hst Hl Hd.
    assert (Hkh : head_nonws k) by (destruct Hk as (body & -> & _); reflexivity).
    repeat first [rewrite <- app_assoc in Hin | progress cbn [app] in Hin].
    rewrite (skip_ws_value w1 k _ Hw1 Hkh) in Hin.
    destruct (steps_one st _ _ _ _ (rs_name st k d w2 _ Hk Hw2 Hin ltac:(rewrite is_value_next_ext, Hst, Hl; reflexivity)
                                      (or_introl Hl))) as (st1 & Hs1 & Hi1 & Hl1 & Hk1); try discriminate.
    rewrite (skip_ws_value w3 v _ Hw3 Hh) in Hi1.
    destruct (IH st1 (w4 ++ rest) Hi1 (delim_ws_app _ _ Hw4 Hd)) as (st' & Hs & Hi & Hk' & Hle).
    { rewrite is_value_next_ext, Hk1, Hst, Hl1. reflexivity. }
    exists st'. rewrite (skip_ws_app w4 _ Hw4) in Hi. rewrite Hk', Hk1, Hst. split; auto.
    exact (steps_app _ _ _ _ _ Hs1 Hs).
  - (* further member *)
    intros p w1 k d w2 w3 v w4 ks1 ks2 _ IHp Hw1 Hk Hw2 Hw3 _ [Hh IHv] Hw4 st rest stk Hin Hst Hl Hd.
    assert (Hkh : head_nonws k) by (destruct Hk as (body & -> & _); reflexivity).
    repeat first [rewrite <- app_assoc in Hin | progress cbn [app] in Hin].
    destruct (IHp st (c_comma :: w1 ++ k ++ w2 ++ c_colon :: w3 ++ v ++ w4 ++ rest) stk) as (st1 & Hs1 & Hi1 & Hk1 & Hl1); auto.
    rewrite (skip_ws_head c_comma _ eq_refl) in Hi1.
    destruct (rs_comma st1 _ Hi1 ltac:(rewrite Hk1; discriminate) Hl1) as (tok & st2 & Hr & Ha & Hi2 & Hl2 & Hk2).
    rewrite (skip_ws_value w1 k _ Hw1 Hkh) in Hi2.
    destruct (steps_one st2 _ _ _ _ (rs_name st2 k d w2 _ Hk Hw2 Hi2
                ltac:(rewrite is_value_next_ext, Hk2, Hk1, Hl2; reflexivity) (or_intror Hl2)))
      as (st3 & Hs3 & Hi3 & Hl3 & Hk3); try discriminate.
    rewrite (skip_ws_value w3 v _ Hw3 Hh) in Hi3.
    destruct (IHv st3 (w4 ++ rest) Hi3 (delim_ws_app _ _ Hw4 Hd)) as (st4 & Hs4 & Hi4 & Hk4 & Hl4).
    { rewrite is_value_next_ext, Hk3, Hk2, Hk1, Hl3. reflexivity. }
    exists st4. rewrite (skip_ws_app w4 _ Hw4) in Hi4. rewrite Hk4, Hk3, Hk2, Hk1. split; auto.
    eapply steps_app; [exact Hs1|]. eapply steps_comma; eauto.
    { assert (Hkk : t_kind tok = fst (fst (fst (atok_of tok)))) by reflexivity. now rewrite Ha in Hkk. }
    exact (steps_app _ [_] _ _ _ Hs3 Hs4).
Qed.

(* ---------- from passes to read_all ---------- *)
Lemma read_comma_skip st tok st1 : read_step st = Ok (tok, st1) -> t_kind tok = KComma -> read st = read st1.
Proof.
  intros H Hk. unfold read at 1. rewrite H, Hk.
  assert (Hl : d_last st1 = KComma).
  { unfold read_step in H. destruct (parse_next st) as [[tk sx]|]; [|discriminate]. cbv zeta in H.
    destruct (t_kind tk) eqn:Ek;
      repeat match type of H with
             | match ?x with _ => _ end = _ => destruct x eqn:?
             end; try discriminate; injection H as <- <-; cbn [t_kind set_kind] in Hk; try discriminate; try congruence.
    reflexivity. }
  unfold read. destruct (read_step st1) as [[tok2 st2]|] eqn:E; auto.
  pose proof (read_step_after_comma _ _ _ Hl E) as Hn. destruct (t_kind tok2); try contradiction; reflexivity.
Qed.

Lemma read_all_steps st ks st' : steps st ks st' ->
  forall tk st'', read_step st' = Ok (tk, st'') -> t_kind tk = KEOF ->
  forall fuel, (length ks < fuel)%nat ->
  exists toks, read_all_from fuel st = (toks, None) /\ map atok_of toks = ks.
Proof.
  induction 1 as [st|st tok st1 ks st' Hr Hk1 Hk2 Hs IH|st tok st1 ks st' Hr Hk Hs IH];
    intros tk st'' He Hke fuel Hf; (destruct fuel as [|f]; [lia|]).
  - exists []. cbn [read_all_from]. unfold read. rewrite He, Hke. cbv iota. rewrite ?Hke. split; reflexivity.
  - cbn [length] in Hf. destruct (IH tk st'' He Hke f ltac:(lia)) as (toks & Ht & Hm).
    exists (tok :: toks). cbn [read_all_from]. unfold read. rewrite Hr.
    destruct (t_kind tok) eqn:E; try contradiction; cbv iota; rewrite ?E; cbv iota; rewrite Ht; cbn [map]; rewrite Hm; split; reflexivity.
  - destruct (IH tk st'' He Hke (S f) Hf) as (toks & Ht & Hm). exists toks. split; auto.
    cbn [read_all_from] in *. now rewrite (read_comma_skip _ _ _ Hr Hk).
Qed.

Lemma steps_first_consume0 st ks st' : steps (consume 0 st) ks st' -> ks <> [] -> steps st ks st'.
Proof.
  assert (Hrs : read_step (consume 0 st) = read_step st).
  { unfold read_step, parse_next. f_equal.
    assert (consume 0 (consume 0 st) = consume 0 st) as ->; auto.
    unfold consume. cbn [d_in d_last d_stack d_pos skipn].
    destruct (skip_ws_spec (d_in st)) as (w & Hs & Hw).
    assert (Hidem : skip_ws (skip_ws (d_in st)) = skip_ws (d_in st)).
    { generalize (d_in st). intros l. induction l as [|b l IHl]; [reflexivity|]. cbn [skip_ws].
      destruct (is_ws b) eqn:E; auto. cbn [skip_ws]. now rewrite E. }
    rewrite Hidem. f_equal. lia. }
  intros H Hne. inversion H; subst; [contradiction| |]; rewrite Hrs in *; eauto using steps.
Qed.

(* token counts *)
Lemma strict_count :
  (forall v ks, svalue v ks -> (length ks <= length v)%nat) /\
  (forall p ks, selems p ks -> (length ks <= length p)%nat) /\
  (forall p ks, smembers p ks -> (length ks < length p)%nat).
Proof.
  apply strict_mutind; intros; cbn [length]; rewrite ?app_length; cbn [length]; rewrite ?app_length; cbn [length];
    try (unfold lit_null, lit_true, lit_false; cbn [length]); try lia.
  - destruct (rfc_number_head s H) as (b & r & -> & _). cbn [length]. lia.
  - destruct H as (body & -> & _). cbn [length]. lia.
  - destruct H0 as (body & -> & _). cbn [length]. rewrite ?app_length. cbn [length]. lia.
  - destruct H2 as (body & -> & _). cbn [length]. rewrite ?app_length. cbn [length]. lia.
Qed.

Lemma svalue_nonempty v ks : svalue v ks -> ks <> [].
Proof. destruct 1; discriminate. Qed.

(* every strict JSON text is read to EOF, yielding the tokens of its derivation *)
Theorem lexer_accepts_all_strict_json s ks : stext s ks ->
  exists toks, read_all s = (toks, None) /\ map atok_of toks = ks /\ toks <> [].
Proof.
  intros (w1 & v & w2 & -> & Hw1 & Hv & Hw2).
  destruct (proj1 strict_complete v ks Hv) as [Hh HV].
  set (st0 := consume 0 (d_init (w1 ++ v ++ w2))).
  assert (Hin0 : d_in st0 = v ++ w2 ++ []).
  { subst st0. unfold consume, d_init. cbn [d_in skipn]. rewrite app_nil_r. now apply skip_ws_value. }
  destruct (HV st0 (w2 ++ []) Hin0) as (st' & Hs & Hi & Hk & Hl).
  { apply delim_ws_app; auto. } { reflexivity. }
  rewrite (skip_ws_app w2 [] Hw2) in Hi. cbn [skip_ws] in Hi.
  destruct (rs_eof st' Hi Hk) as (tk & st'' & He & Hke).
  pose proof (steps_first_consume0 _ _ _ Hs (svalue_nonempty _ _ Hv)) as Hs0.
  destruct (read_all_steps _ _ _ Hs0 tk st'' He Hke (S (length (w1 ++ v ++ w2)))) as (toks & Ht & Hm).
  { pose proof (proj1 strict_count v ks Hv). rewrite !app_length. lia. }
  exists toks. repeat split; auto. intros ->. cbn [map] in Hm. symmetry in Hm. now apply (svalue_nonempty _ _ Hv).
Qed.

(* ---------- the strict grammar is a sub-grammar of RFC 8259 ---------- *)
Lemma schars_jchars body d : schars body d -> jchars body.
Proof.
  induction 1 as [|c rest0 d Hc Hu Hs IH|e rest0 d He Hs IH|h1 h2 h3 h4 v rest0 d Hh Hsur Hs IH
                  |h1 h2 h3 h4 g1 g2 g3 g4 v1 v2 rest0 d Hh Hg Hv1 Hv2 Hs IH].
  - constructor.
  - now apply JCplain.
  - now apply JCesc.
  - apply hex4_is_hex in Hh as (? & ? & ? & ?). now apply JCuni.
  - apply hex4_is_hex in Hh as (? & ? & ? & ?). apply hex4_is_hex in Hg as (? & ? & ? & ?).
    apply JCuni; auto. now apply JCuni.
Qed.
Lemma sstring_rfc s d : sstring s d -> rfc_string s.
Proof. intros (body & -> & H). exists body. split; auto. eapply schars_jchars; eauto. Qed.

Lemma strict_is_json :
  (forall v ks, svalue v ks -> jvalue v) /\ (forall p ks, selems p ks -> jelems p) /\
  (forall p ks, smembers p ks -> jmembers p).
Proof.
  apply strict_mutind; intros; try (now constructor); eauto using sstring_rfc, jvalue, jelems, jmembers.
Qed.

Theorem stext_json_text s ks : stext s ks -> json_text s.
Proof.
  intros (w1 & v & w2 & -> & H1 & Hv & H2). exists w1, v, w2. repeat split; auto.
  eapply (proj1 strict_is_json); eauto.
Qed.

(* On the domain of inputs whose JSON readings have no unpaired surrogate escapes (every reading
   as a JSON text is also a strict one), the Decoder accepts exactly the JSON texts. *)
Theorem lexer_accepts_iff_json s : (json_text s -> exists ks, stext s ks) ->
  ((exists toks, read_all s = (toks, None) /\ toks <> []) <-> json_text s).
Proof.
  intros Hdom. split.
  - intros (toks & H & Hne). eapply lexer_accepts_only_json; eauto.
  - intros Hj. destruct (Hdom Hj) as (ks & Hs). destruct (lexer_accepts_all_strict_json s ks Hs) as (toks & H & _ & Hne).
    eauto.
Qed.
