(* bytes fields: the exact set of accepted strings, including CR/LF (which encoding/base64
   skips anywhere): s is accepted with result b iff s without its CR/LF bytes is a base64 text
   denoting b in the selected variant. *)
From Coq Require Import List NArith ZArith Lia Bool.
From Coq Require Import ZifyBool ZifyNat ZifyN.
From PB Require Import Base.PBytes Json.JsonUtf8 Json.JsonGrammar Json.JsonNumModel Json.JsonNumP
  Json.JsonLexModel Json.JsonEncModel Json.JsonEncP Json.JsonScalarModel Json.JsonB64P Json.JsonB64VarP Json.JsonB64IffP.
Import ListNotations.
Open Scope N_scope.

Fixpoint strip_nl (s : list byte) : list byte :=
  match s with [] => [] | c :: r => if is_nl c then strip_nl r else c :: strip_nl r end.

Definition vals (url : bool) (cs : list byte) (vs : list N) : Prop :=
  Forall2 (fun c v => b64_val url c = Some v) cs vs.

Lemma val_not_nl url c v : b64_val url c = Some v -> is_nl c = false.
Proof.
  intros H. destruct (is_nl c) eqn:E; auto. unfold is_nl in E. apply orb_true_iff in E as [E|E];
    apply is_true in E; subst; destruct url; discriminate.
Qed.
Lemma val_pad url : b64_val url c_pad = None.
Proof. destruct url; reflexivity. Qed.
Lemma strip_skip r : strip_nl (skip_nl r) = strip_nl r.
Proof. induction r as [|c r IH]; auto. cbn [skip_nl strip_nl]. destruct (is_nl c) eqn:E; auto. cbn [strip_nl]. now rewrite E. Qed.
Lemma skip_nl_head r : match skip_nl r with c :: _ => is_nl c = false | [] => True end.
Proof. induction r as [|c r IH]; cbn [skip_nl]; auto. destruct (is_nl c) eqn:E; auto. Qed.
Lemma strip_nil_skip r : strip_nl r = [] -> skip_nl r = [].
Proof.
  intros H. rewrite <- strip_skip in H. pose proof (skip_nl_head r) as Hh. destruct (skip_nl r) as [|c t]; auto.
  cbn [strip_nl] in H. rewrite Hh in H. discriminate.
Qed.
Lemma strip_cons_skip r c t : strip_nl r = c :: t -> exists r2, skip_nl r = c :: r2 /\ strip_nl r2 = t.
Proof.
  intros H. rewrite <- strip_skip in H. pose proof (skip_nl_head r) as Hh. destruct (skip_nl r) as [|c' t']; [discriminate|].
  cbn [strip_nl] in H. rewrite Hh in H. injection H as -> <-. eauto.
Qed.

(* ---------- what a quantum consumed ---------- *)
Lemma quantum_done fuel url pad : forall j acc src, b64_quantum fuel url pad j acc src = QDone -> strip_nl src = [].
Proof.
  induction fuel as [|f IH]; intros j acc src; cbn [b64_quantum]; [discriminate|].
  destruct (Nat.eqb j 4); [discriminate|]. destruct src as [|c r]; [reflexivity|].
  destruct (b64_val url c) eqn:Ev.
  - intros H. exfalso. revert H. apply quantum_not_done. lia.
  - destruct (is_nl c) eqn:En. { intros H. cbn [strip_nl]. rewrite En. eauto. }
    destruct (negb pad || negb (is c c_pad)); [discriminate|].
    destruct j as [|[|[|[|j]]]]; try discriminate.
    + destruct (skip_nl r) as [|c2 r2]; [discriminate|]. destruct (is c2 c_pad); [|discriminate]. destruct (skip_nl r2); discriminate.
    + destruct (skip_nl r); discriminate.
Qed.

Lemma quantum_fwd fuel url pad : forall j acc src vs rest,
  b64_quantum fuel url pad j acc src = QOk vs rest -> length acc = j -> (j <= 4)%nat ->
  exists cs vs', vals url cs vs' /\ vs = rev acc ++ vs' /\
    ((length vs = 4%nat /\ strip_nl src = cs ++ strip_nl rest /\ (length rest <= length src)%nat /\
      ((j < 4)%nat -> (length rest < length src)%nat)) \/
     (rest = [] /\ (length vs = 2 \/ length vs = 3)%nat /\ strip_nl src = cs ++ pad_tail pad (4 - length vs))).
Proof.
  induction fuel as [|f IH]; intros j acc src vs rest; cbn [b64_quantum]; [discriminate|].
  intros H Hacc Hj. destruct (Nat.eqb j 4) eqn:E4.
  { apply Nat.eqb_eq in E4. injection H as <- <-. exists [], []. split; [constructor|]. split; [now rewrite app_nil_r|].
    left. rewrite rev_length. repeat split; auto; lia. }
  apply Nat.eqb_neq in E4. destruct src as [|c r].
  { destruct (Nat.eqb j 0) eqn:E0; [discriminate|]. apply Nat.eqb_neq in E0. destruct (Nat.eqb j 1 || pad) eqn:E1; [discriminate|].
    apply orb_false_iff in E1 as [E1 ->]. apply Nat.eqb_neq in E1. injection H as <- <-.
    exists [], []. split; [constructor|]. split; [now rewrite app_nil_r|]. right. rewrite rev_length.
    split; auto. split; [|reflexivity].
    lia. }
  destruct (b64_val url c) as [v|] eqn:Ev.
  - destruct (IH _ _ _ _ _ H ltac:(cbn [length]; lia) ltac:(lia)) as (cs & vs' & Hv & Evs & Hcase).
    exists (c :: cs), (v :: vs'). split; [constructor; auto|]. split; [rewrite Evs; cbn [rev]; now rewrite <- app_assoc|].
    cbn [strip_nl]. rewrite (val_not_nl _ _ _ Ev).
    destruct Hcase as [(H1 & H2 & H3 & H4) | (H1 & H2 & H3)]; [left|right].
    + rewrite H2. cbn [length app]. repeat split; auto; lia.
    + rewrite H3. auto.
  - destruct (is_nl c) eqn:En.
    { destruct (IH _ _ _ _ _ H Hacc Hj) as (cs & vs' & Hv & Evs & Hcase). exists cs, vs'. split; auto. split; auto.
      cbn [strip_nl length]. rewrite En.
      destruct Hcase as [(H1 & H2 & H3 & H4) | Hc]; [left; repeat split; auto; lia|right; auto]. }
    destruct (negb pad || negb (is c c_pad)) eqn:Ep; [discriminate|]. apply orb_false_iff in Ep as [Ep1 Ep2].
    apply negb_false_iff in Ep1, Ep2. apply is_true in Ep2. subst pad c.
    cbn [strip_nl]. rewrite En.
    destruct j as [|[|[|[|j]]]]; try discriminate.
    + destruct (skip_nl r) as [|c2 r2] eqn:Es; [discriminate|]. destruct (is c2 c_pad) eqn:E2; [|discriminate].
      apply is_true in E2. subst c2. destruct (skip_nl r2) eqn:Es2; [|discriminate]. injection H as <- <-.
      exists [], []. split; [constructor|]. split; [now rewrite app_nil_r|]. right. rewrite rev_length, Hacc.
      split; auto. split; auto. cbn [app pad_tail repeat Nat.sub]. rewrite <- (strip_skip r), Es. cbn [strip_nl].
      change (is_nl c_pad) with false. cbv iota. rewrite <- (strip_skip r2), Es2. reflexivity.
    + destruct (skip_nl r) eqn:Es; [|discriminate]. injection H as <- <-.
      exists [], []. split; [constructor|]. split; [now rewrite app_nil_r|]. right. rewrite rev_length, Hacc.
      split; auto. split; auto. cbn [app pad_tail repeat Nat.sub]. rewrite <- (strip_skip r), Es. reflexivity.
Qed.

Lemma vals_length url cs vs : vals url cs vs -> length cs = length vs.
Proof. induction 1; cbn [length]; auto. Qed.

Theorem b64_decodes_text_nl url pad : forall fuel s b,
  b64_decode_loop fuel url pad s = Some b -> b64_text url pad (strip_nl s) b.
Proof.
  induction fuel as [|f IH]; intros s b; cbn [b64_decode_loop]; [discriminate|].
  destruct (b64_quantum (S (S (length s))) url pad 0 [] s) as [| |vs rest] eqn:Eq; try discriminate.
  - intros [= <-]. rewrite (quantum_done _ _ _ _ _ _ Eq). constructor.
  - destruct (b64_decode_loop f url pad rest) as [t|] eqn:Et; [|discriminate]. intros [= <-].
    destruct (quantum_fwd _ _ _ _ _ _ _ _ Eq eq_refl ltac:(lia)) as (cs & vs' & Hv & Evs & Hcase).
    cbn [rev app] in Evs. subst vs'. pose proof (vals_length _ _ _ Hv) as Hlen.
    destruct Hcase as [(H1 & H2 & _) | (-> & H1 & H2)].
    + rewrite H2. destruct Hv as [|c0 v0 cs vs Hv0 Hv]; [discriminate|]. destruct Hv as [|c1 v1 cs vs Hv1 Hv]; [discriminate|].
      destruct Hv as [|c2 v2 cs vs Hv2 Hv]; [discriminate|]. destruct Hv as [|c3 v3 cs vs Hv3 Hv]; [discriminate|].
      destruct Hv; [|cbn [length] in H1; lia]. cbn [app]. apply BT_full; auto.
    + assert (t = []) as -> by (destruct f; cbn in Et; congruence). rewrite app_nil_r, H2.
      destruct Hv as [|c0 v0 cs vs Hv0 Hv]; [cbn [length] in H1; lia|].
      destruct Hv as [|c1 v1 cs vs Hv1 Hv]; [cbn [length] in H1; lia|].
      destruct Hv as [|c2 v2 cs vs Hv2 Hv].
      * cbn [app length Nat.sub]. now apply BT_2.
      * destruct Hv; [|cbn [length] in H1; lia]. cbn [app length Nat.sub]. now apply BT_3.
Qed.

(* ---------- texts with interspersed CR/LF are accepted ---------- *)
Lemma nl_val_none url c : is_nl c = true -> b64_val url c = None.
Proof. intros H. destruct (b64_val url c) eqn:E; auto. apply val_not_nl in E. congruence. Qed.

Lemma quantum_bwd4 url pad : forall src j acc cs vs' t' fuel,
  strip_nl src = cs ++ t' -> vals url cs vs' -> (j + length cs = 4)%nat -> (length src < fuel)%nat ->
  exists rest, b64_quantum fuel url pad j acc src = QOk (rev acc ++ vs') rest /\ strip_nl rest = t' /\
               (length rest <= length src)%nat /\ ((j < 4)%nat -> (length rest < length src)%nat).
Proof.
  induction src as [|c r IH]; intros j acc cs vs' t' fuel Hs Hv Hj Hf; (destruct fuel as [|f]; [lia|]); cbn [b64_quantum].
  - cbn [strip_nl] in Hs. destruct cs; [|discriminate]. inversion Hv; subst. cbn [length] in Hj.
    replace j with 4%nat by lia. cbn [Nat.eqb]. exists []. rewrite app_nil_r. repeat split; auto; lia.
  - destruct (Nat.eqb j 4) eqn:E4.
    { apply Nat.eqb_eq in E4. subst j. destruct cs; [|cbn [length] in Hj; lia]. inversion Hv; subst.
      exists (c :: r). rewrite app_nil_r. repeat split; auto; lia. }
    apply Nat.eqb_neq in E4. cbn [strip_nl] in Hs. destruct (is_nl c) eqn:En.
    + rewrite (nl_val_none url c En).
      destruct (IH j acc cs vs' t' f Hs Hv Hj ltac:(cbn [length] in Hf; lia)) as (rest & Hq & H1 & H2 & H3).
      exists rest. cbn [length]. repeat split; auto; lia.
    + destruct cs as [|c' cs']; [cbn [length] in Hj; lia|]. cbn [app] in Hs. injection Hs as <- Hs.
      inversion Hv as [|? v ? vs'' Hc Hv']; subst. rewrite Hc.
      destruct (IH (S j) (v :: acc) cs' vs'' t' f Hs Hv' ltac:(cbn [length] in Hj; lia) ltac:(cbn [length] in Hf; lia))
        as (rest & Hq & H1 & H2 & H3).
      exists rest. cbn [rev] in Hq. rewrite <- app_assoc in Hq. cbn [length]. repeat split; auto; lia.
Qed.

Lemma quantum_bwd_end url pad : forall src j acc cs vs' n fuel,
  strip_nl src = cs ++ pad_tail pad n -> vals url cs vs' -> (j + length cs + n = 4)%nat -> (n = 1 \/ n = 2)%nat ->
  (length src < fuel)%nat ->
  b64_quantum fuel url pad j acc src = QOk (rev acc ++ vs') [].
Proof.
  induction src as [|c r IH]; intros j acc cs vs' n fuel Hs Hv Hj Hn Hf; (destruct fuel as [|f]; [lia|]); cbn [b64_quantum].
  - cbn [strip_nl] in Hs. destruct cs; [|discriminate]. inversion Hv; subst. cbn [length app] in *.
    destruct pad; [destruct Hn as [-> | ->]; discriminate|].
    replace (Nat.eqb j 4) with false by (symmetry; apply Nat.eqb_neq; lia).
    replace (Nat.eqb j 0) with false by (symmetry; apply Nat.eqb_neq; lia).
    replace (Nat.eqb j 1) with false by (symmetry; apply Nat.eqb_neq; lia). cbn [orb]. now rewrite app_nil_r.
  - replace (Nat.eqb j 4) with false by (symmetry; apply Nat.eqb_neq; lia).
    cbn [strip_nl] in Hs. destruct (is_nl c) eqn:En.
    + rewrite (nl_val_none url c En). apply (IH j acc cs vs' n f); auto. cbn [length] in Hf. lia.
    + destruct cs as [|c' cs'].
      * inversion Hv; subst. cbn [app length] in *. rewrite app_nil_r.
        destruct pad; [|discriminate]. cbn [pad_tail] in Hs.
        destruct Hn as [-> | ->]; cbn [repeat] in Hs; injection Hs as -> Hs; rewrite val_pad; change (is_nl c_pad) with false;
          change (is c_pad c_pad) with true; cbn [negb orb].
        -- replace j with 3%nat by lia. now rewrite (strip_nil_skip r Hs).
        -- replace j with 2%nat by lia. destruct (strip_cons_skip r _ _ Hs) as (r2 & -> & Hs2).
           change (is c_pad c_pad) with true. cbv iota. now rewrite (strip_nil_skip r2 Hs2).
      * cbn [app] in Hs. injection Hs as <- Hs. inversion Hv as [|? v ? vs'' Hc Hv']; subst. rewrite Hc.
        rewrite (IH (S j) (v :: acc) cs' vs'' n f Hs Hv' ltac:(cbn [length] in Hj; lia) Hn ltac:(cbn [length] in Hf; lia)).
        cbn [rev]. now rewrite <- app_assoc.
Qed.

Lemma quantum_bwd_done url pad : forall src fuel, strip_nl src = [] -> (length src < fuel)%nat ->
  b64_quantum fuel url pad 0 [] src = QDone.
Proof.
  induction src as [|c r IH]; intros fuel Hs Hf; (destruct fuel as [|f]; [lia|]); cbn [b64_quantum Nat.eqb]; auto.
  cbn [strip_nl] in Hs. destruct (is_nl c) eqn:En; [|discriminate]. rewrite (nl_val_none url c En).
  apply IH; auto. cbn [length] in Hf. lia.
Qed.

Theorem b64_text_decodes_nl url pad t b : b64_text url pad t b ->
  forall s fuel, strip_nl s = t -> (length s < fuel)%nat -> b64_decode_loop fuel url pad s = Some b.
Proof.
  induction 1 as [|c0 c1 c2 c3 v0 v1 v2 v3 rest0 b H0 H1 H2 H3 Ht IH|c0 c1 v0 v1 H0 H1|c0 c1 c2 v0 v1 v2 H0 H1 H2];
    intros s fuel Hs Hf; (destruct fuel as [|fuel]; [lia|]); cbn [b64_decode_loop].
  - now rewrite (quantum_bwd_done url pad s (S (S (length s))) Hs ltac:(lia)).
  - destruct (quantum_bwd4 url pad s 0 [] [c0; c1; c2; c3] [v0; v1; v2; v3] rest0 (S (S (length s))))
      as (rest & -> & Hr & _ & Hlt); auto; try lia.
    { repeat constructor; auto. }
    cbn [rev app]. rewrite (IH rest fuel Hr) by (specialize (Hlt ltac:(lia)); lia). reflexivity.
  - rewrite (quantum_bwd_end url pad s 0 [] [c0; c1] [v0; v1] 2 (S (S (length s)))); auto; try lia.
    2:{ repeat constructor; auto. }
    cbn [rev app]. destruct fuel as [|fuel].
    { destruct s as [|x s']; [discriminate|cbn [length] in Hf; lia]. }
    cbn [b64_decode_loop length b64_quantum Nat.eqb]. now rewrite app_nil_r.
  - rewrite (quantum_bwd_end url pad s 0 [] [c0; c1; c2] [v0; v1; v2] 1 (S (S (length s)))); auto; try lia.
    2:{ repeat constructor; auto. }
    cbn [rev app]. destruct fuel as [|fuel].
    { destruct s as [|x s']; [discriminate|cbn [length] in Hf; lia]. }
    cbn [b64_decode_loop length b64_quantum Nat.eqb]. now rewrite app_nil_r.
Qed.

(* unmarshalBytes accepts exactly the strings that, after deleting CR and LF, are base64 texts
   of the variant it selects (the selection looks at the string as given, CR/LF included) *)
Theorem bytes_base64_accepts_iff_nl tok b : t_kind tok = KString ->
  (unmarshal_bytes tok = Some b <->
   b64_text (has_url_char (t_str tok)) (Nat.eqb (Nat.modulo (length (t_str tok)) 4) 0) (strip_nl (t_str tok)) b).
Proof.
  intros Hk. unfold unmarshal_bytes. rewrite Hk. fold (has_url_char (t_str tok)). unfold b64_decode. split.
  - apply b64_decodes_text_nl.
  - intros H. apply (b64_text_decodes_nl _ _ _ _ H); auto.
Qed.
