(* The language the Decoder accepts exactly: RFC 8259 where every \u escape that denotes a
   UTF-16 surrogate is the high half of a pair immediately followed by the \u escape of a low
   half (no unpaired surrogate escapes).  The grammar is indexed by the token sequence Read
   yields (kind, raw bytes, bool value, decoded string; positions are not part of it) and, for
   strings, by the decoded bytes.  Definitions only. *)
From Coq Require Import List NArith ZArith Bool.
From PB Require Import Base.PBytes Json.JsonUtf8 Json.JsonGrammar Json.JsonLexModel.
Import ListNotations.
Open Scope N_scope.

Definition simple_esc_val (e : byte) : byte :=
  if is e "b"%byte then x08 else if is e "f"%byte then x0c else if is e "n"%byte then x0a
  else if is e "r"%byte then x0d else if is e "t"%byte then x09 else e.

(* body of a string literal, with the bytes it decodes to *)
Inductive schars : list byte -> list byte -> Prop :=
| SCnil : schars [] []
| SCplain c rest d : rfc3629_char c = true -> unescaped c = true -> schars rest d -> schars (c ++ rest) (c ++ d)
| SCesc e rest d : is_simple_esc e = true -> schars rest d -> schars (c_bslash :: e :: rest) (simple_esc_val e :: d)
| SCuni h1 h2 h3 h4 v rest d :
    hex4 h1 h2 h3 h4 = Some v -> is_surrogate v = false -> schars rest d ->
    schars (c_bslash :: c_u :: h1 :: h2 :: h3 :: h4 :: rest) (encode_rune v ++ d)
| SCpair h1 h2 h3 h4 g1 g2 g3 g4 v1 v2 rest d :
    hex4 h1 h2 h3 h4 = Some v1 -> hex4 g1 g2 g3 g4 = Some v2 ->
    55296 <= v1 < 56320 -> 56320 <= v2 < 57344 -> schars rest d ->
    schars (c_bslash :: c_u :: h1 :: h2 :: h3 :: h4 :: c_bslash :: c_u :: g1 :: g2 :: g3 :: g4 :: rest)
           (encode_rune (decode_surrogates v1 v2) ++ d).
Definition sstring (s d : list byte) : Prop :=
  exists body, s = c_quote :: body ++ [c_quote] /\ schars body d.

(* abstract tokens *)
Definition atok : Type := kind * list byte * bool * list byte.
Definition atok_of (t : token) : atok := (t_kind t, t_raw t, t_boo t, t_str t).
Definition a_punct (k : kind) (c : byte) : atok := (k, [c], false, []).

Inductive svalue : list byte -> list atok -> Prop :=
| SNull : svalue lit_null [(KNull, lit_null, false, [])]
| STrue : svalue lit_true [(KBool, lit_true, true, [])]
| SFalse : svalue lit_false [(KBool, lit_false, false, [])]
| SNum s : rfc_number s -> svalue s [(KNumber, s, false, [])]
| SStr s d : sstring s d -> svalue s [(KString, s, false, d)]
| SArrE w : ws w -> svalue (c_lbrack :: w ++ [c_rbrack]) [a_punct KArrOpen c_lbrack; a_punct KArrClose c_rbrack]
| SArr p ks : selems p ks ->
    svalue (c_lbrack :: p ++ [c_rbrack]) (a_punct KArrOpen c_lbrack :: ks ++ [a_punct KArrClose c_rbrack])
| SObjE w : ws w -> svalue (c_lbrace :: w ++ [c_rbrace]) [a_punct KObjOpen c_lbrace; a_punct KObjClose c_rbrace]
| SObj p ks : smembers p ks ->
    svalue (c_lbrace :: p ++ [c_rbrace]) (a_punct KObjOpen c_lbrace :: ks ++ [a_punct KObjClose c_rbrace])
with selems : list byte -> list atok -> Prop :=
| SE1 w1 v w2 ks : ws w1 -> svalue v ks -> ws w2 -> selems (w1 ++ v ++ w2) ks
| SEs p w1 v w2 ks1 ks2 : selems p ks1 -> ws w1 -> svalue v ks2 -> ws w2 ->
    selems (p ++ c_comma :: w1 ++ v ++ w2) (ks1 ++ ks2)
with smembers : list byte -> list atok -> Prop :=
| SM1 w1 k d w2 w3 v w4 ks : ws w1 -> sstring k d -> ws w2 -> ws w3 -> svalue v ks -> ws w4 ->
    smembers (w1 ++ k ++ w2 ++ c_colon :: w3 ++ v ++ w4) ((KName, k, false, d) :: ks)
| SMs p w1 k d w2 w3 v w4 ks1 ks2 : smembers p ks1 -> ws w1 -> sstring k d -> ws w2 -> ws w3 ->
    svalue v ks2 -> ws w4 ->
    smembers (p ++ c_comma :: w1 ++ k ++ w2 ++ c_colon :: w3 ++ v ++ w4) (ks1 ++ (KName, k, false, d) :: ks2).

Definition stext (s : list byte) (ks : list atok) : Prop :=
  exists w1 v w2, s = w1 ++ v ++ w2 /\ ws w1 /\ svalue v ks /\ ws w2.

Scheme svalue_mind := Minimality for svalue Sort Prop
  with selems_mind := Minimality for selems Sort Prop
  with smembers_mind := Minimality for smembers Sort Prop.
Combined Scheme strict_mutind from svalue_mind, selems_mind, smembers_mind.
