(* JsonWktLite — executable instances of the string forms that the JSON message model (C20) takes
   as parameters ([JsonMsgModel.jcodec]): base64 for bytes fields, and the Duration / Timestamp
   strings.  Definitions only.

   These forms are the subject of C22 (bytes by base64 variant selection) and C23 (well-known-type
   JSON forms), whose packages own the full models and theorems; the functions here exist so that
   the C20 model is executable against the implementation and so that its theorems are not vacuous
   (Json/JsonMsgP.v proves the round-trip hypotheses it needs for base64 and Duration).

     b64_encode            base64.StdEncoding.EncodeToString
     b64_decode            protojson.unmarshalBytes: URL alphabet when the text contains '-' or '_',
                           unpadded when the length is not a multiple of 4 (white space inside the
                           text, which Go's decoder skips, is not modelled: None)
     dur_format / dur_parse_s   marshalDuration / parseDuration (well_known_types.go)
     ts_format             marshalTimestamp: RFC 3339, UTC, 0/3/6/9 fractional digits (civil date from
                           the day count)
     ts_parse_canon        parser for exactly that canonical form (time.Parse accepts more: C23) *)
From Coq Require Import List NArith ZArith Bool.
From PB Require Import Base.PBytes Text.TextStrModel Text.TextFmtModel Json.JsonMsgModel.
Import ListNotations.
Open Scope N_scope.

(* ---------- base64 ---------- *)
Definition b64_char (n : N) : byte :=
  if n <? 26 then n2b (65 + n)
  else if n <? 52 then n2b (97 + (n - 26))
  else if n <? 62 then n2b (48 + (n - 52))
  else if n =? 62 then x2b else x2f.

Fixpoint b64_encode (l : list byte) : list byte :=
  match l with
  | [] => []
  | [a] =>
    let n := b2n a * 16 in [b64_char (n / 64); b64_char (n mod 64); x3d; x3d]
  | [a; b] =>
    let n := b2n a * 1024 + b2n b * 4 in
    [b64_char (n / 4096); b64_char ((n / 64) mod 64); b64_char (n mod 64); x3d]
  | a :: b :: c :: r =>
    let n := b2n a * 65536 + b2n b * 256 + b2n c in
    b64_char (n / 262144) :: b64_char ((n / 4096) mod 64) :: b64_char ((n / 64) mod 64)
      :: b64_char (n mod 64) :: b64_encode r
  end.

Definition b64_val (url : bool) (c : byte) : option N :=
  let x := b2n c in
  if (65 <=? x) && (x <=? 90) then Some (x - 65)
  else if (97 <=? x) && (x <=? 122) then Some (x - 97 + 26)
  else if (48 <=? x) && (x <=? 57) then Some (x - 48 + 52)
  else if url then (if x =? 45 then Some 62 else if x =? 95 then Some 63 else None)
  else (if x =? 43 then Some 62 else if x =? 47 then Some 63 else None).

Definition is_pad (c : byte) : bool := b2n c =? 61.

Definition b64_q4 (url : bool) (c1 c2 c3 c4 : byte) : option (list byte) :=
  match b64_val url c1, b64_val url c2, b64_val url c3, b64_val url c4 with
  | Some v1, Some v2, Some v3, Some v4 =>
    let n := v1 * 262144 + v2 * 4096 + v3 * 64 + v4 in
    Some [n2b (n / 65536); n2b ((n / 256) mod 256); n2b (n mod 256)]
  | _, _, _, _ => None
  end.
Definition b64_q3 (url : bool) (c1 c2 c3 : byte) : option (list byte) :=
  match b64_val url c1, b64_val url c2, b64_val url c3 with
  | Some v1, Some v2, Some v3 =>
    let n := v1 * 4096 + v2 * 64 + v3 in Some [n2b (n / 1024); n2b ((n / 4) mod 256)]
  | _, _, _ => None
  end.
Definition b64_q2 (url : bool) (c1 c2 : byte) : option (list byte) :=
  match b64_val url c1, b64_val url c2 with
  | Some v1, Some v2 => let n := v1 * 64 + v2 in Some [n2b (n / 16)]
  | _, _ => None
  end.

Fixpoint b64_dec_aux (url padded : bool) (l : list byte) : option (list byte) :=
  match l with
  | [] => Some []
  | [_] => None
  | [c1; c2] => if padded then None else b64_q2 url c1 c2
  | [c1; c2; c3] => if padded then None else b64_q3 url c1 c2 c3
  | c1 :: c2 :: c3 :: c4 :: r =>
    match r with
    | [] =>
      if padded && is_pad c4 then
        (if is_pad c3 then b64_q2 url c1 c2 else b64_q3 url c1 c2 c3)
      else b64_q4 url c1 c2 c3 c4
    | _ =>
      match b64_q4 url c1 c2 c3 c4, b64_dec_aux url padded r with
      | Some a, Some b => Some (a ++ b)
      | _, _ => None
      end
    end
  end.

Definition b64_decode (s : list byte) : option (list byte) :=
  let url := existsb (fun c => (b2n c =? 45) || (b2n c =? 95)) s in
  let padded := N.of_nat (length s) mod 4 =? 0 in
  b64_dec_aux url padded s.

(* ---------- decimal helpers ---------- *)
(* [w] decimal digits of [v], most significant first (v < 10^w) *)
Fixpoint dec_fixed (w : nat) (v : N) : list byte :=
  match w with
  | O => []
  | S w' => dec_fixed w' (v / 10) ++ [n2b (48 + v mod 10)]
  end.

(* ".ddd", ".dddddd", ".ddddddddd" or nothing: the three TrimSuffix calls *)
Definition frac_digits (nanos : N) : list byte :=
  if nanos =? 0 then []
  else if nanos mod 1000000 =? 0 then x2e :: dec_fixed 3 (nanos / 1000000)
  else if nanos mod 1000 =? 0 then x2e :: dec_fixed 6 (nanos / 1000)
  else x2e :: dec_fixed 9 nanos.

Definition is_dig10 (c : byte) : bool := (48 <=? b2n c) && (b2n c <=? 57).

Fixpoint span_digits (l : list byte) : list byte * list byte :=
  match l with
  | c :: r => if is_dig10 c then let '(d, rest) := span_digits r in (c :: d, rest) else ([], l)
  | [] => ([], [])
  end.

Fixpoint digits_to_N (l : list byte) (acc : N) : N :=
  match l with
  | [] => acc
  | c :: r => digits_to_N r (acc * 10 + (b2n c - 48))
  end.

(* ---------- Duration ---------- *)
Definition dur_format (secs nanos : Z) : list byte :=
  let neg := ((secs <? 0) || (nanos <? 0))%Z in
  (if neg then [x2d] else []) ++ fmt_dec (Z.abs_N secs) ++ frac_digits (Z.abs_N nanos) ++ [x73].

(* parseDuration *)
Definition dur_parse_s (input : list byte) : option (Z * Z) :=
  match rev input with
  | c :: body_rev =>
    if negb (b2n c =? 115) then None else
    let b := rev body_rev in
    match b with
    | [] => None
    | c0 :: r0 =>
      let '(neg, b1) := if b2n c0 =? 45 then (true, r0) else if b2n c0 =? 43 then (false, r0) else (false, b) in
      match b1 with
      | [] => None
      | d0 :: r1 =>
        (* integer part *)
        let ip : option (list byte * bool * list byte) :=
          if b2n d0 =? 48 then Some ([], true, r1)
          else if is_dig10 d0 then let '(ds, rest) := span_digits b1 in Some (ds, true, rest)
          else if b2n d0 =? 46 then Some ([], false, b1)
          else None in
        match ip with
        | None => None
        | Some (intp, has_int, rest) =>
          let fp : option (option (list byte)) :=
            match rest with
            | [] => Some None
            | p :: r2 =>
              if negb (b2n p =? 46) then None else
              let '(fd, rest2) := span_digits r2 in
              match rest2 with
              | [] => if Nat.ltb 9 (length fd) then None
                      else if (match fd with [] => true | _ => false end) && negb has_int then None
                      else Some (Some fd)
              | _ => None
              end
            end in
          match fp with
          | None => None
          | Some frac =>
            let secs := digits_to_N intp 0 in
            if 9223372036854775807 <? secs then None else
            let nanos := match frac with
                         | None => 0
                         | Some fd => digits_to_N (fd ++ repeat x30 (9 - length fd)) 0
                         end in
            Some (if neg then (- Z.of_N secs)%Z else Z.of_N secs,
                  if neg then (- Z.of_N nanos)%Z else Z.of_N nanos)
          end
        end
      end
    end
  | [] => None
  end.

(* ---------- Timestamp ---------- *)
(* civil date from the number of days since 1970-01-01 (proleptic Gregorian calendar) *)
Definition civil_of_days (days : Z) : Z * Z * Z :=
  let z := (days + 719468)%Z in
  let era := (z / 146097)%Z in
  let doe := (z - era * 146097)%Z in
  let yoe := ((doe - doe / 1460 + doe / 36524 - doe / 146096) / 365)%Z in
  let doy := (doe - (365 * yoe + yoe / 4 - yoe / 100))%Z in
  let mp := ((5 * doy + 2) / 153)%Z in
  let d := (doy - (153 * mp + 2) / 5 + 1)%Z in
  let m := (if mp <? 10 then mp + 3 else mp - 9)%Z in
  let y := (yoe + era * 400 + (if m <=? 2 then 1 else 0))%Z in
  (y, m, d).

Definition days_of_civil (y m d : Z) : Z :=
  let y' := (if m <=? 2 then y - 1 else y)%Z in
  let era := (y' / 400)%Z in
  let yoe := (y' - era * 400)%Z in
  let mp := (if 2 <? m then m - 3 else m + 9)%Z in
  let doy := ((153 * mp + 2) / 5 + d - 1)%Z in
  let doe := (yoe * 365 + yoe / 4 - yoe / 100 + doy)%Z in
  (era * 146097 + doe - 719468)%Z.

Definition ts_format (secs nanos : Z) : list byte :=
  let days := (secs / 86400)%Z in
  let rem := (secs mod 86400)%Z in
  let '(y, m, d) := civil_of_days days in
  dec_fixed 4 (Z.to_N y) ++ [x2d] ++ dec_fixed 2 (Z.to_N m) ++ [x2d] ++ dec_fixed 2 (Z.to_N d) ++ [x54]
  ++ dec_fixed 2 (Z.to_N (rem / 3600)) ++ [x3a] ++ dec_fixed 2 (Z.to_N ((rem / 60) mod 60)) ++ [x3a]
  ++ dec_fixed 2 (Z.to_N (rem mod 60)) ++ frac_digits (Z.to_N nanos) ++ [x5a].

Definition take_digits (n : nat) (l : list byte) : option (N * list byte) :=
  if Nat.leb n (length l) && forallb is_dig10 (firstn n l)
  then Some (digits_to_N (firstn n l) 0, skipn n l) else None.
Definition expect (c : N) (l : list byte) : option (list byte) :=
  match l with x :: r => if b2n x =? c then Some r else None | [] => None end.

Definition days_in_month (y m : Z) : Z :=
  (if m =? 2 then (if ((y mod 4 =? 0) && negb (y mod 100 =? 0)) || (y mod 400 =? 0) then 29 else 28)
   else if (m =? 4) || (m =? 6) || (m =? 9) || (m =? 11) then 30 else 31)%Z.

(* "YYYY-MM-DDTHH:MM:SS[.d{1,9}]Z" *)
Definition ts_parse_canon (s : list byte) : option (Z * Z) :=
  match take_digits 4 s with None => None | Some (y, s1) =>
  match expect 45 s1 with None => None | Some s2 =>
  match take_digits 2 s2 with None => None | Some (mo, s3) =>
  match expect 45 s3 with None => None | Some s4 =>
  match take_digits 2 s4 with None => None | Some (d, s5) =>
  match expect 84 s5 with None => None | Some s6 =>
  match take_digits 2 s6 with None => None | Some (hh, s7) =>
  match expect 58 s7 with None => None | Some s8 =>
  match take_digits 2 s8 with None => None | Some (mi, s9) =>
  match expect 58 s9 with None => None | Some s10 =>
  match take_digits 2 s10 with None => None | Some (ss, s11) =>
    let fr : option (N * list byte) :=
      match s11 with
      | p :: r => if b2n p =? 46 then
                    let '(fd, rest) := span_digits r in
                    if (match fd with [] => true | _ => false end) || Nat.ltb 9 (length fd) then None
                    else Some (digits_to_N (fd ++ repeat x30 (9 - length fd)) 0, rest)
                  else Some (0, s11)
      | [] => Some (0, s11)
      end in
    match fr with
    | None => None
    | Some (nanos, rest) =>
      match rest with
      | [z] =>
        let yz := Z.of_N y in let mz := Z.of_N mo in let dz := Z.of_N d in
        if (b2n z =? 90) && (1 <=? mo) && (mo <=? 12) && (1 <=? d) && (Z.of_N d <=? days_in_month yz mz)%Z
           && (hh <? 24) && (mi <? 60) && (ss <? 60)
        then Some ((days_of_civil yz mz dz * 86400 + Z.of_N (hh * 3600 + mi * 60 + ss))%Z, Z.of_N nanos)
        else None
      | _ => None
      end
    end
  end end end end end end end end end end end.

Definition std_codec : jcodec :=
  mkJC b64_encode b64_decode ts_format ts_parse_canon dur_format dur_parse_s.
