(* bytes fields: exactly which strings unmarshalBytes accepts (strings without CR/LF; the
   decoder skips CR and LF anywhere, see b64_quantum). *)
From Coq Require Import List NArith ZArith Lia Bool.
From Coq Require Import ZifyBool ZifyNat ZifyN.
From PB Require Import Base.PBytes Json.JsonUtf8 Json.JsonGrammar Json.JsonNumModel Json.JsonNumP
  Json.JsonLexModel Json.JsonEncModel Json.JsonEncP Json.JsonScalarModel Json.JsonB64P Json.JsonB64VarP.
Import ListNotations.
Open Scope N_scope.

(* a base64 text of the given alphabet / padding convention and the bytes it denotes:
   full quanta of four alphabet characters, then optionally a final quantum of two or three
   characters (completed by '=' signs iff padding is in force); trailing bits are ignored *)
Definition pad_tail (pad : bool) (n : nat) : list byte := if pad then repeat c_pad n else [].
Inductive b64_text (url pad : bool) : list byte -> list byte -> Prop :=
| BT_nil : b64_text url pad [] []
| BT_full c0 c1 c2 c3 v0 v1 v2 v3 rest b :
    b64_val url c0 = Some v0 -> b64_val url c1 = Some v1 -> b64_val url c2 = Some v2 -> b64_val url c3 = Some v3 ->
    b64_text url pad rest b ->
    b64_text url pad (c0 :: c1 :: c2 :: c3 :: rest) (b64_quantum_bytes [v0; v1; v2; v3] ++ b)
| BT_2 c0 c1 v0 v1 : b64_val url c0 = Some v0 -> b64_val url c1 = Some v1 ->
    b64_text url pad (c0 :: c1 :: pad_tail pad 2) (b64_quantum_bytes [v0; v1])
| BT_3 c0 c1 c2 v0 v1 v2 : b64_val url c0 = Some v0 -> b64_val url c1 = Some v1 -> b64_val url c2 = Some v2 ->
    b64_text url pad (c0 :: c1 :: c2 :: pad_tail pad 1) (b64_quantum_bytes [v0; v1; v2]).

Definition no_nl (s : list byte) : Prop := forallb (fun c => negb (is_nl c)) s = true.

(* ---------- texts are accepted ---------- *)
Lemma b64_text_decodes url pad s b : b64_text url pad s b ->
  forall fuel, (length s < fuel)%nat -> b64_decode_loop fuel url pad s = Some b.
Proof.
  induction 1 as [|c0 c1 c2 c3 v0 v1 v2 v3 rest b H0 H1 H2 H3 Ht IH|c0 c1 v0 v1 H0 H1|c0 c1 c2 v0 v1 v2 H0 H1 H2];
    intros fuel Hf; (destruct fuel as [|fuel]; [lia|]).
  - reflexivity.
  - cbn [b64_decode_loop length]. rewrite (quantum4 _ url pad _ _ _ _ _ _ _ _ _ H0 H1 H2 H3).
    rewrite IH by (cbn [length] in Hf; lia). rewrite app_nil_r || idtac. reflexivity.
  - destruct fuel as [|fuel]; [cbn [length] in Hf; lia|].
    destruct pad; cbn [pad_tail repeat b64_decode_loop length].
    + rewrite (qpad2 _ url _ _ _ _ H0 H1). cbn [b64_quantum Nat.eqb]. now rewrite app_nil_r.
    + rewrite (qend2 _ url _ _ _ _ H0 H1). cbn [b64_quantum Nat.eqb]. now rewrite app_nil_r.
  - destruct fuel as [|fuel]; [cbn [length] in Hf; lia|].
    destruct pad; cbn [pad_tail repeat b64_decode_loop length].
    + rewrite (qpad1 _ url _ _ _ _ _ _ H0 H1 H2). cbn [b64_quantum Nat.eqb]. now rewrite app_nil_r.
    + rewrite (qend3 _ url _ _ _ _ _ _ H0 H1 H2). cbn [b64_quantum Nat.eqb]. now rewrite app_nil_r.
Qed.

(* ---------- accepted strings are texts ---------- *)
Lemma no_nl_cons c s : no_nl (c :: s) -> is_nl c = false /\ no_nl s.
Proof. unfold no_nl. cbn [forallb]. rewrite andb_true_iff, negb_true_iff. auto. Qed.
Lemma skip_nl_nonl s : no_nl s -> skip_nl s = s.
Proof. destruct s as [|c s]; auto. intros H. apply no_nl_cons in H as [H _]. cbn [skip_nl]. now rewrite H. Qed.

Lemma quantum_nlfree fuel url pad src vs rest : no_nl src ->
  b64_quantum fuel url pad 0 [] src = QOk vs rest ->
  (exists c0 c1 c2 c3 v0 v1 v2 v3, src = c0 :: c1 :: c2 :: c3 :: rest /\
     b64_val url c0 = Some v0 /\ b64_val url c1 = Some v1 /\ b64_val url c2 = Some v2 /\ b64_val url c3 = Some v3 /\
     vs = [v0; v1; v2; v3]) \/
  (rest = [] /\ exists c0 c1 v0 v1, b64_val url c0 = Some v0 /\ b64_val url c1 = Some v1 /\
     vs = [v0; v1] /\ src = c0 :: c1 :: pad_tail pad 2) \/
  (rest = [] /\ exists c0 c1 c2 v0 v1 v2, b64_val url c0 = Some v0 /\ b64_val url c1 = Some v1 /\ b64_val url c2 = Some v2 /\
     vs = [v0; v1; v2] /\ src = c0 :: c1 :: c2 :: pad_tail pad 1).
Proof.
  intros Hnl H.
  destruct fuel as [|f0]; [discriminate|]. cbn [b64_quantum Nat.eqb] in H.
  destruct src as [|c0 r0]; [discriminate|]. apply no_nl_cons in Hnl as [N0 Hnl].
  destruct (b64_val url c0) as [v0|] eqn:E0.
  2:{ rewrite N0 in H. destruct (negb pad || negb (is c0 c_pad)); discriminate. }
  destruct f0 as [|f1]; [discriminate|]. cbn [b64_quantum Nat.eqb orb] in H.
  destruct r0 as [|c1 r1]; [discriminate|]. apply no_nl_cons in Hnl as [N1 Hnl].
  destruct (b64_val url c1) as [v1|] eqn:E1.
  2:{ rewrite N1 in H. destruct (negb pad || negb (is c1 c_pad)); discriminate. }
  destruct f1 as [|f2]; [discriminate|]. cbn [b64_quantum Nat.eqb orb] in H.
  destruct r1 as [|c2 r2].
  { destruct pad; [discriminate|]. injection H as <- <-. right. left. split; auto. exists c0, c1, v0, v1. auto. }
  apply no_nl_cons in Hnl as [N2 Hnl].
  destruct (b64_val url c2) as [v2|] eqn:E2.
  2:{ rewrite N2 in H. destruct pad; cbn [negb orb] in H; [|discriminate].
      destruct (is c2 c_pad) eqn:P2; cbn [negb] in H; [|discriminate]. apply is_true in P2. subst c2.
      rewrite (skip_nl_nonl r2 Hnl) in H. destruct r2 as [|c3 r3]; [discriminate|].
      apply no_nl_cons in Hnl as [N3 Hnl].
      destruct (is c3 c_pad) eqn:P3; [|discriminate]. apply is_true in P3. subst c3.
      rewrite (skip_nl_nonl r3 Hnl) in H. destruct r3; [|discriminate]. injection H as <- <-.
      right. left. split; auto. exists c0, c1, v0, v1. auto. }
  destruct f2 as [|f3]; [discriminate|]. cbn [b64_quantum Nat.eqb orb] in H.
  destruct r2 as [|c3 r3].
  { destruct pad; [discriminate|]. injection H as <- <-. right. right. split; auto. exists c0, c1, c2, v0, v1, v2. auto 10. }
  apply no_nl_cons in Hnl as [N3 Hnl].
  destruct (b64_val url c3) as [v3|] eqn:E3.
  2:{ rewrite N3 in H. destruct pad; cbn [negb orb] in H; [|discriminate].
      destruct (is c3 c_pad) eqn:P3; cbn [negb] in H; [|discriminate]. apply is_true in P3. subst c3.
      rewrite (skip_nl_nonl r3 Hnl) in H. destruct r3; [|discriminate]. injection H as <- <-.
      right. right. split; auto. exists c0, c1, c2, v0, v1, v2. auto 10. }
  destruct f3 as [|f4]; [discriminate|]. cbn [b64_quantum Nat.eqb rev app] in H. injection H as <- <-.
  left. exists c0, c1, c2, c3, v0, v1, v2, v3. auto 10.
Qed.

Lemma quantum_not_done fuel url pad : forall j acc src, (0 < j)%nat -> b64_quantum fuel url pad j acc src <> QDone.
Proof.
  induction fuel as [|f IH]; intros j acc src Hj; cbn [b64_quantum]; [discriminate|].
  destruct (Nat.eqb j 4); [discriminate|].
  destruct src as [|c r].
  - destruct (Nat.eqb j 0) eqn:E; [apply Nat.eqb_eq in E; lia|]. destruct (Nat.eqb j 1 || pad); discriminate.
  - destruct (b64_val url c); [apply IH; lia|]. destruct (is_nl c); [now apply IH|].
    destruct (negb pad || negb (is c c_pad)); [discriminate|].
    destruct j as [|[|[|[|j]]]]; try discriminate.
    + destruct (skip_nl r) as [|c2 r2]; [discriminate|]. destruct (is c2 c_pad); [|discriminate].
      destruct (skip_nl r2); discriminate.
    + destruct (skip_nl r); discriminate.
Qed.

Lemma b64_decodes_text url pad : forall fuel s b, no_nl s ->
  b64_decode_loop fuel url pad s = Some b -> b64_text url pad s b.
Proof.
  induction fuel as [|f IH]; intros s b Hnl; cbn [b64_decode_loop]; [discriminate|].
  destruct (b64_quantum (S (S (length s))) url pad 0 [] s) as [| |vs rest] eqn:Eq; try discriminate.
  - (* QDone: the string is empty *)
    intros [= <-]. destruct s as [|c r]; [constructor|]. exfalso.
    apply no_nl_cons in Hnl as [N0 _]. remember (S (length (c :: r))) as f1 eqn:Ef1. clear Ef1.
    cbn [b64_quantum Nat.eqb] in Eq.
    destruct (b64_val url c).
    + revert Eq. apply quantum_not_done. lia.
    + rewrite N0 in Eq. destruct (negb pad || negb (is c c_pad)); discriminate.
  - destruct (b64_decode_loop f url pad rest) as [t|] eqn:Et; [|discriminate]. intros [= <-].
    destruct (quantum_nlfree _ _ _ _ _ _ Hnl Eq)
      as [(c0 & c1 & c2 & c3 & v0 & v1 & v2 & v3 & -> & H0 & H1 & H2 & H3 & ->)
         | [(-> & c0 & c1 & v0 & v1 & H0 & H1 & -> & ->) | (-> & c0 & c1 & c2 & v0 & v1 & v2 & H0 & H1 & H2 & -> & ->)]].
    + apply BT_full; auto. apply IH; auto.
      do 4 (apply no_nl_cons in Hnl as [_ Hnl]). exact Hnl.
    + assert (t = []) as -> by (destruct f; cbn in Et; congruence). rewrite app_nil_r. now apply BT_2.
    + assert (t = []) as -> by (destruct f; cbn in Et; congruence). rewrite app_nil_r. now apply BT_3.
Qed.

(* unmarshalBytes accepts exactly the base64 texts of the variant it selects: URL-safe alphabet
   iff the string contains '-' or '_', padded iff its length is a multiple of four *)
Theorem bytes_base64_accepts_iff tok b : t_kind tok = KString -> no_nl (t_str tok) ->
  (unmarshal_bytes tok = Some b <->
   b64_text (has_url_char (t_str tok)) (Nat.eqb (Nat.modulo (length (t_str tok)) 4) 0) (t_str tok) b).
Proof.
  intros Hk Hnl. unfold unmarshal_bytes. rewrite Hk. fold (has_url_char (t_str tok)). unfold b64_decode. split.
  - apply b64_decodes_text; auto.
  - intros H. apply (b64_text_decodes _ _ _ _ H). lia.
Qed.

(* in particular: a character outside the selected alphabet, or a length of 1 modulo 4,
   or misplaced / missing padding, is rejected *)
Lemma b64_text_chars url pad s b : b64_text url pad s b ->
  Forall (fun c => b64_val url c <> None \/ (pad = true /\ c = c_pad)) s.
Proof.
  assert (Htail : forall n, Forall (fun c => b64_val url c <> None \/ (pad = true /\ c = c_pad)) (pad_tail pad n)).
  { intros n. destruct pad; cbn [pad_tail]; [|constructor]. induction n; cbn [repeat]; constructor; auto. }
  induction 1; repeat (apply Forall_cons; [left; congruence|]); auto.
Qed.
Lemma b64_text_length url s b : b64_text url true s b -> (length s mod 4 = 0)%nat.
Proof.
  induction 1; cbn [length pad_tail repeat]; auto.
  change (S (S (S (S (length rest))))) with (4 + length rest)%nat. now rewrite mod4_add.
Qed.
Lemma b64_text_length_raw url s b : b64_text url false s b -> (length s mod 4 <> 1)%nat.
Proof.
  induction 1; cbn [length pad_tail]; try (cbn; lia).
  change (S (S (S (S (length rest))))) with (4 + length rest)%nat. now rewrite mod4_add.
Qed.
