(* 64-bit integers are written as JSON strings holding the decimal value, and read back
   exactly (marshalSingular / unmarshalInt). *)
From Coq Require Import List NArith ZArith Lia Bool.
From Coq Require Import ZifyBool ZifyNat ZifyN.
From PB Require Import Base.PBytes Json.JsonUtf8 Json.JsonGrammar Json.JsonNumModel Json.JsonNumP Json.JsonIntP
  Json.JsonLexModel Json.JsonStrP Json.JsonLexP Json.JsonEncModel Json.JsonEncP Json.JsonEncSpec Json.JsonEncGrammarP
  Json.JsonScalarModel Json.JsonScalarP.
Import ListNotations.
Open Scope N_scope.
Ltac Zify.zify_post_hook ::= Z.div_mod_to_equations.

(* ---------- decimal printing is inverted by decimal parsing ---------- *)
Lemma dv_n2b d : d < 10 -> dv (n2b (48 + d)) = d.
Proof. intros H. unfold dv. rewrite b2n_n2b by lia. lia. Qed.

Lemma dec_digits_fuel_val fuel : forall n acc, n < 2 ^ N.of_nat fuel -> (0 < fuel)%nat ->
  dec_val (dec_digits_fuel fuel n acc) = n * p10 (length acc) + dec_val acc.
Proof.
  induction fuel as [|f IH]; intros n acc Hn Hf; [lia|]. cbn [dec_digits_fuel].
  destruct (n <? 10) eqn:E.
  - rewrite dec_val_cons, dv_n2b by lia. replace (n mod 10) with n by lia. reflexivity.
  - assert (Hf' : (0 < f)%nat) by (destruct f; [cbn in Hn; lia|lia]).
    rewrite Nat2N.inj_succ, N.pow_succ_r' in Hn.
    rewrite IH by lia. rewrite dec_val_cons, dv_n2b by lia. cbn [length p10].
    assert (Hdm : n = 10 * (n / 10) + n mod 10) by lia.
    set (q := n / 10) in *. set (r := n mod 10) in *. set (P := p10 (length acc)). clearbody q r P. rewrite Hdm. ring.
Qed.

Lemma dec_val_dec_digits n : dec_val (dec_digits n) = n.
Proof.
  unfold dec_digits. rewrite dec_digits_fuel_val; [cbn [length p10]; rewrite dec_val_nil; lia| |lia].
  rewrite Nat2N.inj_succ, N2Nat.id. destruct n; [cbn; lia|]. apply N.log2_spec. lia.
Qed.

(* ---------- the literal dec_int v denotes v ---------- *)
Lemma dec_digits_digits n : digits (dec_digits n) /\ dec_digits n <> [].
Proof. destruct (dec_digits_spec n) as (d & ds & -> & Hd & _). split; [exact Hd|discriminate]. Qed.

Definition int_sign (z : Z) : list byte := match z with Zneg _ => [c_minus] | _ => [] end.
Lemma dec_int_split z : dec_int z = int_sign z ++ dec_digits (Z.abs_N z).
Proof. destruct z; reflexivity. Qed.

Lemma span_digits_all d : digits d -> span_digits d = (d, []).
Proof. intros H. rewrite <- (app_nil_r d) at 1. apply span_digits_app; auto. exact I. Qed.

Lemma num_decompose_dec_int z :
  num_decompose (dec_int z) =
  {| nl_neg := match z with Zneg _ => true | _ => false end; nl_int := dec_digits (Z.abs_N z);
     nl_frac := []; nl_eneg := false; nl_exp := [] |}.
Proof.
  rewrite dec_int_split. destruct (dec_digits_digits (Z.abs_N z)) as [Hd Hne].
  pose proof (dec_digits_rfc_int (Z.abs_N z)) as Hi.
  unfold num_decompose. destruct z; cbn [int_sign app].
  - rewrite <- (app_nil_r (dec_digits _)) at 1. rewrite (nd_sign_int _ [] Hi), app_nil_r, (span_digits_all _ Hd). reflexivity.
  - rewrite <- (app_nil_r (dec_digits _)) at 1. rewrite (nd_sign_int _ [] Hi), app_nil_r, (span_digits_all _ Hd). reflexivity.
  - cbn [nd_sign]. rewrite is_refl, (span_digits_all _ Hd). reflexivity.
Qed.

Lemma lit_is_int_dec_int z : lit_is_int (dec_int z) z.
Proof.
  unfold lit_is_int, num_mant, num_exp10. rewrite num_decompose_dec_int. cbn [nl_neg nl_int nl_frac nl_eneg nl_exp length].
  rewrite app_nil_r, dec_val_dec_digits. cbn. destruct z; cbn; lia.
Qed.

Lemma f6_class_dec_int z : f6_class (dec_int z) = false.
Proof.
  rewrite dec_int_split. pose proof (dec_digits_rfc_int (Z.abs_N z)) as Hi.
  assert (Hpp : forall neg s, (s = [] /\ neg = false \/ s = [c_minus] /\ neg = true) ->
            parse_number_parts (s ++ dec_digits (Z.abs_N z)) =
            Some {| p_neg := neg; p_intp := intp_of (dec_digits (Z.abs_N z)); p_frac := []; p_exp := [] |}).
  { intros neg s Hs. unfold parse_number_parts.
    destruct (rfc_int_digits _ Hi) as (_ & b0 & d0 & Ei & Hb0).
    destruct Hs as [[-> ->] | [-> ->]]; cbn [app].
    - rewrite Ei. rewrite (proj1 (digits_not_sign _ Hb0)). rewrite <- Ei.
      rewrite <- (app_nil_r (dec_digits _)) at 1. rewrite (pp_int_app _ [] Hi I). reflexivity.
    - rewrite is_refl. rewrite <- (app_nil_r (dec_digits _)) at 1. rewrite (pp_int_app _ [] Hi I). reflexivity. }
  unfold f6_class. destruct z; cbn [int_sign]; first [rewrite (Hpp false []) by auto | rewrite (Hpp true [c_minus]) by auto];
    cbn [p_intp p_frac p_exp]; destruct (intp_of _); reflexivity.
Qed.

Theorem token_int_dec_int bits z : 1 <= bits <= 64 -> int_in_range bits true z -> token_int bits (dec_int z) = Some z.
Proof.
  intros Hb Hr. apply token_int_complete; auto using dec_int_rfc, f6_class_dec_int, lit_is_int_dec_int.
Qed.

Theorem token_uint_dec_digits bits n : bits <= 64 -> n < 2 ^ bits -> token_uint bits (dec_digits n) = Some n.
Proof.
  intros Hb Hr. change (dec_digits n) with (dec_int (Z.of_N n)) || idtac.
  assert (E : dec_digits n = dec_int (Z.of_N n)) by (destruct n; reflexivity).
  rewrite E. rewrite (token_uint_complete bits _ (Z.of_N n)); auto using dec_int_rfc, f6_class_dec_int, lit_is_int_dec_int.
  - f_equal. lia.
  - unfold int_in_range. pose proof (N2Z.inj_pow 2 bits) as HP. change (Z.of_N 2) with 2%Z in HP. lia.
Qed.

(* ---------- a number at top level of a nested Decoder ---------- *)
Definition numch (b : byte) : Prop := is_digit b = true \/ b = c_minus.

Lemma numch_facts b : numch b ->
  b2n b < 128 /\ 32 <= b2n b /\ is_ws b = false /\ is b c_quote = false /\ is b c_bslash = false /\
  is b "n"%byte = false /\ is b "t"%byte = false /\ is b "f"%byte = false /\
  (is b c_minus || is_digit b) = true /\ is_unicode_space (b2n b) = false.
Proof.
  intros [H | ->]; [|repeat split; reflexivity || (cbn; lia)].
  pose proof H as H'. apply is_digit_b2n in H'. unfold is_ws, is_unicode_space.
  rewrite H, orb_true_r. rewrite !is_b2n_false by (cbn; lia). repeat split; try lia.
Qed.

Lemma dec_int_numch z : Forall numch (dec_int z).
Proof.
  rewrite dec_int_split. apply Forall_app. split.
  - destruct z; cbn [int_sign]; auto. constructor; auto. now right.
  - destruct (dec_digits_digits (Z.abs_N z)) as [Hd _]. unfold digits in Hd. rewrite forallb_forall in Hd.
    apply Forall_forall. intros b Hb. left. auto.
Qed.

Lemma escape_loop_numch s : Forall numch s -> forall fuel, (length s < fuel)%nat -> escape_loop fuel s = (s, true).
Proof.
  induction 1 as [|b r Hb Hr IH]; intros fuel Hf; (destruct fuel as [|f]; [cbn [length] in Hf; lia|]); [reflexivity|].
  destruct (numch_facts b Hb) as (H128 & H32 & _ & Hq & Hbs & _).
  cbn [escape_loop]. rewrite (decode_rune_ascii b r H128). unfold is_bad_rune, rune_error. cbn [fst snd skipn firstn].
  replace (b2n b =? 65533) with false by lia. cbn [andb].
  rewrite (IH f) by (cbn [length] in Hf; lia). rewrite Hq, Hbs. replace (b2n b <? 32) with false by lia. reflexivity.
Qed.

Lemma append_string_dec_int z : append_string (dec_int z) = (c_quote :: dec_int z ++ [c_quote], true).
Proof.
  unfold append_string, escape_string. rewrite (escape_loop_numch _ (dec_int_numch z)) by lia. reflexivity.
Qed.

Lemma last_rune_numch s : Forall numch s -> forall fuel cur, is_unicode_space cur = false ->
  is_unicode_space (last_rune_fuel fuel cur s) = false.
Proof.
  induction 1 as [|b r Hb Hr IH]; intros fuel cur Hc; destruct fuel; cbn [last_rune_fuel]; auto.
  destruct (numch_facts b Hb) as (H128 & _ & _ & _ & _ & _ & _ & _ & _ & Hsp).
  rewrite (decode_rune_ascii b r H128). cbn [fst snd skipn]. auto.
Qed.

Lemma trim_space_numch s : Forall numch s -> trim_space_changes s = false.
Proof.
  intros H. unfold trim_space_changes. destruct s as [|b r]; auto.
  pose proof (Forall_inv H) as Hb. destruct (numch_facts b Hb) as (H128 & _ & _ & _ & _ & _ & _ & _ & _ & Hsp).
  rewrite (decode_rune_ascii b r H128). cbn [fst]. rewrite Hsp. cbn [orb].
  apply last_rune_numch; auto.
Qed.

Definition number_token (s : list byte) : token :=
  {| t_kind := KNumber; t_pos := 0; t_raw := s; t_boo := false; t_str := [] |}.

Lemma read_top_number s : rfc_number s -> Forall numch s ->
  exists st', read (d_init s) = Ok (number_token s, st') /\
              exists tk st'', read st' = Ok (tk, st'') /\ t_kind tk = KEOF.
Proof.
  intros Hn Hch.
  assert (Hne : exists b r, s = b :: r).
  { destruct Hn as [m i f e Hm Hi]. destruct Hm as [-> | ->]; destruct Hi; cbn [app]; eauto. }
  destruct Hne as (b & r & Es). assert (Hb : numch b) by (rewrite Es in Hch; exact (Forall_inv Hch)).
  destruct (numch_facts b Hb) as (_ & _ & Hws & _ & _ & Hn1 & Hn2 & Hn3 & Hnum & _).
  pose proof (parse_number_complete s [] Hn eq_refl) as Hpn. rewrite app_nil_r in Hpn.
  set (st1 := {| d_last := KInvalid; d_stack := []; d_pos := length s; d_in := [] |}).
  assert (Hpnx : parse_next (d_init s) = Ok (number_token s, st1)).
  { subst st1. subst s. unfold parse_next, consume, d_init. cbn [d_in d_last d_stack d_pos skipn skip_ws].
    rewrite Hws. cbn [d_in d_pos]. rewrite Hn1, Hn2, Hn3, Hnum, Hpn.
    unfold mk_token, consume. cbn [d_in d_last d_stack d_pos]. rewrite firstn_all, skipn_all. cbn [skip_ws].
    unfold number_token. f_equal. f_equal; f_equal; cbn [length]; lia. }
  exists (set_last KNumber st1). split.
  - unfold read, read_step. rewrite Hpnx. reflexivity.
  - eexists _, _. split; [unfold read, read_step, parse_next, consume; cbn; reflexivity|reflexivity].
Qed.

Theorem quoted_number_token_dec_int z :
  quoted_number_token (dec_int z) = Some (number_token (dec_int z)).
Proof.
  unfold quoted_number_token. rewrite (trim_space_numch _ (dec_int_numch z)).
  destruct (read_top_number _ (dec_int_rfc z) (dec_int_numch z)) as (st' & -> & tk & st'' & -> & Hk).
  rewrite Hk. reflexivity.
Qed.

(* ---------- int64_written_as_string ---------- *)
Definition string_token (raw str : list byte) (pos : nat) : token :=
  {| t_kind := KString; t_pos := pos; t_raw := raw; t_boo := false; t_str := str |}.

(* marshalSingular: a 64-bit integer is one WriteString call; the bytes written are the
   quoted decimal value; the String token read back from them decodes to the same value *)
Theorem int64_written_as_string rnd e z :
  int_in_range 64 true z ->
  marshal_int 64 z = CString (dec_int z) /\
  fst (enc_call rnd (marshal_int 64 z) e) = emit (c_quote :: dec_int z ++ [c_quote]) (prepare_next rnd EKScalar e) /\
  (forall pos rest, parse_string_at pos ((c_quote :: dec_int z ++ [c_quote]) ++ rest)
                    = Ok (dec_int z, length (c_quote :: dec_int z ++ [c_quote]))) /\
  (forall raw pos, unmarshal_int 64 (string_token raw (dec_int z) pos) = Some z).
Proof.
  intros Hr. split; [reflexivity|]. split; [|split].
  - cbn [marshal_int N.eqb Pos.eqb enc_call]. rewrite append_string_dec_int. reflexivity.
  - intros pos rest. apply string_escape_roundtrip. apply append_string_dec_int.
  - intros raw pos. unfold unmarshal_int, string_token. cbn [t_kind t_str].
    rewrite quoted_number_token_dec_int. unfold tok_int, number_token. cbn [t_kind t_raw].
    apply token_int_dec_int; auto. lia.
Qed.

Theorem uint64_written_as_string rnd e n :
  n < 2 ^ 64 ->
  marshal_uint 64 n = CString (dec_digits n) /\
  fst (enc_call rnd (marshal_uint 64 n) e) = emit (c_quote :: dec_digits n ++ [c_quote]) (prepare_next rnd EKScalar e) /\
  (forall raw pos, unmarshal_uint 64 (string_token raw (dec_digits n) pos) = Some n).
Proof.
  intros Hr. assert (E : dec_digits n = dec_int (Z.of_N n)) by (destruct n; reflexivity).
  split; [reflexivity|]. split.
  - cbn [marshal_uint N.eqb Pos.eqb enc_call]. rewrite E, append_string_dec_int. reflexivity.
  - intros raw pos. unfold unmarshal_uint, string_token. cbn [t_kind t_str].
    rewrite E, quoted_number_token_dec_int. unfold tok_uint, number_token. cbn [t_kind t_raw]. rewrite <- E.
    apply token_uint_dec_digits; auto. lia.
Qed.

(* 32-bit integers are written as bare numbers *)
Theorem int32_written_as_number rnd e z : int_in_range 32 true z ->
  fst (enc_call rnd (marshal_int 32 z) e) = emit (dec_int z) (prepare_next rnd EKScalar e) /\
  token_int 32 (dec_int z) = Some z.
Proof. intros Hr. split; [reflexivity|]. apply token_int_dec_int; auto. lia. Qed.
