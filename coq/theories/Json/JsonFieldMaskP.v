(* JsonFieldMaskP — string lemmas for the FieldMask mapping of protojson (C20): a comma-joined list of
   lower-camel paths is split back into the same list, and each reversible path is recovered. *)
From Coq Require Import List Arith NArith ZArith Lia Bool.
From Coq Require Import ZifyBool ZifyNat ZifyN.
From PB Require Import Base.PBytes Json.RtSchema Json.JsonMsgModel Text.TextMsgScalarP.
Ltac Zify.zify_post_hook ::= Z.div_mod_to_equations.
Import ListNotations.
Open Scope N_scope.

Lemma upper_of_lower c : is_lower c = true -> 65 <= b2n (n2b (b2n c - 32)) <= 90.
Proof.
  unfold is_lower. intros H. pose proof (b2n_lt c). rewrite b2n_n2b by lia. lia.
Qed.

Lemma fm_camel_aux_chars (P : byte -> Prop) :
  (forall c, 65 <= b2n c <= 90 -> P c) ->
  forall s w, (forall c, In c s -> b2n c <> 95 -> P c) -> forall c, In c (fm_camel_aux w s) -> P c.
Proof.
  intros Hup s. induction s as [|x s IH]; intros w Hs c Hin; [destruct Hin|].
  cbn [fm_camel_aux] in Hin. destruct (b2n x =? 95) eqn:E.
  - apply (IH true); [|exact Hin]. intros c' Hc'. apply Hs. right. exact Hc'.
  - destruct Hin as [<-|Hin].
    + destruct (w && is_lower x) eqn:Ew.
      * apply andb_prop in Ew. destruct Ew as [_ El]. apply Hup, upper_of_lower, El.
      * apply Hs; [left; reflexivity|]. apply N.eqb_neq, E.
    + apply (IH false); [|exact Hin]. intros c' Hc'. apply Hs. right. exact Hc'.
Qed.

Lemma fm_camel_no_underscore s : existsb (fun c => b2n c =? 95) (fm_camel s) = false.
Proof.
  destruct (existsb (fun c => b2n c =? 95) (fm_camel s)) eqn:E; [|reflexivity].
  apply existsb_exists in E. destruct E as (c & Hin & Hc). apply N.eqb_eq in Hc. exfalso.
  revert Hc. apply (fm_camel_aux_chars (fun c => b2n c <> 95)) with (s := s) (w := false); [lia| |exact Hin].
  intros c' _ H. exact H.
Qed.

Lemma fullname_chars st s : fullname_valid_aux st s = true -> forall c, In c s -> b2n c <> 44.
Proof.
  revert st. induction s as [|x s IH]; intros st H c Hin; [destruct Hin|].
  cbn [fullname_valid_aux] in H. destruct Hin as [<-|Hin].
  - destruct st.
    + apply andb_prop in H. destruct H as [H _]. unfold is_letter, is_lower, is_upper in H. lia.
    + destruct (b2n x =? 46) eqn:E; [lia|]. apply andb_prop in H. destruct H as [H _].
      unfold is_letter_digit, is_letter, is_lower, is_upper in H. lia.
  - destruct st.
    + apply andb_prop in H. destruct H as [_ H]. apply (IH _ H), Hin.
    + destruct (b2n x =? 46); [apply (IH _ H), Hin|]. apply andb_prop in H. destruct H as [_ H]. apply (IH _ H), Hin.
Qed.

Lemma fm_camel_no_comma s : fullname_valid s = true -> forall c, In c (fm_camel s) -> b2n c <> 44.
Proof.
  intros H. apply fm_camel_aux_chars; [lia|]. intros c Hin _. apply (fullname_chars true s H), Hin.
Qed.

(* ---------- split / join ---------- *)
Lemma split_aux_app a rest cur : (forall c, In c a -> b2n c <> 44) ->
  split_comma_aux (a ++ rest) cur = split_comma_aux rest (rev a ++ cur).
Proof.
  revert cur. induction a as [|x a IH]; intros cur H; [reflexivity|].
  cbn [app split_comma_aux]. destruct (b2n x =? 44) eqn:E.
  - apply N.eqb_eq in E. exfalso. apply (H x); [left; reflexivity|exact E].
  - rewrite IH by (intros c Hc; apply H; right; exact Hc). cbn [rev]. rewrite <- app_assoc. reflexivity.
Qed.

Lemma split_join_aux : forall cs cur, cs <> [] -> Forall (fun a => forall c, In c a -> b2n c <> 44) cs ->
  split_comma_aux (join_comma cs) cur = match cs with c :: r => (rev cur ++ c) :: r | [] => [] end.
Proof.
  induction cs as [|a [|b r] IH]; intros cur Hne Hall; [congruence| |].
  - inversion Hall as [|? ? Ha _]; subst. cbn [join_comma].
    rewrite <- (app_nil_r a) at 1. rewrite split_aux_app by exact Ha. cbn [split_comma_aux].
    rewrite rev_app_distr, rev_involutive. reflexivity.
  - inversion Hall as [|? ? Ha Hall']; subst.
    change (join_comma (a :: b :: r)) with (a ++ x2c :: join_comma (b :: r)).
    rewrite split_aux_app by exact Ha. cbn [split_comma_aux]. change (b2n x2c =? 44) with true. cbn iota.
    rewrite rev_app_distr, rev_involutive. f_equal.
    rewrite (IH [] ltac:(discriminate) Hall'). reflexivity.
Qed.

Lemma split_join cs : cs <> [] -> Forall (fun a => forall c, In c a -> b2n c <> 44) cs ->
  split_comma (join_comma cs) = cs.
Proof.
  intros Hne Hall. unfold split_comma. rewrite (split_join_aux cs [] Hne Hall). destruct cs; [congruence|reflexivity].
Qed.

Lemma join_nonempty cs : cs <> [] -> Forall (fun a => a <> []) cs -> join_comma cs <> [].
Proof.
  intros Hne Hall. destruct cs as [|a [|b r]]; [congruence| |].
  - inversion Hall; subst. cbn [join_comma]. assumption.
  - cbn [join_comma]. intros H. apply app_eq_nil in H. destruct H as [_ H]. discriminate.
Qed.

(* ---------- one path ---------- *)
Lemma fm_path_facts p : fm_path_ok p = true ->
  fullname_valid p = true /\ fm_snake (fm_camel p) = p /\ fm_camel p <> [].
Proof.
  unfold fm_path_ok. intros H. apply andb_prop in H. destruct H as [Hv Hs]. apply bs_eqb_eq in Hs.
  split; [exact Hv|]. split; [exact Hs|]. intros E. rewrite E in Hs. cbn in Hs. subst p. discriminate.
Qed.
