(* JsonMsgP — proof of the protojson round trip (C20) for the tree-level model, core part:
   of_json (to_json o v) = strip_unknown v for every option record o, every schema table without
   special-mapping types and every representable canonical value v (with the exclusion of F11). *)
From Coq Require Import List Arith NArith ZArith Lia Bool Permutation.
From Coq Require Import ZifyBool ZifyNat ZifyN.
From PB Require Import Base.PBytes Wire.WireModel Msg.MsgSchema Msg.MsgValue Msg.MsgUtf8 Msg.MsgEnc Msg.MsgDec Msg.MsgValid Msg.MsgAssocP.
From PB Require Import Text.TextStrModel Text.TextFmtModel Text.TextFmtP.
From PB Require Import Json.RtSchema Json.JsonMsgModel Json.JsonMsgValid.
From PB Require Import Text.TextMsgModel Text.TextMsgValid Text.TextMsgScalarP Text.TextMsgP.
Ltac Zify.zify_post_hook ::= Z.div_mod_to_equations.
Import ListNotations.
Open Scope N_scope.

Lemma jmapM_ok {A B} (f : A -> jres B) (P : A -> B -> Prop) l :
  (forall a, In a l -> exists b, f a = JOk b /\ P a b) ->
  exists bs, jmapM f l = JOk bs /\ Forall2 P l bs.
Proof.
  induction l as [|a l IH]; intros H.
  - exists []. split; [reflexivity|constructor].
  - destruct (H a (or_introl eq_refl)) as (b & Hb & Pb).
    destruct IH as (bs & Hbs & Pbs); [intros x Hx; apply H; right; exact Hx|].
    exists (b :: bs). split; [|constructor; assumption].
    cbn [jmapM]. rewrite Hb. cbn [jbind]. rewrite Hbs. reflexivity.
Qed.

Lemma jmapM_dec {A B} (f : A -> jres B) (g : B -> B) : forall (xs : list A) (vs : list B),
  Forall2 (fun v x => f x = JOk (g v)) vs xs -> jmapM f xs = JOk (map g vs).
Proof.
  intros xs vs H. induction H as [|v x vs xs Hx Hall IH]; [reflexivity|].
  cbn [jmapM map]. rewrite Hx. cbn [jbind]. rewrite IH. reflexivity.
Qed.

(* ================================================================== scalars *)
Lemma fmt_dec_int n : fmt_dec n = fmt_int (Z.of_N n).
Proof. unfold fmt_int. destruct (Z.of_N n <? 0)%Z eqn:E; [lia|]. rewrite N2Z.id. reflexivity. Qed.

Lemma pow127 : (2 ^ Z.of_N (128 - 1) = 170141183460469231731687303715884105728)%Z.
Proof. reflexivity. Qed.

Lemma json_int_of_str z :
  (-9223372036854775808 <= z < 18446744073709551616)%Z -> json_int_of (JStr (fmt_int z)) = JOk z.
Proof.
  intros H. unfold json_int_of. rewrite (parse_fmt_int 128 z); [|lia|rewrite pow127; lia].
  rewrite bs_eqb_refl. reflexivity.
Qed.

Lemma json_float32_rt b : nan_canon32 b = true -> dec_float32 (json_float32 b) = JOk b.
Proof.
  unfold nan_canon32, json_float32. intros H.
  destruct (f32_is_nan b) eqn:En.
  - cbn [negb orb] in H. apply N.eqb_eq in H. subst b. reflexivity.
  - unfold f32_is_pinf, f32_is_ninf.
    destruct (b =? 2139095040) eqn:E1; [apply N.eqb_eq in E1; subst; reflexivity|].
    destruct (b =? 4286578688) eqn:E2; [apply N.eqb_eq in E2; subst; reflexivity|].
    reflexivity.
Qed.

Lemma json_float64_rt b : nan_canon64 b = true -> dec_float64 (json_float64 b) = JOk b.
Proof.
  unfold nan_canon64, json_float64. intros H.
  destruct (f64_is_nan b) eqn:En.
  - cbn [negb orb] in H. apply N.eqb_eq in H. subst b. reflexivity.
  - unfold f64_is_pinf, f64_is_ninf.
    destruct (b =? 9218868437227405312) eqn:E1; [apply N.eqb_eq in E1; subst; reflexivity|].
    destruct (b =? 18442240474082181120) eqn:E2; [apply N.eqb_eq in E2; subst; reflexivity|].
    reflexivity.
Qed.

Lemma json_float32_notnull b : is_jnull (json_float32 b) = false.
Proof. unfold json_float32. destruct (f32_is_nan b), (f32_is_pinf b), (f32_is_ninf b); reflexivity. Qed.
Lemma json_float64_notnull b : is_jnull (json_float64 b) = false.
Proof. unfold json_float64. destruct (f64_is_nan b), (f64_is_pinf b), (f64_is_ninf b); reflexivity. Qed.

Section Scalar.
  Variable cd : jcodec.
  Hypothesis Hb64 : forall bs, b64_dec cd (b64_enc cd bs) = Some bs.
  Variable o : jopts.

  Lemma json_scalar_rt ed sk s :
    json_scalar_ok ed sk s = true ->
    (sk = SkEnum -> enum_ok ed = true) ->
    exists j, json_scalar cd o ed sk s = JOk j /\ dec_scalar cd ed sk j = JOk s /\
              (is_jnull j = true -> sk = SkEnum /\ e_null ed = true).
  Proof.
    unfold json_scalar_ok, rt_scalar_ok. intros H He.
    apply andb_prop in H. destruct H as [H Hnull].
    apply andb_prop in H. destruct H as [H Hnan]. apply andb_prop in H. destruct H as [Hok Hstr].
    destruct sk, s; cbn [sk_ok] in Hok; try discriminate; cbn [json_scalar dec_scalar].
    - (* double *) eexists; split; [reflexivity|]. unfold jbind. rewrite (json_float64_rt _ Hnan).
      split; [reflexivity|]. rewrite json_float64_notnull. discriminate.
    - (* float *) eexists; split; [reflexivity|]. unfold jbind. rewrite (json_float32_rt _ Hnan).
      split; [reflexivity|]. rewrite json_float32_notnull. discriminate.
    - (* int64 *) eexists; split; [reflexivity|]. unfold jbind, dec_int, jbind. rewrite json_int_of_str by lia.
      unfold in_i64. rewrite Hok. split; [reflexivity|discriminate].
    - (* uint64 *) eexists; split; [reflexivity|]. unfold jbind, dec_int, jbind. rewrite fmt_dec_int, json_int_of_str by lia.
      assert (in_u64 (Z.of_N n) = true) as -> by (unfold in_u64; lia). rewrite N2Z.id. split; [reflexivity|discriminate].
    - (* int32 *) eexists; split; [reflexivity|]. unfold jbind, dec_int, json_int_of, jbind, in_i32. rewrite Hok.
      split; [reflexivity|discriminate].
    - (* fixed64 *) eexists; split; [reflexivity|]. unfold jbind, dec_int, jbind. rewrite fmt_dec_int, json_int_of_str by lia.
      assert (in_u64 (Z.of_N n) = true) as -> by (unfold in_u64; lia). rewrite N2Z.id. split; [reflexivity|discriminate].
    - (* fixed32 *) eexists; split; [reflexivity|]. unfold jbind, dec_int, json_int_of, jbind.
      assert (in_u32 (Z.of_N n) = true) as -> by (unfold in_u32; lia). rewrite N2Z.id. split; [reflexivity|discriminate].
    - (* bool *) eexists; split; [reflexivity|]. split; [reflexivity|discriminate].
    - (* string *) cbn [msg_str_valid negb orb] in Hstr. rewrite Hstr.
      eexists; split; [reflexivity|]. split; [reflexivity|discriminate].
    - (* bytes *) eexists; split; [reflexivity|]. cbn [dec_scalar]. rewrite Hb64. split; [reflexivity|discriminate].
    - (* uint32 *) eexists; split; [reflexivity|]. unfold jbind, dec_int, json_int_of, jbind.
      assert (in_u32 (Z.of_N n) = true) as -> by (unfold in_u32; lia). rewrite N2Z.id. split; [reflexivity|discriminate].
    - (* enum *)
      unfold json_enum. destruct (e_null ed) eqn:Enull.
      + cbn [negb orb] in Hnull. apply Z.eqb_eq in Hnull. subst z.
        eexists; split; [reflexivity|]. unfold jbind, dec_enum. rewrite Enull. split; [reflexivity|]. intros _. split; reflexivity.
      + destruct (enum_by_number (e_vals ed) z) as [name|] eqn:En.
        * destruct (enum_ok_roundtrip ed z name (He eq_refl) En) as [Hname _].
          destruct (o_enum_numbers o).
          -- eexists; split; [reflexivity|]. unfold jbind, dec_enum, dec_int, json_int_of, jbind, in_i32. rewrite Hok.
             split; [reflexivity|discriminate].
          -- eexists; split; [reflexivity|]. unfold jbind, dec_enum. rewrite Hname. split; [reflexivity|discriminate].
        * eexists; split; [reflexivity|]. unfold jbind, dec_enum, dec_int, json_int_of, jbind, in_i32. rewrite Hok.
          split; [reflexivity|discriminate].
    - (* sfixed32 *) eexists; split; [reflexivity|]. unfold jbind, dec_int, json_int_of, jbind, in_i32. rewrite Hok.
      split; [reflexivity|discriminate].
    - (* sfixed64 *) eexists; split; [reflexivity|]. unfold jbind, dec_int, jbind. rewrite json_int_of_str by lia.
      unfold in_i64. rewrite Hok. split; [reflexivity|discriminate].
    - (* sint32 *) eexists; split; [reflexivity|]. unfold jbind, dec_int, json_int_of, jbind, in_i32. rewrite Hok.
      split; [reflexivity|discriminate].
    - (* sint64 *) eexists; split; [reflexivity|]. unfold jbind, dec_int, jbind. rewrite json_int_of_str by lia.
      unfold in_i64. rewrite Hok. split; [reflexivity|discriminate].
  Qed.

  Lemma json_zero_ok ed sk : json_scalar_ok ed sk (sk_zero sk) = true.
  Proof.
    unfold json_scalar_ok. destruct sk; cbn [sk_zero]; try reflexivity.
    (* enum *) unfold rt_scalar_ok. cbn. apply orb_true_r.
  Qed.
End Scalar.

Lemma pow2_32 : 2 ^ 32 = 4294967296. Proof. reflexivity. Qed.
Lemma pow2_64 : 2 ^ 64 = 18446744073709551616. Proof. reflexivity. Qed.

Lemma json_key_rt kk k :
  rt_scalar_ok true kk k = true -> json_key_kind_ok kk = true ->
  exists name, json_key kk k = JOk name /\ dec_key kk name = JOk k.
Proof.
  unfold rt_scalar_ok. intros H Hk.
  apply andb_prop in H. destruct H as [H _]. apply andb_prop in H. destruct H as [Hok Hstr].
  destruct kk, k; cbn [sk_ok] in Hok; try discriminate; cbn [json_key_kind_ok] in Hk; try discriminate;
    cbn [json_key dec_key].
  - (* int64 *) eexists; split; [reflexivity|]. rewrite (parse_fmt_int 64 z); [reflexivity|lia|]. change (Z.of_N (64 - 1)) with 63%Z. lia.
  - (* uint64 *) eexists; split; [reflexivity|]. rewrite (parse_fmt_dec 64 n); [reflexivity|]. rewrite pow2_64. lia.
  - (* int32 *) eexists; split; [reflexivity|]. rewrite (parse_fmt_int 32 z); [reflexivity|lia|]. change (Z.of_N (32 - 1)) with 31%Z. lia.
  - (* fixed64 *) eexists; split; [reflexivity|]. rewrite (parse_fmt_dec 64 n); [reflexivity|]. rewrite pow2_64. lia.
  - (* fixed32 *) eexists; split; [reflexivity|]. rewrite (parse_fmt_dec 32 n); [reflexivity|]. rewrite pow2_32. lia.
  - (* bool *) eexists; split; [reflexivity|]. destruct b; reflexivity.
  - (* string *) cbn [msg_str_valid negb orb] in Hstr. rewrite Hstr. eexists; split; reflexivity.
  - (* uint32 *) eexists; split; [reflexivity|]. rewrite (parse_fmt_dec 32 n); [reflexivity|]. rewrite pow2_32. lia.
  - (* sfixed32 *) eexists; split; [reflexivity|]. rewrite (parse_fmt_int 32 z); [reflexivity|lia|]. change (Z.of_N (32 - 1)) with 31%Z. lia.
  - (* sfixed64 *) eexists; split; [reflexivity|]. rewrite (parse_fmt_int 64 z); [reflexivity|lia|]. change (Z.of_N (64 - 1)) with 63%Z. lia.
  - (* sint32 *) eexists; split; [reflexivity|]. rewrite (parse_fmt_int 32 z); [reflexivity|lia|]. change (Z.of_N (32 - 1)) with 31%Z. lia.
  - (* sint64 *) eexists; split; [reflexivity|]. rewrite (parse_fmt_int 64 z); [reflexivity|lia|]. change (Z.of_N (64 - 1)) with 63%Z. lia.
Qed.

(* ================================================================== one message level *)
Section JBody.
  Variable cd : jcodec.
  Hypothesis Hb64 : forall bs, b64_dec cd (b64_enc cd bs) = Some bs.
  Variable o : jopts.
  Variable nm : names.
  Variable recv : nat -> value -> bool.
  Variable rect : nat -> value -> jres jv.
  Variable recd : nat -> jv -> jres value.
  Hypothesis Hrec : forall tid v, recv tid v = true ->
    exists j, rect tid v = JOk j /\ (is_jnull j = true -> mn_wkt (nm_msg nm tid) = 7) /\
              recd tid j = JOk (strip_unknown v).

  Lemma json_elem_rt fd fn v :
    jvalid_elem nm recv fd fn v = true ->
    (f_kind fd = KS SkEnum -> enum_ok (nm_enum nm fn) = true) ->
    (forall t, f_kind fd = KGrp t -> mn_wkt (nm_msg nm t) <> 7) ->
    exists j, json_elem cd o nm rect fd fn v = JOk j /\
              dec_elem cd nm recd fd fn j = JOk (strip_unknown v) /\
              (is_jnull j = true ->
               (f_kind fd = KS SkEnum /\ e_null (nm_enum nm fn) = true) \/
               (exists t, f_kind fd = KMsg t /\ mn_wkt (nm_msg nm t) = 7)).
  Proof.
    unfold jvalid_elem, json_elem, dec_elem. intros H He Hg.
    destruct (f_kind fd) as [sk|tid|tid] eqn:Ek; destruct v as [s|fs unk|k0 v0]; try discriminate.
    - destruct (json_scalar_rt cd Hb64 o (nm_enum nm fn) sk s H) as (j & Hj & Hd & Hn).
      { intros ->. apply He. reflexivity. }
      exists j. rewrite Hj, Hd. cbn [jbind]. split; [reflexivity|]. split; [reflexivity|].
      intros Hnull. destruct (Hn Hnull) as [-> Hnl]. left. split; [reflexivity|exact Hnl].
    - destruct (Hrec tid _ H) as (j & Hj & Hnn & Hd). exists j. rewrite Hj. split; [reflexivity|]. split; [exact Hd|].
      intros Hnull. right. exists tid. split; [reflexivity|apply Hnn, Hnull].
    - destruct (Hrec tid _ H) as (j & Hj & Hnn & Hd). exists j. rewrite Hj. split; [reflexivity|]. split; [exact Hd|].
      intros Hnull. exfalso. apply (Hg tid eq_refl), Hnn, Hnull.
  Qed.

  Variable fps : list fpair.
  Hypothesis Hlook : forall p, In p fps -> lookup_name fps (json_name o (snd p)) = Some p.
  Hypothesis Henum : forall p, In p fps -> f_kind (fst p) = KS SkEnum -> enum_ok (nm_enum nm (snd p)) = true.
  Hypothesis Honeof : forall p, In p fps -> fn_inoneof (snd p) = false -> f_oneof (fst p) = None.
  Hypothesis Hgrp : forall p, In p fps -> forall t, f_kind (fst p) = KGrp t -> mn_wkt (nm_msg nm t) <> 7.

  Definition jst_after (st : dstate) (fd : fdesc) (vs : list value) (emitted : bool) : dstate :=
    mkDS (match vs with [] => ds_fs st | _ => msg_fset (ds_fs st) (f_num fd) (svals vs) end)
         (if emitted then f_num fd :: ds_seen st else ds_seen st)
         (match vs with
          | [] => ds_oneofs st
          | _ => if is_sing fd then match f_oneof fd with Some i => i :: ds_oneofs st | None => ds_oneofs st end
                 else ds_oneofs st
          end).

  (* ---- map entries ---- *)
  Lemma json_entry_rt fd fn kk e :
    jvalid_entry nm recv fd fn kk e = true -> json_key_kind_ok kk = true ->
    (f_kind fd = KS SkEnum -> enum_ok (nm_enum nm fn) = true) ->
    (forall t, f_kind fd = KGrp t -> mn_wkt (nm_msg nm t) <> 7) ->
    exists kv, json_entry cd o nm rect fd fn kk e = JOk kv /\
      exists k v, e = VEntry k v /\ dec_key kk (fst kv) = JOk k /\
                  dec_elem cd nm recd fd fn (snd kv) = JOk (strip_unknown v).
  Proof.
    unfold jvalid_entry, json_entry. intros H Hkk He Hg.
    destruct e as [|?|k v]; try discriminate.
    apply andb_prop in H. destruct H as [Hk Hv].
    destruct (json_key_rt kk k Hk Hkk) as (name & Hname & Hdk).
    destruct (json_elem_rt fd fn v Hv He Hg) as (j & Hj & Hd & _).
    exists (name, j). rewrite Hname. cbn [jbind]. rewrite Hj. cbn [jbind]. split; [reflexivity|].
    exists k, v. cbn [fst snd]. repeat split; assumption.
  Qed.

  Lemma json_entries_dec fd fn kk :
    forall vs es,
      Forall2 (fun e kv => exists k v, e = VEntry k v /\ dec_key kk (fst kv) = JOk k /\
                 dec_elem cd nm recd fd fn (snd kv) = JOk (strip_unknown v)) vs es ->
      msg_entries_sorted vs = true ->
      forall acc, Forall (key_gt_all acc) vs ->
        dec_entries cd nm recd fd fn kk es acc = JOk (acc ++ svals vs).
  Proof.
    induction 1 as [|e kv vs es Hx Hall IH]; intros Hsorted acc Hgt.
    - cbn [dec_entries svals map]. rewrite app_nil_r. reflexivity.
    - destruct Hx as (k & v & -> & Hk & Hv). destruct kv as [name j]. cbn [fst snd] in *.
      inversion Hgt as [|? ? Hkgt Hgt']; subst. cbn [key_gt_all] in Hkgt.
      cbn [msg_entries_sorted] in Hsorted. apply andb_prop in Hsorted. destruct Hsorted as [Hafter Hsorted].
      cbn [dec_entries]. rewrite Hk. cbn [jbind]. unfold has_key. rewrite (has_key_false _ _ Hkgt).
      rewrite Hv. cbn [jbind]. rewrite (msg_map_put_last' _ _ _ Hkgt). rewrite IH; [|exact Hsorted|].
      + rewrite <- app_assoc. reflexivity.
      + unfold msg_keys_after in Hafter. rewrite forallb_forall in Hafter.
        rewrite Forall_forall in Hgt' |- *. intros e He.
        specialize (Hgt' e He). specialize (Hafter e He).
        destruct e as [|?|k2 v2]; try discriminate. cbn [key_gt_all] in *.
        apply Forall_app. split; [exact Hgt'|]. constructor; [|constructor].
        destruct (msg_scmp k2 k); try discriminate. reflexivity.
  Qed.

  (* ---- one field ---- *)
  Lemma json_member_rt fs p st :
    In p fps ->
    (msg_fget fs (fp_num p) <> [] -> jvalid_field nm recv (fst p) (snd p) (msg_fget fs (fp_num p)) = true) ->
    (msg_fget fs (fp_num p) = [] -> o_emit_unpop o = true -> f11_shaped nm p = false) ->
    msg_fget (ds_fs st) (fp_num p) = [] ->
    ~ In (fp_num p) (ds_seen st) ->
    (forall i, f_oneof (fst p) = Some i -> msg_fget fs (fp_num p) <> [] -> ~ In i (ds_oneofs st)) ->
    exists ms, json_member cd o nm rect fs p = JOk ms /\
      forall rest, dec_members cd nm recd fps false (ms ++ rest) st =
                   dec_members cd nm recd fps false rest
                     (jst_after st (fst p) (msg_fget fs (fp_num p)) (match ms with [] => false | _ => true end)).
  Proof.
    destruct p as [fd fn]. unfold fp_num. cbn [fst snd]. intros Hin Hval Hf11 Hfresh Hseen Hone.
    pose proof (Henum _ Hin) as He. cbn [fst snd] in He.
    pose proof (Hgrp _ Hin) as Hg. cbn [fst snd] in Hg.
    pose proof (Hlook _ Hin : lookup_name fps (json_name o fn) = Some (fd, fn)) as Hl.
    unfold json_member. cbn [fst snd].
    assert (Hdm : forall j rest st1,
              dec_field cd nm recd fd fn j (mkDS (ds_fs st) (f_num fd :: ds_seen st) (ds_oneofs st)) = JOk st1 ->
              is_jnull j && negb (null_is_value nm fd fn) = false ->
              dec_members cd nm recd fps false ((json_name o fn, j) :: rest) st = dec_members cd nm recd fps false rest st1).
    { intros j rest st1 Hdf Hnull. cbn [dec_members]. unfold dec_member. cbn [fst snd andb]. rewrite Hl.
      rewrite (existsb_Neqb_false _ _ Hseen). rewrite Hnull, Hdf. reflexivity. }
    destruct (msg_fget fs (f_num fd)) as [|v0 vs0] eqn:Evs.
    { (* absent *)
      destruct (o_emit_unpop o || o_emit_defaults o) eqn:Eemit;
        [|exists []; split; [reflexivity|]; intros rest; unfold jst_after; destruct st; reflexivity].
      unfold json_default.
      destruct (f_ext fd || fn_inoneof fn) eqn:Eeo;
        [exists []; split; [reflexivity|]; intros rest; unfold jst_after; destruct st; reflexivity|].
      apply orb_false_iff in Eeo. destruct Eeo as [Eext Eino].
      destruct (rt_has_presence fd) eqn:Ehp.
      - destruct (o_emit_unpop o) eqn:Eun;
          [|exists []; split; [reflexivity|]; intros rest; unfold jst_after; destruct st; reflexivity].
        specialize (Hf11 eq_refl eq_refl). unfold f11_shaped in Hf11. cbn [fst snd] in Hf11.
        rewrite Eext, Eino, Ehp in Hf11. cbn [negb andb] in Hf11.
        eexists. split; [reflexivity|]. intros rest. cbn [app dec_members]. unfold dec_member. cbn [fst snd andb].
        rewrite Hl, (existsb_Neqb_false _ _ Hseen). cbn [is_jnull]. rewrite Hf11. cbn [negb andb jbind].
        unfold jst_after. reflexivity.
      - unfold rt_has_presence in Ehp.
        destruct (f_card fd) as [| | | | |kk kutf8 vdef] eqn:Ecard; try discriminate.
        + (* CImp *)
          destruct (f_kind fd) as [sk| |] eqn:Ek;
            [|exists []; split; [reflexivity|]; intros rest; unfold jst_after; destruct st; reflexivity..].
          destruct (json_scalar_rt cd Hb64 o (nm_enum nm fn) sk (sk_zero sk) (json_zero_ok _ sk)) as (j & Hj & Hd & Hn).
          { intros ->. apply He. reflexivity. }
          rewrite Hj. eexists. split; [reflexivity|]. intros rest. cbn [app].
          erewrite Hdm; [reflexivity| |].
          * unfold dec_field. rewrite Ecard. cbn [ds_oneofs ds_fs ds_seen].
            rewrite (Honeof _ Hin Eino : f_oneof fd = None).
            unfold dec_elem. rewrite Ek, Hd. cbn [jbind].
            assert (msg_scalar_is_zero (sk_zero sk) = true) as -> by (destruct sk; reflexivity).
            unfold jst_after. reflexivity.
          * destruct (is_jnull j) eqn:En; [|reflexivity]. destruct (Hn eq_refl) as [-> Hnl].
            unfold null_is_value. rewrite Ecard, Ek, Hnl. reflexivity.
        + (* CRep *)
          eexists. split; [reflexivity|]. intros rest. cbn [app].
          erewrite Hdm; [reflexivity| |reflexivity].
          unfold dec_field. rewrite Ecard. cbn [jmapM jbind ds_fs ds_seen ds_oneofs]. rewrite Hfresh. reflexivity.
        + (* CPacked *)
          eexists. split; [reflexivity|]. intros rest. cbn [app].
          erewrite Hdm; [reflexivity| |reflexivity].
          unfold dec_field. rewrite Ecard. cbn [jmapM jbind ds_fs ds_seen ds_oneofs]. rewrite Hfresh. reflexivity.
        + (* CMap *)
          eexists. split; [reflexivity|]. intros rest. cbn [app].
          erewrite Hdm; [reflexivity| |reflexivity].
          unfold dec_field. rewrite Ecard. cbn [dec_entries jbind ds_fs ds_seen ds_oneofs]. rewrite Hfresh. reflexivity. }
    (* present *)
    specialize (Hval ltac:(discriminate)). unfold jvalid_field in Hval.
    set (vs := v0 :: vs0) in *.
    assert (Hsing : forall v, vs = [v] -> is_sing fd = true ->
              (f_card fd = CImp -> exists s, v = VS s /\ msg_scalar_is_zero s = false) ->
              jvalid_elem nm recv fd fn v = true ->
              exists ms, (j <- json_elem cd o nm rect fd fn v ;; JOk [(json_name o fn, j)]) = JOk ms /\
                forall rest, dec_members cd nm recd fps false (ms ++ rest) st =
                  dec_members cd nm recd fps false rest (jst_after st fd vs (match ms with [] => false | _ => true end))).
    { intros v Evs' Hs Himp Hv. destruct (json_elem_rt fd fn v Hv He Hg) as (j & Hj & Hd & Hn).
      rewrite Hj. cbn [jbind]. eexists. split; [reflexivity|]. intros rest. cbn [app].
      erewrite Hdm; [reflexivity| |].
      - unfold dec_field. unfold is_sing in Hs.
        assert (Ho : (match f_oneof fd with
                      | Some i => if existsb (N.eqb i) (ds_oneofs st) then None else Some (i :: ds_oneofs st)
                      | None => Some (ds_oneofs st) end) =
                     Some (match f_oneof fd with Some i => i :: ds_oneofs st | None => ds_oneofs st end)).
        { destruct (f_oneof fd) as [i|]; [|reflexivity].
          rewrite existsb_Neqb_false; [reflexivity|]. apply Hone; [reflexivity|discriminate]. }
        unfold jst_after. rewrite Evs'. cbn [svals map]. unfold is_sing.
        destruct (f_card fd) eqn:Ecard; try discriminate; cbn [ds_oneofs ds_fs ds_seen]; rewrite Ho, Hd; cbn [jbind];
          try reflexivity.
        destruct (Himp eq_refl) as (s & -> & Hnz). cbn [strip_unknown]. rewrite Hnz. reflexivity.
      - destruct (is_jnull j) eqn:En; [|reflexivity]. unfold is_sing in Hs.
        destruct (Hn eq_refl) as [[Hk Hnl]|(t & Hk & Hw)]; unfold null_is_value; rewrite Hk.
        + rewrite Hnl. destruct (f_card fd); try discriminate; reflexivity.
        + rewrite Hw. destruct (f_card fd); try discriminate; reflexivity. }
    unfold json_field_value.
    destruct (f_card fd) as [| | | | |kk kutf8 vdef] eqn:Ecard.
    - (* COpt *) destruct vs0; [|discriminate]. apply (Hsing v0 eq_refl); [unfold is_sing; rewrite Ecard; reflexivity|discriminate|exact Hval].
    - (* CImp *) destruct v0 as [s| |]; try discriminate. destruct vs0; [|discriminate].
      apply andb_prop in Hval. destruct Hval as [Hval Hnz]. apply negb_true_iff in Hnz.
      apply (Hsing (VS s) eq_refl); [unfold is_sing; rewrite Ecard; reflexivity| |exact Hval].
      intros _. exists s. split; [reflexivity|exact Hnz].
    - (* CReq *) destruct vs0; [|discriminate]. apply (Hsing v0 eq_refl); [unfold is_sing; rewrite Ecard; reflexivity|discriminate|exact Hval].
    - (* CRep *)
      destruct (jmapM_ok (json_elem cd o nm rect fd fn)
                  (fun v j => dec_elem cd nm recd fd fn j = JOk (strip_unknown v)) vs) as (xs & Hxs & Hall).
      { intros a Ha. rewrite forallb_forall in Hval. destruct (json_elem_rt fd fn a (Hval a Ha) He Hg) as (j & Hj & Hd & _).
        exists j. split; assumption. }
      rewrite Hxs. cbn [jbind]. eexists. split; [reflexivity|]. intros rest. cbn [app].
      erewrite Hdm; [reflexivity| |reflexivity].
      unfold dec_field. rewrite Ecard. rewrite (jmapM_dec _ strip_unknown xs vs Hall). cbn [jbind ds_fs ds_seen ds_oneofs].
      rewrite Hfresh. cbn [app]. unfold jst_after, is_sing, store, svals. rewrite Ecard. subst vs. reflexivity.
    - (* CPacked *)
      destruct (jmapM_ok (json_elem cd o nm rect fd fn)
                  (fun v j => dec_elem cd nm recd fd fn j = JOk (strip_unknown v)) vs) as (xs & Hxs & Hall).
      { intros a Ha. rewrite forallb_forall in Hval. destruct (json_elem_rt fd fn a (Hval a Ha) He Hg) as (j & Hj & Hd & _).
        exists j. split; assumption. }
      rewrite Hxs. cbn [jbind]. eexists. split; [reflexivity|]. intros rest. cbn [app].
      erewrite Hdm; [reflexivity| |reflexivity].
      unfold dec_field. rewrite Ecard. rewrite (jmapM_dec _ strip_unknown xs vs Hall). cbn [jbind ds_fs ds_seen ds_oneofs].
      rewrite Hfresh. cbn [app]. unfold jst_after, is_sing, store, svals. rewrite Ecard. subst vs. reflexivity.
    - (* CMap *)
      apply andb_prop in Hval. destruct Hval as [Hval Hkk]. apply andb_prop in Hval. destruct Hval as [Hval Hsorted].
      destruct (jmapM_ok (json_entry cd o nm rect fd fn kk)
                  (fun e kv => exists k v, e = VEntry k v /\ dec_key kk (fst kv) = JOk k /\
                     dec_elem cd nm recd fd fn (snd kv) = JOk (strip_unknown v)) vs) as (es & Hes & Hall).
      { intros a Ha. rewrite forallb_forall in Hval. apply json_entry_rt; [apply Hval, Ha|exact Hkk|exact He|exact Hg]. }
      rewrite Hes. cbn [jbind]. eexists. split; [reflexivity|]. intros rest. cbn [app].
      erewrite Hdm; [reflexivity| |reflexivity].
      unfold dec_field. rewrite Ecard. cbn [ds_fs ds_seen ds_oneofs]. rewrite Hfresh.
      rewrite (json_entries_dec fd fn kk vs es Hall Hsorted []).
      + cbn [jbind app]. unfold jst_after, is_sing, store, svals. rewrite Ecard. subst vs. reflexivity.
      + rewrite Forall_forall. intros e He'. rewrite forallb_forall in Hval. specialize (Hval e He').
        unfold jvalid_entry in Hval. destruct e; try discriminate. cbn [key_gt_all]. constructor.
  Qed.
End JBody.

(* ================================================================== all members of one message *)
Lemma ins_all_pairs_eq fps fs order :
  NoDup (map fp_num fps) -> (forall p, In p fps -> 1 <= fp_num p) -> msg_sorted 0 fs ->
  (forall k vs, In (k, vs) fs -> vs <> [] /\ exists p, In p fps /\ fp_num p = k) ->
  Permutation order fps ->
  msg_ins_all (pairs fs order) [] = map sp fs.
Proof.
  intros Hnd Hpos Hsorted Hch Hperm.
  assert (Hnd' : NoDup (map fp_num order)).
  { eapply Permutation_NoDup; [apply Permutation_map, Permutation_sym, Hperm|exact Hnd]. }
  destruct (msg_ins_all_props (pairs fs order) [] 0) as [Hs Hp].
  - cbn [msg_keys map]. rewrite app_nil_r. apply pairs_keys_nodup, Hnd'.
  - exact I.
  - intros k Hk. apply pairs_keys_sub in Hk. apply in_map_iff in Hk. destruct Hk as (p & <- & Hp).
    assert (1 <= fp_num p) by (apply Hpos; eapply Permutation_in; eassumption). lia.
  - rewrite app_nil_r in Hp.
    apply (msg_sorted_perm_eq _ _ 0 0 Hs (msg_sorted_map_sp _ _ Hsorted)).
    rewrite Hp. apply NoDup_Permutation.
    + apply NoDup_keys_pairs, pairs_keys_nodup, Hnd'.
    + apply NoDup_keys_pairs. rewrite msg_keys_map_sp. eapply msg_sorted_nodup, Hsorted.
    + intros [k vs]. rewrite pairs_in. split.
      * intros (p & Hp' & Hk & Hne & ->).
        apply in_map_iff. exists (k, msg_fget fs k). split; [reflexivity|]. apply msg_fget_nonempty_in, Hne.
      * intros Hin. apply in_map_iff in Hin. destruct Hin as ([k' vs'] & E & Hin). unfold sp in E. cbn [fst snd] in E.
        inversion E; subst k vs. destruct (Hch _ _ Hin) as (Hne & p & Hp' & Hk).
        assert (Hget : msg_fget fs k' = vs') by (apply msg_fget_in; [eapply msg_sorted_nodup, Hsorted|exact Hin]).
        exists p. split; [eapply Permutation_in; [apply Permutation_sym, Hperm|exact Hp']|].
        split; [exact Hk|]. rewrite Hget. split; [exact Hne|reflexivity].
Qed.

Lemma jvalid_field_nonempty nm recv fd fn vs : jvalid_field nm recv fd fn vs = true -> vs <> [].
Proof.
  unfold jvalid_field. destruct (f_card fd); destruct vs; try discriminate; intros _; discriminate.
Qed.

Section JMessage.
  Variable cd : jcodec.
  Hypothesis Hb64 : forall bs, b64_dec cd (b64_enc cd bs) = Some bs.
  Variable o : jopts.
  Variable nm : names.
  Variable recv : nat -> value -> bool.
  Variable rect : nat -> value -> jres jv.
  Variable recd : nat -> jv -> jres value.
  Hypothesis Hrec : forall tid v, recv tid v = true ->
    exists j, rect tid v = JOk j /\ (is_jnull j = true -> mn_wkt (nm_msg nm tid) = 7) /\
              recd tid j = JOk (strip_unknown v).
  Variable fps : list fpair.
  Hypothesis Hlook : forall p, In p fps -> lookup_name fps (json_name o (snd p)) = Some p.
  Hypothesis Henum : forall p, In p fps -> f_kind (fst p) = KS SkEnum -> enum_ok (nm_enum nm (snd p)) = true.
  Hypothesis Honeof : forall p, In p fps -> fn_inoneof (snd p) = false -> f_oneof (fst p) = None.
  Hypothesis Hgrp : forall p, In p fps -> forall t, f_kind (fst p) = KGrp t -> mn_wkt (nm_msg nm t) <> 7.
  Hypothesis Hnd : NoDup (map fp_num fps).
  Variable fs : fields.
  Hypothesis Hchunks : forall k vs, In (k, vs) fs ->
    exists p, In p fps /\ fp_num p = k /\ jvalid_field nm recv (fst p) (snd p) vs = true.
  Hypothesis Hone : rt_oneofs_ok fps fs = true.
  Hypothesis Hf11 : forall p, In p fps -> msg_fget fs (fp_num p) = [] -> o_emit_unpop o = true -> f11_shaped nm p = false.

  Definition JInv (done : list fpair) (st : dstate) : Prop :=
    (forall k, msg_fget (ds_fs st) k <> [] -> In k (map fp_num done)) /\
    (forall k, In k (ds_seen st) -> In k (map fp_num done)) /\
    (forall i, In i (ds_oneofs st) ->
       exists q, In q done /\ f_oneof (fst q) = Some i /\ msg_fget fs (fp_num q) <> []).

  Definition emitted (p : fpair) : bool :=
    match json_member cd o nm rect fs p with JOk (_ :: _) => true | _ => false end.

  Definition jstep (st : dstate) (p : fpair) : dstate :=
    jst_after st (fst p) (msg_fget fs (fp_num p)) (emitted p).

  Lemma jfield_valid p : In p fps -> msg_fget fs (fp_num p) <> [] ->
    jvalid_field nm recv (fst p) (snd p) (msg_fget fs (fp_num p)) = true.
  Proof.
    intros Hin Hne. destruct (Hchunks _ _ (msg_fget_nonempty_in fs _ Hne)) as (q & Hq & Hk & Hv).
    assert (q = p) by (eapply (NoDup_map_inj fp_num fps); eassumption). subst q. exact Hv.
  Qed.

  Lemma jfields_rt : forall order done st,
    NoDup (map fp_num (done ++ order)) -> (forall p, In p (done ++ order) -> In p fps) -> JInv done st ->
    exists mss, jmapM (json_member cd o nm rect fs) order = JOk mss /\
      forall rest, dec_members cd nm recd fps false (concat mss ++ rest) st =
                   dec_members cd nm recd fps false rest (fold_left jstep order st).
  Proof.
    induction order as [|p order IH]; intros done st Hnodup Hsub Hinv.
    - exists []. split; [reflexivity|]. intros rest. reflexivity.
    - destruct Hinv as (I1 & I2 & I3).
      assert (Hp : In p fps) by (apply Hsub, in_or_app; right; left; reflexivity).
      assert (Hnotdone : ~ In (fp_num p) (map fp_num done)).
      { rewrite map_app in Hnodup. cbn [map] in Hnodup. apply NoDup_remove_2 in Hnodup.
        intros Hin. apply Hnodup, in_or_app. left. exact Hin. }
      destruct (json_member_rt cd Hb64 o nm recv rect recd Hrec fps Hlook Henum Honeof Hgrp fs p st Hp) as (ms & Hms & Hdec).
      + apply jfield_valid, Hp.
      + apply Hf11, Hp.
      + destruct (msg_fget (ds_fs st) (fp_num p)) eqn:E; [reflexivity|].
        exfalso. apply Hnotdone, I1. rewrite E. discriminate.
      + intros Hin. apply Hnotdone, I2, Hin.
      + intros i Hoi Hpres Hin. destruct (I3 i Hin) as (q & Hq & Hoq & Hpq).
        apply (oneof_fresh fps fs Hone p q i); try assumption.
        * apply Hsub, in_or_app. left. exact Hq.
        * intros E. apply Hnotdone. rewrite <- E. apply in_map, Hq.
      + assert (Hem : (match ms with [] => false | _ => true end) = emitted p).
        { unfold emitted. rewrite Hms. reflexivity. }
        rewrite Hem in Hdec. fold (jstep st p) in Hdec.
        destruct (IH (done ++ [p]) (jstep st p)) as (mss & Hmss & Hdecs).
        * rewrite <- app_assoc. exact Hnodup.
        * intros q Hq. apply Hsub. rewrite <- app_assoc in Hq. exact Hq.
        * unfold jstep, jst_after. split; [|split].
          -- intros k Hk. cbn [ds_fs] in Hk. rewrite map_app. apply in_or_app.
             destruct (msg_fget fs (fp_num p)) eqn:Evs; [left; apply I1, Hk|].
             destruct (N.eq_dec k (f_num (fst p))) as [->|Hne]; [right; left; reflexivity|].
             left. apply I1. rewrite msg_fget_fset_other in Hk by exact Hne. exact Hk.
          -- intros k Hk. cbn [ds_seen] in Hk. rewrite map_app. apply in_or_app.
             destruct (emitted p); [destruct Hk as [<-|Hk]; [right; left; reflexivity|]|]; left; apply I2, Hk.
          -- intros i Hi. cbn [ds_oneofs] in Hi.
             assert (Hcase : In i (ds_oneofs st) \/ (f_oneof (fst p) = Some i /\ msg_fget fs (fp_num p) <> [])).
             { destruct (msg_fget fs (fp_num p)) eqn:Evs; [left; exact Hi|].
               destruct (is_sing (fst p)); [|left; exact Hi].
               destruct (f_oneof (fst p)) as [j|]; [|left; exact Hi].
               destruct Hi as [<-|Hi]; [right; split; [reflexivity|discriminate]|left; exact Hi]. }
             destruct Hcase as [Hi'|[Hop Hpres]].
             ++ destruct (I3 i Hi') as (q & Hq & Hoq & Hpq). exists q.
                split; [apply in_or_app; left; exact Hq|]. split; assumption.
             ++ exists p. split; [apply in_or_app; right; left; reflexivity|]. split; assumption.
        * exists (ms :: mss). cbn [jmapM]. rewrite Hms. cbn [jbind]. rewrite Hmss. cbn [jbind].
          split; [reflexivity|]. intros rest. cbn [concat fold_left]. rewrite <- app_assoc, Hdec, Hdecs. reflexivity.
  Qed.

  Lemma fold_jstep_fs : forall order st,
    ds_fs (fold_left jstep order st) = msg_ins_all (pairs fs order) (ds_fs st).
  Proof.
    induction order as [|p order IH]; intros st; [reflexivity|].
    cbn [fold_left]. rewrite IH. cbn [pairs flat_map]. fold (pairs fs order). rewrite msg_ins_all_app.
    unfold jstep, jst_after. destruct (msg_fget fs (fp_num p)) eqn:E; reflexivity.
  Qed.
End JMessage.

(* ================================================================== schema facts *)
Lemma find_by_some sel ext fps name q : find_by sel ext fps name = Some q ->
  In q fps /\ f_ext (fst q) = ext /\ sel (snd q) = name.
Proof.
  induction fps as [|p r IH]; cbn [find_by]; [discriminate|].
  destruct (Bool.eqb (f_ext (fst p)) ext && bs_eqb (sel (snd p)) name) eqn:E.
  - intros H. inversion H; subst. apply andb_prop in E. destruct E as [E1 E2].
    split; [left; reflexivity|]. split; [apply eqb_prop, E1|apply bs_eqb_eq, E2].
  - intros H. destruct (IH H) as (H1 & H2 & H3). split; [right; exact H1|]. split; assumption.
Qed.

Lemma find_by_ex sel ext fps p : In p fps -> f_ext (fst p) = ext ->
  exists q, find_by sel ext fps (sel (snd p)) = Some q.
Proof.
  induction fps as [|a r IH]; intros Hin He; [contradiction|]. cbn [find_by].
  destruct (Bool.eqb (f_ext (fst a)) ext && bs_eqb (sel (snd a)) (sel (snd p))) eqn:E; [eexists; reflexivity|].
  destruct Hin as [->|Hin]; [|apply IH; assumption].
  rewrite He, eqb_reflx, bs_eqb_refl in E. discriminate.
Qed.

Lemma find_by_none sel ext fps name : find_by sel ext fps name = None ->
  forall p, In p fps -> f_ext (fst p) = ext -> sel (snd p) <> name.
Proof.
  induction fps as [|a r IH]; intros H p Hin He; [contradiction|]. cbn [find_by] in H.
  destruct (Bool.eqb (f_ext (fst a)) ext && bs_eqb (sel (snd a)) name) eqn:E; [discriminate|].
  destruct Hin as [->|Hin]; [|apply IH; assumption].
  intros Hn. rewrite He, eqb_reflx, Hn, bs_eqb_refl in E. discriminate.
Qed.

Section JSchema.
  Variable S : schema.
  Variable nm : names.
  Hypothesis Hschema : json_schema_ok S nm = true.

  Lemma jschema_facts (o : jopts) tid : (tid < length S)%nat ->
    let fps := rt_fields S nm tid in
    NoDup (map fp_num fps) /\
    (forall p, In p fps -> 1 <= fp_num p) /\
    (forall p, In p fps -> f_kind (fst p) = KS SkEnum -> enum_ok (nm_enum nm (snd p)) = true) /\
    (forall p, In p fps -> lookup_name fps (json_name o (snd p)) = Some p) /\
    (forall p, In p fps -> fn_inoneof (snd p) = false -> f_oneof (fst p) = None).
  Proof.
    intros Hlt fps. unfold json_schema_ok, rt_schema_ok in Hschema.
    apply andb_prop in Hschema. destruct Hschema as [H1 H2]. apply andb_prop in H1. destruct H1 as [_ H1].
    rewrite forallb_forall in H1, H2.
    assert (Hin : In tid (seq 0 (length S))) by (apply in_seq; lia).
    specialize (H1 tid Hin). specialize (H2 tid Hin). clear Hin.
    unfold rt_msg_ok in H1. fold fps in H1.
    apply andb_prop in H1. destruct H1 as [H1 _]. apply andb_prop in H1. destruct H1 as [H1 Hf].
    apply andb_prop in H1. destruct H1 as [_ Hnd]. apply n_nodup_NoDup in Hnd.
    unfold json_msg_ok in H2. fold fps in H2.
    apply andb_prop in H2. destruct H2 as [H2 _].
    apply andb_prop in H2. destruct H2 as [H2 Hino]. apply andb_prop in H2. destruct H2 as [H2 Hcross].
    apply andb_prop in H2. destruct H2 as [H2 Hshape]. apply andb_prop in H2. destruct H2 as [Hj Ht].
    apply bs_nodup_NoDup in Hj. apply bs_nodup_NoDup in Ht.
    rewrite forallb_forall in Hf, Hshape, Hcross, Hino.
    split; [exact Hnd|].
    split. { intros p Hp. specialize (Hf p Hp). unfold rt_field_ok in Hf. apply andb_prop in Hf. destruct Hf as [Hf _]. lia. }
    split. { intros p Hp Hk. specialize (Hf p Hp). unfold rt_field_ok in Hf. apply andb_prop in Hf. destruct Hf as [_ Hf].
             rewrite Hk in Hf. exact Hf. }
    split.
    { intros p Hp. specialize (Hshape p Hp). unfold json_name_shape_ok in Hshape. unfold lookup_name, json_name.
      destruct (f_ext (fst p)) eqn:Eext.
      - apply andb_prop in Hshape. destruct Hshape as [Hbr Heq]. apply bs_eqb_eq in Heq.
        assert (Hname : (if o_proto_names o then fn_text (snd p) else fn_json (snd p)) = fn_text (snd p))
          by (destruct (o_proto_names o); [reflexivity|exact Heq]).
        rewrite Hname, Hbr.
        destruct (find_by_ex fn_text true fps p Hp Eext) as (q & Hq). rewrite Hq. f_equal.
        destruct (find_by_some _ _ _ _ _ Hq) as (Hq1 & _ & Hq3).
        apply (NoDup_map_inj (fun p => fn_text (snd p)) fps); assumption.
      - apply andb_prop in Hshape. destruct Hshape as [Hbj Hbt]. apply negb_true_iff in Hbj, Hbt.
        destruct (o_proto_names o).
        + rewrite Hbt.
          destruct (find_by fn_json false fps (fn_text (snd p))) as [q|] eqn:Eq.
          * f_equal. destruct (find_by_some _ _ _ _ _ Eq) as (Hq1 & _ & Hq3).
            specialize (Hcross q Hq1). rewrite forallb_forall in Hcross. specialize (Hcross p Hp).
            rewrite Hq3, bs_eqb_refl in Hcross. cbn [negb] in Hcross. rewrite orb_false_r in Hcross.
            apply N.eqb_eq in Hcross. apply (NoDup_map_inj fp_num fps); assumption.
          * destruct (find_by_ex fn_text false fps p Hp Eext) as (q & Hq). rewrite Hq. f_equal.
            destruct (find_by_some _ _ _ _ _ Hq) as (Hq1 & _ & Hq3).
            apply (NoDup_map_inj (fun p => fn_text (snd p)) fps); assumption.
        + rewrite Hbj.
          destruct (find_by_ex fn_json false fps p Hp Eext) as (q & Hq). rewrite Hq. f_equal.
          destruct (find_by_some _ _ _ _ _ Hq) as (Hq1 & _ & Hq3).
          apply (NoDup_map_inj (fun p => fn_json (snd p)) fps); assumption. }
    intros p Hp Hino'. specialize (Hino p Hp). destruct (f_oneof (fst p)); [congruence|reflexivity].
  Qed.
  Lemma jschema_no_at_type (o : jopts) tid : (tid < length S)%nat ->
    forall p, In p (rt_fields S nm tid) -> json_name o (snd p) <> s_at_type.
  Proof.
    intros Hlt p Hp. unfold json_schema_ok in Hschema.
    apply andb_prop in Hschema. destruct Hschema as [_ H2]. rewrite forallb_forall in H2.
    specialize (H2 tid ltac:(apply in_seq; lia)). unfold json_msg_ok in H2.
    apply andb_prop in H2. destruct H2 as [_ Hat]. rewrite forallb_forall in Hat. specialize (Hat p Hp).
    apply andb_prop in Hat. destruct Hat as [Hj Ht]. apply negb_true_iff in Hj, Ht.
    unfold json_name. destruct (o_proto_names o); intros E; rewrite E, bs_eqb_refl in *; discriminate.
  Qed.
End JSchema.

(* ================================================================== the theorem (core) *)
Section JMain.
  Variable cd : jcodec.
  Hypothesis Hb64 : forall bs, b64_dec cd (b64_enc cd bs) = Some bs.
  Variable o : jopts.
  Variable S : schema.
  Variable nm : names.
  Variable lim : nat.
  Hypothesis Hschema : json_schema_ok S nm = true.

  Lemma jchunks_of recv tid fs :
    forallb (jvalid_chunk nm recv (rt_fields S nm tid)) fs = true ->
    forall k vs, In (k, vs) fs ->
      exists p, In p (rt_fields S nm tid) /\ fp_num p = k /\ jvalid_field nm recv (fst p) (snd p) vs = true.
  Proof.
    intros H k vs Hin. rewrite forallb_forall in H. specialize (H _ Hin). unfold jvalid_chunk in H. cbn [fst snd] in H.
    destruct (rt_find (rt_fields S nm tid) k) as [q|] eqn:E; [|discriminate].
    destruct (rt_find_some _ _ _ E) as [H1 H2]. exists q. repeat split; assumption.
  Qed.

  (* the ordinary mapping of one message, for any decoder / encoder of the sub-messages *)
  Lemma json_ordinary_rt recv rect recd
    (Hrec : forall tid v, recv tid v = true ->
       exists j, rect tid v = JOk j /\ (is_jnull j = true -> mn_wkt (nm_msg nm tid) = 7) /\
                 recd tid j = JOk (strip_unknown v)) tid fs :
    (tid < length S)%nat ->
    (forall p, In p (rt_fields S nm tid) -> forall t, f_kind (fst p) = KGrp t -> mn_wkt (nm_msg nm t) <> 7) ->
    msg_keys_sorted 0 fs = true ->
    forallb (jvalid_chunk nm recv (rt_fields S nm tid)) fs = true ->
    rt_oneofs_ok (rt_fields S nm tid) fs = true ->
    (negb (true && o_emit_unpop o)
     || forallb (fun p => negb (f11_shaped nm p) || has_num fs (fp_num p)) (rt_fields S nm tid)) = true ->
    exists ms, json_members cd o S nm rect tid fs = JOk ms /\
               dec_ordinary cd S nm recd tid false ms = JOk (VMsg (map sp fs) []).
  Proof.
    intros Hlt Hgrp Hs Hc Ho Hf11.
    destruct (jschema_facts S nm Hschema o tid Hlt) as (Hnd & Hpos & Henum & Hlook & Honeof).
    set (fps := rt_fields S nm tid) in *.
    apply msg_keys_sorted_spec in Hs.
    pose proof (jchunks_of recv tid fs Hc) as Hchunks. fold fps in Hchunks.
    pose proof (rt_field_order_perm fps) as Hperm.
    assert (Hf11' : forall p, In p fps -> msg_fget fs (fp_num p) = [] -> o_emit_unpop o = true -> f11_shaped nm p = false).
    { intros p Hp Hget Hun. rewrite Hun in Hf11. cbn [andb negb orb] in Hf11.
      rewrite forallb_forall in Hf11. specialize (Hf11 p Hp). unfold has_num in Hf11. rewrite Hget in Hf11.
      rewrite orb_false_r in Hf11. apply negb_true_iff in Hf11. exact Hf11. }
    destruct (jfields_rt cd Hb64 o nm recv rect recd Hrec
                fps Hlook Henum Honeof Hgrp Hnd fs Hchunks Ho Hf11' (rt_field_order fps) [] (mkDS [] [] []))
      as (mss & Hmss & Hdec).
    { cbn [app]. eapply Permutation_NoDup; [apply Permutation_map, Permutation_sym, Hperm|exact Hnd]. }
    { cbn [app]. intros p Hp. eapply Permutation_in; eassumption. }
    { split; [|split].
      - intros k Hk. cbn [ds_fs msg_fget] in Hk. congruence.
      - intros k [].
      - intros i []. }
    exists (concat mss). split.
    { unfold json_members. fold fps. rewrite Hmss. reflexivity. }
    unfold dec_ordinary. fold fps. specialize (Hdec []). rewrite app_nil_r in Hdec. rewrite Hdec.
    cbn [dec_members jbind]. rewrite (fold_jstep_fs cd o nm rect fs). cbn [ds_fs].
    erewrite ins_all_pairs_eq; [reflexivity|exact Hnd|exact Hpos|exact Hs| |exact Hperm].
    intros k vs Hin. destruct (Hchunks k vs Hin) as (p & Hp & Hk & Hv).
    split; [eapply jvalid_field_nonempty, Hv|]. exists p. split; assumption.
  Qed.

  Hypothesis Hcore : json_core S nm = true.

  Lemma core_wkt t : mn_wkt (nm_msg nm t) = 0 \/ mn_wkt (nm_msg nm t) = 9.
  Proof.
    destruct (Nat.lt_ge_cases t (length S)) as [Hlt|Hge].
    - unfold json_core in Hcore. rewrite forallb_forall in Hcore.
      assert (Hcw := Hcore t ltac:(apply in_seq; lia)). cbn zeta in Hcw.
      apply orb_prop in Hcw. destruct Hcw as [E|E]; [left; apply N.eqb_eq, E|].
      apply andb_prop in E. destruct E as [E _]. right. apply N.eqb_eq, E.
    - left. unfold json_schema_ok, rt_schema_ok in Hschema.
      apply andb_prop in Hschema. destruct Hschema as [H1 _]. apply andb_prop in H1. destruct H1 as [Hlen _].
      apply Nat.eqb_eq in Hlen. unfold nm_msg. rewrite nth_overflow by lia. reflexivity.
  Qed.

  Theorem json_roundtrip_core : forall fuel tid v,
    json_valid true (o_emit_unpop o) S nm fuel tid v = true ->
    exists j, to_json_msg cd o S nm lim fuel tid v = JOk j /\ is_jnull j = false /\
              of_json_msg cd S nm fuel tid j = JOk (strip_unknown v).
  Proof.
    induction fuel as [|f IH]; intros tid v H; [discriminate|].
    cbn [json_valid] in H. apply andb_prop in H. destruct H as [Hlt Hb]. apply Nat.ltb_lt in Hlt.
    cbn [to_json_msg of_json_msg].
    unfold jvalid_body in Hb. destruct v as [|fs unk|]; try discriminate.
    apply andb_prop in Hb. destruct Hb as [Hb Hf11]. apply andb_prop in Hb. destruct Hb as [Hb Ho].
    apply andb_prop in Hb. destruct Hb as [Hs Hc].
    change (strip_unknown (VMsg fs unk)) with (VMsg (map sp fs) []).
    assert (Hrec : forall tid v, json_valid true (o_emit_unpop o) S nm f tid v = true ->
              exists j, to_json_msg cd o S nm lim f tid v = JOk j /\ (is_jnull j = true -> mn_wkt (nm_msg nm tid) = 7) /\
                        of_json_msg cd S nm f tid j = JOk (strip_unknown v)).
    { intros t x Hx. destruct (IH t x Hx) as (j & Hj & Hnn & Hd). exists j. split; [exact Hj|]. split; [|exact Hd].
      rewrite Hnn. discriminate. }
    destruct (json_ordinary_rt _ _ _ Hrec tid fs Hlt) as (ms & Hmembers & Hdecoded); try assumption.
    { intros p _ t _. destruct (core_wkt t) as [E|E]; rewrite E; discriminate. }
    unfold json_msg_body, of_json_body.
    destruct (core_wkt tid) as [E0|E9].
    - rewrite E0. rewrite Hmembers. cbn [jbind].
      eexists. split; [reflexivity|]. split; [reflexivity|]. exact Hdecoded.
    - rewrite E9. rewrite Hmembers. cbn [jbind]. eexists. split; [reflexivity|]. split; [reflexivity|].
      (* Empty: no fields, hence no members *)
      unfold json_core in Hcore. rewrite forallb_forall in Hcore.
      assert (Hcw := Hcore tid ltac:(apply in_seq; lia)). cbn zeta in Hcw. rewrite E9 in Hcw.
      cbn [N.eqb Pos.eqb orb andb] in Hcw.
      unfold json_members in Hmembers. unfold dec_ordinary in Hdecoded.
      destruct (rt_fields S nm tid) as [|? ?] eqn:Efps; [|discriminate].
      unfold rt_field_order in Hmembers. cbn in Hmembers. inversion Hmembers; subst ms.
      cbn [dec_empty]. cbn in Hdecoded. exact Hdecoded.
  Qed.
End JMain.

Theorem json_roundtrip_except_F11_partial cd (o : jopts) S nm lim fuel tid v :
  (forall bs, b64_dec cd (b64_enc cd bs) = Some bs) ->
  json_schema_ok S nm = true -> json_core S nm = true ->
  json_valid true (o_emit_unpop o) S nm fuel tid v = true ->
  exists j, to_json cd o S nm lim fuel tid v = JOk j /\ of_json cd S nm fuel tid j = JOk (strip_unknown v).
Proof.
  intros Hb Hs Hc Hv.
  destruct (json_roundtrip_core cd Hb (jo_tree o) S nm lim Hs Hc fuel tid v Hv) as (j & Hj & _ & Hd).
  exists j. split; assumption.
Qed.

Theorem json_marshal_total_partial cd (o : jopts) S nm lim fuel tid v :
  (forall bs, b64_dec cd (b64_enc cd bs) = Some bs) ->
  json_schema_ok S nm = true -> json_core S nm = true ->
  json_valid true (o_emit_unpop o) S nm fuel tid v = true ->
  exists j, to_json cd o S nm lim fuel tid v = JOk j.
Proof.
  intros Hb Hs Hc Hv.
  destruct (json_roundtrip_core cd Hb (jo_tree o) S nm lim Hs Hc fuel tid v Hv) as (j & Hj & _).
  exists j. exact Hj.
Qed.

(* Multiline and Indent select the rendering only *)
Theorem json_rendering_options_irrelevant cd ml ml' ind ind' pn en eu ed S nm lim fuel tid v :
  to_json cd (mkJO ml ind pn en eu ed) S nm lim fuel tid v = to_json cd (mkJO ml' ind' pn en eu ed) S nm lim fuel tid v.
Proof. reflexivity. Qed.
