(* Model of the scalar layer of encoding/protojson/decode.go: unmarshalInt / Uint /
   Float / Bytes / Enum (quoted numbers through a nested Decoder), of the
   encoding/base64 behaviour unmarshalBytes relies on, of the marshalSingular arms for
   integers and bytes, and of a one-field unmarshalMessage.  Definitions only. *)
From Coq Require Import List NArith ZArith Bool.
From PB Require Import Base.PBytes Json.JsonUtf8 Json.JsonGrammar Json.JsonNumModel Json.JsonLexModel
  Json.JsonEncModel.
Import ListNotations.
Open Scope N_scope.

(* ---------- strings.TrimSpace(s) changes the length of s (s is valid UTF-8) ---------- *)
Definition is_unicode_space (r : N) : bool :=
  ((9 <=? r) && (r <=? 13)) || (r =? 32) || (r =? 133) || (r =? 160) || (r =? 5760) ||
  ((8192 <=? r) && (r <=? 8202)) || (r =? 8232) || (r =? 8233) || (r =? 8239) || (r =? 8287) ||
  (r =? 12288).
Fixpoint last_rune_fuel (fuel : nat) (cur : N) (s : list byte) : N :=
  match fuel with
  | O => cur
  | S f => match s with
           | [] => cur
           | _ => let d := decode_rune s in last_rune_fuel f (fst d) (skipn (snd d) s)
           end
  end.
Definition trim_space_changes (s : list byte) : bool :=
  match s with
  | [] => false
  | _ => is_unicode_space (fst (decode_rune s)) || is_unicode_space (last_rune_fuel (length s) 0 s)
  end.

(* the nested decoder of unmarshalInt/Uint/Float: one token, then EOF *)
Definition quoted_number_token (s : list byte) : option token :=
  if trim_space_changes s then None
  else match read (d_init s) with
       | Err _ => None
       | Ok (tok, st) =>
         match read st with
         | Err _ => None
         | Ok (next, _) => if kind_eqb (t_kind next) KEOF then Some tok else None
         end
       end.

Definition tok_int (bits : N) (tok : token) : option Z :=
  match t_kind tok with KNumber => token_int bits (t_raw tok) | _ => None end.
Definition tok_uint (bits : N) (tok : token) : option N :=
  match t_kind tok with KNumber => token_uint bits (t_raw tok) | _ => None end.

Definition unmarshal_int (bits : N) (tok : token) : option Z :=
  match t_kind tok with
  | KNumber => tok_int bits tok
  | KString => match quoted_number_token (t_str tok) with Some t => tok_int bits t | None => None end
  | _ => None
  end.
Definition unmarshal_uint (bits : N) (tok : token) : option N :=
  match t_kind tok with
  | KNumber => tok_uint bits tok
  | KString => match quoted_number_token (t_str tok) with Some t => tok_uint bits t | None => None end
  | _ => None
  end.

(* ---------- floats, relative to strconv.ParseFloat ---------- *)
Inductive fval := FNaN | FInf (neg : bool) | FNum (ieee_bits : N).
Definition str_nan : list byte := ["N"; "a"; "N"]%byte.
Definition str_inf : list byte := ["I"; "n"; "f"; "i"; "n"; "i"; "t"; "y"]%byte.
Definition bytes_eqb (a b : list byte) : bool :=
  Nat.eqb (length a) (length b) && forallb (fun p => is (fst p) (snd p)) (combine a b).

Section Float.
  (* strconv.ParseFloat(s, bits): the IEEE-754 bit pattern (width [bits]) of the result, None on error *)
  Variable parse_float : N -> list byte -> option N.

  Definition tok_float (bits : N) (tok : token) : option fval :=
    match t_kind tok with
    | KNumber => match parse_float bits (t_raw tok) with Some b => Some (FNum b) | None => None end
    | _ => None
    end.
  Definition unmarshal_float (bits : N) (tok : token) : option fval :=
    match t_kind tok with
    | KNumber => tok_float bits tok
    | KString =>
      let s := t_str tok in
      if bytes_eqb s str_nan then Some FNaN
      else if bytes_eqb s str_inf then Some (FInf false)
      else if bytes_eqb s (c_minus :: str_inf) then Some (FInf true)
      else match quoted_number_token s with Some t => tok_float bits t | None => None end
    | _ => None
    end.
End Float.

(* ---------- encoding/base64 ---------- *)
Definition b64_char (url : bool) (v : N) : byte :=
  if v <? 26 then n2b (65 + v) else if v <? 52 then n2b (71 + v) else if v <? 62 then n2b (v - 4)
  else if v =? 62 then (if url then c_minus else c_plus) else (if url then c_us else c_slash).
Definition b64_val (url : bool) (b : byte) : option N :=
  if in_range 65 90 b then Some (b2n b - 65)
  else if in_range 97 122 b then Some (b2n b - 71)
  else if is_digit b then Some (b2n b + 4)
  else if is b (if url then c_minus else c_plus) then Some 62
  else if is b (if url then c_us else c_slash) then Some 63
  else None.
Definition c_pad : byte := "="%byte.
Definition is_nl (b : byte) : bool := is b c_lf || is b c_cr.
Fixpoint skip_nl (s : list byte) : list byte :=
  match s with b :: r => if is_nl b then skip_nl r else s | [] => [] end.

(* Encoding.EncodeToString (with padding) *)
Fixpoint b64_encode (url : bool) (s : list byte) : list byte :=
  match s with
  | a :: b :: c :: r =>
    let v := b2n a * 65536 + b2n b * 256 + b2n c in
    b64_char url (v / 262144) :: b64_char url ((v / 4096) mod 64) :: b64_char url ((v / 64) mod 64)
      :: b64_char url (v mod 64) :: b64_encode url r
  | [a; b] =>
    let v := b2n a * 65536 + b2n b * 256 in
    [b64_char url (v / 262144); b64_char url ((v / 4096) mod 64); b64_char url ((v / 64) mod 64); c_pad]
  | [a] =>
    let v := b2n a * 65536 in
    [b64_char url (v / 262144); b64_char url ((v / 4096) mod 64); c_pad; c_pad]
  | [] => []
  end.

(* Encoding.WithPadding(NoPadding).EncodeToString *)
Fixpoint b64_encode_raw (url : bool) (s : list byte) : list byte :=
  match s with
  | a :: b :: c :: r =>
    let v := b2n a * 65536 + b2n b * 256 + b2n c in
    b64_char url (v / 262144) :: b64_char url ((v / 4096) mod 64) :: b64_char url ((v / 64) mod 64)
      :: b64_char url (v mod 64) :: b64_encode_raw url r
  | [a; b] =>
    let v := b2n a * 65536 + b2n b * 256 in
    [b64_char url (v / 262144); b64_char url ((v / 4096) mod 64); b64_char url ((v / 64) mod 64)]
  | [a] =>
    let v := b2n a * 65536 in
    [b64_char url (v / 262144); b64_char url ((v / 4096) mod 64)]
  | [] => []
  end.
(* the four encodings protojson accepts *)
Definition b64_encode_variant (url pad : bool) (s : list byte) : list byte :=
  if pad then b64_encode url s else b64_encode_raw url s.

(* decodeQuantum: up to four sextets, skipping CR/LF; non-strict (trailing bits ignored) *)
Inductive qres := QDone | QErr | QOk (vals : list N) (rest : list byte).
Fixpoint b64_quantum (fuel : nat) (url pad : bool) (j : nat) (vals : list N) (src : list byte) : qres :=
  match fuel with
  | O => QErr
  | S f =>
    if Nat.eqb j 4 then QOk (rev vals) src
    else match src with
         | [] => if Nat.eqb j 0 then QDone
                 else if Nat.eqb j 1 || pad then QErr
                 else QOk (rev vals) []
         | c :: r =>
           match b64_val url c with
           | Some v => b64_quantum f url pad (S j) (v :: vals) r
           | None =>
             if is_nl c then b64_quantum f url pad j vals r
             else if negb pad || negb (is c c_pad) then QErr
             else match j with
                  | 2%nat => match skip_nl r with
                             | c2 :: r2 => if is c2 c_pad
                                           then match skip_nl r2 with [] => QOk (rev vals) [] | _ => QErr end
                                           else QErr
                             | [] => QErr
                             end
                  | 3%nat => match skip_nl r with [] => QOk (rev vals) [] | _ => QErr end
                  | _ => QErr
                  end
           end
         end
  end.
Definition b64_quantum_bytes (vals : list N) : list byte :=
  let v := nth 0 vals 0 * 262144 + nth 1 vals 0 * 4096 + nth 2 vals 0 * 64 + nth 3 vals 0 in
  firstn (length vals - 1) [n2b (v / 65536); n2b ((v / 256) mod 256); n2b (v mod 256)].
Fixpoint b64_decode_loop (fuel : nat) (url pad : bool) (src : list byte) : option (list byte) :=
  match fuel with
  | O => None
  | S f =>
    match b64_quantum (S (S (length src))) url pad 0 [] src with
    | QDone => Some []
    | QErr => None
    | QOk vals rest =>
      match b64_decode_loop f url pad rest with
      | Some t => Some (b64_quantum_bytes vals ++ t)
      | None => None
      end
    end
  end.
Definition b64_decode (url pad : bool) (s : list byte) : option (list byte) :=
  b64_decode_loop (S (length s)) url pad s.

(* unmarshalBytes: variant selection *)
Definition unmarshal_bytes (tok : token) : option (list byte) :=
  match t_kind tok with
  | KString =>
    let s := t_str tok in
    let url := existsb (fun b => is b c_minus || is b c_us) s in
    let pad := Nat.eqb (Nat.modulo (length s) 4) 0 in
    b64_decode url pad s
  | _ => None
  end.

(* ---------- enums ---------- *)
Fixpoint enum_by_name (values : list (list byte * Z)) (s : list byte) : option Z :=
  match values with
  | [] => None
  | (n, v) :: r => if bytes_eqb n s then Some v else enum_by_name r s
  end.
(* Some (Some n): value; Some None: accepted but nothing to set (DiscardUnknown); None: error.
   (google.protobuf.NullValue and its null form are not modelled.) *)
Definition unmarshal_enum (values : list (list byte * Z)) (discard_unknown : bool) (tok : token)
  : option (option Z) :=
  match t_kind tok with
  | KString => match enum_by_name values (t_str tok) with
               | Some v => Some (Some v)
               | None => if discard_unknown then Some None else None
               end
  | KNumber => match tok_int 32 tok with Some n => Some (Some n) | None => None end
  | _ => None
  end.

(* ---------- a message with a single known singular scalar field:  { "name" : value }  ---------- *)
Inductive pjres (V : Type) := PJErr | PJUnset | PJSet (v : V).
Arguments PJErr {V}. Arguments PJUnset {V}. Arguments PJSet {V} _.

Definition pj_finish {V} (r : pjres V) (st : dstate) : pjres V :=
  (* after the value: "}" then EOF *)
  match read st with
  | Ok (t1, st1) =>
    if kind_eqb (t_kind t1) KObjClose then
      match read st1 with
      | Ok (t2, _) => if kind_eqb (t_kind t2) KEOF then r else PJErr
      | Err _ => PJErr
      end
    else PJErr
  | Err _ => PJErr
  end.

Definition pj_one {V} (unm : token -> option (option V)) (doc : list byte) : pjres V :=
  match read (d_init doc) with
  | Err _ => PJErr
  | Ok (t0, st0) =>
    if negb (kind_eqb (t_kind t0) KObjOpen) then PJErr
    else match read st0 with
         | Err _ => PJErr
         | Ok (t1, st1) =>
           match t_kind t1 with
           | KObjClose => match read st1 with
                          | Ok (t2, _) => if kind_eqb (t_kind t2) KEOF then PJUnset else PJErr
                          | Err _ => PJErr
                          end
           | KName =>
             match read st1 with
             | Err _ => PJErr
             | Ok (tv, st2) =>
               match t_kind tv with
               | KNull => pj_finish PJUnset st2
               | _ => match unm tv with
                      | None => PJErr
                      | Some None => pj_finish PJUnset st2
                      | Some (Some v) => pj_finish (PJSet v) st2
                      end
               end
             end
           | _ => PJErr
           end
         end
  end.

Definition some_some {A V} (f : A -> option V) (a : A) : option (option V) :=
  match f a with Some v => Some (Some v) | None => None end.
Definition pj_int (bits : N) (doc : list byte) : pjres Z := pj_one (some_some (unmarshal_int bits)) doc.
Definition pj_uint (bits : N) (doc : list byte) : pjres N := pj_one (some_some (unmarshal_uint bits)) doc.
Definition pj_bytes (doc : list byte) : pjres (list byte) := pj_one (some_some unmarshal_bytes) doc.
Definition pj_enum (values : list (list byte * Z)) (discard : bool) (doc : list byte) : pjres Z :=
  pj_one (unmarshal_enum values discard) doc.

(* ---------- marshalSingular arms ---------- *)
Definition marshal_int (bits : N) (v : Z) : ecall :=
  if bits =? 64 then CString (dec_int v) else CInt v.
Definition marshal_uint (bits : N) (v : N) : ecall :=
  if bits =? 64 then CString (dec_digits v) else CUint v.
Definition marshal_bytes (b : list byte) : ecall := CString (b64_encode false b).
