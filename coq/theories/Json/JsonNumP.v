(* Proofs about numbers: parseNumber = RFC 8259 number recogniser + delimiter rule;
   the recogniser is sound and (for delimited numbers) complete for the inductive grammar. *)
From Coq Require Import List NArith ZArith Lia Bool.
From Coq Require Import ZifyBool ZifyNat ZifyN.
From PB Require Import Base.PBytes Json.JsonUtf8 Json.JsonGrammar Json.JsonNumModel.
Import ListNotations.
Open Scope N_scope.
Ltac Zify.zify_post_hook ::= Z.div_mod_to_equations.

(* ---------- bytes ---------- *)
Lemma is_true b c : is b c = true -> b = c.
Proof. unfold is. apply Byte.byte_dec_bl. Qed.
Lemma is_refl b : is b b = true.
Proof. unfold is. apply Byte.byte_dec_lb. reflexivity. Qed.
Lemma is_false b c : is b c = false -> b <> c.
Proof. intros H E. subst. rewrite is_refl in H. discriminate. Qed.

Lemma is_digit_b2n b : is_digit b = true <-> 48 <= b2n b <= 57.
Proof. unfold is_digit, in_range. lia. Qed.
Lemma is_digit19_digit b : is_digit19 b = true -> is_digit b = true.
Proof. unfold is_digit19, is_digit, in_range. lia. Qed.

Ltac bytefacts :=
  repeat match goal with
  | H : is ?b ?c = true |- _ => apply is_true in H; try subst b
  end.

(* ---------- span_digits ---------- *)
Definition not_digit_head (t : list byte) : Prop :=
  match t with b :: _ => is_digit b = false | [] => True end.

Lemma span_digits_spec s d t : span_digits s = (d, t) ->
  s = d ++ t /\ forallb is_digit d = true /\ not_digit_head t.
Proof.
  revert d t. induction s as [|b r IH]; intros d t H; cbn [span_digits] in H.
  - injection H as <- <-. cbn. auto.
  - destruct (is_digit b) eqn:E.
    + destruct (span_digits r) as [d' t'] eqn:E2. injection H as <- <-.
      destruct (IH d' t' eq_refl) as (-> & Hd & Ht). repeat split; auto. cbn [forallb]. now rewrite E.
    + injection H as <- <-. repeat split; auto.
Qed.

Lemma span_digits_app d t : forallb is_digit d = true -> not_digit_head t -> span_digits (d ++ t) = (d, t).
Proof.
  induction d as [|b d IH]; cbn [app span_digits forallb]; intros Hd Ht.
  - destruct t; auto. cbn [not_digit_head] in Ht. cbn [span_digits]. now rewrite Ht.
  - apply andb_true_iff in Hd as [Hb Hd]. rewrite Hb, IH; auto.
Qed.

Lemma span_digits_length s : length s = (length (fst (span_digits s)) + length (snd (span_digits s)))%nat.
Proof.
  destruct (span_digits s) as [d t] eqn:E. apply span_digits_spec in E as (-> & _ & _).
  cbn. now rewrite app_length.
Qed.

(* ---------- delimiters ---------- *)
Definition delim_or_end (r : list byte) : bool :=
  match r with b :: _ => negb (is_not_delim b) | [] => true end.

Lemma digit_not_delim b : is_digit b = true -> is_not_delim b = true.
Proof. unfold is_not_delim. intros ->. now rewrite !orb_true_r. Qed.

Lemma delim_not_digit_head r : delim_or_end r = true -> not_digit_head r.
Proof.
  destruct r as [|b r]; cbn [delim_or_end not_digit_head]; auto. intros H. destruct (is_digit b) eqn:E; auto.
  apply digit_not_delim in E. rewrite E in H. discriminate.
Qed.

(* ---------- parseNumber = recogniser + delimiter rule ---------- *)
Lemma strip_digits1_spec s r : strip_digits1 s = Some r ->
  exists d, s = d ++ r /\ d <> [] /\ forallb is_digit d = true /\ not_digit_head r.
Proof.
  unfold strip_digits1. destruct (span_digits s) as [d t] eqn:E.
  apply span_digits_spec in E as (-> & Hd & Ht).
  destruct d as [|b d]; [discriminate|]. intros [= <-]. exists (b :: d). repeat split; auto. discriminate.
Qed.

Lemma pn_int_strip s :
  pn_int s = match strip_int s with Some r => Some (length s - length r, r)%nat | None => None end.
Proof.
  destruct s as [|b0 r0]; cbn [pn_int strip_int]; auto.
  destruct (is b0 c_0). { cbn [length]. f_equal. f_equal. lia. }
  destruct (is_digit19 b0); auto.
  pose proof (span_digits_length r0) as HL. destruct (span_digits r0) as [d t]. cbn [fst snd length] in *.
  f_equal. f_equal. lia.
Qed.

Lemma strip_int_length s r : strip_int s = Some r -> (length r < length s)%nat.
Proof.
  destruct s as [|b0 r0]; cbn [strip_int]; [discriminate|].
  destruct (is b0 c_0). { intros [= <-]. cbn. lia. }
  destruct (is_digit19 b0); [|discriminate]. intros [= <-].
  pose proof (span_digits_length r0). cbn [length]. lia.
Qed.

Lemma pn_frac_some s r : strip_frac s = Some r ->
  pn_frac s = ((length s - length r)%nat, r) /\ (length r <= length s)%nat.
Proof.
  destruct s as [|b1 s1]; cbn [strip_frac pn_frac].
  { intros [= <-]. auto. }
  destruct (is b1 c_dot) eqn:E1.
  - intros H. unfold strip_digits1 in H.
    destruct s1 as [|b2 r2]; cbn [span_digits] in H; [discriminate|].
    destruct (is_digit b2) eqn:E2; [|discriminate]. cbn [andb].
    pose proof (span_digits_length r2) as HL. destruct (span_digits r2) as [d t]. cbn [fst snd] in HL.
    injection H as <-. cbn [length]. split; [f_equal|]; lia.
  - intros [= <-]. cbn [andb]. destruct s1; split; auto; f_equal; lia.
Qed.

Definition dot_head (s : list byte) : Prop := match s with b :: _ => b = c_dot | [] => False end.

Lemma pn_frac_none s : strip_frac s = None -> pn_frac s = (0%nat, s) /\ dot_head s.
Proof.
  destruct s as [|b1 s1]; cbn [strip_frac pn_frac]; [discriminate|].
  destruct (is b1 c_dot) eqn:E1; [|discriminate].
  intros H. unfold strip_digits1 in H. apply is_true in E1. subst b1.
  destruct s1 as [|b2 r2]; [cbn; auto|].
  cbn [span_digits] in H. destruct (is_digit b2) eqn:E2.
  - destruct (span_digits r2). discriminate.
  - rewrite andb_false_r. cbn. auto.
Qed.

Lemma pn_exp_dot s : dot_head s -> pn_exp s = Some (0%nat, s) /\ delim_or_end s = false.
Proof.
  destruct s as [|b1 s1]; cbn [dot_head]; [tauto|]. intros ->. split.
  - destruct s1; reflexivity.
  - reflexivity.
Qed.

Lemma pn_exp_some s r : strip_exp s = Some r ->
  pn_exp s = Some ((length s - length r)%nat, r) /\ (length r <= length s)%nat.
Proof.
  destruct s as [|b1 s1]; cbn [strip_exp pn_exp].
  { intros [= <-]. auto. }
  destruct (is b1 c_e || is b1 c_E) eqn:E1.
  - destruct s1 as [|b2 r2]; [discriminate|].
    destruct (is b2 c_plus || is b2 c_minus) eqn:E2; intros H; unfold strip_digits1 in H.
    + destruct r2 as [|b3 r3]; cbn [span_digits] in H; [discriminate|].
      destruct (is_digit b3) eqn:E3; [|discriminate]. cbn [span_digits]. rewrite E3.
      pose proof (span_digits_length r3) as HL. destruct (span_digits r3) as [d t]. cbn [fst snd] in HL.
      injection H as <-. cbn [length]. split; [do 2 f_equal|]; lia.
    + cbn [span_digits] in H. destruct (is_digit b2) eqn:E3; [|discriminate]. cbn [span_digits]. rewrite E3.
      pose proof (span_digits_length r2) as HL. destruct (span_digits r2) as [d t]. cbn [fst snd] in HL.
      injection H as <-. cbn [length]. split; [do 2 f_equal|]; lia.
  - intros [= <-]. destruct s1; split; auto; do 2 f_equal; lia.
Qed.

Lemma e_not_delim b : (is b c_e || is b c_E) = true -> is_not_delim b = true.
Proof. intros H. apply orb_true_iff in H as [H|H]; apply is_true in H; subst; reflexivity. Qed.

Lemma pn_exp_none s : strip_exp s = None ->
  pn_exp s = None \/ (pn_exp s = Some (0%nat, s) /\ delim_or_end s = false).
Proof.
  destruct s as [|b1 s1]; cbn [strip_exp pn_exp]; [discriminate|].
  destruct (is b1 c_e || is b1 c_E) eqn:E1; [|discriminate].
  destruct s1 as [|b2 r2].
  { intros _. right. split; auto. cbn [delim_or_end]. now rewrite (e_not_delim _ E1). }
  destruct (is b2 c_plus || is b2 c_minus) eqn:E2; intros H; unfold strip_digits1 in H; left.
  - destruct r2 as [|b3 r3]; auto. cbn [span_digits] in H.
    destruct (is_digit b3) eqn:E3; auto. destruct (span_digits r3). discriminate.
  - cbn [span_digits] in H. destruct (is_digit b2) eqn:E3; auto. destruct (span_digits r2). discriminate.
Qed.

Lemma delim_check r (n : nat) :
  match r with b :: _ => if is_not_delim b then None else Some n | [] => Some n end
  = if delim_or_end r then Some n else None.
Proof. destruct r as [|b r]; cbn [delim_or_end]; auto. destruct (is_not_delim b); auto. Qed.

Lemma parse_number_strip_aux (neg : nat) s :
  match pn_int s with
  | None => None
  | Some (ni, s1) =>
    let '(nf, s2) := pn_frac s1 in
    match pn_exp s2 with
    | None => None
    | Some (ne, s3) =>
      match s3 with
      | b :: _ => if is_not_delim b then None else Some (neg + ni + nf + ne)%nat
      | [] => Some (neg + ni + nf + ne)%nat
      end
    end
  end =
  match strip_int s with
  | Some s1 => match strip_frac s1 with
               | Some s2 => match strip_exp s2 with
                            | Some r => if delim_or_end r then Some (neg + (length s - length r))%nat else None
                            | None => None end
               | None => None end
  | None => None
  end.
Proof.
  rewrite pn_int_strip. destruct (strip_int s) as [s1|] eqn:E0; auto.
  apply strip_int_length in E0.
  destruct (strip_frac s1) as [s2|] eqn:E1.
  - apply pn_frac_some in E1 as [-> L1].
    destruct (strip_exp s2) as [r|] eqn:E2.
    + apply pn_exp_some in E2 as [-> L2]. rewrite delim_check.
      destruct (delim_or_end r); auto. f_equal. lia.
    + apply pn_exp_none in E2 as [-> | [-> Hd]]; auto. rewrite delim_check, Hd. reflexivity.
  - apply pn_frac_none in E1 as [-> Hdot]. apply pn_exp_dot in Hdot as [-> Hd].
    rewrite delim_check, Hd. reflexivity.
Qed.

Theorem parse_number_strip input :
  parse_number input =
  match strip_number input with
  | Some r => if delim_or_end r then Some (length input - length r)%nat else None
  | None => None
  end.
Proof.
  unfold parse_number, strip_number. destruct input as [|b r0]; [reflexivity|].
  destruct (is b c_minus) eqn:E.
  - rewrite parse_number_strip_aux.
    destruct (strip_int r0) as [s1|] eqn:E0; auto. pose proof (strip_int_length _ _ E0).
    destruct (strip_frac s1) as [s2|] eqn:E1; auto. pose proof (proj2 (pn_frac_some _ _ E1)).
    destruct (strip_exp s2) as [r|] eqn:E2; auto. pose proof (proj2 (pn_exp_some _ _ E2)).
    destruct (delim_or_end r); auto. f_equal. cbn [length]. lia.
  - rewrite parse_number_strip_aux.
    destruct (strip_int (b :: r0)) as [s1|] eqn:E0; auto.
    destruct (strip_frac s1) as [s2|] eqn:E1; auto.
Qed.

(* ---------- the recogniser is sound for the inductive grammar ---------- *)
Lemma strip_int_sound s r : strip_int s = Some r ->
  exists i, s = i ++ r /\ rfc_int i /\ (i = [c_0] \/ not_digit_head r).
Proof.
  destruct s as [|b0 r0]; cbn [strip_int]; [discriminate|].
  destruct (is b0 c_0) eqn:E0.
  - intros [= <-]. apply is_true in E0. subst. exists [c_0]. repeat split; auto. constructor.
  - destruct (is_digit19 b0) eqn:E1; [|discriminate]. intros [= <-].
    destruct (span_digits r0) as [d t] eqn:E2. apply span_digits_spec in E2 as (-> & Hd & Ht).
    exists (b0 :: d). cbn [snd]. repeat split; auto. now constructor.
Qed.

Lemma strip_frac_sound s r : strip_frac s = Some r -> exists f, s = f ++ r /\ rfc_frac f.
Proof.
  destruct s as [|b1 s1]; cbn [strip_frac].
  { intros [= <-]. exists []. split; auto. constructor. }
  destruct (is b1 c_dot) eqn:E1.
  - apply is_true in E1. subst. intros H. apply strip_digits1_spec in H as (d & -> & Hne & Hd & _).
    exists (c_dot :: d). split; auto. constructor. split; auto.
  - intros [= <-]. exists []. split; auto. constructor.
Qed.

Lemma strip_exp_sound s r : strip_exp s = Some r -> exists e, s = e ++ r /\ rfc_exp e.
Proof.
  destruct s as [|b1 s1]; cbn [strip_exp].
  { intros [= <-]. exists []. split; auto. constructor. }
  destruct (is b1 c_e || is b1 c_E) eqn:E1.
  - assert (He : b1 = c_e \/ b1 = c_E).
    { apply orb_true_iff in E1 as [H|H]; apply is_true in H; auto. }
    destruct s1 as [|b2 r2]; [discriminate|].
    destruct (is b2 c_plus || is b2 c_minus) eqn:E2; intros H;
      apply strip_digits1_spec in H as (d & Hs & Hne & Hd & _).
    + subst r2. exists (b1 :: [b2] ++ d). split; auto. constructor; auto; [|split; auto].
      apply orb_true_iff in E2 as [H|H]; apply is_true in H; subst; auto.
    + exists (b1 :: [] ++ d). cbn [app]. rewrite Hs. split; auto.
      apply (exp_some b1 [] d); auto. split; auto.
  - intros [= <-]. exists []. split; auto. constructor.
Qed.

Theorem strip_number_sound s r : strip_number s = Some r ->
  exists num, s = num ++ r /\ rfc_number num.
Proof.
  unfold strip_number.
  set (s0 := match s with b :: r0 => if is b c_minus then r0 else s | [] => s end).
  assert (Hm : exists m, s = m ++ s0 /\ (m = [] \/ m = [c_minus])).
  { subst s0. destruct s as [|b r0]. { exists []. auto. }
    destruct (is b c_minus) eqn:E. { apply is_true in E. subst. exists [c_minus]. auto. }
    exists []. auto. }
  destruct Hm as (m & Hs & Hm).
  destruct (strip_int s0) as [s1|] eqn:E0; [|discriminate].
  destruct (strip_frac s1) as [s2|] eqn:E1; [|discriminate].
  intros E2.
  apply strip_int_sound in E0 as (i & -> & Hi & _).
  apply strip_frac_sound in E1 as (f & -> & Hf).
  apply strip_exp_sound in E2 as (e & -> & He).
  exists (m ++ i ++ f ++ e). split.
  - rewrite Hs. now rewrite <- !app_assoc.
  - now constructor.
Qed.

Theorem parse_number_sound input n : parse_number input = Some n ->
  rfc_number (firstn n input) /\ delim_or_end (skipn n input) = true /\ (0 < n <= length input)%nat.
Proof.
  rewrite parse_number_strip. destruct (strip_number input) as [r|] eqn:E; [|discriminate].
  destruct (delim_or_end r) eqn:D; [|discriminate]. intros [= <-].
  apply strip_number_sound in E as (num & -> & Hn).
  rewrite app_length. replace (length num + length r - length r)%nat with (length num) by lia.
  rewrite firstn_app, Nat.sub_diag, firstn_all, firstn_O, app_nil_r.
  rewrite skipn_app, Nat.sub_diag, skipn_all. cbn [skipn app]. repeat split; auto; try lia.
  inversion Hn as [m i f e Hm Hi Hf He]. inversion Hi; subst; rewrite !app_length; cbn [length]; lia.
Qed.

(* ---------- and complete for numbers followed by a delimiter (or the end) ---------- *)
Lemma strip_digits1_app d r : d <> [] -> forallb is_digit d = true -> not_digit_head r ->
  strip_digits1 (d ++ r) = Some r.
Proof.
  intros Hne Hd Hr. unfold strip_digits1. rewrite span_digits_app; auto. destruct d; auto. contradiction.
Qed.

Lemma not_delim_not_dot r : delim_or_end r = true -> match r with b :: _ => is b c_dot = false /\ (is b c_e || is b c_E) = false | [] => True end.
Proof.
  destruct r as [|b r]; auto. cbn [delim_or_end]. intros H. split.
  - destruct (is b c_dot) eqn:E; auto. apply is_true in E. subst. discriminate.
  - destruct (is b c_e || is b c_E) eqn:E; auto. apply e_not_delim in E. rewrite E in H. discriminate.
Qed.

Lemma head_not_minus i t : rfc_int i ->
  match i ++ t with b :: r0 => if is b c_minus then r0 else i ++ t | [] => i ++ t end = i ++ t.
Proof.
  destruct 1 as [|b d Hb Hd]; [reflexivity|]. cbn [app].
  destruct (is b c_minus) eqn:E; auto. apply is_true in E. subst. discriminate.
Qed.

Theorem strip_number_complete num r : rfc_number num -> delim_or_end r = true ->
  strip_number (num ++ r) = Some r.
Proof.
  intros Hn Hr. destruct Hn as [m i f e Hm Hi Hf He].
  pose proof (delim_not_digit_head _ Hr) as Hnd. pose proof (not_delim_not_dot _ Hr) as Hdot.
  (* the exponent part *)
  assert (Hexp : strip_exp (e ++ r) = Some r).
  { destruct He as [|e0 sg d He0 Hsg [Hne Hd]].
    - cbn [app]. destruct r as [|b r]; auto. cbn [strip_exp]. destruct Hdot as [_ ->]. reflexivity.
    - cbn [app strip_exp].
      replace (is e0 c_e || is e0 c_E) with true by (destruct He0; subst; reflexivity).
      destruct Hsg as [-> | [-> | ->]]; cbn [app].
      + destruct d as [|b0 d]; [contradiction|]. cbn [app].
        cbn [forallb] in Hd. apply andb_true_iff in Hd as [Hb0 Hd].
        replace (is b0 c_plus || is b0 c_minus) with false.
        2:{ symmetry. apply orb_false_iff. split.
            - destruct (is b0 c_plus) eqn:E; auto. apply is_true in E. subst. discriminate.
            - destruct (is b0 c_minus) eqn:E; auto. apply is_true in E. subst. discriminate. }
        apply (strip_digits1_app (b0 :: d)); auto; try discriminate. cbn [forallb]. now rewrite Hb0.
      + replace (is c_plus c_plus || is c_plus c_minus) with true by reflexivity.
        apply strip_digits1_app; auto.
      + replace (is c_minus c_plus || is c_minus c_minus) with true by reflexivity.
        apply strip_digits1_app; auto. }
  (* what follows the fraction does not start with a digit *)
  assert (Hend : not_digit_head (e ++ r)).
  { destruct He as [|e0 sg d He0 _ _]; auto. cbn [app not_digit_head]. destruct He0; subst; reflexivity. }
  assert (Hfrac : strip_frac (f ++ e ++ r) = Some (e ++ r)).
  { destruct Hf as [|d [Hne Hd]].
    - cbn [app]. destruct (e ++ r) as [|b t] eqn:Eer; auto. cbn [strip_frac].
      replace (is b c_dot) with false; auto. symmetry.
      destruct He as [|e0 sg d He0 _ _].
      + cbn [app] in Eer. subst r. now destruct Hdot as [-> _].
      + cbn [app] in Eer. injection Eer as <- _. destruct He0; subst; reflexivity.
    - cbn [app strip_frac]. rewrite is_refl. apply strip_digits1_app; auto. }
  assert (Hfe : not_digit_head (f ++ e ++ r)).
  { destruct Hf as [|d _]; auto. reflexivity. }
  assert (Hint : strip_int (i ++ f ++ e ++ r) = Some (f ++ e ++ r)).
  { destruct Hi as [|b d Hb Hd].
    - reflexivity.
    - cbn [app strip_int]. replace (is b c_0) with false.
      2:{ symmetry. destruct (is b c_0) eqn:E; auto. apply is_true in E. subst. discriminate. }
      rewrite Hb, span_digits_app; auto. }
  unfold strip_number. rewrite <- !app_assoc.
  destruct Hm as [-> | ->]; cbn [app].
  - rewrite (head_not_minus _ _ Hi), Hint, Hfrac. exact Hexp.
  - rewrite is_refl, Hint, Hfrac. exact Hexp.
Qed.

Theorem parse_number_complete num r : rfc_number num -> delim_or_end r = true ->
  parse_number (num ++ r) = Some (length num).
Proof.
  intros Hn Hr. rewrite parse_number_strip, (strip_number_complete _ _ Hn Hr), Hr.
  f_equal. rewrite app_length. lia.
Qed.

Theorem is_rfc_number_iff s : is_rfc_number s = true <-> rfc_number s.
Proof.
  unfold is_rfc_number. split.
  - destruct (strip_number s) as [[|]|] eqn:E; try discriminate. intros _.
    apply strip_number_sound in E as (num & -> & H). now rewrite app_nil_r.
  - intros H. rewrite <- (app_nil_r s), (strip_number_complete s [] H eq_refl). reflexivity.
Qed.
