(* The Decoder accepts exactly the strict JSON texts of JsonStrict.v.  The soundness half is the
   simulation argument of JsonLexP.v replayed for the strict grammar (its token-free form
   [xvalue]); together with JsonLexCompleteP.v it characterises the accepted language and the
   tokens read. *)
From Coq Require Import List NArith ZArith Lia Bool.
From Coq Require Import ZifyBool ZifyNat ZifyN.
From PB Require Import Base.PBytes Json.JsonUtf8 Json.JsonGrammar Json.JsonNumModel Json.JsonNumP
  Json.JsonLexModel Json.JsonStrP Json.JsonStrict.
Import ListNotations.
Open Scope N_scope.

(* ---------- parseString accepts only strict strings, with their decoded value ---------- *)
Definition tstring (k : list byte) : Prop := exists d, sstring k d.

Lemma s_app_ok2 pre r d rest : s_app pre r = SOk d rest -> exists d', r = SOk d' rest /\ d = pre ++ d'.
Proof. destruct r; cbn [s_app]; try discriminate. intros [= <- <-]. eauto. Qed.

Theorem parse_string_loop_strict fuel inp d rest :
  parse_string_loop fuel inp = SOk d rest ->
  exists body, inp = body ++ c_quote :: rest /\ schars body d.
Proof.
  revert inp d rest. induction fuel as [|f IH]; intros inp d rest; cbn [parse_string_loop]; [discriminate|].
  destruct inp as [|b r]; [discriminate|].
  destruct (decode_rune (b :: r)) as [rn n] eqn:Ed.
  destruct (is_bad_rune (rn, n)) eqn:Ebad; [discriminate|]. cbn [fst snd].
  destruct (rn <? 32) eqn:E32; [discriminate|].
  destruct (decode_rune_wf _ _ _ Ed Ebad ltac:(discriminate)) as (Hwf & Hn & Hn1 & Hn2).
  destruct (is b c_quote) eqn:Eq.
  { intros [= <- <-]. apply is_true in Eq. subst. exists []. split; auto. constructor. }
  destruct (is b c_bslash) eqn:Eb.
  { apply is_true in Eb. subst b. destruct r as [|e r1]; [discriminate|].
    assert (Hsimple : forall pre, is_simple_esc e = true -> pre = [simple_esc_val e] ->
              s_app pre (parse_string_loop f r1) = SOk d rest ->
              exists body, c_bslash :: e :: r1 = body ++ c_quote :: rest /\ schars body d).
    { intros pre He -> H. apply s_app_ok2 in H as (d' & H & ->). apply IH in H as (body & -> & Hb).
      exists (c_bslash :: e :: body). split; auto. cbn [app]. now apply SCesc. }
    destruct (is e c_quote || is e c_bslash || is e c_slash) eqn:E1.
    { apply Hsimple. { unfold is_simple_esc. rewrite E1. reflexivity. }
      apply orb_true_iff in E1 as [E1|E1]; [apply orb_true_iff in E1 as [E1|E1]|]; apply is_true in E1; subst; reflexivity. }
    destruct (is e "b"%byte) eqn:E2. { apply is_true in E2. subst. apply Hsimple; reflexivity. }
    destruct (is e "f"%byte) eqn:E3. { apply is_true in E3. subst. apply Hsimple; reflexivity. }
    destruct (is e "n"%byte) eqn:E4. { apply is_true in E4. subst. apply Hsimple; reflexivity. }
    destruct (is e "r"%byte) eqn:E5. { apply is_true in E5. subst. apply Hsimple; reflexivity. }
    destruct (is e "t"%byte) eqn:E6. { apply is_true in E6. subst. apply Hsimple; reflexivity. }
    destruct (is e c_u) eqn:E7; [|discriminate]. apply is_true in E7. subst e.
    destruct r1 as [|h1 [|h2 [|h3 [|h4 r2]]]]; try discriminate.
    destruct (hex4 h1 h2 h3 h4) as [v|] eqn:Eh; [|discriminate].
    destruct (is_surrogate v) eqn:Esur.
    - destruct r2 as [|b0 [|b1 [|g1 [|g2 [|g3 [|g4 r3]]]]]]; try discriminate.
      destruct (hex4 g1 g2 g3 g4) as [v2|] eqn:Eg.
      2:{ rewrite !orb_true_r. discriminate. }
      destruct (is b0 c_bslash) eqn:Eb0; [|discriminate]. destruct (is b1 c_u) eqn:Eb1; [|discriminate].
      apply is_true in Eb0, Eb1. subst b0 b1. cbn [negb orb].
      destruct (decode_surrogates v v2 =? rune_error) eqn:Err; [discriminate|]. cbn [orb].
      intros H. apply s_app_ok2 in H as (d' & H & ->). apply IH in H as (body & -> & Hb).
      exists (c_bslash :: c_u :: h1 :: h2 :: h3 :: h4 :: c_bslash :: c_u :: g1 :: g2 :: g3 :: g4 :: body).
      split; auto. unfold decode_surrogates, rune_error in Err.
      destruct ((55296 <=? v) && (v <? 56320) && (56320 <=? v2) && (v2 <? 57344)) eqn:Er; [|discriminate].
      apply SCpair; auto; lia.
    - intros H. apply s_app_ok2 in H as (d' & H & ->). apply IH in H as (body & -> & Hb).
      exists (c_bslash :: c_u :: h1 :: h2 :: h3 :: h4 :: body). split; auto. now apply SCuni. }
  intros H. apply s_app_ok2 in H as (d' & H & ->). apply IH in H as (body & Hsk & Hb).
  exists (firstn n (b :: r) ++ body). split.
  - rewrite <- app_assoc, <- Hsk. symmetry. apply firstn_skipn.
  - apply SCplain; auto.
    destruct (Nat.eq_dec n 1) as [->|Hne].
    + destruct (Hn1 eq_refl) as (b' & rest' & [= <- <-] & -> & _). cbn [firstn unescaped].
      rewrite Eq, Eb. cbn [negb andb]. lia.
    + destruct n as [|[|n']]; try lia. cbn [firstn]. destruct r as [|b1 r']; [cbn [length] in Hn; lia|].
      destruct n'; reflexivity.
Qed.

Theorem parse_string_at_strict pos inp s n : parse_string_at pos inp = Ok (s, n) ->
  tstring (firstn n inp) /\ (2 <= n <= length inp)%nat /\ sstring (firstn n inp) s.
Proof.
  intros H. pose proof (parse_string_at_sound _ _ _ _ H) as (_ & Hn & _). revert H.
  unfold parse_string_at. destruct inp as [|b r]; [discriminate|].
  destruct (is b c_quote) eqn:Eq; [|discriminate]. apply is_true in Eq. subst b.
  destruct (parse_string_loop (S (length r)) r) as [d rest| | |] eqn:E; try discriminate.
  intros H. assert (Hs : s = d) by congruence. assert (Hn' : n = (length (c_quote :: r) - length rest)%nat) by congruence.
  subst s n. clear H. apply parse_string_loop_strict in E as (body & -> & Hb).
  set (l := c_quote :: body ++ [c_quote]).
  assert (El : c_quote :: body ++ c_quote :: rest = l ++ rest) by (subst l; cbn [app]; now rewrite <- app_assoc).
  assert (En : (length (c_quote :: body ++ c_quote :: rest) - length rest)%nat = length l) by (rewrite El, app_length; lia).
  rewrite En, El, firstn_len_app in *. assert (Hss : sstring l d) by (exists body; auto).
  split; [exists d; auto|]. split; auto.
Qed.

(* ---------- the strict grammar without its token index ---------- *)
Inductive xvalue : list byte -> Prop :=
| XNull : xvalue lit_null
| XTrue : xvalue lit_true
| XFalse : xvalue lit_false
| XNum s : rfc_number s -> xvalue s
| XStr s : tstring s -> xvalue s
| XArrE w : ws w -> xvalue (c_lbrack :: w ++ [c_rbrack])
| XArr p : xelems p -> xvalue (c_lbrack :: p ++ [c_rbrack])
| XObjE w : ws w -> xvalue (c_lbrace :: w ++ [c_rbrace])
| XObj p : xmembers p -> xvalue (c_lbrace :: p ++ [c_rbrace])
with xelems : list byte -> Prop :=
| XE1 w1 v w2 : ws w1 -> xvalue v -> ws w2 -> xelems (w1 ++ v ++ w2)
| XEs p w1 v w2 : xelems p -> ws w1 -> xvalue v -> ws w2 -> xelems (p ++ c_comma :: w1 ++ v ++ w2)
with xmembers : list byte -> Prop :=
| XM1 w1 k w2 w3 v w4 : ws w1 -> tstring k -> ws w2 -> ws w3 -> xvalue v -> ws w4 ->
    xmembers (w1 ++ k ++ w2 ++ c_colon :: w3 ++ v ++ w4)
| XMs p w1 k w2 w3 v w4 : xmembers p -> ws w1 -> tstring k -> ws w2 -> ws w3 -> xvalue v -> ws w4 ->
    xmembers (p ++ c_comma :: w1 ++ k ++ w2 ++ c_colon :: w3 ++ v ++ w4).
Definition xtext (s : list byte) : Prop :=
  exists w1 v w2, s = w1 ++ v ++ w2 /\ ws w1 /\ xvalue v /\ ws w2.

Scheme xvalue_mind := Minimality for xvalue Sort Prop
  with xelems_mind := Minimality for xelems Sort Prop
  with xmembers_mind := Minimality for xmembers Sort Prop.
Combined Scheme x_mutind from xvalue_mind, xelems_mind, xmembers_mind.

Lemma x_has_tokens :
  (forall v, xvalue v -> exists ks, svalue v ks) /\ (forall p, xelems p -> exists ks, selems p ks) /\
  (forall p, xmembers p -> exists ks, smembers p ks).
Proof.
  apply x_mutind; intros;
    repeat match goal with H : exists _, _ |- _ => destruct H end; unfold tstring in *;
    repeat match goal with H : exists _, _ |- _ => destruct H end.
  - eexists; apply SNull.
  - eexists; apply STrue.
  - eexists; apply SFalse.
  - eexists; apply SNum; eauto.
  - eexists; eapply SStr; eauto.
  - eexists; apply SArrE; eauto.
  - eexists; eapply SArr; eauto.
  - eexists; apply SObjE; eauto.
  - eexists; eapply SObj; eauto.
  - eexists; eapply SE1; eauto.
  - eexists; eapply SEs; eauto.
  - eexists; eapply SM1; eauto.
  - eexists; eapply SMs; eauto.
Qed.

Theorem xtext_stext s : xtext s -> exists ks, stext s ks.
Proof.
  intros (w1 & v & w2 & -> & H1 & Hv & H2). destruct (proj1 x_has_tokens v Hv) as (ks & Hk).
  exists ks, w1, v, w2. auto.
Qed.

(* ---------- whitespace ---------- *)
Lemma ws_nil : ws [].
Proof. reflexivity. Qed.
Lemma ws_app a b : ws a -> ws b -> ws (a ++ b).
Proof. unfold ws. intros Ha Hb. now rewrite forallb_app, Ha, Hb. Qed.
Lemma skip_ws_spec s : exists w, s = w ++ skip_ws s /\ ws w.
Proof.
  induction s as [|b s IH]; cbn [skip_ws]. { exists []. auto using ws_nil. }
  destruct (is_ws b) eqn:E.
  - destruct IH as (w & Hs & Hw). exists (b :: w). split. { cbn [app]. now rewrite <- Hs. }
    unfold ws. cbn [forallb]. now rewrite E.
  - exists []. auto using ws_nil.
Qed.
#[local] Hint Resolve ws_nil ws_app : core.

(* ---------- partial containers ---------- *)
Definition arr_open (p : list byte) : Prop := exists w, ws w /\ p = c_lbrack :: w.
Definition arr_comma (p : list byte) : Prop := exists q w, xelems q /\ ws w /\ p = c_lbrack :: q ++ c_comma :: w.
Definition arr_val (p : list byte) : Prop := exists q, xelems q /\ p = c_lbrack :: q.
Definition obj_open (p : list byte) : Prop := exists w, ws w /\ p = c_lbrace :: w.
Definition obj_comma (p : list byte) : Prop := exists q w, xmembers q /\ ws w /\ p = c_lbrace :: q ++ c_comma :: w.
Definition obj_name (p : list byte) : Prop :=
  exists pre k w2 w3, (obj_open pre \/ obj_comma pre) /\ tstring k /\ ws w2 /\ ws w3 /\
                      p = pre ++ k ++ w2 ++ c_colon :: w3.
Definition obj_val (p : list byte) : Prop := exists q, xmembers q /\ p = c_lbrace :: q.

Ltac app_eq := repeat (rewrite <- ?app_assoc, <- ?app_comm_cons; cbn [app]); try reflexivity.

(* trailing whitespace is absorbed *)
Lemma jelems_ws q w : xelems q -> ws w -> xelems (q ++ w).
Proof.
  intros H Hw. destruct H as [w1 v w2 H1 Hv H2 | p w1 v w2 Hp H1 Hv H2].
  - replace ((w1 ++ v ++ w2) ++ w) with (w1 ++ v ++ (w2 ++ w)) by app_eq. constructor; auto.
  - replace ((p ++ c_comma :: w1 ++ v ++ w2) ++ w) with (p ++ c_comma :: w1 ++ v ++ (w2 ++ w)) by app_eq.
    constructor; auto.
Qed.
Lemma jmembers_ws q w : xmembers q -> ws w -> xmembers (q ++ w).
Proof.
  intros H Hw. destruct H as [w1 k w2 w3 v w4 H1 Hk H2 H3 Hv H4 | p w1 k w2 w3 v w4 Hp H1 Hk H2 H3 Hv H4].
  - replace ((w1 ++ k ++ w2 ++ c_colon :: w3 ++ v ++ w4) ++ w)
      with (w1 ++ k ++ w2 ++ c_colon :: w3 ++ v ++ (w4 ++ w)) by app_eq. constructor; auto.
  - replace ((p ++ c_comma :: w1 ++ k ++ w2 ++ c_colon :: w3 ++ v ++ w4) ++ w)
      with (p ++ c_comma :: w1 ++ k ++ w2 ++ c_colon :: w3 ++ v ++ (w4 ++ w)) by app_eq. constructor; auto.
Qed.
Lemma arr_open_ws p w : arr_open p -> ws w -> arr_open (p ++ w).
Proof. intros (w0 & H0 & ->) Hw. exists (w0 ++ w). split; auto. Qed.
Lemma arr_comma_ws p w : arr_comma p -> ws w -> arr_comma (p ++ w).
Proof. intros (q & w0 & Hq & H0 & ->) Hw. exists q, (w0 ++ w). repeat split; auto. app_eq. Qed.
Lemma arr_val_ws p w : arr_val p -> ws w -> arr_val (p ++ w).
Proof. intros (q & Hq & ->) Hw. exists (q ++ w). split; auto using jelems_ws. Qed.
Lemma obj_open_ws p w : obj_open p -> ws w -> obj_open (p ++ w).
Proof. intros (w0 & H0 & ->) Hw. exists (w0 ++ w). split; auto. Qed.
Lemma obj_comma_ws p w : obj_comma p -> ws w -> obj_comma (p ++ w).
Proof. intros (q & w0 & Hq & H0 & ->) Hw. exists q, (w0 ++ w). repeat split; auto. app_eq. Qed.
Lemma obj_name_ws p w : obj_name p -> ws w -> obj_name (p ++ w).
Proof.
  intros (pre & k & w2 & w3 & Hpre & Hk & H2 & H3 & ->) Hw. exists pre, k, w2, (w3 ++ w).
  repeat split; auto. app_eq.
Qed.
Lemma obj_val_ws p w : obj_val p -> ws w -> obj_val (p ++ w).
Proof. intros (q & Hq & ->) Hw. exists (q ++ w). split; auto using jmembers_ws. Qed.
Lemma json_text_ws p w : xtext p -> ws w -> xtext (p ++ w).
Proof. intros (w1 & v & w2 & -> & H1 & Hv & H2) Hw. exists w1, v, (w2 ++ w). repeat split; auto. app_eq. Qed.

(* extension by a value, a comma, a name; closing *)
Lemma arr_open_value p v w : arr_open p -> xvalue v -> ws w -> arr_val (p ++ v ++ w).
Proof. intros (w0 & H0 & ->) Hv Hw. exists (w0 ++ v ++ w). split; [constructor; auto|app_eq]. Qed.
Lemma arr_comma_value p v w : arr_comma p -> xvalue v -> ws w -> arr_val (p ++ v ++ w).
Proof.
  intros (q & w0 & Hq & H0 & ->) Hv Hw. exists (q ++ c_comma :: w0 ++ v ++ w). split; [constructor; auto|app_eq].
Qed.
Lemma arr_val_comma p w : arr_val p -> ws w -> arr_comma (p ++ c_comma :: w).
Proof. intros (q & Hq & ->) Hw. exists q, w. repeat split; auto. Qed.
Lemma arr_open_close p : arr_open p -> xvalue (p ++ [c_rbrack]).
Proof. intros (w0 & H0 & ->). cbn [app]. now constructor. Qed.
Lemma arr_val_close p : arr_val p -> xvalue (p ++ [c_rbrack]).
Proof. intros (q & Hq & ->). cbn [app]. now apply XArr. Qed.
Lemma obj_key p k w2 w3 : obj_open p \/ obj_comma p -> tstring k -> ws w2 -> ws w3 ->
  obj_name (p ++ k ++ w2 ++ c_colon :: w3).
Proof. intros Hp Hk H2 H3. exists p, k, w2, w3. auto. Qed.
Lemma obj_name_value p v w : obj_name p -> xvalue v -> ws w -> obj_val (p ++ v ++ w).
Proof.
  intros (pre & k & w2 & w3 & Hpre & Hk & H2 & H3 & ->) Hv Hw.
  destruct Hpre as [(w0 & H0 & ->) | (q & w0 & Hq & H0 & ->)].
  - exists (w0 ++ k ++ w2 ++ c_colon :: w3 ++ v ++ w). split; [constructor; auto|app_eq].
  - exists (q ++ c_comma :: w0 ++ k ++ w2 ++ c_colon :: w3 ++ v ++ w). split; [constructor; auto|app_eq].
Qed.
Lemma obj_val_comma p w : obj_val p -> ws w -> obj_comma (p ++ c_comma :: w).
Proof. intros (q & Hq & ->) Hw. exists q, w. repeat split; auto. Qed.
Lemma obj_open_close p : obj_open p -> xvalue (p ++ [c_rbrace]).
Proof. intros (w0 & H0 & ->). cbn [app]. now apply XObjE. Qed.
Lemma obj_val_close p : obj_val p -> xvalue (p ++ [c_rbrace]).
Proof. intros (q & Hq & ->). cbn [app]. now apply XObj. Qed.

(* ---------- parseNext: whitespace, one lexeme, whitespace ---------- *)
Definition lexeme (k : kind) (raw : list byte) : Prop :=
  match k with
  | KEOF => raw = []
  | KNull => raw = lit_null
  | KBool => raw = lit_true \/ raw = lit_false
  | KNumber => rfc_number raw
  | KString => tstring raw
  | KObjOpen => raw = [c_lbrace] | KObjClose => raw = [c_rbrace]
  | KArrOpen => raw = [c_lbrack] | KArrClose => raw = [c_rbrack]
  | KComma => raw = [c_comma]
  | _ => False
  end.

Lemma consume_spec n st : (n <= length (d_in st))%nat ->
  exists w, ws w /\ d_in st = firstn n (d_in st) ++ w ++ d_in (consume n st) /\
            d_last (consume n st) = d_last st /\ d_stack (consume n st) = d_stack st.
Proof.
  intros Hn. unfold consume. cbn [d_in d_last d_stack].
  destruct (skip_ws_spec (skipn n (d_in st))) as (w & Hs & Hw). exists w. repeat split; auto.
  rewrite <- Hs. symmetry. apply firstn_skipn.
Qed.

Lemma strip_prefix_spec p s r : strip_prefix p s = Some r -> s = p ++ r.
Proof.
  revert s. induction p as [|a p IH]; intros s; cbn [strip_prefix]. { intros [= <-]. reflexivity. }
  destruct s as [|b s]; [discriminate|]. destruct (is a b) eqn:E; [|discriminate].
  apply is_true in E. subst. intros H. apply IH in H. now subst.
Qed.

Lemma match_with_delim_spec lit inp n : match_with_delim lit inp = S n ->
  firstn (S n) inp = lit /\ (S n <= length inp)%nat.
Proof.
  unfold match_with_delim. destruct (strip_prefix lit inp) as [r|] eqn:E; [|discriminate].
  apply strip_prefix_spec in E. subst inp. intros H.
  assert (Hl : S n = length lit).
  { destruct r as [|c r]; [congruence|]. destruct (is_not_delim c); congruence. }
  rewrite Hl, firstn_len_app, app_length. split; auto. lia.
Qed.

Lemma mk_token_spec k size boo str st tok st' : (size <= length (d_in st))%nat ->
  mk_token k size boo str st = (tok, st') ->
  exists w, ws w /\ d_in st = t_raw tok ++ w ++ d_in st' /\ t_raw tok = firstn size (d_in st) /\
            t_kind tok = k /\ d_last st' = d_last st /\ d_stack st' = d_stack st.
Proof.
  intros Hn. unfold mk_token. intros [= <- <-]. cbn [t_raw t_kind].
  destruct (consume_spec size st Hn) as (w & Hw & Hs & Hl & Hk). exists w. repeat split; auto.
Qed.

Theorem parse_next_spec st tok st' : parse_next st = Ok (tok, st') ->
  exists w1 w2, ws w1 /\ ws w2 /\ d_in st = w1 ++ t_raw tok ++ w2 ++ d_in st' /\
    lexeme (t_kind tok) (t_raw tok) /\ d_last st' = d_last st /\ d_stack st' = d_stack st /\
    (t_kind tok = KEOF -> d_in st' = []).
Proof.
  unfold parse_next.
  destruct (consume_spec 0 st ltac:(lia)) as (w1 & Hw1 & Hs1 & Hl1 & Hk1). cbn [firstn app] in Hs1.
  set (st1 := consume 0 st) in *.
  assert (Hgen : forall k size boo str,
            (size <= length (d_in st1))%nat -> lexeme k (firstn size (d_in st1)) -> (k = KEOF -> d_in st1 = []) ->
            Ok (mk_token k size boo str st1) = Ok (tok, st') ->
            exists w1 w2, ws w1 /\ ws w2 /\ d_in st = w1 ++ t_raw tok ++ w2 ++ d_in st' /\
              lexeme (t_kind tok) (t_raw tok) /\ d_last st' = d_last st /\ d_stack st' = d_stack st /\
              (t_kind tok = KEOF -> d_in st' = [])).
  { intros k size boo str Hsz Hlex Heof H0.
    assert (H : mk_token k size boo str st1 = (tok, st')) by congruence. clear H0.
    destruct (mk_token_spec _ _ _ _ _ _ _ Hsz H) as (w2 & Hw2 & Hs2 & Hraw & Hkind & Hl2 & Hk2).
    exists w1, w2. split; auto. split; auto. split; [rewrite Hs1, Hs2; reflexivity|].
    split; [rewrite Hkind, Hraw; exact Hlex|]. split; [congruence|]. split; [congruence|].
    intros HE. rewrite Hkind in HE. specialize (Heof HE). rewrite Heof in Hs2.
      destruct (t_raw tok); [|discriminate]. destruct w2; [|discriminate]. auto. }
  destruct (d_in st1) as [|b r] eqn:Ein.
  { apply Hgen; cbn [length]; auto. reflexivity. }
  assert (Hone : forall k c, b = c -> lexeme k [c] -> k <> KEOF -> Ok (mk_token k 1 false [] st1) = Ok (tok, st') ->
            exists w1 w2, ws w1 /\ ws w2 /\ d_in st = w1 ++ t_raw tok ++ w2 ++ d_in st' /\
              lexeme (t_kind tok) (t_raw tok) /\ d_last st' = d_last st /\ d_stack st' = d_stack st /\
              (t_kind tok = KEOF -> d_in st' = [])).
  { intros k c -> Hlex Hne. apply Hgen; rewrite ?Ein; cbn [length firstn]; auto; try lia. intros; contradiction. }
  destruct (is b "n"%byte).
  { destruct (match_with_delim lit_null (b :: r)) as [|n] eqn:E; [discriminate|].
    apply match_with_delim_spec in E as [E1 E2].
    apply Hgen; auto; discriminate. }
  destruct (is b "t"%byte).
  { destruct (match_with_delim lit_true (b :: r)) as [|n] eqn:E; [discriminate|].
    apply match_with_delim_spec in E as [E1 E2].
    apply Hgen; auto; try discriminate. left; exact E1. }
  destruct (is b "f"%byte).
  { destruct (match_with_delim lit_false (b :: r)) as [|n] eqn:E; [discriminate|].
    apply match_with_delim_spec in E as [E1 E2].
    apply Hgen; auto; try discriminate. right; exact E1. }
  destruct (is b c_minus || is_digit b).
  { destruct (parse_number (b :: r)) as [n|] eqn:E; [|discriminate].
    apply parse_number_sound in E as (E1 & _ & E2).
    apply Hgen; auto; try lia; discriminate. }
  destruct (is b c_quote).
  { destruct (parse_string_at (d_pos st1) (b :: r)) as [[s n]|] eqn:E; [|discriminate].
    apply parse_string_at_strict in E as (E1 & E2 & _).
    apply Hgen; auto; try lia; discriminate. }
  destruct (is b c_lbrace) eqn:E1. { apply is_true in E1. eapply Hone; eauto. reflexivity. discriminate. }
  destruct (is b c_rbrace) eqn:E2. { apply is_true in E2. eapply Hone; eauto. reflexivity. discriminate. }
  destruct (is b c_lbrack) eqn:E3. { apply is_true in E3. eapply Hone; eauto. reflexivity. discriminate. }
  destruct (is b c_rbrack) eqn:E4. { apply is_true in E4. eapply Hone; eauto. reflexivity. discriminate. }
  destruct (is b c_comma) eqn:E5. { apply is_true in E5. eapply Hone; eauto. reflexivity. discriminate. }
  discriminate.
Qed.

(* ---------- the invariant ---------- *)
Definition awaiting (k : kind) (f : list byte) : Prop :=
  match k with KArrOpen => arr_open f \/ arr_comma f | KObjOpen => obj_name f | _ => False end.
Definition top_ok (k last : kind) (f : list byte) : Prop :=
  match k with
  | KArrOpen => match last with
                | KArrOpen => arr_open f | KComma => arr_comma f
                | _ => is_value_end last = true /\ arr_val f end
  | KObjOpen => match last with
                | KObjOpen => obj_open f | KComma => obj_comma f | KName => obj_name f
                | _ => is_value_end last = true /\ obj_val f end
  | _ => False
  end.
Fixpoint lower_ok (ks : list kind) (fs : list (list byte)) : Prop :=
  match ks, fs with
  | [], [] => True
  | k :: ks', f :: fs' => awaiting k f /\ lower_ok ks' fs'
  | _, _ => False
  end.
Definition inv (P : list byte) (last : kind) (stack : list kind) : Prop :=
  match stack with
  | [] => (last = KInvalid /\ ws P) \/ (is_value_end last = true /\ xtext P)
  | k :: ks => exists w0 f fs, ws w0 /\ top_ok k last f /\ lower_ok ks fs /\ P = w0 ++ concat (rev fs) ++ f
  end.

Lemma top_ok_ws k last f w : top_ok k last f -> ws w -> top_ok k last (f ++ w).
Proof.
  intros H Hw. destruct k; try contradiction; destruct last; cbn [top_ok] in *;
    try (destruct H as [Hv H]; split; [exact Hv|]);
    auto using arr_open_ws, arr_comma_ws, arr_val_ws, obj_open_ws, obj_comma_ws, obj_name_ws, obj_val_ws.
Qed.

Lemma inv_ws P last stack w : inv P last stack -> ws w -> inv (P ++ w) last stack.
Proof.
  intros H Hw. destruct stack as [|k ks]; cbn [inv] in *.
  - destruct H as [[H1 H2] | [H1 H2]]; [left | right]; auto using json_text_ws.
  - destruct H as (w0 & f & fs & H0 & Ht & Hl & ->). exists w0, (f ++ w), fs.
    repeat split; auto using top_ok_ws. app_eq.
Qed.

Lemma top_ok_value_end_arr l f : is_value_end l = true -> arr_val f -> top_ok KArrOpen l f.
Proof. intros Hl Hf. destruct l; try discriminate; cbn [top_ok]; auto. Qed.
Lemma top_ok_value_end_obj l f : is_value_end l = true -> obj_val f -> top_ok KObjOpen l f.
Proof. intros Hl Hf. destruct l; try discriminate; cbn [top_ok]; auto. Qed.

Lemma kind_eqb_eq a b : kind_eqb a b = true -> a = b.
Proof. destruct a, b; cbn; congruence. Qed.

(* the frame on top takes a value when isValueNext holds *)
Lemma top_awaiting st k ks f : d_stack st = k :: ks -> is_value_next st = true ->
  top_ok k (d_last st) f -> awaiting k f.
Proof.
  unfold is_value_next. intros -> Hv Ht. destruct k; try contradiction; cbn [awaiting].
  - apply kind_eqb_eq in Hv. rewrite Hv in Ht. exact Ht.
  - apply orb_true_iff in Hv as [Hv | Hv]; apply kind_eqb_eq in Hv; rewrite Hv in Ht; cbn [top_ok] in Ht; auto.
Qed.

Lemma awaiting_value k f v w l : awaiting k f -> xvalue v -> ws w -> is_value_end l = true ->
  top_ok k l (f ++ v ++ w).
Proof.
  intros Ha Hv Hw Hl. destruct k; try contradiction; cbn [awaiting] in Ha.
  - apply top_ok_value_end_obj; auto using obj_name_value.
  - apply top_ok_value_end_arr; auto. destruct Ha; auto using arr_open_value, arr_comma_value.
Qed.

(* a complete value (scalar, or a container just closed) arrives in context (ks, fs) *)
Lemma inv_value_in w0 ks fs v w l : ws w0 -> lower_ok ks fs -> xvalue v -> ws w -> is_value_end l = true ->
  inv (w0 ++ concat (rev fs) ++ v ++ w) l ks.
Proof.
  intros H0 Hl Hv Hw Hle. destruct ks as [|k ks]; destruct fs as [|f fs]; cbn [lower_ok] in Hl; try contradiction.
  - cbn [inv rev concat app]. right. split; auto. exists w0, v, w. auto.
  - destruct Hl as [Ha Hl]. cbn [inv]. exists w0, (f ++ v ++ w), fs. repeat split; auto using awaiting_value.
    cbn [rev]. rewrite concat_app. cbn [concat]. app_eq.
Qed.

Lemma inv_scalar P st v w l : inv P (d_last st) (d_stack st) -> is_value_next st = true ->
  xvalue v -> ws w -> is_value_end l = true -> inv (P ++ v ++ w) l (d_stack st).
Proof.
  intros Hi Hn Hv Hw Hl. destruct (d_stack st) as [|k ks] eqn:Es; cbn [inv] in Hi.
  - unfold is_value_next in Hn. rewrite Es in Hn. apply kind_eqb_eq in Hn.
    destruct Hi as [[_ HP] | [Hc _]]; [|rewrite Hn in Hc; discriminate].
    pose proof (inv_value_in P [] [] v w l HP I Hv Hw Hl) as H. cbn [rev concat app] in H. exact H.
  - destruct Hi as (w0 & f & fs & H0 & Ht & Hlo & ->).
    pose proof (top_awaiting st k ks f Es Hn Ht) as Ha.
    pose proof (inv_value_in w0 (k :: ks) (f :: fs) v w l H0 (conj Ha Hlo) Hv Hw Hl) as H.
    cbn [rev] in H. rewrite concat_app in H. cbn [concat] in H.
    replace ((w0 ++ concat (rev fs) ++ f) ++ v ++ w) with (w0 ++ (concat (rev fs) ++ f ++ []) ++ v ++ w) by app_eq.
    exact H.
Qed.

Lemma inv_open P st k c w : inv P (d_last st) (d_stack st) -> is_value_next st = true ->
  (k = KArrOpen /\ c = c_lbrack \/ k = KObjOpen /\ c = c_lbrace) -> ws w ->
  inv (P ++ [c] ++ w) k (k :: d_stack st).
Proof.
  intros Hi Hn Hk Hw.
  assert (Htop : top_ok k k (c :: w)).
  { destruct Hk as [[-> ->] | [-> ->]]; cbn [top_ok]; exists w; auto. }
  destruct (d_stack st) as [|k0 ks] eqn:Es; cbn [inv] in Hi.
  - unfold is_value_next in Hn. rewrite Es in Hn. apply kind_eqb_eq in Hn.
    destruct Hi as [[_ HP] | [Hc _]]; [|rewrite Hn in Hc; discriminate].
    cbn [inv]. exists P, (c :: w), []. repeat split; auto.
  - destruct Hi as (w0 & f & fs & H0 & Ht & Hlo & ->).
    pose proof (top_awaiting st k0 ks f Es Hn Ht) as Ha.
    cbn [inv]. exists w0, (c :: w), (f :: fs). repeat split; auto.
    cbn [rev]. rewrite concat_app. cbn [concat]. app_eq.
Qed.

Lemma inv_close P k last ks closer w l :
  inv P last (k :: ks) ->
  (k = KArrOpen /\ closer = c_rbrack /\ last <> KComma \/
   k = KObjOpen /\ closer = c_rbrace /\ last <> KComma /\ last <> KName) ->
  ws w -> is_value_end l = true -> inv (P ++ [closer] ++ w) l ks.
Proof.
  intros Hi Hk Hw Hl. cbn [inv] in Hi. destruct Hi as (w0 & f & fs & H0 & Ht & Hlo & ->).
  assert (Hv : xvalue (f ++ [closer])).
  { destruct Hk as [(-> & -> & Hn) | (-> & -> & Hn1 & Hn2)]; cbn [top_ok] in Ht.
    - destruct last; try contradiction; try (destruct Ht as [_ Ht]); auto using arr_open_close, arr_val_close.
    - destruct last; try contradiction; try (destruct Ht as [_ Ht]); auto using obj_open_close, obj_val_close. }
  pose proof (inv_value_in w0 ks fs (f ++ [closer]) w l H0 Hlo Hv Hw Hl) as H.
  replace ((w0 ++ concat (rev fs) ++ f) ++ [closer] ++ w) with (w0 ++ concat (rev fs) ++ (f ++ [closer]) ++ w) by app_eq.
  exact H.
Qed.

Lemma inv_comma P k last ks w : inv P last (k :: ks) -> is_value_end last = true -> ws w ->
  inv (P ++ [c_comma] ++ w) KComma (k :: ks).
Proof.
  intros Hi Hl Hw. cbn [inv] in *. destruct Hi as (w0 & f & fs & H0 & Ht & Hlo & ->).
  exists w0, (f ++ c_comma :: w), fs. repeat split; auto; [|app_eq].
  destruct k; try contradiction; cbn [top_ok] in *; destruct last; try discriminate;
    destruct Ht as [_ Ht]; auto using arr_val_comma, obj_val_comma.
Qed.

Lemma inv_name P st key w2 w3 : inv P (d_last st) (d_stack st) -> is_value_next st = false ->
  (d_last st = KObjOpen \/ d_last st = KComma) -> tstring key -> ws w2 -> ws w3 ->
  inv (P ++ key ++ w2 ++ [c_colon] ++ w3) KName (d_stack st).
Proof.
  intros Hi Hn Hlast Hk H2 H3. unfold is_value_next in Hn.
  destruct (d_stack st) as [|k ks] eqn:Es; cbn [inv] in Hi.
  - destruct Hi as [[Hc _] | [Hc _]]; destruct Hlast as [E|E]; rewrite E in Hc; discriminate.
  - destruct Hi as (w0 & f & fs & H0 & Ht & Hlo & ->). cbn [inv].
    exists w0, (f ++ key ++ w2 ++ c_colon :: w3), fs. repeat split; auto; [|app_eq].
    destruct k; try contradiction; cbn [top_ok] in *.
    + apply obj_key; auto. destruct Hlast as [E|E]; rewrite E in Ht; auto.
    + exfalso. destruct Hlast as [E|E]; rewrite E in Ht, Hn; [destruct Ht; discriminate|discriminate].
Qed.

(* ---------- one pass through Read's switch preserves the invariant ---------- *)
Lemma lexeme_scalar_value k raw : is_scalar k = true -> lexeme k raw -> xvalue raw.
Proof.
  destruct k; try discriminate; cbn [lexeme]; intros _ H.
  - subst. constructor.
  - destruct H; subst; constructor.
  - now apply XNum.
  - now apply XStr.
Qed.

Theorem read_step_inv P st tok st' :
  inv P (d_last st) (d_stack st) -> read_step st = Ok (tok, st') ->
  exists c, d_in st = c ++ d_in st' /\
    (t_kind tok = KEOF -> d_in st' = [] /\ ws c /\ d_stack st = []) /\
    (t_kind tok <> KEOF -> inv (P ++ c) (d_last st') (d_stack st') /\ d_last st' <> KInvalid).
Proof.
  intros Hinv. unfold read_step.
  destruct (parse_next st) as [[tk st1]|e] eqn:Epn; [|discriminate].
  destruct (parse_next_spec _ _ _ Epn) as (w1 & w2 & Hw1 & Hw2 & Hin & Hlex & Hl1 & Hk1 & Heof).
  pose proof (inv_ws _ _ _ w1 Hinv Hw1) as Hinv1. rewrite <- Hl1, <- Hk1 in Hinv1.
  (* the generic conclusion for a token that consumed raw ++ w2 *)
  assert (Hfin : forall last' stack',
            t_kind tk <> KEOF -> inv ((P ++ w1) ++ t_raw tk ++ w2) last' stack' -> last' <> KInvalid ->
            exists c, d_in st = c ++ d_in st1 /\
              (t_kind tk = KEOF -> d_in st1 = [] /\ ws c /\ d_stack st = []) /\
              (t_kind tk <> KEOF -> inv (P ++ c) last' stack' /\ last' <> KInvalid)).
  { intros last' stack' Hne Hi Hl. exists (w1 ++ t_raw tk ++ w2). split; [rewrite Hin; app_eq|].
    split; [contradiction|]. intros _. split; auto. now rewrite <- app_assoc in Hi. }
  assert (Hscalar : forall k, t_kind tk = k -> is_scalar k = true -> is_value_next st1 = true ->
            exists c, d_in st = c ++ d_in st1 /\
              (t_kind tk = KEOF -> d_in st1 = [] /\ ws c /\ d_stack st = []) /\
              (t_kind tk <> KEOF -> inv (P ++ c) k (d_stack st1) /\ k <> KInvalid)).
  { intros k Ek Hs Ev. apply Hfin.
    - rewrite Ek. destruct k; discriminate.
    - apply inv_scalar; auto. { apply (lexeme_scalar_value k); auto. now rewrite <- Ek. } destruct k; auto; discriminate.
    - destruct k; discriminate. }
  cbv zeta. destruct (t_kind tk) eqn:Ek; try discriminate.
  - (* EOF *)
    destruct (d_stack st1) eqn:Es; [|discriminate]. intros [= <- <-]. cbn [t_kind d_in set_last].
    cbn [lexeme] in Hlex. rewrite Hlex, (Heof eq_refl) in Hin. cbn [app] in Hin.
    exists (w1 ++ w2). split; [rewrite Hin, (Heof eq_refl); app_eq|]. split; [|intros Hc; congruence].
    intros _. split; [auto|]. split; [auto|congruence].
  - (* Null *)
    destruct (is_value_next st1) eqn:Ev; [|discriminate]. intros [= <- <-].
    cbn [set_last d_in d_last d_stack]. rewrite ?Ek. try rewrite Ek in Hscalar. apply Hscalar; auto.
  - (* Bool *)
    destruct (is_value_next st1) eqn:Ev; [|discriminate]. intros [= <- <-].
    cbn [set_last d_in d_last d_stack]. rewrite ?Ek. try rewrite Ek in Hscalar. apply Hscalar; auto.
  - (* Number *)
    destruct (is_value_next st1) eqn:Ev; [|discriminate]. intros [= <- <-].
    cbn [set_last d_in d_last d_stack]. rewrite ?Ek. try rewrite Ek in Hscalar. apply Hscalar; auto.
  - (* String: value or name *)
    destruct (is_value_next st1) eqn:Ev.
    { intros [= <- <-]. cbn [set_last d_in d_last d_stack]. rewrite ?Ek. try rewrite Ek in Hscalar. apply Hscalar; auto. }
    destruct (kind_eqb (d_last st1) KObjOpen || kind_eqb (d_last st1) KComma) eqn:Elast; [|discriminate].
    cbn [negb]. destruct (d_in st1) as [|c r] eqn:Ein1; [discriminate|].
    destruct (is c c_colon) eqn:Ec; [|discriminate]. apply is_true in Ec. subst c.
    intros [= <- <-]. cbn [set_last set_kind t_kind d_in d_last d_stack].
    destruct (consume_spec 1 st1 ltac:(rewrite Ein1; cbn [length]; lia)) as (w3 & Hw3 & Hs3 & Hl3 & Hk3).
    rewrite Ein1 in Hs3. cbn [firstn] in Hs3.
    exists (w1 ++ t_raw tk ++ w2 ++ [c_colon] ++ w3). split.
    { rewrite Hin, Hs3. app_eq. }
    split; [discriminate|]. intros _. split; [|discriminate].
    rewrite Hk3. try rewrite Ek in Hlex. cbn [lexeme] in Hlex.
    assert (Hlast : d_last st1 = KObjOpen \/ d_last st1 = KComma).
    { apply orb_true_iff in Elast as [E|E]; apply kind_eqb_eq in E; auto. }
    pose proof (inv_name (P ++ w1) st1 (t_raw tk) w2 w3 Hinv1 Ev Hlast Hlex Hw2 Hw3) as H.
    now rewrite <- app_assoc in H.
  - (* ObjectOpen *)
    destruct (is_value_next st1) eqn:Ev; [|discriminate]. intros [= <- <-].
    cbn [set_last set_stack d_in d_last d_stack]. rewrite ?Ek.
    try rewrite Ek in Hlex; try rewrite Ek in Hfin. cbn [lexeme] in Hlex. apply Hfin; try discriminate.
    rewrite Hlex. apply inv_open; auto.
  - (* ObjectClose *)
    destruct (d_stack st1) as [|[] rest] eqn:Es; try discriminate.
    destruct (kind_eqb (d_last st1) KName || kind_eqb (d_last st1) KComma) eqn:Elast; [discriminate|].
    intros [= <- <-]. cbn [set_last set_stack d_in d_last d_stack]. rewrite ?Ek.
    try rewrite Ek in Hlex; try rewrite Ek in Hfin. cbn [lexeme] in Hlex. apply Hfin; try discriminate.
    rewrite Hlex. try rewrite Es in Hinv1. apply (inv_close _ KObjOpen (d_last st1)); auto.
    right. apply orb_false_iff in Elast as [E1 E2]. repeat split; auto; intros E; rewrite E in *; discriminate.
  - (* ArrayOpen *)
    destruct (is_value_next st1) eqn:Ev; [|discriminate]. intros [= <- <-].
    cbn [set_last set_stack d_in d_last d_stack]. rewrite ?Ek.
    try rewrite Ek in Hlex; try rewrite Ek in Hfin. cbn [lexeme] in Hlex. apply Hfin; try discriminate.
    rewrite Hlex. apply inv_open; auto.
  - (* ArrayClose *)
    destruct (d_stack st1) as [|[] rest] eqn:Es; try discriminate.
    destruct (kind_eqb (d_last st1) KComma) eqn:Elast; [discriminate|].
    intros [= <- <-]. cbn [set_last set_stack d_in d_last d_stack]. rewrite ?Ek.
    try rewrite Ek in Hlex; try rewrite Ek in Hfin. cbn [lexeme] in Hlex. apply Hfin; try discriminate.
    rewrite Hlex. try rewrite Es in Hinv1. apply (inv_close _ KArrOpen (d_last st1)); auto.
    left. repeat split; auto; intros E; rewrite E in *; discriminate.
  - (* comma *)
    destruct (d_stack st1) as [|k0 rest] eqn:Es; [discriminate|].
    destruct (is_value_end (d_last st1)) eqn:Elast; [|discriminate].
    intros [= <- <-]. cbn [set_last set_stack d_in d_last d_stack]. rewrite ?Ek, ?Es.
    try rewrite Ek in Hlex; try rewrite Ek in Hfin. cbn [lexeme] in Hlex. apply Hfin; try discriminate.
    rewrite Hlex. try rewrite Es in Hinv1. apply (inv_comma _ k0 (d_last st1)); auto.
Qed.

Lemma read_step_comma_stack st tok st' :
  read_step st = Ok (tok, st') -> t_kind tok = KComma -> d_stack st' <> [].
Proof.
  unfold read_step. destruct (parse_next st) as [[tk st1]|]; [|discriminate]. cbv zeta.
  destruct (t_kind tk) eqn:Ek; try discriminate.
  all: repeat match goal with
       | |- match ?x with _ => _ end = _ -> _ => destruct x eqn:?
       end; try discriminate; intros [= <- <-]; cbn [t_kind set_kind d_stack set_last set_stack]; intros;
       try congruence.
Qed.

(* Read = one pass, or a comma pass followed by one more pass *)
Theorem read_inv P st tok st' :
  inv P (d_last st) (d_stack st) -> read st = Ok (tok, st') ->
  exists c, d_in st = c ++ d_in st' /\
    (t_kind tok = KEOF -> d_in st' = [] /\ ((d_last st = KInvalid /\ ws (P ++ c)) \/ xtext (P ++ c))) /\
    (t_kind tok <> KEOF -> inv (P ++ c) (d_last st') (d_stack st') /\ d_last st' <> KInvalid).
Proof.
  intros Hinv. unfold read. destruct (read_step st) as [[tok1 st1]|e] eqn:E1; [|discriminate].
  destruct (read_step_inv P st tok1 st1 Hinv E1) as (c1 & Hc1 & Heof1 & Hne1).
  assert (Hdirect : Ok (tok1, st1) = Ok (tok, st') -> t_kind tok1 <> KComma ->
            exists c, d_in st = c ++ d_in st' /\
              (t_kind tok = KEOF -> d_in st' = [] /\ ((d_last st = KInvalid /\ ws (P ++ c)) \/ xtext (P ++ c))) /\
              (t_kind tok <> KEOF -> inv (P ++ c) (d_last st') (d_stack st') /\ d_last st' <> KInvalid)).
  { intros [= <- <-] _. exists c1. split; auto. split; auto.
    intros HE. destruct (Heof1 HE) as (H1 & H2 & H3). split; auto.
    rewrite H3 in Hinv. cbn [inv] in Hinv. destruct Hinv as [[Ha Hb] | [Ha Hb]]; [left | right]; auto using json_text_ws. }
  destruct (t_kind tok1) eqn:Ek; try (intros H; apply Hdirect; [exact H|discriminate]).
  (* comma: a second pass *)
  intros E2. destruct (Hne1 ltac:(discriminate)) as [Hinv1 Hl1].
  destruct (read_step_inv (P ++ c1) st1 tok st' Hinv1 E2) as (c2 & Hc2 & Heof2 & Hne2).
  exists (c1 ++ c2). split; [rewrite Hc1, Hc2; app_eq|]. split.
  - intros HE. destruct (Heof2 HE) as (H1 & H2 & H3). exfalso.
    exact (read_step_comma_stack _ _ _ E1 Ek H3).
  - intros HE. rewrite app_assoc. apply Hne2; auto.
Qed.

Theorem read_all_from_json fuel : forall st P orig toks,
  orig = P ++ d_in st -> inv P (d_last st) (d_stack st) ->
  read_all_from fuel st = (toks, None) -> (toks <> [] \/ d_last st <> KInvalid) -> xtext orig.
Proof.
  induction fuel as [|f IH]; intros st P orig toks Ho Hinv; cbn [read_all_from]; [discriminate|].
  destruct (read st) as [[tok st']|e] eqn:Er; [|discriminate].
  destruct (read_inv P st tok st' Hinv Er) as (c & Hc & Heof & Hne).
  destruct (kind_eqb (t_kind tok) KEOF) eqn:Ek.
  - apply kind_eqb_eq in Ek. rewrite Ek. intros [= <-] Hlast.
    destruct (Heof Ek) as (H1 & H2). rewrite Ho, Hc, H1, app_nil_r.
    destruct H2 as [[Ha _] | H2]; auto. destruct Hlast; congruence.
  - assert (Hk : t_kind tok <> KEOF) by (intros E; rewrite E in Ek; discriminate).
    destruct (Hne Hk) as [Hinv' Hl'].
    destruct (read_all_from f st') as [l e] eqn:Erec.
    intros H _. assert (He : e = None) by (destruct (t_kind tok); congruence). subst e.
    apply (IH st' (P ++ c) orig l); auto. rewrite Ho, Hc. app_eq.
Qed.

Theorem lexer_accepts_only_json input toks :
  read_all input = (toks, None) -> toks <> [] -> xtext input.
Proof.
  unfold read_all. intros H Hne.
  apply (read_all_from_json (S (length input)) (d_init input) [] input toks); auto.
  cbn. left. auto.
Qed.

