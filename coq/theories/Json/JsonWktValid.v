(* JsonWktValid — side conditions of the C20 theorem extended to the structural well-known types:
   the wrappers, Struct, ListValue, Value and Empty.  Definitions only.

   json_core2 S nm     every message type of the table is ordinary (code 0) or one of
                         1 Any       : string type_url = 1, bytes value = 2, implicit presence
                         2 Timestamp, 3 Duration : int64 seconds = 1, int32 nanos = 2, implicit presence
                         4 wrapper   : exactly one field, number 1, implicit presence, scalar (not enum)
                         5 Struct    : exactly one field, number 1, map<string, Value>
                         6 ListValue : exactly one field, number 1, repeated Value
                         7 Value     : fields 1..6 = NullValue enum, double, string, bool, Struct, ListValue,
                                       all members of oneof 0
                         8 FieldMask : exactly one field, number 1, repeated string
                         9 Empty     : no field
                       and a group-typed field never refers to a special type.
   json_valid2         json_valid (Json/JsonMsgValid.v) plus, for a Value: exactly one member is set and
                       a number_value is finite; for a Timestamp / Duration: the range conditions of
                       marshalTimestamp / marshalDuration; for a FieldMask: every path is a valid full name
                       whose lower-camel form converts back to it; for an Any: empty, or a type URL that
                       resolves in the table and value bytes that are the deterministic encoding of
                       representable content of that type without unknown fields.
   codec_ok cd         round-trip hypotheses on the string forms that C22 / C23 own (base64, Timestamp,
                       Duration). *)
From Coq Require Import List NArith ZArith Bool.
From PB Require Import Base.PBytes Wire.WireModel Msg.MsgSchema Msg.MsgValue Msg.MsgUtf8 Msg.MsgEnc Msg.MsgDec Msg.MsgValid.
From PB Require Import Json.RtSchema Json.JsonMsgModel Json.JsonMsgValid Text.TextMsgValid.
Import ListNotations.
Open Scope N_scope.

Definition wkt_of (nm : names) (tid : nat) : N := mn_wkt (nm_msg nm tid).

Definition plain_field (fd : fdesc) : bool :=
  negb (f_ext fd) && match f_oneof fd with None => true | Some _ => false end.

Definition wrapper_shape (fps : list fpair) : bool :=
  match fps with
  | [(fd, fn)] =>
    (f_num fd =? 1) && plain_field fd && negb (fn_inoneof fn)
    && match f_card fd, f_kind fd with
       | CImp, KS SkEnum => false
       | CImp, KS _ => true
       | _, _ => false
       end
  | _ => false
  end.

Definition struct_shape (nm : names) (fps : list fpair) : bool :=
  match fps with
  | [(fd, fn)] =>
    (f_num fd =? 1) && plain_field fd
    && match f_card fd, f_kind fd with
       | CMap SkString _ _, KMsg tv => wkt_of nm tv =? 7
       | _, _ => false
       end
  | _ => false
  end.

Definition listvalue_shape (nm : names) (fps : list fpair) : bool :=
  match fps with
  | [(fd, fn)] =>
    (f_num fd =? 1) && plain_field fd
    && match f_card fd, f_kind fd with
       | CRep, KMsg tv => wkt_of nm tv =? 7
       | _, _ => false
       end
  | _ => false
  end.

Definition value_member (fd : fdesc) (num : N) : bool :=
  (f_num fd =? num) && negb (f_ext fd)
  && match f_card fd with COpt => true | _ => false end
  && match f_oneof fd with Some 0 => true | _ => false end.

Definition value_shape (nm : names) (fps : list fpair) : bool :=
  match fps with
  | [(f1, n1); (f2, n2); (f3, n3); (f4, n4); (f5, n5); (f6, n6)] =>
    value_member f1 1 && value_member f2 2 && value_member f3 3 && value_member f4 4
    && value_member f5 5 && value_member f6 6
    && match f_kind f1 with KS SkEnum => e_null (nm_enum nm n1) | _ => false end
    && match f_kind f2 with KS SkDouble => true | _ => false end
    && match f_kind f3 with KS SkString => true | _ => false end
    && match f_kind f4 with KS SkBool => true | _ => false end
    && match f_kind f5 with KMsg ts => wkt_of nm ts =? 5 | _ => false end
    && match f_kind f6 with KMsg tl => wkt_of nm tl =? 6 | _ => false end
  | _ => false
  end.

(* Timestamp / Duration: int64 seconds = 1; int32 nanos = 2; (implicit presence) *)
Definition secs_nanos_shape (fps : list fpair) : bool :=
  match fps with
  | [(f1, n1); (f2, n2)] =>
    (f_num f1 =? 1) && (f_num f2 =? 2) && plain_field f1 && plain_field f2
    && match f_card f1, f_kind f1, f_card f2, f_kind f2 with
       | CImp, KS SkInt64, CImp, KS SkInt32 => true
       | _, _, _, _ => false
       end
  | _ => false
  end.

(* Any: string type_url = 1; bytes value = 2; (implicit presence) *)
Definition jany_shape (fps : list fpair) : bool :=
  match fps with
  | [(f1, n1); (f2, n2)] =>
    (f_num f1 =? 1) && (f_num f2 =? 2) && plain_field f1 && plain_field f2
    && match f_card f1, f_kind f1, f_card f2, f_kind f2 with
       | CImp, KS SkString, CImp, KS SkBytes => true
       | _, _, _, _ => false
       end
  | _ => false
  end.

(* FieldMask: repeated string paths = 1 *)
Definition fieldmask_shape (fps : list fpair) : bool :=
  match fps with
  | [(fd, fn)] =>
    (f_num fd =? 1) && plain_field fd
    && match f_card fd, f_kind fd with
       | CRep, KS SkString => true
       | _, _ => false
       end
  | _ => false
  end.

Definition no_special_groups (nm : names) (fps : list fpair) : bool :=
  forallb (fun p => match f_kind (fst p) with KGrp t => wkt_of nm t =? 0 | _ => true end) fps.

Definition json_core2 (S : schema) (nm : names) : bool :=
  forallb (fun tid =>
    let fps := rt_fields S nm tid in
    no_special_groups nm fps &&
    match wkt_of nm tid with
    | 0 => true
    | 1 => jany_shape fps
    | 2 | 3 => secs_nanos_shape fps
    | 4 => wrapper_shape fps
    | 5 => struct_shape nm fps
    | 6 => listvalue_shape nm fps
    | 7 => value_shape nm fps
    | 8 => fieldmask_shape fps
    | 9 => match fps with [] => true | _ => false end
    | _ => false
    end) (seq 0 (length S)).

(* a Value: exactly one member, finite number *)
Definition value_extra (v : value) : bool :=
  match v with
  | VMsg [(num, [x])] _ =>
    match num, x with
    | 2, VS (SN b) => negb (f64_is_nan b || f64_is_pinf b || f64_is_ninf b)
    | _, _ => true
    end
  | _ => false
  end.

(* an Any: empty, or a resolvable type URL with value bytes that are the deterministic encoding of
   representable content without unknown fields ([recv]: one level down; an embedded ordinary
   message is written at the level of the Any itself) *)
Section AnyValid.
  Variable strict : bool.
  Variable eu : bool.
  Variable S : schema.
  Variable nm : names.
  Variable lim : nat.
  Variable recv : nat -> value -> bool.

  Definition jvalid_any (fs : fields) : bool :=
    if negb (has_field fs 1) then negb (has_field fs 2)
    else
      match resolve_url nm (get_bytes fs 1) with
      | None => false
      | Some t =>
        match msg_decode false S lim t (get_bytes fs 2) with
        | MsgDec.DErr _ => false
        | MsgDec.DOk em =>
          Nat.ltb t (length S)
          && (if is_special_wkt (wkt_of nm t) then recv t em else jvalid_body strict eu S nm recv t em)
          && bs_eqb (msg_encode S t (strip_unknown em)) (get_bytes fs 2)
        end
      end.
End AnyValid.

Fixpoint json_valid2 (strict : bool) (eu : bool) (S : schema) (nm : names) (lim : nat) (fuel : nat) (tid : nat) (v : value) : bool :=
  match fuel with
  | O => false
  | Datatypes.S f =>
    Nat.ltb tid (length S)
    && jvalid_body strict eu S nm (json_valid2 strict eu S nm lim f) tid v
    && (if wkt_of nm tid =? 7 then value_extra v else true)
    && match wkt_of nm tid, v with
       | 1, VMsg fs _ => jvalid_any strict eu S nm lim (json_valid2 strict eu S nm lim f) fs
       | 2, VMsg fs _ => ts_in_range (get_z fs 1) (get_z fs 2)
       | 3, VMsg fs _ => dur_in_range (get_z fs 1) (get_z fs 2)
       | 8, VMsg fs _ => forallb (fun x => match x with VS (SBy p) => fm_path_ok p | _ => false end) (msg_fget fs 1)
       | _, _ => true
       end
  end.

(* the string forms owned by C22 / C23, as hypotheses on the codec parameter *)
Definition codec_ok (cd : jcodec) : Prop :=
  (forall bs, b64_dec cd (b64_enc cd bs) = Some bs) /\
  (forall s n, ts_in_range s n = true -> ts_parse cd (ts_fmt cd s n) = Some (s, n)) /\
  (forall s n, dur_in_range s n = true -> dur_parse cd (dur_fmt cd s n) = Some (s, n)).
