(* RFC 8259 (JSON) over bytes: the specification side of C21/C22.
   - an inductive grammar ([json_text]) written after the ABNF of RFC 8259
     (strings are UTF-8 per RFC 3629, section 8.1 of RFC 8259);
   - an executable recogniser ([is_json]) written independently of the decoder
     model; the harness compares it with encoding/json.Valid && utf8.Valid.
   Definitions only; proofs are in JsonGrammarP.v. *)
From Coq Require Import List NArith ZArith Bool.
From PB Require Import Base.PBytes Json.JsonUtf8.
Import ListNotations.
Open Scope N_scope.

(* ---------- characters ---------- *)
Definition is (b c : byte) : bool := Byte.eqb b c.
Definition c_minus : byte := "-"%byte.   Definition c_plus : byte := "+"%byte.
Definition c_dot : byte := "."%byte.     Definition c_us : byte := "_"%byte.
Definition c_e : byte := "e"%byte.       Definition c_E : byte := "E"%byte.
Definition c_0 : byte := "0"%byte.
Definition c_quote : byte := x22.        Definition c_bslash : byte := x5c.
Definition c_slash : byte := "/"%byte.   Definition c_u : byte := "u"%byte.
Definition c_lbrace : byte := "{"%byte.  Definition c_rbrace : byte := "}"%byte.
Definition c_lbrack : byte := "["%byte.  Definition c_rbrack : byte := "]"%byte.
Definition c_comma : byte := ","%byte.   Definition c_colon : byte := ":"%byte.
Definition c_sp : byte := " "%byte.      Definition c_lf : byte := x0a.
Definition c_cr : byte := x0d.           Definition c_tab : byte := x09.

Definition is_digit (b : byte) : bool := in_range 48 57 b.
Definition is_digit19 (b : byte) : bool := in_range 49 57 b.
Definition is_hex (b : byte) : bool := is_digit b || in_range 97 102 b || in_range 65 70 b.

(* ws = *( %x20 / %x09 / %x0A / %x0D ) *)
Definition is_ws (b : byte) : bool := is b c_sp || is b c_lf || is b c_cr || is b c_tab.
Definition ws (w : list byte) : Prop := forallb is_ws w = true.

Fixpoint skip_ws (s : list byte) : list byte :=
  match s with
  | b :: r => if is_ws b then skip_ws r else s
  | [] => []
  end.

(* ---------- numbers:  number = [ minus ] int [ frac ] [ exp ] ---------- *)
Fixpoint span_digits (s : list byte) : list byte * list byte :=
  match s with
  | b :: r => if is_digit b then let '(d, t) := span_digits r in (b :: d, t) else ([], s)
  | [] => ([], [])
  end.

Definition digits1 (d : list byte) : Prop := d <> [] /\ forallb is_digit d = true.
Inductive rfc_int : list byte -> Prop :=
| int_zero : rfc_int [c_0]
| int_nz b d : is_digit19 b = true -> forallb is_digit d = true -> rfc_int (b :: d).
Inductive rfc_frac : list byte -> Prop :=
| frac_none : rfc_frac []
| frac_some d : digits1 d -> rfc_frac (c_dot :: d).
Inductive rfc_exp : list byte -> Prop :=
| exp_none : rfc_exp []
| exp_some e sg d : e = c_e \/ e = c_E -> sg = [] \/ sg = [c_plus] \/ sg = [c_minus] ->
    digits1 d -> rfc_exp (e :: sg ++ d).
Inductive rfc_number : list byte -> Prop :=
| num_intro m i f e : m = [] \/ m = [c_minus] ->
    rfc_int i -> rfc_frac f -> rfc_exp e -> rfc_number (m ++ i ++ f ++ e).

(* executable recogniser of the same grammar: strip sign; int; optional frac;
   optional exp; returns what remains *)
Definition strip_int (s : list byte) : option (list byte) :=
  match s with
  | b :: r => if is b c_0 then Some r
              else if is_digit19 b then Some (snd (span_digits r)) else None
  | [] => None
  end.
Definition strip_digits1 (s : list byte) : option (list byte) :=
  let '(d, t) := span_digits s in match d with [] => None | _ => Some t end.
Definition strip_frac (s : list byte) : option (list byte) :=
  match s with
  | b :: r => if is b c_dot then strip_digits1 r else Some s
  | [] => Some s
  end.
Definition strip_exp (s : list byte) : option (list byte) :=
  match s with
  | b :: r => if is b c_e || is b c_E then
                match r with
                | sg :: r2 => if is sg c_plus || is sg c_minus then strip_digits1 r2 else strip_digits1 r
                | [] => None
                end
              else Some s
  | [] => Some s
  end.
Definition strip_number (s : list byte) : option (list byte) :=
  let s := match s with b :: r => if is b c_minus then r else s | [] => s end in
  match strip_int s with
  | Some s => match strip_frac s with
              | Some s => strip_exp s
              | None => None end
  | None => None
  end.
Definition is_rfc_number (s : list byte) : bool :=
  match strip_number s with Some [] => true | _ => false end.

(* ---------- strings:  string = quotation-mark *char quotation-mark ---------- *)
Definition is_simple_esc (b : byte) : bool :=
  is b c_quote || is b c_bslash || is b c_slash || is b "b"%byte || is b "f"%byte ||
  is b "n"%byte || is b "r"%byte || is b "t"%byte.

(* unescaped = %x20-21 / %x23-5B / %x5D-10FFFF (as one well-formed UTF-8 character) *)
Definition unescaped (c : list byte) : bool :=
  match c with
  | [a] => (32 <=? b2n a) && negb (is a c_quote) && negb (is a c_bslash)
  | _ => true
  end.

Inductive jchars : list byte -> Prop :=
| JCnil : jchars []
| JCplain c rest : rfc3629_char c = true -> unescaped c = true -> jchars rest -> jchars (c ++ rest)
| JCesc e rest : is_simple_esc e = true -> jchars rest -> jchars (c_bslash :: e :: rest)
| JCuni h1 h2 h3 h4 rest :
    is_hex h1 = true -> is_hex h2 = true -> is_hex h3 = true -> is_hex h4 = true ->
    jchars rest -> jchars (c_bslash :: c_u :: h1 :: h2 :: h3 :: h4 :: rest).
Definition rfc_string (s : list byte) : Prop :=
  exists body, s = c_quote :: body ++ [c_quote] /\ jchars body.

Definition utf8_len (lead : byte) : nat :=
  if b2n lead <? 128 then 1 else if b2n lead <? 224 then 2 else if b2n lead <? 240 then 3 else 4.

(* [strip_chars] is applied after the opening quote; returns what follows the closing quote *)
Fixpoint strip_chars (fuel : nat) (s : list byte) : option (list byte) :=
  match fuel with
  | O => None
  | S f =>
    match s with
    | [] => None
    | b :: r =>
      if is b c_quote then Some r
      else if is b c_bslash then
        match r with
        | e :: r1 =>
          if is_simple_esc e then strip_chars f r1
          else if is e c_u then
            match r1 with
            | h1 :: h2 :: h3 :: h4 :: r2 =>
              if is_hex h1 && is_hex h2 && is_hex h3 && is_hex h4 then strip_chars f r2 else None
            | _ => None
            end
          else None
        | [] => None
        end
      else
        match take (utf8_len b) s with
        | Some (c, r1) => if rfc3629_char c && unescaped c then strip_chars f r1 else None
        | None => None
        end
    end
  end.
Definition strip_string (s : list byte) : option (list byte) :=
  match s with
  | b :: r => if is b c_quote then strip_chars (length r) r else None
  | [] => None
  end.

(* ---------- values ----------
   value = false / null / true / object / array / number / string
   array = begin-array [ value *( value-separator value ) ] end-array
   object = begin-object [ member *( value-separator member ) ] end-object
   member = string name-separator value
   The structural characters are surrounded by optional whitespace; the repetitions
   are written left-recursively. *)
Definition lit_null : list byte := ["n"; "u"; "l"; "l"]%byte.
Definition lit_true : list byte := ["t"; "r"; "u"; "e"]%byte.
Definition lit_false : list byte := ["f"; "a"; "l"; "s"; "e"]%byte.

Inductive jvalue : list byte -> Prop :=
| JNull : jvalue lit_null
| JTrue : jvalue lit_true
| JFalse : jvalue lit_false
| JNum s : rfc_number s -> jvalue s
| JStr s : rfc_string s -> jvalue s
| JArrE w : ws w -> jvalue (c_lbrack :: w ++ [c_rbrack])
| JArr p : jelems p -> jvalue (c_lbrack :: p ++ [c_rbrack])
| JObjE w : ws w -> jvalue (c_lbrace :: w ++ [c_rbrace])
| JObj p : jmembers p -> jvalue (c_lbrace :: p ++ [c_rbrace])
with jelems : list byte -> Prop :=
| JE1 w1 v w2 : ws w1 -> jvalue v -> ws w2 -> jelems (w1 ++ v ++ w2)
| JEs p w1 v w2 : jelems p -> ws w1 -> jvalue v -> ws w2 -> jelems (p ++ c_comma :: w1 ++ v ++ w2)
with jmembers : list byte -> Prop :=
| JM1 w1 k w2 w3 v w4 : ws w1 -> rfc_string k -> ws w2 -> ws w3 -> jvalue v -> ws w4 ->
    jmembers (w1 ++ k ++ w2 ++ c_colon :: w3 ++ v ++ w4)
| JMs p w1 k w2 w3 v w4 : jmembers p -> ws w1 -> rfc_string k -> ws w2 -> ws w3 -> jvalue v -> ws w4 ->
    jmembers (p ++ c_comma :: w1 ++ k ++ w2 ++ c_colon :: w3 ++ v ++ w4).

(* JSON-text = ws value ws *)
Definition json_text (s : list byte) : Prop :=
  exists w1 v w2, s = w1 ++ v ++ w2 /\ ws w1 /\ jvalue v /\ ws w2.

(* ---------- executable recogniser (recursive descent, fuel = nesting + length) ---------- *)
Fixpoint strip_prefix (p s : list byte) : option (list byte) :=
  match p, s with
  | [], _ => Some s
  | a :: p', b :: s' => if is a b then strip_prefix p' s' else None
  | _ :: _, [] => None
  end.

Fixpoint strip_value (fuel : nat) (s : list byte) : option (list byte) :=
  match fuel with
  | O => None
  | S f =>
    match s with
    | [] => None
    | b :: r =>
      if is b c_lbrack then
        let r := skip_ws r in
        match r with
        | b1 :: r1 => if is b1 c_rbrack then Some r1 else strip_elems f r
        | [] => None
        end
      else if is b c_lbrace then
        let r := skip_ws r in
        match r with
        | b1 :: r1 => if is b1 c_rbrace then Some r1 else strip_members f r
        | [] => None
        end
      else if is b c_quote then strip_string s
      else if is b "n"%byte then strip_prefix lit_null s
      else if is b "t"%byte then strip_prefix lit_true s
      else if is b "f"%byte then strip_prefix lit_false s
      else strip_number s
    end
  end
(* at the first byte of an element; returns what follows the closing bracket *)
with strip_elems (fuel : nat) (s : list byte) : option (list byte) :=
  match fuel with
  | O => None
  | S f =>
    match strip_value f s with
    | Some r =>
      match skip_ws r with
      | b :: r1 => if is b c_comma then strip_elems f (skip_ws r1)
                   else if is b c_rbrack then Some r1 else None
      | [] => None
      end
    | None => None
    end
  end
(* at the first byte of a member name; returns what follows the closing brace *)
with strip_members (fuel : nat) (s : list byte) : option (list byte) :=
  match fuel with
  | O => None
  | S f =>
    match strip_string s with
    | Some r =>
      match skip_ws r with
      | b :: r1 =>
        if is b c_colon then
          match strip_value f (skip_ws r1) with
          | Some r2 =>
            match skip_ws r2 with
            | b2 :: r3 => if is b2 c_comma then strip_members f (skip_ws r3)
                          else if is b2 c_rbrace then Some r3 else None
            | [] => None
            end
          | None => None
          end
        else None
      | [] => None
      end
    | None => None
    end
  end.

Definition is_json (s : list byte) : bool :=
  match strip_value (2 * length s + 2) (skip_ws s) with
  | Some r => match skip_ws r with [] => true | _ => false end
  | None => false
  end.

(* ---------- the numeric value of a number literal (specification for C22) ----------
   A literal  [-] i [. f] [e [+-] x]  denotes  mant * 10^exp10  with
   mant = (+-) decimal(i f)  and  exp10 = (+-) decimal(x) - |f|.  *)
Definition dec_val (s : list byte) : N := fold_left (fun acc b => acc * 10 + (b2n b - 48)) s 0.

Record num_lit := { nl_neg : bool; nl_int : list byte; nl_frac : list byte; nl_eneg : bool; nl_exp : list byte }.

Definition nd_sign (s : list byte) : bool * list byte :=
  match s with b :: r => if is b c_minus then (true, r) else (false, s) | [] => (false, s) end.
Definition nd_frac (s : list byte) : list byte * list byte :=
  match s with b :: r => if is b c_dot then span_digits r else ([], s) | [] => ([], s) end.
Definition nd_exp (s : list byte) : bool * list byte :=
  match s with
  | b :: r => if is b c_e || is b c_E then
                match r with
                | sg :: r2 => if is sg c_minus then (true, fst (span_digits r2))
                              else if is sg c_plus then (false, fst (span_digits r2))
                              else (false, fst (span_digits r))
                | [] => (false, [])
                end
              else (false, [])
  | [] => (false, [])
  end.
Definition num_decompose (s : list byte) : num_lit :=
  let '(neg, s) := nd_sign s in
  let '(i, s) := span_digits s in
  let '(f, s) := nd_frac s in
  let '(eneg, x) := nd_exp s in
  {| nl_neg := neg; nl_int := i; nl_frac := f; nl_eneg := eneg; nl_exp := x |}.

Definition num_mant (s : list byte) : Z :=
  let l := num_decompose s in
  let m := Z.of_N (dec_val (nl_int l ++ nl_frac l)) in
  if nl_neg l then (- m)%Z else m.
Definition num_exp10 (s : list byte) : Z :=
  let l := num_decompose s in
  let x := Z.of_N (dec_val (nl_exp l)) in
  ((if nl_eneg l then - x else x) - Z.of_nat (length (nl_frac l)))%Z.

(* "the rational value of literal s is the integer v" *)
Definition lit_is_int (s : list byte) (v : Z) : Prop :=
  if (0 <=? num_exp10 s)%Z then v = (num_mant s * 10 ^ num_exp10 s)%Z
  else num_mant s = (v * 10 ^ (- num_exp10 s))%Z.

(* representable in an integer kind *)
Definition int_in_range (bits : N) (signed : bool) (v : Z) : Prop :=
  if signed then (- 2 ^ (Z.of_N bits - 1) <= v < 2 ^ (Z.of_N bits - 1))%Z
  else (0 <= v < 2 ^ Z.of_N bits)%Z.
